(** C03 - Upsert, insert and update are keyed deep merges with defined failure cases.
    Theorem-only file.  Model: Tree/Editor.v (node/edit.go + node/container_meta_list.go against
    reference stores); spec: Tree/Merge.v (positional keyed deep merge).  Domain: every choice-free,
    well-formed schema view and every source/target shaped like it - no bound on size or depth. *)
From Coq Require Import ZArith List Bool Strings.Byte.
From YV Require Import Val.Model Tree.Schema Tree.Editor Tree.Merge Tree.EditorProofs.
Import ListNotations.

(** Upsert leaves the target equal to the keyed deep merge of S over T (full statement). *)
Theorem C03_upsert_is_merge : forall s, wf_schema s = true -> choice_free s = true -> is_leaf s = false ->
  forall src tgt new, shaped s src = true -> shaped s tgt = true ->
  edit_one false s src tgt new Upsert = Ok (merge_one s src tgt new).
Proof. exact upsert_is_merge. Qed.
Print Assumptions C03_upsert_is_merge.

Theorem C03_upsert_content : forall kids src tgt,
  forallb wf_schema kids = true -> forallb choice_free kids = true ->
  shaped_kids shaped kids src = true -> shaped_kids shaped kids tgt = true ->
  edit_content false kids src tgt Upsert = Ok (merge_content kids src tgt).
Proof. exact upsert_content_is_merge. Qed.
Print Assumptions C03_upsert_content.

(** What "keyed deep merge" means, position by position: leaves in S overwrite, an unset leaf
    keeps T's value or takes the schema default when its parent had to be created ... *)
Theorem C03_leaf_law : forall mrec created ks sc tc i m ty il dflt,
  length sc = length ks -> length tc = length ks ->
  nth_error ks i = Some (SLeaf m ty il dflt) ->
  nth i (merge_kids mrec created ks sc tc) None =
    match nth i sc None with
    | Some d => Some d
    | None => if created then match dflt with Some v => Some (DLeaf v) | None => nth i tc None end
              else nth i tc None
    end.
Proof. exact merge_leaf_law. Qed.
(** ... containers merge (created empty when T had none) ... *)
Theorem C03_node_law : forall mrec created ks sc tc i k sdn,
  length sc = length ks -> length tc = length ks ->
  nth_error ks i = Some k -> is_leaf k = false -> nth i sc None = Some sdn ->
  nth i (merge_kids mrec created ks sc tc) None =
    Some (mrec k sdn (match nth i tc None with Some t => t | None => empty_node k end)
               (negb (present (nth i tc None)))).
Proof. exact merge_node_law. Qed.
(** ... and nothing at a position S does not mention changes. *)
Theorem C03_frame : forall mrec ks sc tc i,
  length sc = length ks -> length tc = length ks ->
  nth i sc None = None -> nth i (merge_kids mrec false ks sc tc) None = nth i tc None.
Proof. exact merge_frame. Qed.
Print Assumptions C03_frame.

(** Insert and Update: whenever they succeed the result is the same merge (Update never creates:
    new = false) *)
Theorem C03_ok_is_merge : forall s, wf_schema s = true -> choice_free s = true -> is_leaf s = false ->
  forall src tgt new st r, shaped s src = true -> shaped s tgt = true -> st_ok st new ->
  edit_one false s src tgt new st = Ok r -> r = merge_one s src tgt new.
Proof. exact edit_ok_is_merge. Qed.
Print Assumptions C03_ok_is_merge.

(** a container/list S mentions that T already has makes Insert fail; one T lacks makes Update fail *)
Theorem C03_insert_conflict_fails_partial : forall kids src tgt,
  forallb choice_free kids = true -> length src = length kids -> length tgt = length kids ->
  insert_conflicts kids src tgt = true ->
  exists e, edit_content false kids src tgt Insert = Err e.
Proof. exact insert_conflict_fails. Qed.
Theorem C03_update_missing_fails_partial : forall kids src tgt,
  forallb choice_free kids = true -> length src = length kids -> length tgt = length kids ->
  update_missing_top kids src tgt = true ->
  exists e, edit_content false kids src tgt Update = Err e.
Proof. exact update_missing_fails. Qed.
Print Assumptions C03_update_missing_fails_partial.

(** The full statements for Insert/Update (what the correspondence check's oracle
    [C03Check.spec_content] decides on every generated case): *)
Definition C03_insert_full_statement : Prop := forall kids src tgt,
  forallb wf_schema kids = true -> forallb choice_free kids = true ->
  shaped_kids shaped kids src = true -> shaped_kids shaped kids tgt = true ->
  edit_content false kids src tgt Insert =
    if insert_conflicts kids src tgt then Err EConflict else Ok (merge_content kids src tgt).
Definition C03_update_full_statement : Prop := forall kids src tgt,
  forallb wf_schema kids = true -> forallb choice_free kids = true ->
  shaped_kids shaped kids src = true -> shaped_kids shaped kids tgt = true ->
  edit_content false kids src tgt Update =
    if missing_kids update_missing kids src tgt then Err ENotFound else Ok (merge_content kids src tgt).
(** Proved of them: success => merge (C03_ok_is_merge), conflict/missing at the edited level =>
    failure (the two _partial theorems).  Not proved: the error class on every path, and "no
    conflict => success" (needs pairwise-distinct keys in S and key-equality being an equivalence). *)

(** non-vacuity: a schema with a list and a defaulted leaf, non-trivial source and target *)
Example C03_hyps_met :
  let leaf n d := SLeaf (mkMeta [n] [] true [] None) (TInt FInt32) false d in
  let row := SCont (mkMeta [] [] true [] None) [leaf x6b None; leaf x76 (Some (LV (VInt FInt32 7%Z)))] in
  let s := SCont (mkMeta [] [] true [] None) [SList (mkMeta [x71] [] true [] None) [0] row] in
  let src := DCont [Some (DList [DCont [Some (DLeaf (LV (VInt FInt32 1%Z))); None]])] in
  let tgt := DCont [Some (DList [DCont [Some (DLeaf (LV (VInt FInt32 2%Z))); Some (DLeaf (LV (VInt FInt32 9%Z)))]])] in
  wf_schema s = true /\ choice_free s = true /\ shaped s src = true /\ shaped s tgt = true /\
  edit_one false s src tgt false Upsert =
    Ok (DCont [Some (DList [DCont [Some (DLeaf (LV (VInt FInt32 2%Z))); Some (DLeaf (LV (VInt FInt32 9%Z)))];
                            DCont [Some (DLeaf (LV (VInt FInt32 1%Z))); Some (DLeaf (LV (VInt FInt32 7%Z)))]])]).
Proof. vm_compute. repeat split. Qed.

(** at the pinned commit editor.list always recursed with Upsert below a matched entry: Update
    then created what the target lacked instead of failing (fixed in /repo: "fix: update below a
    list entry ...").  With the repaired recursion the missing container is reported: *)
Example C03_update_below_entry_now_fails :
  let leaf n := SLeaf (mkMeta [n] [] true [] None) (TInt FInt32) false None in
  let inner := SCont (mkMeta [x69] [] true [] None) [leaf x76] in
  let row := SCont (mkMeta [] [] true [] None) [leaf x6b; inner] in
  let s := SList (mkMeta [x71] [] true [] None) [0] row in
  edit_one false s (DList [DCont [Some (DLeaf (LV (VInt FInt32 1%Z))); Some (DCont [Some (DLeaf (LV (VInt FInt32 5%Z)))])]])
                   (DList [DCont [Some (DLeaf (LV (VInt FInt32 1%Z))); None]]) false Update = Err ENotFound.
Proof. vm_compute. reflexivity. Qed.
