(** C20 - A compiled schema is immutable shared state: concurrent use is race-free.  (partial)
    Theorem-only file.  What is proved here is the generic interleaving theorem over the model of
    Conc/Interleave.v (heap of locations, operations = atomic steps with declared read/write sets,
    schedule = any interleaving); what ties it to the code is (a) the obligations of the file
    generated on every run by tools/footprint (Conc/Footprint.v: no shared write reachable from the
    use entry points, no package-level write reachable from the load entry points) and (b) the
    -race executions of harness/race.  The Go memory model, the scheduler and the soundness of the
    extractor are NOT proved (bin/props.d/C20.json). *)
From Coq Require Import ZArith List Arith.
From YV Require Import Conc.Interleave Conc.Footprint Conc.Examples.
Import ListNotations.

(** Under EVERY schedule, if no operation writes what another reads or writes, each operation is
    - after its k-th step - in exactly the local state it has after k steps run alone from the
    initial heap; the heap agrees with its solo run on its whole footprint; locations nobody
    writes keep their initial value.  For every local-state type, every family of operations
    (unbounded number, unbounded length, data-dependent control), every initial heap. *)
Theorem C20_readonly_interleave : forall (L : Type) (ops : nat -> op L),
  all_ok L ops -> writes_disjoint L ops -> forall h0 sched,
  let n i := count_occ Nat.eq_dec sched i in
  (forall i, locals L (run L ops h0 sched) i = fst (run_alone L (ops i) h0 (n i))) /\
  (forall i l, In l (op_footprint L ops i) ->
               hp L (run L ops h0 sched) l = snd (run_alone L (ops i) h0 (n i)) l) /\
  (forall l, (forall i, ~ In l (o_writes L (ops i))) -> hp L (run L ops h0 sched) l = h0 l).
Proof. exact readonly_interleave. Qed.
Print Assumptions C20_readonly_interleave.

(** each operation obtains exactly the result it obtains when run alone: if alone it finishes in
    k steps, then under every schedule giving it at least k turns it is finished with that result *)
Theorem C20_result_as_alone : forall (L : Type) (ops : nat -> op L),
  all_ok L ops -> writes_disjoint L ops -> forall h0 sched i k,
  finished L (ops i) (fst (run_alone L (ops i) h0 k)) -> k <= count_occ Nat.eq_dec sched i ->
  locals L (run L ops h0 sched) i = fst (run_alone L (ops i) h0 k) /\
  finished L (ops i) (locals L (run L ops h0 sched) i).
Proof. exact interleave_result. Qed.
Print Assumptions C20_result_as_alone.

(** no data race in the model's sense: the next steps of two different operations never conflict,
    whatever their local states, and adjacent steps of different operations commute *)
Theorem C20_no_conflict : forall (L : Type) (ops : nat -> op L),
  all_ok L ops -> writes_disjoint L ops -> forall i j sti stj,
  i <> j -> ~ conflict L (step_of L (ops i) sti) (step_of L (ops j) stj).
Proof. exact no_conflict. Qed.
Print Assumptions C20_no_conflict.

Theorem C20_adjacent_steps_commute : forall (L : Type) (ops : nat -> op L),
  all_ok L ops -> writes_disjoint L ops -> forall s i j, i <> j ->
  sys_eq L (sys_step L ops (sys_step L ops s i) j) (sys_step L ops (sys_step L ops s j) i).
Proof. exact adjacent_commute. Qed.
Print Assumptions C20_adjacent_steps_commute.

(** the outcome does not depend on the interleaving chosen: schedules giving every operation the
    same number of turns end in the same local states and in heaps that agree on every footprint *)
Theorem C20_schedule_independence : forall (L : Type) (ops : nat -> op L),
  all_ok L ops -> writes_disjoint L ops -> forall h0 s1 s2,
  (forall i, count_occ Nat.eq_dec s1 i = count_occ Nat.eq_dec s2 i) ->
  (forall i, locals L (run L ops h0 s1) i = locals L (run L ops h0 s2) i) /\
  (forall i l, In l (op_footprint L ops i) -> hp L (run L ops h0 s1) l = hp L (run L ops h0 s2) l) /\
  (forall l, (forall i, ~ In l (o_writes L (ops i))) -> hp L (run L ops h0 s1) l = hp L (run L ops h0 s2) l).
Proof. exact schedule_independence. Qed.
Print Assumptions C20_schedule_independence.

(** finitely many operations given as a list (pairwise disjoint write sets): same conclusion *)
Theorem C20_readonly_interleave_list : forall (L : Type) (d : L) (l : list (op L)),
  Forall (op_ok L) l -> list_disjoint L l -> forall h0 sched i o,
  nth_error l i = Some o ->
  locals L (run L (ops_of_list L d l) h0 sched) i =
  fst (run_alone L o h0 (count_occ Nat.eq_dec sched i)).
Proof. exact readonly_interleave_list. Qed.
Print Assumptions C20_readonly_interleave_list.

(** the shape the code obligations establish: operations write only locations they own (objects
    they allocated) and read only those and the shared state; then every operation obtains what it
    obtains alone and the shared state (compiled module, package-level variables) never changes *)
Theorem C20_immutable_shared : forall (L : Type) (ops : nat -> op L) (owner : loc -> option nat),
  all_ok L ops -> discipline L ops owner -> forall h0 sched,
  (forall i, locals L (run L ops h0 sched) i =
             fst (run_alone L (ops i) h0 (count_occ Nat.eq_dec sched i))) /\
  (forall l, owner l = None -> hp L (run L ops h0 sched) l = h0 l).
Proof. exact immutable_shared. Qed.
Print Assumptions C20_immutable_shared.

(** what the generated obligation [obligations_ok fp = true] means, for every extractor output *)
Theorem C20_obligations_meaning : forall fp, obligations_ok fp = true ->
  (forall w, In w (fp_writes fp) -> w_class w = Use -> use_allowed w = true) /\
  (forall w, In w (fp_writes fp) -> w_class w = Load -> w_kind w <> KGlobal) /\
  (forall p, In p (fp_load_params fp) -> In p load_params_allowed) /\
  (forall e, In e required_entries -> In e (fp_entries fp)).
Proof.
  exact (fun fp H => conj (obligations_use fp H)
                    (conj (proj1 (obligations_load fp H))
                    (conj (proj2 (obligations_load fp H)) (obligations_entries fp H)))).
Qed.
Print Assumptions C20_obligations_meaning.

(** non-vacuity: an unbounded family of readers of a shared datum, each with a private cell, meets
    the hypotheses; under any schedule the theorem's conclusion holds for it *)
Example C20_hyps_met :
  all_ok lstate reader /\ discipline lstate reader rd_owner /\ writes_disjoint lstate reader /\
  (let s := run lstate reader (fun _ => 7%Z) [0;1;1;2;0;2] in
   locals lstate s 0 = (2, 21%Z) /\ locals lstate s 1 = (2, 23%Z) /\
   locals lstate s 2 = (2, 25%Z) /\ hp lstate s 0 = 7%Z).
Proof.
  exact (conj readers_ok (conj readers_discipline
        (conj (discipline_disjoint lstate reader rd_owner readers_discipline) readers_run))).
Qed.

(** the counter meta.uid of the pinned commit (Builder.Uses: read, then write back +1) breaks the
    hypothesis and the conclusion: a load obtains another id than alone, an increment is lost, the
    two steps conflict.  Removed in the tree under test by "fix: meta.Builder.Uses ...". *)
Theorem C20_pinned_commit_refuted :
  ~ writes_disjoint lstate uses_old /\
  snd (locals lstate (run lstate uses_old (fun _ => 0%Z) [0;0;1;1]) 1) = 1%Z /\
  snd (fst (run_alone lstate (uses_old 1) (fun _ => 0%Z) 2)) = 0%Z /\
  snd (locals lstate (run lstate uses_old (fun _ => 0%Z) [0;1;0;1]) 0) =
  snd (locals lstate (run lstate uses_old (fun _ => 0%Z) [0;1;0;1]) 1) /\
  hp lstate (run lstate uses_old (fun _ => 0%Z) [0;1;0;1]) 0 = 1%Z /\
  conflict lstate uid_step2 uid_step1.
Proof. exact (conj uid_not_disjoint uid_counter_refuted). Qed.

(** limit of the model, stated: a lazily initialised cache in a shared object keeps every result
    equal in this sequentially consistent model, yet violates the hypothesis and is a conflict - a
    data race; it is rejected by the footprint obligations and the race detector, not by results *)
Example C20_lazy_init_is_a_race :
  ~ writes_disjoint lstate lazy_reader /\ conflict lstate lazy_step2 lazy_step1 /\
  snd (locals lstate (run lstate lazy_reader (fun _ => 0%Z) [0;1;0;1]) 0) = 42%Z /\
  snd (locals lstate (run lstate lazy_reader (fun _ => 0%Z) [0;1;0;1]) 1) = 42%Z /\
  snd (locals lstate (run lstate lazy_reader (fun _ => 0%Z) [0;0;1;1]) 1) = 42%Z.
Proof. exact lazy_init_is_a_race. Qed.
