From YV Require Import Req.Types.
