(** C13 - No request content can crash the library once the schema is valid.   PARTIAL.

    Proved here (unbounded, over every input of the executable models Req/*.v, which transcribe the code
    after the fix commits listed in KNOWN_FINDINGS.txt, every crash site explicit as [MPanic site]):
      URL paths     node/find.go + node/path_slice.go + meta/find.go   [find_path; find_rel: Find on a selection
                    below the root, leading "../" steps and a "?query" part cut after them]
      JSON sources  nodeutil/json_rdr.go driven by node/edit.go        [read_doc]
      selectors     node/path_matcher.go match                         [path_matches]
      XPath text    xpath/lexer.go + grammar of xpath/parser.y         [xpath_parse]
    return Ok or Err for every input, never Panic, never run out of fuel; every document / path shape
    mismatch class named by the property yields Err.  Tied to the code by the request streams of
    harness/props/c13.go (Check/C13Check.v).  Search-only (spec decided on observed outcomes, no model):
    XML sources, query parameters, XPath evaluation, SetValue, insert/update/replace; outside every model:
    encoding/json, patch/xml, net/url, strconv, regexp, the goyacc driver. *)
From Coq Require Import ZArith List Bool Arith Strings.Byte.
From YV Require Import Base.Verdict Val.Model Req.Types Req.Match Req.MatchProofs Req.UrlPath Req.UrlPathProofs Req.KeyCountProofs
  Req.JsonR Req.JsonRProofs Req.XPathLex Req.XPathLexProofs Check.C13Check Req.CheckProofs.
Import ListNotations.

(** ---- URL paths given to Find ---- *)
Theorem C13_find_path_total : forall w path, is_panic (find_path false w path) = false.
Proof. exact find_path_total. Qed.
Print Assumptions C13_find_path_total.

Theorem C13_step_below_leaf_is_error : forall modname r cur seg,
  (cur = NChoice \/ exists n g l k, cur = NSk (SkLeaf n g l k)) ->
  step false modname r cur seg = SStop MErr.
Proof. exact step_below_leaf_is_error. Qed.
Print Assumptions C13_step_below_leaf_is_error.

Theorem C13_key_on_nonlist_is_error : forall modname r cur seg a b tgt,
  cut_first x3d seg = Some (a, b) ->
  step false modname r cur seg = SNext tgt ->
  exists n g c k kids, tgt = NSk (SkList n g c k kids).
Proof. exact keyed_segment_resolves_to_list. Qed.
Print Assumptions C13_key_on_nonlist_is_error.

(** a list segment "name=v1,..,vm" only proceeds to a list with at most m keys (node/path_slice.go after 110eb81) *)
Theorem C13_keyed_step_has_enough_keys : forall modname r cur seg m tgt,
  seg_key_count seg = Some m ->
  step false modname r cur seg = SNext tgt ->
  exists k, list_key_count tgt = Some k /\ (k <= m)%nat.
Proof. exact keyed_step_has_enough_keys. Qed.
Print Assumptions C13_keyed_step_has_enough_keys.

(** fewer key values than the list has keys: an error wherever the segment stands in the path, whatever the values
    are and whatever follows - never the hand-over of nil key values to the node *)
Theorem C13_too_few_keys_is_error : forall modname r cur seg a b id n g c kpos kids tl,
  cut_first x3d seg = Some (a, b) ->
  unescape a = Some id ->
  (forall s, cur = NSk s -> find_seg r modname s id = Some (NSk (SkList n g c kpos kids))) ->
  (length (split_on x2c b) < length kpos)%nat ->
  walk false modname r cur (seg :: tl) = MErr.
Proof. exact walk_too_few_keys_is_error. Qed.
Print Assumptions C13_too_few_keys_is_error.

Theorem C13_find_too_few_keys_is_error : forall w seg a b id n g c kpos kids,
  existsb (Byte.eqb x2f) seg = false ->
  existsb (Byte.eqb x3f) seg = false ->
  cut_first x3d seg = Some (a, b) ->
  unescape a = Some id ->
  find_seg true (w_module w) (w_root w) id = Some (NSk (SkList n g c kpos kids)) ->
  (length (split_on x2c b) < length kpos)%nat ->
  find_path false w seg = MErr.
Proof. exact find_too_few_keys_is_error. Qed.
Print Assumptions C13_find_too_few_keys_is_error.

Example C13_find_too_few_keys_sat :
  exists seg a b id n g c kpos kids,
    existsb (Byte.eqb x2f) seg = false /\ existsb (Byte.eqb x3f) seg = false /\
    cut_first x3d seg = Some (a, b) /\ unescape a = Some id /\
    find_seg true (w_module keys_world) (w_root keys_world) id = Some (NSk (SkList n g c kpos kids)) /\
    (length (split_on x2c b) < length kpos)%nat.
Proof. exact find_too_few_keys_sat. Qed.
Print Assumptions C13_find_too_few_keys_sat.

(** whatever follows a segment that resolved to a node without definitions - leaf, leaf-list, choice, and (as
    SkLeaf entries of the skeleton) anydata, anyxml, rpc, action - is an error *)
Theorem C13_walk_below_terminal_is_error : forall modname r cur seg tgt seg2 tl,
  seg <> [] -> seg2 <> [] ->
  step false modname r cur seg = SNext tgt -> terminal tgt ->
  walk false modname r cur (seg :: seg2 :: tl) = MErr.
Proof. exact walk_below_terminal_is_error. Qed.
Print Assumptions C13_walk_below_terminal_is_error.

Example C13_keys_demo :
  find_path false keys_world [x6c;x32;x3d;x31] = MErr /\
  find_path false keys_world [x6c;x32;x3d;x31;x2c;x78] = MOkOrErr /\
  find_path false keys_world [x6c;x32;x3d;x31;x2c;x78;x2c;x79] = MOkOrErr /\
  find_path false keys_world [x6c;x32;x3d;x31;x2f;x76] = MErr /\
  find_path false keys_world [x61;x6e;x79;x2f;x78;x2f;x79] = MErr /\
  find_path false keys_world [x6c;x32;x3d;x31;x2c;x78;x2f;x76] = MOkOrErr /\
  find_path true keys_world [x6c;x32;x3d;x31] = MOkOrErr.
Proof. exact keys_demo. Qed.
Print Assumptions C13_keys_demo.

(** Find on a selection below the root: any number of leading "../" steps, any "?query" part *)
Theorem C13_find_rel_total : forall w names row path, is_panic (find_rel false w names row path) = false.
Proof. exact find_rel_total. Qed.
Print Assumptions C13_find_rel_total.

(** the query is cut where it starts in what the "../" steps leave of the path: it never changes the
    verdict of the path in front of it, except that a normal result may become an error *)
Theorem C13_find_rel_query_cut : forall w names row p q, existsb (Byte.eqb x3f) p = false ->
  find_rel false w names row (p ++ x3f :: q) = with_query (find_rel false w names row p).
Proof. exact find_rel_query_cut. Qed.
Print Assumptions C13_find_rel_query_cut.

Example C13_find_rel_demo :
  find_rel false demo_world [[x63]] false [x2e;x2e;x2f;x74;x6f;x70;x3f] = MOkOrErr /\
  find_rel false demo_world [[x63]] false [x2e;x2e;x2f;x74;x6f;x70;x3f;x61;x3d;x31] = MOkOrErr /\
  find_rel false demo_world [[x63]] false [x2e;x2e;x2f;x2e;x2e;x2f;x74;x6f;x70] = MErr /\
  find_rel false demo_world [[x63]] false [x2e;x2e;x2f;x63;x3d;x31;x3f;x61] = MErr /\
  find_rel false demo_world [[x63]] false [x7a;x3f] = MOkOrErr /\
  find_rel false demo_world [[x63]] false [x2e;x2e;x2f;x6e;x6f;x73;x75;x63;x68;x3f;x64;x65;x70;x74;x68;x3d;x31] = MErr.
Proof. exact find_rel_demo. Qed.
Print Assumptions C13_find_rel_demo.

Example C13_find_before_fix_panics :
  find_path true demo_world [x63;x3d;x31] = MPanic 2 /\ find_path true demo_world [x74;x6f;x70;x2f;x78] = MPanic 1.
Proof. exact (conj find_old_key_on_container_panics find_old_step_below_leaf_panics). Qed.
Print Assumptions C13_find_before_fix_panics.

Example C13_find_after_fix :
  find_path false demo_world [x63;x3d;x31] = MErr /\ find_path false demo_world [x74;x6f;x70;x2f;x78] = MErr /\
  find_path false demo_world [x63;x2f;x7a] = MOkOrErr.
Proof. exact find_fixed_rejects_both. Qed.
Print Assumptions C13_find_after_fix.

(** ---- JSON documents used as edit source ---- *)
Theorem C13_json_read_total : forall w doc, is_panic (read_doc false w doc) = false.
Proof. exact read_doc_total. Qed.
Print Assumptions C13_json_read_total.

(** shape_mismatch_is_error: a non-object where a container is declared, a non-array where a list is
    declared, a list entry that is not an object and a list entry without its key (at any position
    after entries that read fine) are errors; and such an error in a visited kid is the result of
    the enclosing container *)
Theorem C13_shape_mismatch_is_error :
  (forall modname name g c kids ms v,
     member modname name ms = Some v -> is_obj v = false ->
     read_kid false modname (SkCont name g c kids) ms = WStop MErr) /\
  (forall modname name g c keys kids ms v,
     member modname name ms = Some v -> is_arr v = false ->
     read_kid false modname (SkList name g c keys kids) ms = WStop MErr) /\
  (forall modname name g c keys kids ms pre it post,
     member modname name ms = Some (JArr (jvs_app pre (JVCons it post))) ->
     rows_fine modname keys kids pre -> is_obj it = false ->
     read_kid false modname (SkList name g c keys kids) ms = WStop MErr) /\
  (forall modname name g c keys kids ms pre ms' post,
     member modname name ms = Some (JArr (jvs_app pre (JVCons (JObj ms') post))) ->
     rows_fine modname keys kids pre -> keys_present modname keys kids ms' = false ->
     read_kid false modname (SkList name g c keys kids) ms = WStop MErr) /\
  (forall modname all ms k tl,
     guard_visit modname all ms [] (sk_guard k) = Some true ->
     read_kid false modname k ms = WStop MErr ->
     read_kids false modname all ms (SCons k tl) = WStop MErr).
Proof.
  exact (conj non_object_for_container_is_error (conj non_array_for_list_is_error
        (conj non_object_entry_is_error (conj entry_without_key_is_error kid_error_is_container_error)))).
Qed.
Print Assumptions C13_shape_mismatch_is_error.

Example C13_json_before_fix_panics :
  read_doc true jdemo_world jd1 = MPanic 1 /\ read_doc true jdemo_world jd2 = MPanic 2 /\
  read_doc true jdemo_world jd3 = MPanic 3.
Proof. exact read_old_panics. Qed.
Print Assumptions C13_json_before_fix_panics.

Example C13_json_after_fix :
  read_doc false jdemo_world jd1 = MErr /\ read_doc false jdemo_world jd2 = MErr /\
  read_doc false jdemo_world jd3 = MErr /\ read_doc false jdemo_world jd4 = MErr.
Proof. exact read_fixed_rejects. Qed.
Print Assumptions C13_json_after_fix.

(** ---- field / range selectors: PathMatchExpression.match ---- *)
Theorem C13_path_matches_total : forall segs bl cand, path_matches false segs bl cand <> MatchPanic.
Proof. exact path_matches_total. Qed.
Print Assumptions C13_path_matches_total.

Theorem C13_selector_longer_than_candidate_no_match : forall segs bl cand,
  (length cand - bl < length segs)%nat -> (bl <= length cand)%nat -> cand <> [] ->
  path_matches false segs bl cand = MatchRes false.
Proof. exact selector_longer_than_candidate_no_match. Qed.
Print Assumptions C13_selector_longer_than_candidate_no_match.

Example C13_match_before_fix_panics :
  path_matches true [[x61];[x62];[x63];[x64];[x65]] 1 [[x6d];[x63];[x7a]] = MatchPanic.
Proof. exact path_matches_old_panics. Qed.
Print Assumptions C13_match_before_fix_panics.

(** ---- XPath text given to where / filter ---- *)
Theorem C13_xpath_parse_total : forall t, is_panic (xpath_parse false t) = false.
Proof. exact xpath_parse_total. Qed.
Print Assumptions C13_xpath_parse_total.

Theorem C13_xpath_lexer_terminates : forall s, lex_all (S (length s)) s <> None.
Proof. exact lex_all_fuel. Qed.
Print Assumptions C13_xpath_lexer_terminates.

Theorem C13_xpath_ascii_is_modelled : forall t, existsb non_ascii t = false -> xpath_parse false t <> MUnmodelled.
Proof. exact xpath_parse_modelled. Qed.
Print Assumptions C13_xpath_ascii_is_modelled.

Theorem C13_xpath_token_ring_bounded : forall s,
  match lex_step s with
  | LToks t _ => (length t <= 2)%nat
  | LErrAfter pre => (length pre <= 1)%nat
  | LEnd => True
  end.
Proof. exact lex_step_emits_le2. Qed.
Print Assumptions C13_xpath_token_ring_bounded.

Theorem C13_xpath_accept_has_pushed : forall toks k p n,
  run PStart toks 0%nat false false = PAccept k p n -> (0 < k)%nat.
Proof. exact accept_pushes_positive. Qed.
Print Assumptions C13_xpath_accept_has_pushed.

Example C13_xpath_stack_bound :
  xpath_parse false (steps 299) = MErr /\ xpath_parse true (steps 299) = MPanic 1 /\
  xpath_parse false (steps 255) = MOk /\ xpath_parse false (steps 256) = MErr.
Proof. exact xpath_300_steps. Qed.
Print Assumptions C13_xpath_stack_bound.

(** ---- what the theorems give the every-run check ---- *)
Theorem C13_correspondence_excludes_crash : forall mi o matched,
  model_of mi o matched = Some true -> no_crash o.
Proof. exact corr_implies_no_crash. Qed.
Print Assumptions C13_correspondence_excludes_crash.

Theorem C13_agree_means_spec : forall kind tag must_err mi o preserved matched,
  classify (Case kind tag must_err mi o preserved matched) = Agree ->
  spec_ok must_err o preserved = true /\ no_crash o.
Proof. exact agree_means_spec. Qed.
Print Assumptions C13_agree_means_spec.
