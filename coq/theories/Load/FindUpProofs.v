(** Proofs about Load/FindUp.v: the ../ branch of meta.Find never dereferences a nil Meta, whatever
    the path and the depth of the node, and arrives where the RFC says; the guard of Builder.Default
    turns every second default statement into an error whatever the first argument was. *)
From Coq Require Import List Bool Arith Lia Strings.Byte.
From YV Require Import Load.FindUp.
Import ListNotations.

Lemma find_up_total_n : forall n path, length path <= n -> forall a, find_up (Some a) path <> FPanic.
Proof.
  induction n as [|n IH]; intros path Hlen a.
  - destruct path as [|b path]; simpl in Hlen; [simpl; discriminate | lia].
  - destruct path as [|b1 [|b2 [|b3 rest]]]; simpl; try discriminate.
    destruct (is_up b1 b2 b3); [|discriminate].
    destruct a as [|a']; [discriminate|].
    apply IH. simpl in Hlen. lia.
Qed.

Lemma find_up_total : forall a path, find_up (Some a) path <> FPanic.
Proof. intros a path. apply (find_up_total_n (length path)). lia. Qed.

Lemma find_up_step : forall p rest,
  find_up p (x2e :: x2e :: x2f :: rest) =
  match p with None => FPanic | Some 0 => FNil | Some (S a) => find_up (Some a) rest end.
Proof. intros p rest. reflexivity. Qed.

Lemma find_up_no_up : forall a rest, no_up rest = true -> find_up (Some a) rest = FAt a rest.
Proof.
  intros a rest H. destruct rest as [|b1 [|b2 [|b3 r]]]; simpl in *; try reflexivity.
  destruct (is_up b1 b2 b3); simpl in H; [discriminate H | reflexivity].
Qed.

(** [n] leading steps from a node with [a] ancestors: the ancestor [n] levels up when there is one
    (n <= a; n = a is the module), nil otherwise - for every n, a and rest *)
Lemma find_up_spec : forall n a rest, no_up rest = true ->
  find_up (Some a) (ups n ++ rest) = if n <=? a then FAt (a - n) rest else FNil.
Proof.
  induction n as [|n IH]; intros a rest H.
  - simpl. rewrite Nat.sub_0_r. apply find_up_no_up. exact H.
  - change (ups (S n) ++ rest) with (x2e :: x2e :: x2f :: (ups n ++ rest)).
    rewrite find_up_step. destruct a as [|a'].
    + reflexivity.
    + rewrite (IH a' rest H). reflexivity.
Qed.

(** the walk never ends above the node it started from *)
Lemma find_up_below_n : forall n path, length path <= n -> forall a b rest,
  find_up (Some a) path = FAt b rest -> b <= a.
Proof.
  induction n as [|n IH]; intros path Hlen a b rest.
  - destruct path as [|x path]; simpl in Hlen; [|lia]. simpl. intros E. inversion E. lia.
  - destruct path as [|b1 [|b2 [|b3 r]]]; simpl; try (intros E; inversion E; lia).
    destruct (is_up b1 b2 b3); [|intros E; inversion E; lia].
    destruct a as [|a']; [intros E; discriminate E|].
    intros E. apply IH in E; [lia | simpl in Hlen; lia].
Qed.

Lemma find_up_below : forall a path b rest, find_up (Some a) path = FAt b rest -> b <= a.
Proof. intros a path b rest. apply (find_up_below_n (length path)). lia. Qed.

(** the unchecked walk is refuted: three steps from a top-level leaf (one ancestor) *)
Lemma climb_unchecked_refuted :
  climb_unchecked (Some 1) (ups 3 ++ [x61]) = FPanic /\ find_up (Some 1) (ups 3 ++ [x61]) = FNil
  /\ find_up (Some 1) (ups 1 ++ [x61]) = FAt 0 [x61].
Proof. repeat split; vm_compute; reflexivity. Qed.

(** Builder.Default *)
Lemma builder_default_total : forall cur v, builder_default cur v <> BPanic.
Proof. intros [d|] v; unfold builder_default, add_default; simpl; discriminate. Qed.

Lemma builder_default_second_is_error : forall first second,
  builder_default (Some first) second = BErr.
Proof. intros first second. reflexivity. Qed.

Lemma builder_default_first_is_set : forall v, builder_default None v = BSet v.
Proof. intros v. reflexivity. Qed.

Lemma builder_default_by_getter_refuted :
  builder_default_by_getter (Some []) [x62] = BPanic /\ builder_default (Some []) [x62] = BErr.
Proof. split; reflexivity. Qed.
