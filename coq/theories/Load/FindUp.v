(** Two small models of builder / schema-path code that the C14 reference streams
    (harness/props/c14ref.go) exercise.  No proofs in this file (Load/FindUpProofs.v).

    1. meta/find.go Find, the branch for a leading "../" step:

         if strings.HasPrefix(path, "../") {
             if p.Parent() == nil { return nil }
             return Find(p.Parent(), path[3:])
         }

       A node is represented by the number of its ancestors ([Some 0] is the module, whose Parent()
       is nil); [None] is a nil Meta, on which calling Parent() is a nil pointer dereference.  The
       rest of the path (what follows the leading ../ steps) is handed back with the node it has to
       be looked up at.
    2. meta/builder.go Builder.Default for a node that takes one default (leaf, typedef, choice) and
       the addDefault of meta/core_gen.go behind it, which panics when a default is already set. *)
From Coq Require Import List Bool Arith Strings.Byte.
Import ListNotations.

Inductive fres :=
| FPanic                                   (* Parent() called on a nil Meta *)
| FNil                                     (* Find returns nil: the path cannot be resolved *)
| FAt (anc : nat) (rest : list byte).      (* the rest of the path is looked up at the node with [anc] ancestors *)

(** strings.HasPrefix(path, "../") on the first three bytes *)
Definition is_up (b1 b2 b3 : byte) : bool := Byte.eqb b1 x2e && Byte.eqb b2 x2e && Byte.eqb b3 x2f.
Arguments is_up : simpl never.

Fixpoint find_up (p : option nat) (path : list byte) : fres :=
  match path with
  | b1 :: b2 :: b3 :: rest =>
    if is_up b1 b2 b3 then
      match p with
      | None => FPanic                     (* p.Parent() on a nil interface *)
      | Some 0 => FNil                     (* p.Parent() == nil *)
      | Some (S a) => find_up (Some a) rest
      end
    else match p with None => FNil | Some a => FAt a path end
  | _ => match p with None => FNil | Some a => FAt a path end
  end.

(** the same walk without the nil test at every step (a run of ../ steps consumed in a loop:
    p = p.Parent() may become nil and the next step dereferences it) *)
Fixpoint climb_unchecked (p : option nat) (path : list byte) : fres :=
  match path with
  | b1 :: b2 :: b3 :: rest =>
    if is_up b1 b2 b3 then
      match p with
      | None => FPanic
      | Some 0 => climb_unchecked None rest
      | Some (S a) => climb_unchecked (Some a) rest
      end
    else match p with None => FNil | Some a => FAt a path end
  | _ => match p with None => FNil | Some a => FAt a path end
  end.

(** [n] leading ../ steps *)
Fixpoint ups (n : nat) : list byte :=
  match n with 0 => [] | S k => x2e :: x2e :: x2f :: ups k end.

(** the rest of a path does not start with another ../ step *)
Definition no_up (rest : list byte) : bool :=
  match rest with b1 :: b2 :: b3 :: _ => negb (is_up b1 b2 b3) | _ => true end.

(** * Builder.Default on a single-valued node *)

Inductive bres :=
| BPanic                                   (* addDefault: panic("default already set") *)
| BErr                                     (* setErr("... default already set") *)
| BSet (d : list byte).                    (* the default is now [d] *)

(** the state of the node: no default statement seen, or the argument of the one seen *)
Definition has_default (cur : option (list byte)) : bool :=
  match cur with Some _ => true | None => false end.
(** the public getter Default(): "" when there is none *)
Definition default_getter (cur : option (list byte)) : list byte :=
  match cur with Some d => d | None => [] end.

Definition add_default (cur : option (list byte)) (v : list byte) : bres :=
  if has_default cur then BPanic else BSet v.

(** as repaired (fe30537): the guard asks HasDefault() *)
Definition builder_default (cur : option (list byte)) (v : list byte) : bres :=
  if has_default cur then BErr else add_default cur v.

(** a guard that asks the getter instead cannot tell "no default" from the empty default *)
Definition builder_default_by_getter (cur : option (list byte)) (v : list byte) : bres :=
  match default_getter cur with
  | _ :: _ => BErr
  | [] => add_default cur v
  end.
