(** Proofs about the import loop of Load/Model.v: the fuel [imp_model] gives always suffices (the
    loop terminates whatever the graph: cycles, self imports, texts under other names, missing
    texts) and no name is requested from the opener twice. *)
From Coq Require Import List Bool Arith Lia.
From YV Require Import Load.Model.
Import ListNotations.

(** imports of the texts whose name is not loaded yet: what can still be pushed on the stack *)
Fixpoint pending (fs : list (nat * ifile)) (loaded : list nat) : nat :=
  match fs with
  | [] => 0
  | (k, f) :: tl => (if mem k loaded then 0 else length (if_imports f)) + pending tl loaded
  end.

Lemma pending_mono : forall fs l1 l2,
  (forall x, mem x l1 = true -> mem x l2 = true) -> pending fs l2 <= pending fs l1.
Proof.
  induction fs as [|[k f] tl IH]; intros l1 l2 H; simpl; [lia|].
  specialize (IH l1 l2 H).
  destruct (mem k l1) eqn:E1.
  - rewrite (H k E1). lia.
  - destruct (mem k l2); lia.
Qed.

Lemma pending_le_weight : forall fs loaded, pending fs loaded <= import_weight fs.
Proof.
  unfold import_weight.
  induction fs as [|[k f] tl IH]; intros loaded; simpl; [lia|].
  specialize (IH loaded). destruct (mem k loaded); simpl; lia.
Qed.

Lemma mem_cons_mono : forall x a l, mem x l = true -> mem x (a :: l) = true.
Proof. intros x a l H. simpl. rewrite H. apply orb_true_r. Qed.

Lemma pending_open : forall fs t m d loaded,
  lookup_file t fs = Some m -> mem t loaded = false ->
  pending fs (d :: t :: loaded) + length (if_imports m) <= pending fs loaded.
Proof.
  induction fs as [|[k f] tl IH]; intros t m d loaded Hl Hm; simpl in Hl; [discriminate|].
  assert (Hmono : pending tl (d :: t :: loaded) <= pending tl loaded).
  { apply pending_mono. intros x Hx. apply mem_cons_mono. apply mem_cons_mono. exact Hx. }
  destruct (Nat.eqb t k) eqn:E.
  - apply Nat.eqb_eq in E. subst k. inversion Hl; subst f.
    cbn [pending]. rewrite Hm.
    replace (mem t (d :: t :: loaded)) with true.
    2:{ simpl. rewrite Nat.eqb_refl. rewrite orb_true_r. reflexivity. }
    lia.
  - specialize (IH t m d loaded Hl Hm). cbn [pending].
    destruct (mem k loaded) eqn:Ek.
    + rewrite (mem_cons_mono k d _ (mem_cons_mono k t _ Ek)). lia.
    + destruct (mem k (d :: t :: loaded)); lia.
Qed.

Lemma imp_run_fuel : forall fuel fs loaded opens stack,
  length stack + pending fs loaded < fuel -> imp_run fuel fs loaded opens stack <> IFuel.
Proof.
  induction fuel as [|fuel IH]; intros fs loaded opens stack H; [lia|].
  simpl. destruct stack as [|t rest]; [discriminate|].
  simpl in H.
  destruct (mem t loaded) eqn:Em.
  - apply IH. lia.
  - destruct (lookup_file t fs) as [m|] eqn:El; [|discriminate].
    apply IH. rewrite app_length, map_length.
    pose proof (pending_open fs t m (if_decl m) loaded El Em). lia.
Qed.

Theorem imp_model_total : forall g, imp_model g <> IFuel.
Proof.
  intros g. unfold imp_model, imp_fuel. apply imp_run_fuel.
  rewrite map_length.
  pose proof (pending_le_weight (ig_files g) [if_decl (ig_main g)]). lia.
Qed.

(** no name is requested twice: what was requested is loaded, and only names that are not loaded are requested *)
Lemma mem_true_In : forall x l, mem x l = true <-> In x l.
Proof.
  induction l as [|a tl IH]; simpl; [split; [discriminate|tauto]|].
  rewrite orb_true_iff, Nat.eqb_eq, IH. split; intros [H|H]; auto.
Qed.

Definition requested (o : iout) : list nat :=
  match o with IDone l | IFail l => l | IFuel => [] end.

Lemma imp_run_nodup : forall fuel fs loaded opens stack,
  NoDup opens -> (forall x, In x opens -> mem x loaded = true) ->
  NoDup (requested (imp_run fuel fs loaded opens stack)).
Proof.
  induction fuel as [|fuel IH]; intros fs loaded opens stack Hn Hsub; simpl; [constructor|].
  destruct stack as [|t rest].
  - simpl. apply NoDup_rev. exact Hn.
  - destruct (mem t loaded) eqn:Em.
    + apply IH; assumption.
    + assert (Hnt : ~ In t opens).
      { intros Hin. rewrite (Hsub t Hin) in Em. discriminate. }
      destruct (lookup_file t fs) as [m|].
      * apply IH.
        -- constructor; assumption.
        -- intros x [Hx|Hx].
           ++ subst x. simpl. rewrite Nat.eqb_refl. rewrite orb_true_r. reflexivity.
           ++ apply mem_cons_mono. apply mem_cons_mono. apply Hsub. exact Hx.
      * change (NoDup (rev (t :: opens))). apply NoDup_rev. constructor; assumption.
Qed.

Theorem imp_model_requests_once : forall g, NoDup (requested (imp_model g)).
Proof.
  intros g. unfold imp_model. apply imp_run_nodup; [constructor|intros x []].
Qed.

(** the loader before the repair: a text stored as m1 that declares m3 and imports m1 is requested
    until the fuel (in Go: the stack) is exhausted, whatever the fuel *)
Definition misnamed_graph : igraph :=
  mkIgraph (mkIfile 0 [] [(1, None)]) [(0, mkIfile 0 [] [(1, None)]); (1, mkIfile 3 [] [(1, None)])].

Lemma imp_run_old_misnamed : forall fuel loaded opens,
  mem 1 loaded = false ->
  imp_run_old fuel (ig_files misnamed_graph) loaded opens [1] = IFuel.
Proof.
  induction fuel as [|fuel IH]; intros loaded opens H; [reflexivity|].
  simpl. rewrite H. apply IH. simpl. exact H.
Qed.

Example imp_old_refuted :
  (forall fuel, imp_run_old fuel (ig_files misnamed_graph) [0] [] [1] = IFuel)
  /\ imp_model misnamed_graph = IDone [1].
Proof.
  split; [|vm_compute; reflexivity].
  intros fuel. apply imp_run_old_misnamed. reflexivity.
Qed.
