(** Structured inputs of the C14 cycle streams (harness/props/c14graph.go) and the small models that
    go with them.

    1. Import graphs: modules that import each other through an in-memory opener, every import edge
       optionally pinned with a revision-date.  [imp_run] mirrors the import loop of
       meta/resolver.go resolver.module as repaired (a module is registered in loadedModules under
       its own name and under the name it was requested by; an import found there is not loaded again;
       the revision-date of an import plays no part).
    2. Grouping graphs: groupings whose bodies use each other at any depth below containers, lists,
       choices, action input/output and notifications.  The resolver is not modelled; what is computed
       here is the region of known finding 2 (a reachable cycle of uses that are DIRECT children of
       groupings without any data definition of their own).

    Both kinds of graph are rendered to YANG text here ([render_*]); the check compares the rendering
    with the text the harness really loaded, so the structure a verdict is computed from is the
    structure of the input.  No proofs in this file. *)
From Coq Require Import Strings.String.
From Coq Require Import List Bool Arith Strings.Byte.
Import ListNotations.

Definition bs (s : string) : list byte := list_byte_of_string s.

Definition digit (n : nat) : byte :=
  match n with
  | 0 => x30 | 1 => x31 | 2 => x32 | 3 => x33 | 4 => x34
  | 5 => x35 | 6 => x36 | 7 => x37 | 8 => x38 | 9 => x39
  | _ => x3f
  end.

Fixpoint mem (n : nat) (l : list nat) : bool :=
  match l with [] => false | a :: tl => Nat.eqb n a || mem n tl end.

Fixpoint nodupb (l : list nat) : bool :=
  match l with [] => true | a :: tl => negb (mem a tl) && nodupb tl end.

Definition subset (a b : list nat) : bool := forallb (fun x => mem x b) a.
Definition same_set (a b : list nat) : bool := subset a b && subset b a.

Fixpoint bytes_eqb (a b : list byte) : bool :=
  match a, b with
  | [], [] => true
  | x :: a', y :: b' => Byte.eqb x y && bytes_eqb a' b'
  | _, _ => false
  end.

(** * 1. Import graphs *)

Record ifile := mkIfile {
  if_decl : nat;                              (* the name the text declares: module m<if_decl> *)
  if_revs : list nat;                         (* revision statements, in text order: 200<r>-01-01 *)
  if_imports : list (nat * option nat) }.     (* (imported module name, revision-date) *)

Record igraph := mkIgraph {
  ig_main : ifile;                            (* the text handed to the loader *)
  ig_files : list (nat * ifile) }.            (* what the opener holds: name m<k> -> text *)

Definition date (r : nat) : list byte := bs "200" ++ [digit r] ++ bs "-01-01".

Fixpoint render_imports (j : nat) (l : list (nat * option nat)) : list byte :=
  match l with
  | [] => []
  | (t, pin) :: tl =>
    bs "import m" ++ [digit t] ++ bs " { prefix p" ++ [digit j] ++ bs "; " ++
    (match pin with Some r => bs "revision-date " ++ date r ++ bs "; " | None => [] end) ++
    bs "} " ++ render_imports (S j) tl
  end.

Fixpoint render_leaves (j : nat) (l : list (nat * option nat)) : list byte :=
  match l with
  | [] => []
  | _ :: tl => bs "leaf l" ++ [digit j] ++ bs " { type p" ++ [digit j] ++ bs ":t; } " ++ render_leaves (S j) tl
  end.

Definition render_ifile (f : ifile) : list byte :=
  bs "module m" ++ [digit (if_decl f)] ++ bs " { namespace ""urn:m" ++ [digit (if_decl f)] ++ bs """; prefix m" ++
  [digit (if_decl f)] ++ bs "; " ++
  render_imports 0 (if_imports f) ++
  flat_map (fun r => bs "revision " ++ date r ++ bs "; ") (if_revs f) ++
  bs "typedef t { type string; } " ++
  render_leaves 0 (if_imports f) ++ bs "}".

Definition small (n : nat) : bool := Nat.ltb n 10.

Definition ifile_wf (f : ifile) : bool :=
  small (if_decl f) && forallb small (if_revs f) && small (length (if_imports f)) &&
  forallb (fun ip => small (fst ip) && match snd ip with Some r => small r | None => true end) (if_imports f).

Definition igraph_wf (g : igraph) : bool :=
  ifile_wf (ig_main g) && forallb (fun kf => small (fst kf) && ifile_wf (snd kf)) (ig_files g).

Fixpoint lookup_file (n : nat) (fs : list (nat * ifile)) : option ifile :=
  match fs with
  | [] => None
  | (k, f) :: tl => if Nat.eqb n k then Some f else lookup_file n tl
  end.

Inductive iout :=
| IDone (opens : list nat)     (* every import resolved; the names the opener was asked for, in order *)
| IFail (opens : list nat)     (* the opener had no text for the last name asked *)
| IFuel.

(** resolver.module, import loop.  The Go code recurses into a freshly loaded module before it
    continues with the remaining imports of the importing one: a stack of pending import names.
    (Go iterates the imports of one module in map order; list order is used here, which is why only
    the SET of requested names is compared.) *)
Fixpoint imp_run (fuel : nat) (fs : list (nat * ifile)) (loaded opens stack : list nat) : iout :=
  match fuel with
  | 0 => IFuel
  | S fuel' =>
    match stack with
    | [] => IDone (rev opens)
    | t :: rest =>
      if mem t loaded then imp_run fuel' fs loaded opens rest
      else match lookup_file t fs with
           | None => IFail (rev (t :: opens))
           | Some m => imp_run fuel' fs (if_decl m :: t :: loaded) (t :: opens)
                               (map fst (if_imports m) ++ rest)
           end
    end
  end.

Definition import_weight (fs : list (nat * ifile)) : nat :=
  fold_right (fun kf acc => length (if_imports (snd kf)) + acc) 0 fs.

Definition imp_fuel (g : igraph) : nat :=
  S (length (if_imports (ig_main g)) + import_weight (ig_files g)).

Definition imp_model (g : igraph) : iout :=
  imp_run (imp_fuel g) (ig_files g) [if_decl (ig_main g)] [] (map fst (if_imports (ig_main g))).

(** the loader before the repair: a loaded module was registered under the name its text declares
    only, so a text stored under another name than it declares was requested again and again *)
Fixpoint imp_run_old (fuel : nat) (fs : list (nat * ifile)) (loaded opens stack : list nat) : iout :=
  match fuel with
  | 0 => IFuel
  | S fuel' =>
    match stack with
    | [] => IDone (rev opens)
    | t :: rest =>
      if mem t loaded then imp_run_old fuel' fs loaded opens rest
      else match lookup_file t fs with
           | None => IFail (rev (t :: opens))
           | Some m => imp_run_old fuel' fs (if_decl m :: loaded) (t :: opens)
                                   (map fst (if_imports m) ++ rest)
           end
    end
  end.

(** every text is stored under the name it declares *)
Definition regular (g : igraph) : bool :=
  forallb (fun kf => Nat.eqb (fst kf) (if_decl (snd kf))) (ig_files g).

(** names that occur as an import target anywhere: the opener cannot legitimately be asked for
    anything else, and for none of them more than once *)
Definition import_targets (g : igraph) : list nat :=
  map fst (if_imports (ig_main g)) ++ flat_map (fun kf => map fst (if_imports (snd kf))) (ig_files g).

Fixpoint dedup (l : list nat) : list nat :=
  match l with [] => [] | a :: tl => if mem a tl then dedup tl else a :: dedup tl end.

(** * 2. Grouping graphs *)

Inductive ukind := KContainer | KList | KChoice | KActIn | KActOut | KNotif.

Inductive uitem :=
| ULeaf
| UUses (target : nat)
| UBox (k : ukind) (body : list uitem).

Record ugraph := mkUgraph {
  ug_groupings : list (list uitem);    (* grouping g<i> *)
  ug_root : list uitem }.              (* the data definitions of the module *)

Definition digits (p : list nat) : list byte := map digit p.

(** item names: a letter, the owner tag (g<i> or r) and the position path, so that the items of one
    grouping never collide with those of another *)
Definition iname (letter : byte) (tag : list byte) (path : list nat) : list byte :=
  letter :: tag ++ [x78] ++ digits path.

Fixpoint render_item (tag : list byte) (path : list nat) (it : uitem) : list byte :=
  match it with
  | ULeaf => bs "leaf " ++ iname x6c tag path ++ bs " { type string; } "
  | UUses t => bs "uses g" ++ [digit t] ++ bs "; "
  | UBox k body =>
    let inner :=
      (fix go (pos : nat) (l : list uitem) : list byte :=
         match l with
         | [] => []
         | it' :: tl => render_item tag (path ++ [pos]) it' ++ go (S pos) tl
         end) 0 body in
    match k with
    | KContainer => bs "container " ++ iname x63 tag path ++ bs " { " ++ inner ++ bs "} "
    | KList => bs "list " ++ iname x74 tag path ++ bs " { key k; leaf k { type string; } " ++ inner ++ bs "} "
    | KChoice => bs "choice " ++ iname x68 tag path ++ bs " { case a { " ++ inner ++ bs "} } "
    | KActIn => bs "action " ++ iname x61 tag path ++ bs " { input { " ++ inner ++ bs "} } "
    | KActOut => bs "action " ++ iname x61 tag path ++ bs " { output { " ++ inner ++ bs "} } "
    | KNotif => bs "notification " ++ iname x6e tag path ++ bs " { " ++ inner ++ bs "} "
    end
  end.

Fixpoint render_body (tag : list byte) (pos : nat) (l : list uitem) : list byte :=
  match l with
  | [] => []
  | it :: tl => render_item tag [pos] it ++ render_body tag (S pos) tl
  end.

Fixpoint render_groupings (i : nat) (gs : list (list uitem)) : list byte :=
  match gs with
  | [] => []
  | b :: tl => bs "grouping g" ++ [digit i] ++ bs " { " ++ render_body (x67 :: [digit i]) 0 b ++ bs "} " ++
               render_groupings (S i) tl
  end.

Definition render_ugraph (g : ugraph) : list byte :=
  bs "module u { namespace ""urn:u""; prefix u; " ++ render_groupings 0 (ug_groupings g) ++
  render_body [x72] 0 (ug_root g) ++ bs "}".

Fixpoint item_wf (it : uitem) : bool :=
  match it with
  | ULeaf => true
  | UUses t => small t
  | UBox _ body => small (length body) && forallb item_wf body
  end.

Definition ugraph_wf (g : ugraph) : bool :=
  small (length (ug_groupings g)) && small (length (ug_root g)) && forallb item_wf (ug_root g) &&
  forallb (fun b => small (length b) && forallb item_wf b) (ug_groupings g).

(** uses that are direct children of a body / at any depth *)
Definition direct_uses (b : list uitem) : list nat :=
  flat_map (fun it => match it with UUses t => [t] | _ => [] end) b.

Fixpoint deep_uses_item (it : uitem) : list nat :=
  match it with
  | ULeaf => []
  | UUses t => [t]
  | UBox _ body => flat_map deep_uses_item body
  end.
Definition deep_uses (b : list uitem) : list nat := flat_map deep_uses_item b.

(** a body contributes a data definition of its own (actions and notifications are not data
    definitions: expandUses collects only what addDefinitions returns) *)
Definition has_data (b : list uitem) : bool :=
  existsb (fun it => match it with
                     | ULeaf => true
                     | UBox (KContainer | KList | KChoice) _ => true
                     | _ => false
                     end) b.

Definition body_of (g : ugraph) (i : nat) : list uitem := nth i (ug_groupings g) [].

(** [closure n step seen]: [n] rounds of adding the successors of everything seen *)
Fixpoint closure (n : nat) (succ : nat -> list nat) (seen : list nat) : list nat :=
  match n with
  | 0 => seen
  | S n' => closure n' succ (dedup (seen ++ flat_map succ seen))
  end.

(** groupings the resolver expands: reachable from the module's data definitions through uses at any depth *)
Definition expanded (g : ugraph) : list nat :=
  closure (length (ug_groupings g)) (fun i => deep_uses (body_of g i)) (dedup (deep_uses (ug_root g))).

Definition bare (g : ugraph) (i : nat) : bool :=
  Nat.ltb i (length (ug_groupings g)) && negb (has_data (body_of g i)).

(** successors along direct uses between bare groupings *)
Definition bare_succ (g : ugraph) (i : nat) : list nat :=
  if bare g i then filter (bare g) (direct_uses (body_of g i)) else [].

Definition on_bare_cycle (g : ugraph) (i : nat) : bool :=
  mem i (closure (length (ug_groupings g)) (bare_succ g) (dedup (bare_succ g i))).

(** region of known finding 2 *)
Definition bare_uses_cycle (g : ugraph) : bool := existsb (on_bare_cycle g) (expanded g).
