(** Go fixed-width integer arithmetic: explicit wrap-around. *)
From Coq Require Import ZArith Lia Bool.
Open Scope Z_scope.

(** unsigned wrap to [w] bits *)
Definition wrapu (w : Z) (z : Z) : Z := z mod 2 ^ w.
(** signed (two's complement) wrap to [w] bits *)
Definition wraps (w : Z) (z : Z) : Z :=
  let m := z mod 2 ^ w in if m <? 2 ^ (w - 1) then m else m - 2 ^ w.

Definition in_s (w z : Z) : Prop := - 2 ^ (w - 1) <= z < 2 ^ (w - 1).
Definition in_u (w z : Z) : Prop := 0 <= z < 2 ^ w.
Definition in_sb (w z : Z) : bool := (- 2 ^ (w - 1) <=? z) && (z <? 2 ^ (w - 1)).
Definition in_ub (w z : Z) : bool := (0 <=? z) && (z <? 2 ^ w).

Lemma in_sb_spec w z : in_sb w z = true <-> in_s w z.
Proof. unfold in_sb, in_s. rewrite andb_true_iff, Z.leb_le, Z.ltb_lt. tauto. Qed.
Lemma in_ub_spec w z : in_ub w z = true <-> in_u w z.
Proof. unfold in_ub, in_u. rewrite andb_true_iff, Z.leb_le, Z.ltb_lt. tauto. Qed.

Lemma wraps_id w z : 0 < w -> in_s w z -> wraps w z = z.
Proof.
  intros Hw [H1 H2]. unfold wraps.
  assert (Hp : 2 ^ w = 2 * 2 ^ (w - 1)).
  { replace w with (Z.succ (w - 1)) at 1 by lia. rewrite Z.pow_succ_r by lia. reflexivity. }
  assert (0 < 2 ^ (w - 1)) by (apply Z.pow_pos_nonneg; lia).
  destruct (Z_lt_le_dec z 0) as [Hneg|Hpos].
  - assert (Hm : z mod 2 ^ w = z + 2 ^ w).
    { symmetry. apply Z.mod_unique with (q := -1); lia. }
    rewrite Hm. destruct (Z.ltb_spec (z + 2 ^ w) (2 ^ (w - 1))); lia.
  - rewrite Z.mod_small by lia. destruct (Z.ltb_spec z (2 ^ (w - 1))); lia.
Qed.

Lemma wrapu_id w z : in_u w z -> wrapu w z = z.
Proof. intros [H1 H2]. unfold wrapu. apply Z.mod_small; lia. Qed.

Lemma wraps_range w z : 0 < w -> in_s w (wraps w z).
Proof.
  intros Hw. unfold wraps, in_s.
  assert (Hp : 2 ^ w = 2 * 2 ^ (w - 1)).
  { replace w with (Z.succ (w - 1)) at 1 by lia. rewrite Z.pow_succ_r by lia. reflexivity. }
  assert (0 < 2 ^ (w - 1)) by (apply Z.pow_pos_nonneg; lia).
  pose proof (Z.mod_pos_bound z (2 ^ w) ltac:(lia)).
  destruct (Z.ltb_spec (z mod 2 ^ w) (2 ^ (w - 1))); lia.
Qed.

Lemma wrapu_range w z : 0 <= w -> in_u w (wrapu w z).
Proof. intros Hw. unfold wrapu, in_u. apply Z.mod_pos_bound. apply Z.pow_pos_nonneg; lia. Qed.
