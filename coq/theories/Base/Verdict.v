(** Verdicts of the correspondence check (DESIGN.md 2.3).  The decision for every generated
    case is taken by evaluating [classify_gen] inside Coq; the orchestrator only parses the
    printed [report]. *)
From Coq Require Import List Arith Bool.
Import ListNotations.

Inductive verdict :=
| Agree                       (* impl = model, spec holds *)
| Known (k : nat)             (* impl = model, spec fails, inside listed known-finding region k *)
| Diverge                     (* impl <> model, spec holds on what the implementation did *)
| Violates                    (* impl <> model, spec fails on what the implementation did *)
| ModelViolatesSpec.          (* impl = model, spec fails, no known region: contradicts Props/*.v *)

(** [corr]: observable of the implementation equals the model's;
    [spec_obs]: the executable spec oracle accepts what the implementation did;
    [known]: the known-finding region the input lies in, if any. *)
Definition classify_gen (corr spec_obs : bool) (known : option nat) : verdict :=
  if corr then
    if spec_obs then Agree
    else match known with Some k => Known k | None => ModelViolatesSpec end
  else if spec_obs then Diverge else Violates.

Record report := mkReport {
  r_total : nat;
  r_agree : nat;
  r_known : list (nat * nat * nat);   (* region k, count, first case index *)
  r_diverge : nat * list nat;         (* count, first indexes *)
  r_violates : nat * list nat;
  r_mvs : nat * list nat }.

Definition empty_report := mkReport 0 0 [] (0, []) (0, []) (0, []).

Fixpoint bump_known (k idx : nat) (l : list (nat * nat * nat)) : list (nat * nat * nat) :=
  match l with
  | [] => [(k, 1, idx)]
  | (k', c, i) :: tl => if Nat.eqb k k' then (k', S c, i) :: tl else (k', c, i) :: bump_known k idx tl
  end.

Definition keep := 40.
Definition bump_idx (idx : nat) (p : nat * list nat) : nat * list nat :=
  let (c, l) := p in (S c, if Nat.ltb c keep then l ++ [idx] else l).

Definition add_verdict (r : report) (iv : nat * verdict) : report :=
  let (idx, v) := iv in
  let r := mkReport (S (r_total r)) (r_agree r) (r_known r) (r_diverge r) (r_violates r) (r_mvs r) in
  match v with
  | Agree => mkReport (r_total r) (S (r_agree r)) (r_known r) (r_diverge r) (r_violates r) (r_mvs r)
  | Known k => mkReport (r_total r) (r_agree r) (bump_known k idx (r_known r)) (r_diverge r) (r_violates r) (r_mvs r)
  | Diverge => mkReport (r_total r) (r_agree r) (r_known r) (bump_idx idx (r_diverge r)) (r_violates r) (r_mvs r)
  | Violates => mkReport (r_total r) (r_agree r) (r_known r) (r_diverge r) (bump_idx idx (r_violates r)) (r_mvs r)
  | ModelViolatesSpec => mkReport (r_total r) (r_agree r) (r_known r) (r_diverge r) (r_violates r) (bump_idx idx (r_mvs r))
  end.

(** cases are numbered from [start] in list order *)
Fixpoint number {A} (start : nat) (l : list A) : list (nat * A) :=
  match l with [] => [] | a :: tl => (start, a) :: number (S start) tl end.

Definition summarize {A} (classify : A -> verdict) (start : nat) (cases : list A) : report :=
  fold_left add_verdict (map (fun ia => (fst ia, classify (snd ia))) (number start cases)) empty_report.
