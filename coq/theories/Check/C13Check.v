(** Classification of C13 requests (harness/props/c13.go). *)
From Coq Require Import ZArith List Bool Arith Strings.Byte.
From YV Require Import Base.Verdict Val.Model Req.Types Req.Match Req.UrlPath Req.JsonR Req.XPathLex.
Import ListNotations.

(** one request: kind id, structural tag of the mutation, whether the tag is one of the shape
    mismatches the property names (must be rejected), model input, observed outcome class, whether
    the data stored before the request was read back afterwards, and [matched]: (kind match) the observed
    result (1 = no match, 2 = match); (Find on a selection below the root, path with a query part) whether
    the same Find without the query part ended alike - same outcome class, same selection (1 = no, 2 = yes) *)
Inductive case := Case (kind tag : nat) (must_err : bool) (mi : minput) (o : outcome) (preserved : bool) (matched : nat).

(** the property: a normal result or an error, never a panic / hang / dead process; the shape
    mismatches the property names are errors; what was stored before is still there *)
Definition spec_ok (must_err : bool) (o : outcome) (preserved : bool) : bool :=
  match o with
  | OOk => negb must_err && preserved
  | OErr => preserved
  | _ => false
  end.

(** does the observed outcome class agree with what the model computed? *)
Definition agrees (m : mres) (o : outcome) : option bool :=
  match m with
  | MUnmodelled => None
  | MOk => Some (match o with OOk => true | _ => false end)
  | MErr => Some (match o with OErr => true | _ => false end)
  | MOkOrErr => Some (match o with OOk | OErr => true | _ => false end)
  | MPanic _ => Some (match o with OPanic _ => true | _ => false end)
  end.

Definition model_of (mi : minput) (o : outcome) (matched : nat) : option bool :=
  match mi with
  | MNone => None
  | MPath w p => agrees (find_path false w p) o
  | MRel w names row p =>
      match agrees (find_rel false w names row p) o with
      | Some b => Some (b && query_law p matched)
      | None => None
      end
  | MJson w d => agrees (read_doc false w d) o
  | MMatch segs bl cand =>
      match path_matches false segs bl cand, o with
      | MatchRes b, OOk => Some (Nat.eqb matched (if b then 2 else 1))
      | MatchPanic, OPanic _ => Some true
      | _, _ => Some false
      end
  | MXPath t => agrees (xpath_parse false t) o
  end.

(** Find with a query that names no known parameter returns what Find returns without the query *)
Definition law_ok (mi : minput) (matched : nat) : bool :=
  match mi with
  | MRel _ _ _ p => query_law p matched
  | _ => true
  end.

(** search-only requests (no model input, or outside the modelled domain) are judged by the spec alone *)
Definition classify (c : case) : verdict :=
  match c with
  | Case kind tag must_err mi o preserved matched =>
      let spec := spec_ok must_err o preserved && law_ok mi matched in
      let corr := match model_of mi o matched with Some b => b | None => spec end in
      classify_gen corr spec None
  end.
