(** Classification of C13 requests (harness/props/c13.go). *)
From Coq Require Import ZArith List Bool Arith Strings.Byte.
From YV Require Import Base.Verdict Val.Model Req.Types.
Import ListNotations.

(** one request: kind id, structural tag of the mutation, model input, observed outcome class, whether
    the data stored before the request was read back afterwards, and (kind match) the observed result *)
Inductive case := Case (kind tag : nat) (must_err : bool) (mi : minput) (o : outcome) (preserved : bool) (matched : nat).

(** the property: a normal result or an error, never a panic / hang / dead process; the shape
    mismatches the property names are errors; what was stored before is still there *)
Definition spec_ok (must_err : bool) (o : outcome) (preserved : bool) : bool :=
  match o with
  | OOk => negb must_err && preserved
  | OErr => preserved
  | _ => false
  end.

Definition classify (c : case) : verdict :=
  match c with
  | Case kind tag must_err mi o preserved matched =>
      classify_gen (spec_ok must_err o preserved) (spec_ok must_err o preserved) None
  end.
