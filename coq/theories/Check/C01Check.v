(** Classification of C01 cases (harness/props/c01.go).

    A case is a pair of module sets (a, b) generated from one internal AST, where b = T a for a
    meaning-preserving refactoring T (inline a uses, extract a grouping, move an augment's body into
    its target, move a definition into a submodule, move a grouping into an imported module,
    give every grouping definition a fresh name of its own), or
    b = a (plain load), together with what the real library delivered for both (accessor dump).

    corr:     both dumps equal the model's [compile_modset];
    spec_obs: the two dumps are equal (the refactoring law, checked on the implementation itself),
              and if b is a plain module set (one file, no grouping/uses/augment) the dump equals the
              direct reading [direct_read] of the text, which is written without any expansion
              machinery; no dump holds anything but schema nodes ([obs_complete]: every uses was
              replaced, also inside the rpcs/actions/notifications that came out of a grouping); for [CIndep] the sub-tree under the second use of a grouping is the same
              with and without the refines/augments of the first use. *)
From Coq Require Import List Bool ZArith Strings.Byte.
From YV Require Import Base.Verdict Schemac.Ast Schemac.Expand Schemac.Refactor.
Import ListNotations.

(** [ObsResidue]: the load succeeded but the walk through the accessors met a definition that is
    no schema node — a [uses] statement that was left in the compiled tree *)
Inductive obs := ObsOk (t : list enode) | ObsErr | ObsPanic | ObsResidue.

(** "every uses is replaced by a copy of the grouping's nodes": nothing but schema nodes is left *)
Definition obs_complete (o : obs) : bool := match o with ObsResidue => false | _ => true end.

Inductive case :=
| CPair (tk : nat) (a b : modset) (oa ob : obs)
| CChain (steps : list (nat * modset * obs))     (* a, T1 a, T2 (T1 a), ... each with its dump *)
| CIndep (a b : modset) (path : list text) (oa ob : obs).

Definition trees_eqb (x y : list enode) : bool := list_eqb enode_eqb x y.

Definition obs_eqb (x y : obs) : bool :=
  match x, y with
  | ObsOk s, ObsOk t => trees_eqb s t
  | ObsErr, ObsErr => true
  | _, _ => false
  end.

(** the model's tree must also satisfy the invariant the refactoring theorems assume of expanded
    trees (Refactor.ewf_list: unique sibling names, choice members are cases) *)
Definition model_obs_eqb (m : outcome (list enode)) (o : obs) : bool :=
  match m, o with
  | Ok s, ObsOk t => trees_eqb s t && ewf_list false [] s
  | Err, ObsErr => true
  | _, _ => false
  end.

(** * Direct reading of a plain module: the tree as written; config = the nearest stated value on
      the way up, root true ([nearest]); shorthand members of a choice get their implied case; cases
      sorted by name; load error iff some node states [config true] below an effective false or a
      list key is not a leaf child *)

Fixpoint nearest (l : list (option bool)) : bool :=   (* innermost first *)
  match l with
  | [] => true
  | Some b :: _ => b
  | None :: tl => nearest tl
  end.

(** members in accessor order: data definitions as written (input before output), then the
    actions by name, then the notifications by name — written without [by_class] *)
Definition ops_of (k : kind) (l : list enode) : list enode :=
  sort_by_name (filter (fun e => kind_eqb (e_kind e) k) l).

Definition data_of (l : list enode) : list enode :=
  filter (fun e => match e_kind e with KAction | KNotif => false | _ => true end) l.

Definition accessor_order (l : list enode) : list enode :=
  data_of l ++ ops_of KAction l ++ ops_of KNotif l.

Definition carries_config (k : kind) : bool :=
  match k with KAction | KInput | KOutput | KNotif => false | _ => true end.

Fixpoint read_stmt (ops_ok : bool) (anc : list (option bool)) (s : stmt) {struct s} : option enode :=
  match s with
  | SNode k n p ks _ kids =>
      (* an operation is a member of the module, a container or a list only *)
      let placed := match k with KAction | KNotif => ops_ok | _ => true end in
      (* rpc/action, input, output, notification: no config of their own, and the search for a
         stating ancestor starts afresh below them *)
      let here := if carries_config k then p_config p :: anc else [] in
      let kids_ops := match k with KCont | KList => true | _ => false end in
      let kids1 :=
        (fix go (l : list stmt) : option (list enode) :=
           match l with
           | [] => Some []
           | x :: tl =>
               let ex :=
                 match k, x with
                 | KChoice, SNode KCase _ _ _ _ _ => read_stmt kids_ops here x
                 | KChoice, SNode _ n' _ _ _ _ =>
                     match read_stmt false (None :: here) x with
                     | Some e => Some (ENode KCase n' (norm_props (set_config no_props (nearest here))) [] [e])
                     | None => None
                     end
                 | _, _ => read_stmt kids_ops here x
                 end in
               match ex, go tl with
               | Some e, Some tl' => Some (e :: tl')
               | _, _ => None
               end
           end) kids in
      match kids1 with
      | None => None
      | Some kids' =>
          let bad_cfg :=
            carries_config k &&
            match p_config p with Some true => negb (nearest anc) | _ => false end in
          let keys_bad :=
            match k with
            | KList => negb (forallb (fun key => existsb (fun c => text_eqb (e_name c) key && leafable (e_kind c)) kids') ks)
            | _ => false
            end in
          if bad_cfg || keys_bad || negb placed then None
          else Some (ENode k n (norm_props (if carries_config k then set_config p (nearest here) else p)) ks
                           (match k with
                            | KChoice | KAction => sort_by_name kids'
                            | _ => accessor_order kids'
                            end))
      end
  | _ => None
  end.

Definition direct_read (ms : modset) : obs :=
  let r := (fix go (l : list stmt) : option (list enode) :=
              match l with
              | [] => Some []
              | x :: tl => match read_stmt true [] x, go tl with
                           | Some e, Some tl' => Some (e :: tl')
                           | _, _ => None
                           end
              end) (m_body (ms_main ms)) in
  match r with Some t => ObsOk (accessor_order t) | None => ObsErr end.

(** sub-tree addressed by names from the top *)
Fixpoint sub_at (path : list text) (l : list enode) : option enode :=
  match path with
  | [] => None
  | seg :: rest =>
      match find (fun e => text_eqb (e_name e) seg) l with
      | None => None
      | Some e => match rest with [] => Some e | _ => sub_at rest (e_kids e) end
      end
  end.

Definition obs_sub (path : list text) (o : obs) : option enode :=
  match o with ObsOk t => sub_at path t | _ => None end.

Definition known_of (a b : modset) : option nat :=
  if kf_uses_when a || kf_uses_when b then Some 1%nat
  else if kf_aug_when a || kf_aug_when b then Some 2%nat
  else None.

Fixpoint chain_spec (prev : option obs) (steps : list (nat * modset * obs)) : bool :=
  match steps with
  | [] => true
  | (_, ms, o) :: tl =>
      match prev with Some p => obs_eqb p o | None => true end && obs_complete o &&
      (negb (plain_ms ms) || obs_eqb (direct_read ms) o) &&
      chain_spec (Some o) tl
  end.

Fixpoint chain_known (steps : list (nat * modset * obs)) : option nat :=
  match steps with
  | [] => None
  | (_, ms, _) :: tl =>
      match known_of ms ms with Some k => Some k | None => chain_known tl end
  end.

Definition classify (c : case) : verdict :=
  match c with
  | CChain steps =>
      let corr := forallb (fun s => model_obs_eqb (compile_modset default_fuel (snd (fst s))) (snd s)) steps in
      classify_gen corr (chain_spec None steps) (chain_known steps)
  | CPair _ a b oa ob =>
      let corr := model_obs_eqb (compile_modset default_fuel a) oa &&
                  model_obs_eqb (compile_modset default_fuel b) ob in
      let spec := obs_eqb oa ob && obs_complete oa && obs_complete ob &&
                  (negb (plain_ms b) || obs_eqb (direct_read b) ob) in
      classify_gen corr spec (known_of a b)
  | CIndep a b path oa ob =>
      let corr := model_obs_eqb (compile_modset default_fuel a) oa &&
                  model_obs_eqb (compile_modset default_fuel b) ob in
      let spec :=
        obs_complete oa && obs_complete ob &&
        match obs_sub path oa, obs_sub path ob with
        | Some x, Some y => enode_eqb x y
        | _, _ => false
        end in
      classify_gen corr spec (known_of a b)
  end.
