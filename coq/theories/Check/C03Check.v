(** Classification of C03/C09 edit scenarios (harness/props/c03.go). *)
From Coq Require Import ZArith List Bool Strings.Byte.
From YV Require Import Base.Verdict Val.Model Tree.Schema Tree.Editor Tree.Merge Tree.ChoiceInv.
Import ListNotations.

Inductive obs :=
| ObsOk (c : content)        (* the target content re-read after the call returned nil *)
| ObsErr (e : eerr)          (* error class by errors.Is: Conflict / NotFound / anything else *)
| ObsPanic.

(** one edit at a container-like entry point (module root, container, list entry): [kids] its flat
    kids, [src]/[tgt] the contents before the call *)
Inductive case :=
| CEdit (kids : list snode) (st : strategy) (src tgt : content) (o : obs)
| CEditList (lst : snode) (st : strategy) (src tgt : dnode) (o : obs).   (* entry point: a list *)

Definition res_eqb (m : res content) (o : obs) : bool :=
  match m, o with
  | Ok c, ObsOk c' => content_eqb c c'
  | Err EConflict, ObsErr EConflict | Err ENotFound, ObsErr ENotFound | Err EOther, ObsErr EOther => true
  | _, _ => false
  end.

(** the spec oracle: what C03 requires of the call *)
Definition spec_content (kids : list snode) (st : strategy) (src tgt : content) : res content :=
  match st with
  | Upsert => Ok (merge_content kids src tgt)
  | Insert => if insert_conflicts kids src tgt then Err EConflict else Ok (merge_content kids src tgt)
  | Update =>
      if missing_kids update_missing kids src tgt
      then Err ENotFound else Ok (merge_content kids src tgt)
  end.

Definition list_insert_conflict (keys : list nat) (srows trows : list dnode) : bool :=
  existsb (fun sr => match lookup_row keys sr trows with Some _ => true | None => false end) srows.

Definition classify (c : case) : verdict :=
  match c with
  | CEdit kids st src tgt o =>
      let dom := forallb choice_free kids in
      let m := edit_content false kids src tgt st in
      let corr := res_eqb m o in
      (* outside the choice-free domain the C03 oracle makes no claim; C09's applies: a conforming
         source and target (one case per choice) leave a conforming target *)
      let spec := if dom then res_eqb (spec_content kids st src tgt) o
                  else match o with
                       | ObsOk c => negb (inv_content kids src && inv_content kids tgt) || inv_content kids c
                       | ObsErr _ => true
                       | ObsPanic => false
                       end in
      classify_gen corr spec None
  | CEditList lst st src tgt o =>
      match lst with
      | SList _ keys row =>
          let m := match edit_one false lst src tgt false st with Ok (DList r) => Ok (map Some r) | Ok _ => Err EOther | Err e => Err e end in
          let o' := o in
          let spec_res :=
            match st, src, tgt with
            | Insert, DList sr, DList tr =>
                if list_insert_conflict keys sr tr then Err EConflict
                else match merge_one lst src tgt false with DList r => Ok (map Some r) | _ => Err EOther end
            | Update, _, _ =>
                if update_missing lst src tgt then Err ENotFound
                else match merge_one lst src tgt false with DList r => Ok (map Some r) | _ => Err EOther end
            | _, _, _ => match merge_one lst src tgt false with DList r => Ok (map Some r) | _ => Err EOther end
            end in
          classify_gen (res_eqb m o') (if choice_free lst then res_eqb spec_res o' else true) None
      | _ => ModelViolatesSpec
      end
  end.
