(** Executable classification of the C20 dynamic cases.  harness/props/c20.go builds
    harness/race with `go build -race` against the tree under test and runs it once per scenario
    (G goroutines x GOMAXPROCS P): every goroutine executes its plan of operations (module loads,
    export, upsert, Find with query parameters, Constrain, JSON/XML write, schema dump, delete) on
    its own data through modules shared by all; the same plans are first run alone.
    Observed: the number of race reports of the run, whether the process died, and per goroutine
    the digests of every operation's result alone ([seq]) and concurrently ([conc]).
    Model (Props/C20.v): no race, and each goroutine obtains exactly what it obtains alone. *)
From Coq Require Import ZArith List Bool.
From YV Require Import Base.Verdict.
Import ListNotations.
Open Scope Z_scope.

Fixpoint zlist_eqb (a b : list Z) : bool :=
  match a, b with
  | [], [] => true
  | x :: a', y :: b' => (x =? y) && zlist_eqb a' b'
  | _, _ => false
  end.

Inductive case :=
| CRaces (scen g p : nat) (races : Z) (crashed : bool)
| CResult (scen g p gid : nat) (seq conc : list Z).

(** the model's prediction for a scenario: zero race reports, no crash, and the concurrent result
    vector of each goroutine is its solo vector (C20_result_as_alone) *)
Definition predicted_races : Z := 0.
Definition predicted_conc (seq : list Z) : list Z := seq.

Definition classify (c : case) : verdict :=
  match c with
  | CRaces _ _ _ races crashed =>
      classify_gen ((races =? predicted_races) && negb crashed)
                   ((races <=? 0) && negb crashed) None
  | CResult _ _ _ _ seq conc =>
      classify_gen (zlist_eqb (predicted_conc seq) conc)
                   (zlist_eqb conc seq) None
  end.
