(** Classification of the C09 scenarios (harness/props/c03.go function C09, harness/props/c09n.go).

    [CHist]: one step of an upsert history on the reference store - classified by Check/C03Check.v
    (editor model + invariant of Tree/ChoiceInv.v).

    [CNode]: one step of an upsert history whose target is a library node implementation
    (nodeutil.Node over Go maps and slices), observed twice:
      - [raw]  what the target HOLDS afterwards: the harness converts the Go maps themselves, no
               library call and in particular no Choose is involved;
      - [read] what a READ of the target reports afterwards: Selection.UpsertInto a capturing
               reference store, i.e. through the target's own Choose.
    Lists created at run time by nodeutil.Node are Go maps (no insertion order): rows are compared
    as multisets, recursively.

    [CRefl]: the same two observations for a step on the Reflect map node (nodeutil.ReflectChild over
    Go maps), plus a third one: what the node's Choose itself ANSWERS for every choice of the root
    container (nested ones included), as the index of the answered case among the cases of the
    choice asked about, or [AForeign] when the answer is no case of that choice.  The hierarchy of
    the root's definitions ([defs], harness/props/c09r.go hierTerm) is an input; the model of the
    answer is the walk of Tree/ReflectChoose.v on it. *)
From Coq Require Import ZArith List Bool Strings.Byte.
From YV Require Import Base.Verdict Val.Model Tree.Schema Tree.Editor Tree.Merge Tree.ChoiceInv Tree.ReflectChoose.
From YV Require Check.C03Check.
Import ListNotations.

Inductive nobs :=
| NObsOk (raw read : content)
| NObsErr (e : eerr)
| NObsPanic.

Inductive ans := ANone | ACase (k : nat) | AForeign.

Inductive robs :=
| RObsOk (raw read : content) (answers : list (nat * ans))
| RObsErr (e : eerr)
| RObsPanic.

Inductive case :=
| CHist (c : C03Check.case)
| CNode (kids : list snode) (src tgt : content) (o : nobs)
| CRefl (defs : list cdef) (kids : list snode) (src tgt : content) (o : robs).

(** equality up to the order of list rows *)
Fixpoint dnode_eqb_u (a b : dnode) {struct a} : bool :=
  match a, b with
  | DLeaf x, DLeaf y => lval_eqb x y
  | DCont x, DCont y =>
      (fix go (p q : list (option dnode)) := match p, q with
        | [], [] => true
        | None :: p', None :: q' => go p' q'
        | Some i :: p', Some j :: q' => dnode_eqb_u i j && go p' q'
        | _, _ => false end) x y
  | DList x, DList y =>
      (fix rows (p : list dnode) (q : list dnode) {struct p} : bool :=
         match p with
         | [] => match q with [] => true | _ => false end
         | r :: p' =>
             (fix pick (seen rest : list dnode) {struct rest} : bool :=
                match rest with
                | [] => false
                | c :: rest' => if dnode_eqb_u r c then rows p' (rev_append seen rest') else pick (c :: seen) rest'
                end) [] q
         end) x y
  | _, _ => false
  end.
Fixpoint content_eqb_u (p q : content) : bool :=
  match p, q with
  | [], [] => true
  | None :: p', None :: q' => content_eqb_u p' q'
  | Some i :: p', Some j :: q' => dnode_eqb_u i j && content_eqb_u p' q'
  | _, _ => false
  end.

(** * The read side of the property, as a relation between what is held and what is reported

    "A read reports the nodes of the selected case and never the nodes of another case": every node
    the target holds is reported with its value (on a target that satisfies the invariant every held
    node belongs to the selected cases), and nothing is reported that is not held - except the
    schema default of an unset leaf whose cases are the selected ones (C04's business, tolerated
    here whether reported or not).  Written positionally over the flat kids, independently of the
    editor model. *)
Definition reads_kids (rec : snode -> dnode -> dnode -> bool) (all : list snode) (rawc : content)
  : list snode -> content -> content -> bool :=
  fix go (ks : list snode) (raw rd : content) {struct ks} : bool :=
    match ks, raw, rd with
    | [], [], [] => true
    | k :: ks', r :: raw', d :: rd' =>
        (match r, d with
         | Some rn, Some dn => rec k rn dn
         | Some _, None => false                       (* held but not reported *)
         | None, None => true
         | None, Some (DLeaf v) =>                     (* reported but not held: only a default *)
             match k with
             | SLeaf _ _ _ (Some dv) => lval_eqb dv v && guard_selected (sguard k) all rawc
             | _ => false
             end
         | None, Some _ => false
         end) && go ks' raw' rd'
    | _, _, _ => false
    end.

Fixpoint reads_as (s : snode) (raw rd : dnode) {struct s} : bool :=
  match s, raw, rd with
  | SLeaf _ _ _ _, DLeaf a, DLeaf b => lval_eqb a b
  | SCont _ kids, DCont rc, DCont dc => reads_kids reads_as kids rc kids rc dc
  | SList _ _ row, DList rr, DList dr =>
      (fix rows (p : list dnode) (q : list dnode) {struct p} : bool :=
         match p with
         | [] => match q with [] => true | _ => false end
         | r :: p' =>
             (fix pick (seen rest : list dnode) {struct rest} : bool :=
                match rest with
                | [] => false
                | c :: rest' => if reads_as row r c then rows p' (rev_append seen rest') else pick (c :: seen) rest'
                end) [] q
         end) rr dr
  | _, _, _ => false
  end.

Definition reads_content (kids : list snode) (raw rd : content) : bool :=
  reads_kids reads_as kids raw kids raw rd.

(** what the model predicts a read of content [c] delivers (TREE.md: export = edit into an empty
    target) *)
Definition model_read (kids : list snode) (c : content) : res content :=
  edit_content false kids c (empty_content kids) Upsert.

Definition classify_node (kids : list snode) (src tgt : content) (o : nobs) : verdict :=
  let m := edit_content false kids src tgt Upsert in
  let corr :=
    match m, o with
    | Ok c, NObsOk raw rd =>
        content_eqb_u c raw &&
        match model_read kids c with Ok e => content_eqb_u e rd | Err _ => false end
    | Err EConflict, NObsErr EConflict | Err ENotFound, NObsErr ENotFound | Err EOther, NObsErr EOther => true
    | _, _ => false
    end in
  let spec :=
    match o with
    | NObsOk raw rd =>
        (* conforming source and target leave a conforming target; a conforming target reads as held *)
        (negb (inv_content kids src && inv_content kids tgt) || inv_content kids raw)
        && (negb (inv_content kids raw) || reads_content kids raw rd)
    | NObsErr _ => true
    | NObsPanic => false
    end in
  classify_gen corr spec None.

(** * The Reflect map node: what Choose answers *)

Definition ans_eqb (a b : ans) : bool :=
  match a, b with
  | ANone, ANone | AForeign, AForeign => true
  | ACase x, ACase y => Nat.eqb x y
  | _, _ => false
  end.

(** the model's answer for choice [id] on a target holding [raw]: the walk over the hierarchy *)
Definition model_answer (defs : list cdef) (kids : list snode) (raw : content) (id : nat) : option ans :=
  match find_choice_defs id (hzip_defs kids raw defs) with
  | Some cases => Some (match rchoose cases with Some k => ACase k | None => ANone end)
  | None => None
  end.

(** spec of an answer, on the flat kids and independent of the walk: the answered case is a case of
    the choice asked about and some node of it (at any depth: every flat kid below it carries the
    pair on its guard) is held; "none" only when no node below the choice is held.  On a target that
    satisfies the invariant this leaves one answer. *)
Definition guard_has (c k : nat) (g : guard) : bool :=
  existsb (fun p => Nat.eqb (fst p) c && Nat.eqb (snd p) k) g.
Definition guard_under (c : nat) (g : guard) : bool := existsb (fun p => Nat.eqb (fst p) c) g.
Definition ans_ok (kids : list snode) (raw : content) (ia : nat * ans) : bool :=
  let (id, a) := ia in
  match a with
  | ACase k => existsb (fun sd => guard_has id k (sguard (fst sd)) && present (snd sd)) (combine kids raw)
  | ANone => negb (existsb (fun sd => guard_under id (sguard (fst sd)) && present (snd sd)) (combine kids raw))
  | AForeign => false
  end.

Definition classify_refl (defs : list cdef) (kids : list snode) (src tgt : content) (o : robs) : verdict :=
  let as_node := match o with
                 | RObsOk raw rd _ => NObsOk raw rd
                 | RObsErr e => NObsErr e
                 | RObsPanic => NObsPanic
                 end in
  let corr_answers :=
    match o with
    | RObsOk raw _ answers =>
        forallb (fun ia : nat * ans =>
                   match model_answer defs kids raw (fst ia) with
                   | Some a => ans_eqb a (snd ia)
                   | None => false
                   end) answers
    | _ => true
    end in
  let spec_answers :=
    match o with
    | RObsOk raw _ answers => forallb (ans_ok kids raw) answers
    | _ => true
    end in
  match classify_node kids src tgt as_node with
  | Agree => classify_gen (dump_ok defs kids && corr_answers) spec_answers None
  | Diverge => classify_gen false spec_answers None
  | v => v
  end.

Definition classify (c : case) : verdict :=
  match c with
  | CHist h => C03Check.classify h
  | CNode kids src tgt o => classify_node kids src tgt o
  | CRefl defs kids src tgt o => classify_refl defs kids src tgt o
  end.
