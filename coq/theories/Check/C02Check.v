(** Executable classification of C02 correspondence cases.  The harness (harness/props/c02.go)
    writes a module set, loads it with the real parser/compiler and records, for one leaf and each
    place its enclosing grouping is used, what the public accessors of meta.Type / meta.Leafable
    return.  Everything below is evaluated by Coq. *)
From Coq Require Import ZArith List Bool Strings.Byte.
From YV Require Import Base.Verdict Typed.Model Typed.Spec.
Import ListNotations.
Open Scope Z_scope.

Inductive observed :=
| OLoaded (uses : list oleaf)       (* one entry per use of the enclosing grouping (1 if none) *)
| OError                            (* the load returned an error *)
| OPanic.

Inductive case := CLeaf (E : env) (l : leaf) (uses : nat) (obs : observed).

Fixpoint list_eqb {A} (eq : A -> A -> bool) (a b : list A) : bool :=
  match a, b with
  | [], [] => true
  | x :: a', y :: b' => eq x y && list_eqb eq a' b'
  | _, _ => false
  end.
Definition opt_eqb {A} (eq : A -> A -> bool) (a b : option A) : bool :=
  match a, b with None, None => true | Some x, Some y => eq x y | _, _ => false end.
Definition pat_eqb (a b : text * bool) : bool := text_eqb (fst a) (fst b) && Bool.eqb (snd a) (snd b).
Definition nv_eqb (a b : text * Z) : bool := text_eqb (fst a) (fst b) && (snd a =? snd b).
Definition subset (a b : list iid) : bool := forallb (fun x => mem_iid x b) a.
Definition set_eqb (a b : list iid) : bool := subset a b && subset b a.

Fixpoint otype_eqb (a b : otype) : bool :=
  match a, b with
  | OType f1 r1 l1 p1 d1 e1 b1 t1 i1 a1 m1, OType f2 r2 l2 p2 d2 e2 b2 t2 i2 a2 m2 =>
      (f1 =? f2) && list_eqb text_eqb r1 r2 && list_eqb text_eqb l1 l2 && list_eqb pat_eqb p1 p2
      && (d1 =? d2) && list_eqb nv_eqb e1 e2 && list_eqb nv_eqb b1 b2 && opt_eqb Z.eqb t1 t2
      && list_eqb iid_eqb i1 i2 && set_eqb a1 a2
      && (fix go (x y : list otype) : bool :=
            match x, y with
            | [], [] => true
            | p :: x', q :: y' => otype_eqb p q && go x' y'
            | _, _ => false
            end) m1 m2
  end.
Definition oleaf_eqb (a b : oleaf) : bool :=
  match a, b with
  | (ta, da, ua), (tb, db, ub) =>
      otype_eqb ta tb && opt_eqb (list_eqb text_eqb) da db && text_eqb ua ub
  end.

(** the accepted sets observed are also what the derivation relation read upwards gives *)
Fixpoint upward_ok (mods : list modl) (o : otype) : bool :=
  match o with
  | OType _ _ _ _ _ _ _ _ ids acc ms =>
      (Nat.ltb 1 (List.length ids) || set_eqb acc (accepted_upward mods ids))
      && (fix go (l : list otype) : bool := match l with [] => true | m :: tl => upward_ok mods m && go tl end) ms
  end.

Definition corr (E : env) (l : leaf) (n : nat) (obs : observed) : bool :=
  match compile_uses true (leaf_fuel E l) E l n, obs with
  | Ok rs, OLoaded os => list_eqb oleaf_eqb (map (project_leaf (e_mods E)) rs) os
  | Err _, OError => true
  | Panic, OPanic => true
  | _, _ => false
  end.

Definition spec_obs (E : env) (l : leaf) (n : nat) (obs : observed) : bool :=
  match resolve (leaf_fuel E l) (e_mods E) (lf_pos l) (lf_type l) with
  | Ok r =>
      match effective_leaf E l r, obs with
      | Some o, OLoaded os =>
          Nat.eqb (List.length os) n && negb (Nat.eqb n 0)
          && forallb (fun o' => oleaf_eqb o o' && upward_ok (e_mods E) (fst (fst o'))) os
      | None, OError => true
      | _, _ => false
      end
  | Err _ => match obs with OError => true | _ => false end
  | _ => false
  end.

Definition known (E : env) (l : leaf) : option nat :=
  match resolve (leaf_fuel E l) (e_mods E) (lf_pos l) (lf_type l) with
  | Ok r =>
      if rt_negative r then Some 3%nat
      else if pat_region r then Some 1%nat
      else if multibase_region r then Some 2%nat
      else if tdrel_region r then Some 4%nat
      else None
  | _ => None
  end.

Definition classify (c : case) : verdict :=
  match c with
  | CLeaf E l n obs => classify_gen (corr E l n obs) (spec_obs E l n obs) (known E l)
  end.
