(** Executable classification of C02 correspondence cases.  The harness (harness/props/c02.go)
    writes a module set, loads it with the real parser/compiler and records, for one leaf and each
    place its enclosing grouping is used, what the public accessors of meta.Type / meta.Leafable
    return.  Everything below is evaluated by Coq. *)
From Coq Require Import ZArith List Bool Strings.Byte.
From YV Require Import Base.Verdict Typed.Model Typed.Spec Typed.FindId.
Import ListNotations.
Open Scope Z_scope.

Inductive observed :=
| OLoaded (uses : list oleaf)       (* one entry per use of the enclosing grouping (1 if none) *)
| OError                            (* the load returned an error *)
| OPanic.

(** what was observed for one text probed against the identityref type of the leaf:
    meta.FindIdentity(Type.Base(), text) (the identity returned) and node.NewValue(Type, text)
    (the label of the value, None = rejected; since repair 873d214 the search starts below the
    bases) *)
Inductive pobs :=
| PObs (found : option iid) (value : option text)
| PPanic.

Inductive case :=
| CLeaf (E : env) (l : leaf) (uses : nat) (obs : observed)
| CFind (E : env) (l : leaf) (probes : list (text * pobs)).   (* the leaf is an identityref and loaded *)

Fixpoint list_eqb {A} (eq : A -> A -> bool) (a b : list A) : bool :=
  match a, b with
  | [], [] => true
  | x :: a', y :: b' => eq x y && list_eqb eq a' b'
  | _, _ => false
  end.
Definition opt_eqb {A} (eq : A -> A -> bool) (a b : option A) : bool :=
  match a, b with None, None => true | Some x, Some y => eq x y | _, _ => false end.
Definition pat_eqb (a b : text * bool) : bool := text_eqb (fst a) (fst b) && Bool.eqb (snd a) (snd b).
Definition nv_eqb (a b : text * Z) : bool := text_eqb (fst a) (fst b) && (snd a =? snd b).
Definition subset (a b : list iid) : bool := forallb (fun x => mem_iid x b) a.
Definition set_eqb (a b : list iid) : bool := subset a b && subset b a.

Fixpoint otype_eqb (a b : otype) : bool :=
  match a, b with
  | OType f1 r1 l1 p1 d1 e1 b1 t1 i1 a1 m1, OType f2 r2 l2 p2 d2 e2 b2 t2 i2 a2 m2 =>
      (f1 =? f2) && list_eqb text_eqb r1 r2 && list_eqb text_eqb l1 l2 && list_eqb pat_eqb p1 p2
      && (d1 =? d2) && list_eqb nv_eqb e1 e2 && list_eqb nv_eqb b1 b2 && opt_eqb Z.eqb t1 t2
      && list_eqb iid_eqb i1 i2 && set_eqb a1 a2
      && (fix go (x y : list otype) : bool :=
            match x, y with
            | [], [] => true
            | p :: x', q :: y' => otype_eqb p q && go x' y'
            | _, _ => false
            end) m1 m2
  end.
Definition oleaf_eqb (a b : oleaf) : bool :=
  match a, b with
  | (ta, da, ua), (tb, db, ub) =>
      otype_eqb ta tb && opt_eqb (list_eqb text_eqb) da db && text_eqb ua ub
  end.

(** the accepted sets observed are also what the derivation relation read upwards gives *)
Fixpoint upward_ok (mods : list modl) (o : otype) : bool :=
  match o with
  | OType _ _ _ _ _ _ _ _ ids acc ms =>
      (Nat.ltb 1 (List.length ids) || set_eqb acc (accepted_upward mods ids))
      && (fix go (l : list otype) : bool := match l with [] => true | m :: tl => upward_ok mods m && go tl end) ms
  end.

Definition corr (E : env) (l : leaf) (n : nat) (obs : observed) : bool :=
  match compile_uses true (leaf_fuel E l) E l n, obs with
  | Ok rs, OLoaded os => list_eqb oleaf_eqb (map (project_leaf (e_mods E)) rs) os
  | Err _, OError => true
  | Panic, OPanic => true
  | _, _ => false
  end.

Definition spec_obs (E : env) (l : leaf) (n : nat) (obs : observed) : bool :=
  match resolve (leaf_fuel E l) (e_mods E) (lf_pos l) (lf_type l) with
  | Ok r =>
      match effective_leaf E l r, obs with
      | Some o, OLoaded os =>
          Nat.eqb (List.length os) n && negb (Nat.eqb n 0)
          && forallb (fun o' => oleaf_eqb o o' && upward_ok (e_mods E) (fst (fst o'))) os
      | None, OError => true
      | _, _ => false
      end
  | Err _ => match obs with OError => true | _ => false end
  | _ => false
  end.

Definition known (E : env) (l : leaf) : option nat :=
  match resolve (leaf_fuel E l) (e_mods E) (lf_pos l) (lf_type l) with
  | Ok r =>
      if rt_negative r then Some 3%nat
      else if pat_region r then Some 1%nat
      else if multibase_region r then Some 2%nat
      else if tdrel_region r then Some 4%nat
      else None
  | _ => None
  end.

(** ** Which identities the identityref accepts (FindIdentity, node.NewValue) *)
Definition pobs_eqb (a b : pobs) : bool :=
  match a, b with
  | PObs f1 v1, PObs f2 v2 => opt_eqb iid_eqb f1 f2 && opt_eqb text_eqb v1 v2
  | PPanic, PPanic => true
  | _, _ => false
  end.

(** the bases the compiled type of the leaf holds (model side) *)
Definition model_bases (E : env) (l : leaf) : option (list iid) :=
  match compile_uses true (leaf_fuel E l) E l 1 with
  | Ok ((t, _, _) :: _) =>
      if fmt_single (t_format t) =? FmtIdentityRef then Some (t_idents t) else None
  | _ => None
  end.

Definition model_probe (mods : list modl) (ids : list iid) (name : text) : option pobs :=
  match find_identity (find_fuel mods) mods ids name, ident_value (value_fuel mods) mods ids name with
  | Found j, Some v => Some (PObs (Some j) v)
  | NotFound, Some v => Some (PObs None v)
  | _, _ => None
  end.

Definition corr_find (E : env) (l : leaf) (probes : list (text * pobs)) : bool :=
  match model_bases E l with
  | Some ids => forallb (fun p => match model_probe (e_mods E) ids (fst p) with
                                  | Some m => pobs_eqb m (snd p)
                                  | None => false
                                  end) probes
  | None => false
  end.

(** the oracle: RFC 7950 9.10.2, an identity is a valid value iff it is derived (directly or
    indirectly, never itself) from every base; membership is decided by walking the base
    statements upwards ([accepted_upward]), the opposite direction to the implementation's
    search.  A value may carry the name of the identity's module in front of a colon. *)
Fixpoint drop_to_colon (s : text) : option text :=
  match s with
  | [] => None
  | c :: tl => if Byte.eqb c x3a then Some tl else drop_to_colon tl
  end.
Definition local_name (x : text) : text :=
  match x with
  | [] => []
  | c :: _ => if Byte.eqb c x3a then x else match drop_to_colon x with Some r => r | None => x end
  end.
Definition named (n : text) (l : list iid) : bool := existsb (fun j => text_eqb (snd j) n) l.

(** The value path (node.NewValue) is judged by the RFC at full strength.  A direct call of the
    helper meta.FindIdentity(Type.Base(), text) also answers for the candidates it is handed, that
    is its contract: an identity it returns carries the name asked for and is a base or accepted;
    it returns nothing only when no accepted identity carries the name. *)
Definition spec_probe (mods : list modl) (bases : list iid) (p : text * pobs) : bool :=
  let acc := accepted_upward mods bases in
  match snd p with
  | PPanic => false
  | PObs fnd v =>
      match fnd with
      | Some j => (mem_iid j acc || mem_iid j bases) && text_eqb (snd j) (fst p)
      | None => negb (named (fst p) acc)
      end
      && match v with
         | Some lab => text_eqb lab (local_name (fst p)) && named lab acc
         | None => negb (named (local_name (fst p)) acc)
         end
  end.

Definition otype_format (o : otype) : Z := match o with OType f _ _ _ _ _ _ _ _ _ _ => f end.
Definition otype_bases (o : otype) : list iid := match o with OType _ _ _ _ _ _ _ _ b _ _ => b end.

(** the bases RFC 7950 gives the leaf (spec side) *)
Definition spec_bases (E : env) (l : leaf) : option (list iid) :=
  match resolve (leaf_fuel E l) (e_mods E) (lf_pos l) (lf_type l) with
  | Ok r => match effective_leaf E l r with
            | Some (o, _, _) => if fmt_single (otype_format o) =? FmtIdentityRef then Some (otype_bases o) else None
            | None => None
            end
  | _ => None
  end.

Definition spec_find (E : env) (l : leaf) (probes : list (text * pobs)) : bool :=
  match spec_bases E l with
  | Some bases => forallb (spec_probe (e_mods E) bases) probes
  | None => false
  end.

(** (region 5, the name of a base accepted as a value, is closed by repair 873d214 of toIdentRef) *)
Definition known_find (E : env) (l : leaf) (probes : list (text * pobs)) : option nat :=
  match resolve (leaf_fuel E l) (e_mods E) (lf_pos l) (lf_type l), spec_bases E l with
  | Ok r, Some bases =>
      if multibase_region r then Some 2%nat
      else None
  | _, _ => None
  end.

Definition classify (c : case) : verdict :=
  match c with
  | CLeaf E l n obs => classify_gen (corr E l n obs) (spec_obs E l n obs) (known E l)
  | CFind E l ps => classify_gen (corr_find E l ps) (spec_find E l ps) (known_find E l ps)
  end.
