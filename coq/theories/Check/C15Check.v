(** Classification of C15 cases (harness/props/c15.go): one real JSONWtr run per case.
    corr: the bytes written equal the model's ([JsonW.write_bytes]); spec: the bytes lex and parse
    (RFC 8259, [JsonSpec.parse_bytes]) as exactly one value and that value meets the expectation
    tree of the exported content ([JsonExp.estart] / [matches]).  Output-stream faults: for every
    failing position the call must report an error exactly when the document did not fit. *)
From Coq Require Import ZArith List Bool Strings.Byte.
From YV Require Import Base.Verdict Val.Model Tree.Schema Tree.Export Tree.JStr Tree.JsonSpec Tree.JsonExp Tree.JsonW.
Import ListNotations.
Open Scope Z_scope.

(** oracle tables supplied by the harness: decimal text of every binary64 in the data
    (strconv.FormatFloat 'f' -1 64) and the defining module of every identity *)
Definition ftab := list (Z * Z * list byte).
Definition idtab := list (ident * ident).
Definition ftab_lookup (t : ftab) (m e : Z) : list byte :=
  match find (fun r => (fst (fst r) =? m) && (snd (fst r) =? e)) t with Some r => snd r | None => [] end.
Definition idtab_lookup (t : idtab) (l : ident) : option ident :=
  match find (fun r => ident_eqb (fst r) l) t with Some r => Some (snd r) | None => None end.

(** helpers for the harness: the entry schema of a list, the start at a leaf *)
Definition row_of (s : snode) : snode := match s with SList _ _ row => row | _ => s end.
Definition mk_leaf_start (s : snode) (v : option lval) : start := StLeaf (smeta s) v.

Inductive case :=
| CWrite (cfg : wcfg) (ft : ftab) (it : idtab) (st : start) (err : bool) (out : list byte)
    (* the call returned an error? / the bytes that reached Out *)
| CFault (cfg : wcfg) (ft : ftab) (it : idtab) (st : start) (out : list byte) (caps : list nat) (errs : list bool).
    (* [out]: fault-free output; for every cap in [caps]: Out accepts [cap] bytes, then fails; did the call return an error *)

Fixpoint bools_eqb (a b : list bool) : bool :=
  match a, b with
  | [], [] => true
  | x :: a', y :: b' => Bool.eqb x y && bools_eqb a' b'
  | _, _ => false
  end.

Definition classify (c : case) : verdict :=
  match c with
  | CWrite cfg ft it st err out =>
      let model := write_bytes cfg (ftab_lookup ft) (idtab_lookup it) st in
      let corr := match model, err with
                  | Some b, false => bytes_eqb b out
                  | None, true => true
                  | _, _ => false
                  end in
      let exp := estart cfg (idtab_lookup it) st in
      let spec := match exp with
                  | None => err                               (* no JSON value stands for this data: an error is due *)
                  | Some e => negb err &&
                              match parse_bytes out with Some v => matches e v | None => false end
                  end in
      let known := match exp with Some e => if exp_utf8 e then None else Some 1%nat | None => None end in
      classify_gen corr spec known
  | CFault cfg ft it st out caps errs =>
      let model := match wstart cfg (ftab_lookup ft) (idtab_lookup it) st with
                   | Some ts => Some (map (fun n => stream_result (Some n) (ops_of ts)) caps)
                   | None => None
                   end in
      let corr := match model with Some m => bools_eqb m errs | None => false end in
      let spec := bools_eqb (map (fun n => Nat.ltb n (length out)) caps) errs in
      classify_gen corr spec None
  end.
