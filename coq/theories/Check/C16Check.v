(** Classification of the C16 correspondence cases (harness/props/c16.go).
    corr     : what the real library did = what Tree/XPathLex.v + Tree/When.v compute on that input;
    spec_obs : what it did is what Tree/WhenSpec.v requires (mathematical truth of the comparison on the
               readings the path reaches, intended placement of the conditions, hidden = absent,
               where/filter keep exactly the entries/events that satisfy the expression, no panic);
    known    : listed regions where the pinned code is known to violate the property. *)
From Coq Require Import ZArith List Bool Lia Strings.Byte.
From YV Require Import Base.Verdict Base.Wrap Val.Model Val.Proofs Tree.Schema Tree.Editor
  Tree.XPathLex Tree.When Tree.WhenSpec.
Import ListNotations.
Open Scope Z_scope.

(** observed parse result: a float64 literal is given as m * 2^e *)
Inductive olit := OInt (z : Z) | OFloat (m e : Z) | OStr (s : list byte).
Definition oseg := (list byte * option (xop * olit))%type.
Inductive opres := OPOk (p : list oseg) | OPErr | OPPanic.
Inductive eobs := EBool (b : bool) | EErr | EPanic.
Inductive xobs := OOk (c : content) | OErr | OPanic.
Inductive lobs := LOk (rows : list dnode) | LErr | LPanic.

Inductive case :=
| CParse (s : list byte) (want : option path) (o : opres)
| CEval (kids : list snode) (c : content) (expr : list byte) (want : option cmp_expr) (o : eobs)
| CExport (kids : list snode) (c : content) (it : intent) (o : xobs)
| CWhere (rkids : list snode) (rows : list dnode) (expr : list byte) (want : option cmp_expr) (it : intent) (o : lobs)
| CFilter (kids : list snode) (events : list content) (expr : list byte) (want : option cmp_expr) (o : list Z)
    (* per event: 0 dropped, 1 delivered, 2 delivered as an error, 3 panic *)
| CEdit (kids : list snode) (src tgt : content) (it : intent) (o : xobs).

Definition xop_eqb (a b : xop) : bool :=
  match a, b with
  | OEq, OEq | ONe, ONe | OLt, OLt | OLe, OLe | OGt, OGt | OGe, OGe => true
  | _, _ => false
  end.

Definition lit_obs_eqb (l : literal) (o : olit) : bool :=
  match l, o with
  | LInt z, OInt z' => z =? z'
  | LDec n k, OFloat m e =>
      match lit_float n k with Some (m', e') => dec_cmp m' e' m e =? 0 | None => false end
  | LStr s, OStr s' => bytes_eqb s s'
  | _, _ => false
  end.

Definition seg_obs_eqb (s : seg) (o : oseg) : bool :=
  bytes_eqb (fst s) (fst o) &&
  match snd s, snd o with
  | None, None => true
  | Some (op, l), Some (op', l') => xop_eqb op op' && lit_obs_eqb l l'
  | _, _ => false
  end.

Fixpoint path_obs_eqb (p : path) (o : list oseg) : bool :=
  match p, o with
  | [], [] => true
  | s :: p', t :: o' => seg_obs_eqb s t && path_obs_eqb p' o'
  | _, _ => false
  end.

Definition pres_eqb (m : pres) (o : opres) : bool :=
  match m, o with
  | POk p, OPOk q => path_obs_eqb p q
  | PErr, OPErr | PPanic, OPPanic => true
  | _, _ => false
  end.

Definition eres_eqb (m : xres bool) (o : eobs) : bool :=
  match m, o with
  | XOk b, EBool b' => Bool.eqb b b'
  | XErr, EErr | XPanic, EPanic => true
  | _, _ => false
  end.

Definition xres_eqb (m : xres content) (o : xobs) : bool :=
  match m, o with
  | XOk c, OOk c' => content_eqb c c'
  | XErr, OErr | XPanic, OPanic => true
  | _, _ => false
  end.

Fixpoint rows_eqb (a b : list dnode) : bool :=
  match a, b with
  | [], [] => true
  | x :: a', y :: b' => dnode_eqb x y && rows_eqb a' b'
  | _, _ => false
  end.

Definition lres_eqb (m : xres (list dnode)) (o : lobs) : bool :=
  match m, o with
  | XOk r, LOk r' => rows_eqb r r'
  | XErr, LErr | XPanic, LPanic => true
  | _, _ => false
  end.

Fixpoint zs_eqb (a b : list Z) : bool :=
  match a, b with
  | [], [] => true
  | x :: a', y :: b' => (x =? y) && zs_eqb a' b'
  | _, _ => false
  end.

(** ** known-finding regions (KNOWN_FINDINGS.txt, property=C16) *)
(** every node of the schema, with the definitions of its holder *)
Fixpoint all_nodes (s : snode) : list snode :=
  s :: match s with
       | SCont _ kids => flat_map all_nodes kids
       | SList _ _ row => tl (all_nodes row)      (* the row container stands for the list itself *)
       | SLeaf _ _ _ _ => []
       end.
Definition schema_nodes (kids : list snode) : list snode := flat_map all_nodes kids.

Definition when_exprs (kids : list snode) : list cmp_expr :=
  flat_map (fun s => match nm_when (smeta s) with
                     | Some w => match xparse w with
                                 | POk p => match as_cmp p with Some e => [e] | None => [] end
                                 | _ => []
                                 end
                     | None => []
                     end) (schema_nodes kids).

(** 1: the operand leaf of some expression carries a 'when' itself: reading it panics *)
Definition region_operand_when (kids : list snode) (extra : list cmp_expr) : bool :=
  existsb (fun e => existsb (fun s => is_leaf s && has_when s && ident_eqb (sname s) (ce_leaf e))
                            (schema_nodes kids))
          (when_exprs kids ++ extra).
(** 2: 'when' placed on a list *)
Definition region_list_when (kids : list snode) : bool :=
  existsb (fun s => match s with SList _ _ _ => has_when s | _ => false end) (schema_nodes kids).
(** 3 / 4: conditions inherited from an augment / a uses *)
Definition region_origin (it : intent) (origin : nat) : bool :=
  existsb (fun e => Nat.eqb (snd (fst e)) origin) it.
(** 5: writing a container that carries a 'when' *)
Definition region_cont_when_write (kids : list snode) : bool :=
  existsb (fun s => match s with SCont _ _ => has_when s | _ => false end) (schema_nodes kids).

Definition first_region (l : list (bool * nat)) : option nat :=
  match filter fst l with (_, k) :: _ => Some k | [] => None end.

Definition no_whens (kids : list snode) : bool :=
  forallb (fun s => negb (has_when s)) (schema_nodes kids).

Definition editor_export (kids : list snode) (c : content) : xres content :=
  match edit_content false kids c (empty_content kids) Upsert with
  | Ok c' => XOk c'
  | Err _ => XErr
  end.

(** ** specification oracles per case kind *)
Definition spec_eval (kids : list snode) (c : content) (want : option cmp_expr) (o : eobs) : bool :=
  match want with
  | None => true
  | Some e =>
      (match path_type kids (ce_path e) (ce_leaf e), o with
       | Some _, EPanic => false              (* a comparison on a leaf of the schema never crashes *)
       | _, _ => true
       end) &&
      match spec_cmp kids c e with
      | Some b => match o with EBool b' => Bool.eqb b b' | _ => false end
      | None => true
      end
  end.

Definition spec_rows (rkids : list snode) (rows : list dnode) (e : cmp_expr) (it : intent) : xres (list dnode) :=
  fold_right (fun r acc =>
                match r with
                | DCont rc =>
                    match spec_cmp rkids rc e with
                    | None => XUnsup
                    | Some true => xcons (spec_export_row it rkids r) acc
                    | Some false => acc
                    end
                | _ => XUnsup
                end) (XOk []) rows.

Definition spec_filter (kids : list snode) (events : list content) (e : cmp_expr) : option (list Z) :=
  fold_right (fun ev acc =>
                match spec_cmp kids ev e, acc with
                | Some b, Some l => Some ((if b then 1 else 0) :: l)
                | _, _ => None
                end) (Some []) events.

(** writer side: the source without the leaves and containers whose intended conditions fail on the
    target (a container's own conditions are read in the target's container, an absent one being empty) *)
Fixpoint prune_src (it : intent) (pth : list nat) (kids : list snode) (src : content) (i : nat)
         (allk : list snode) (alltgt : content) {struct kids} : xres content :=
  match kids, src with
  | k :: kids', d :: src' =>
      let me : xres (option dnode) :=
        match k, d with
        | _, None => XOk None
        | SLeaf _ _ _ _, Some v =>
            xbind (all_hold allk alltgt allk alltgt (conds_at it (pth ++ [i]))) (fun ok => XOk (if ok then Some v else None))
        | SCont _ kk, Some v =>
            let own := match nth i alltgt None with Some (DCont cc) => cc | _ => empty_content kk end in
            xbind (all_hold allk alltgt kk own (conds_at it (pth ++ [i]))) (fun ok => XOk (if ok then Some v else None))
        | SList _ _ _, Some v => XOk (Some v)
        end in
      xcons me (prune_src it pth kids' src' (S i) allk alltgt)
  | _, _ => XOk []
  end.

Definition intent_depth1 (it : intent) : bool :=
  forallb (fun e => Nat.eqb (length (fst (fst e))) 1) it.

Definition intent_on_list (it : intent) (kids : list snode) : bool :=
  existsb (fun e => match fst (fst e) with
                    | [i] => match nth i kids (SCont (mkMeta [] [] true [] None) []) with SList _ _ _ => true | _ => false end
                    | _ => false
                    end) it.

Definition spec_edit (kids : list snode) (src tgt : content) (it : intent) (final : content) : xres content :=
  if negb (intent_depth1 it) || intent_on_list it kids then XUnsup else
  xbind (prune_src it [] kids src O kids tgt) (fun p1 =>
  xbind (prune_src it [] kids src O kids final) (fun p2 =>
    (* "current data" is unambiguous only if the conditions read the same before and after *)
    if content_eqb p1 p2 then
      match edit_content false kids p1 tgt Upsert with Ok c' => XOk c' | Err _ => XUnsup end
    else XUnsup)).

(** an edit never fails because of a condition: it skips what is hidden *)
Definition spec_edit_err (kids : list snode) (src tgt : content) (it : intent) : bool :=
  if negb (intent_depth1 it) then true else
  match prune_src it [] kids src O kids tgt with
  | XOk _ => match edit_content false kids src tgt Upsert with Err _ => true | Ok _ => false end
  | _ => true
  end.

Definition classify (c : case) : verdict :=
  match c with
  | CParse s want o =>
      classify_gen (pres_eqb (xparse s) o)
                   (match want with Some p => pres_eqb (POk p) o | None => true end) None
  | CEval kids c expr want o =>
      classify_gen (eres_eqb (xpredicate kids c expr) o) (spec_eval kids c want o)
                   (first_region [(region_operand_when kids (match want with Some e => [e] | None => [] end), 1%nat)])
  | CExport kids c it o =>
      let m := wexport true kids c in
      let corr := xres_eqb m o && (if no_whens kids then xres_eqb (editor_export kids c) o else true) in
      let spec := match o with OPanic => false | _ => true end &&
                  match spec_export it kids c with
                  | XOk c' => xres_eqb (XOk c') o
                  | _ => true
                  end in
      classify_gen corr spec
        (first_region [(region_operand_when kids [], 1%nat); (region_list_when kids, 2%nat);
                       (region_origin it 1, 3%nat); (region_origin it 2, 4%nat)])
  | CWhere rkids rows expr want it o =>
      let spec := match o with LPanic => false | _ => true end &&
                  match want with
                  | Some e => match spec_rows rkids rows e it with
                              | XOk r => lres_eqb (XOk r) o
                              | _ => true
                              end
                  | None => true
                  end in
      classify_gen (lres_eqb (where_rows rkids expr rows) o) spec
        (first_region [(region_operand_when rkids (match want with Some e => [e] | None => [] end), 1%nat);
                       (region_list_when rkids, 2%nat)])
  | CFilter kids events expr want o =>
      let m := map (fun ev => match filter_event kids expr ev with
                              | FKeep => 1 | FDrop => 0 | FError => 2 | FPanic => 3 | FUnsup => 4 end) events in
      let spec := negb (existsb (fun z => z =? 3) o) &&
                  match want with
                  | Some e => match spec_filter kids events e with Some l => zs_eqb l o | None => true end
                  | None => true
                  end in
      classify_gen (zs_eqb m o) spec
        (first_region [(region_operand_when kids (match want with Some e => [e] | None => [] end), 1%nat)])
  | CEdit kids src tgt it o =>
      let spec := match o with
                  | OOk final => match spec_edit kids src tgt it final with
                                 | XOk c' => content_eqb c' final
                                 | _ => true
                                 end
                  | OErr => spec_edit_err kids src tgt it
                  | OPanic => false
                  end in
      classify_gen (xres_eqb (wupsert kids src tgt) o) spec
        (first_region [(region_operand_when kids [], 1%nat); (region_list_when kids, 2%nat);
                       (region_cont_when_write kids, 5%nat)])
  end.
