(** Classification of C19 cases (harness/props/c19.go).

    CDoc: one selection of one data tree written by one writer configuration.  The harness passes
      - the element tree it obtained by tokenising the REAL output with Go's encoding/xml (an oracle:
        the tokenizer is trusted, the repo's copy patch/xml is what wrote the bytes),
      - whether that tokenisation succeeded with exactly one root element ([wf]),
      - the tree obtained by ReadXMLDoc + UpsertFrom of the real output into an empty store,
      - the same for re-serialised documents whose sibling elements were interleaved.
    CEsc / CUnesc: patch/xml EscapeText and the decoder's character data, byte for byte. *)
From Coq Require Import ZArith List Bool Strings.Byte.
From YV Require Import Base.Verdict Val.Model Tree.Schema Tree.Editor Tree.Merge Tree.XmlEsc Tree.XmlSpec Tree.XmlW Tree.XmlR.
Import ListNotations.

Inductive obs :=
| ObsOk (d : dnode)         (* the target re-read after UpsertFrom returned nil *)
| ObsErr                    (* ReadXMLDoc or UpsertFrom returned an error *)
| ObsPanic.

(** writer configurations: 0 WriteXMLDoc (XMLWtr2)   1 WriteXML (XMLWtr)   2 XMLWtr{EnumAsIds}.XML *)
Inductive case :=
| CDoc (nss : list (ident * text)) (s : snode) (d : dnode) (cfg : nat)
       (wrote : option xelem) (wf : bool) (back : obs) (perms : list (xelem * option obs))
| CRow (nss : list (ident * text)) (lst : snode) (d : dnode) (cfg : nat)      (* selection = an entry of list [lst] *)
       (wrote : option xelem) (wf : bool) (back : obs) (perms : list (xelem * option obs))
       (* perms: an interleaved document and what was read back from it; None = the same tree as [back]
          (the harness compares the emitted terms), to keep the case files small *)
| CEsc (t escaped : text) (decoded : option text)
| CUnesc (raw : text) (decoded : option text).

Definition cfg_stream (cfg : nat) : bool := match cfg with 1%nat | 2%nat => true | _ => false end.
Definition cfg_ids (cfg : nat) : bool := match cfg with 2%nat => true | _ => false end.

Definition model_write (nss : list (ident * text)) (cfg : nat) (s : snode) (d : dnode) : option xelem :=
  write_doc nss (cfg_ids cfg) dec_text false (cfg_stream cfg) s d.
Definition model_read (nss : list (ident * text)) (s : snode) (x : xelem) : res dnode :=
  read_doc nss parse_dec_exact false false s x.

Definition oxelem_eqb (a b : option xelem) : bool :=
  match a, b with
  | None, None => true
  | Some x, Some y => xelem_eqb x y
  | _, _ => false
  end.
Definition res_obs_eqb (m : res dnode) (o : obs) : bool :=
  match m, o with
  | Ok a, ObsOk b => dnode_eqb a b
  | Err _, ObsErr => true
  | _, _ => false
  end.

(** the spec oracle "the same tree" ([same_tree], [canon]) and the text domain ([texts_ok]) are in
    Tree/XmlSpec.v.  Domain of the spec: conforming data - data shaped like the schema (choices
    included: at most one case populated is the generator's business), every string made of
    characters XML 1.0 can carry. *)
Definition in_domain (s : snode) (d : dnode) : bool := shaped s d && texts_ok d.

Definition back_ok (s : snode) (d : dnode) (o : obs) : bool :=
  match o with ObsOk b => same_tree s b d | _ => false end.

Definition classify_doc (nss : list (ident * text)) (s : snode) (d : dnode) (cfg : nat)
    (wrote : option xelem) (wf : bool) (back : obs) (perms : list (xelem * option obs)) : verdict :=
  let pobs (po : xelem * option obs) : obs := match snd po with Some o => o | None => back end in
  let corr :=
    oxelem_eqb (model_write nss cfg s d) wrote &&
    match wrote with
    | Some x =>
        res_obs_eqb (model_read nss s x) back &&
        forallb (fun po => res_obs_eqb (model_read nss s (fst po)) (pobs po)) perms
    | None => true
    end in
  let spec :=
    if in_domain s d then
      wf && match wrote with Some x => doc_wf x | None => false end &&
      back_ok s d back && forallb (fun po => back_ok s d (pobs po)) perms
    else true in
  classify_gen corr spec None.

Definition classify (c : case) : verdict :=
  match c with
  | CDoc nss s d cfg wrote wf back perms => classify_doc nss s d cfg wrote wf back perms
  | CRow nss lst d cfg wrote wf back perms =>
      match lst with
      | SList _ _ row => classify_doc nss row d cfg wrote wf back perms
      | _ => ModelViolatesSpec
      end
  | CEsc t escaped decoded =>
      let corr := text_eqb (escape t) escaped &&
                  otext_eqb (unescape escaped) decoded in
      (* escaped text contains no markup and decodes to the original when XML can carry it *)
      let spec := negb (existsb (fun b => byte_eqb b x3c) escaped) &&
                  (if xml_okb t then otext_eqb decoded (Some t) else true) in
      classify_gen corr spec None
  | CUnesc raw decoded =>
      classify_gen (otext_eqb (unescape raw) decoded) true None
  end.
