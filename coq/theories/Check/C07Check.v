(** Classification of C07 query cases (harness/props/c07.go).

    case = the flat kids and the content at the target selection, the decoded query (name, value)
    pairs in order, for path-expression values the expression tree the generator printed them from
    (when it generated one), whether the source store was unchanged after the read, and what
    Constrain/Find + UpsertInto(capture) was observed to do.

      corr     : observed = Params.read_query (the model of BuildConstraints + the constrained reader)
      spec_obs : the parameters are read DECLARATIVELY (Tree/Reading.v [interpret]: membership of
                 each value in its grammar; a path expression is denoted by [PathExpr.denote] of
                 its tree, the raw value having to be [print] of that tree) and then
                   invalid parameter  -> any error is what the property demands
                   valid parameters P -> observed = Project.spec_read P (projection of the full
                                         read, container bound), and the store is unchanged

    CChain: the parameters reach the selection that is read in SEVERAL STEPS (Find(path?q1), then
    Find(rest?q2) / Constrain(q2), ...), and/or the target of the read is a LIST (the capture is a
    list node; its rows are reported as the one-slot content [Some (DList rows)]).
      corr     : observed = Chain.read_steps_* (one group of constraint entries per step)
      spec_obs : every step read declaratively ([ProjectChain.interpret_chain]); some step
                 invalid -> any error; else observed = ProjectChain.spec_chain* (a node is kept
                 when every step keeps it, a row when it lies in every window given for its list,
                 every container bound holds), and the store is unchanged
      known 1  : two or more steps carry fc.range (KNOWN_FINDINGS.txt; Props C07_chain_partial /
                 C07_chain_full_statement_refuted)

    CParse: the expression parser alone (node.ParsePathExpression(s).String()), on expression trees
    of any shape (runs of 1..12 plain segments before / between / inside groups) and raw strings.
      corr     : observed = PathExpr.parse_path_expr s = PathMem.parse_mem s
      spec_obs : with a tree (whose print is s): the observed paths and [denote] of the tree are
                 the same set; without: accepted iff [balanced] *)
From Coq Require Import ZArith List Bool Strings.Byte Strings.String.
From YV Require Import Base.Verdict Val.Model Tree.Schema Tree.Editor Tree.Merge Tree.PathExpr Tree.Params Tree.Project Tree.Reading Tree.Chain Tree.ProjectChain Tree.PathMem.
Import ListNotations.
Open Scope Z_scope.

Inductive oerr := OBadRequest | ONotImplemented | OConflict | OOther.
Inductive obs :=
| ObsOk (c : content)        (* the capture after UpsertInto returned nil *)
| ObsErr (e : oerr)          (* error class by errors.Is, from Constrain/Find or from UpsertInto *)
| ObsPanic.

(** where the read starts: a container-like selection (module root, container, list entry: its
    flat kids and content) or a list selection (the list's schema node and its rows) *)
Inductive target :=
| TCont (kids : list snode) (data : content)
| TList (l : snode) (rows : list dnode).

(** what node.ParsePathExpression(s) was observed to do: the paths String() prints, or the error *)
Inductive pobs := PObsPaths (ps : paths) | PObsErr (e : oerr) | PObsPanic.

Inductive case :=
| CRead (kids : list snode) (data : content) (q : query)
        (asts : list (list byte * pexpr))     (* parameter name -> tree of its path expression *)
        (unchanged : bool) (o : obs)
| CChain (t : target) (steps : list query)
         (asts : list (list (list byte * pexpr)))   (* per step: parameter name -> expression tree *)
         (unchanged : bool) (o : obs)
| CParse (ast : option pexpr) (s : list byte) (o : pobs).

Definition res_eqb (m : pres content) (o : obs) : bool :=
  match m, o with
  | POk c, ObsOk c' => content_eqb c c'
  | PErr PBadRequest, ObsErr OBadRequest => true
  | PErr PNotImplemented, ObsErr ONotImplemented => true
  | PErr PConflict, ObsErr OConflict => true
  | PErr PDepthZero, ObsErr OOther => true
  | PErr PPanic, ObsPanic => true
  | _, _ => false
  end.

Definition is_error (o : obs) : bool := match o with ObsErr _ => true | _ => false end.

Fixpoint paths_eqb (a b : paths) : bool :=
  match a, b with
  | [], [] => true
  | x :: a', y :: b' => ident_list_eqb x y && paths_eqb a' b'
  | _, _ => false
  end.
Definition parse_eqb (m : pres paths) (o : pobs) : bool :=
  match m, o with
  | POk ps, PObsPaths ps' => paths_eqb ps ps'
  | PErr PBadRequest, PObsErr OBadRequest => true
  | PErr PPanic, PObsPanic => true
  | _, _ => false
  end.
(** every path of a is a path of b *)
Definition paths_subset (a b : paths) : bool := forallb (fun p => existsb (ident_list_eqb p) b) a.

Definition classify (c : case) : verdict :=
  match c with
  | CRead kids data q asts unchanged o =>
      let dom := forallb choice_free kids && forallb wf_schema kids
                 && shaped (SCont root_meta kids) (DCont data) in
      (* the reader without constraints is the shared export model (TREE.md: export = edit into
         an empty target), checked on every case *)
      let bridge := match edit_content false kids data (empty_content kids) Upsert, read_content None kids data with
                    | Ok c, POk c' => content_eqb c c'
                    | _, _ => false
                    end in
      let corr := res_eqb (read_query kids data q) o && (bridge || negb dom) in
      let spec :=
        if dom then
          match interpret q asts with
          | TBad => is_error o
          | TOk P => res_eqb (spec_read P kids data) o && unchanged
          | TUnk => false
          end
        else true in
      classify_gen corr spec None
  | CChain t steps asts unchanged o =>
      let as_content (r : pres (list dnode)) : pres content :=
        match r with POk rows => POk [Some (DList rows)] | PErr e => PErr e end in
      let dom := match t with
                 | TCont kids data => forallb choice_free kids && forallb wf_schema kids
                                      && shaped (SCont root_meta kids) (DCont data)
                 | TList l rows => choice_free l && wf_schema l && shaped l (DList rows)
                                   && match l with SList _ _ _ => true | _ => false end
                 end in
      let model := match t with
                   | TCont kids data => read_steps_content kids data steps
                   | TList l rows => as_content (read_steps_rows l rows steps)
                   end in
      let corr := res_eqb model o in
      let spec :=
        if dom then
          match interpret_chain steps asts with
          | TBad => is_error o
          | TOk Ps => res_eqb (match t with
                               | TCont kids data => spec_chain Ps kids data
                               | TList l rows => as_content (spec_chain_rows Ps l rows)
                               end) o && unchanged
          | TUnk => false
          end
        else true in
      (* known finding 1: two or more steps of the chain carry fc.range (their windows do not
         intersect: the start row of the later step replaces the earlier one) *)
      let known := match interpret_chain steps asts with
                   | TOk Ps => if (2 <=? range_steps Ps)%nat then Some 1%nat else None
                   | _ => None
                   end in
      classify_gen corr spec known
  | CParse ast s o =>
      (* the list-level parser AND the slice-level one (Tree/PathMem.v: append into shared spare
         capacity modelled under Go's growth policy) *)
      let corr := parse_eqb (parse_path_expr s) o && parse_eqb (parse_mem s) o in
      let spec :=
        match ast with
        | Some e =>
            (* the expression names exactly the paths its tree denotes (as a set) *)
            if bytes_eqb (print_top e) s && wf_exprb e then
              match o with
              | PObsPaths ps => paths_subset ps (denote e) && paths_subset (denote e) ps
              | _ => false
              end
            else false
        | None =>
            (* no tree: accepted iff the parentheses are balanced *)
            match o with
            | PObsPaths _ => balanced s 0
            | PObsErr _ => negb (balanced s 0)
            | PObsPanic => false
            end
        end in
      classify_gen corr spec None
  end.
