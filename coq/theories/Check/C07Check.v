(** Classification of C07 query cases (harness/props/c07.go).

    case = the flat kids and the content at the target selection, the decoded query (name, value)
    pairs in order, for path-expression values the expression tree the generator printed them from
    (when it generated one), whether the source store was unchanged after the read, and what
    Constrain/Find + UpsertInto(capture) was observed to do.

      corr     : observed = Params.read_query (the model of BuildConstraints + the constrained reader)
      spec_obs : the parameters are read DECLARATIVELY ([interpret]: membership of each value in its
                 grammar; a path expression is denoted by [PathExpr.denote] of its tree, the raw
                 value having to be [print] of that tree) and then
                   invalid parameter  -> any error is what the property demands
                   valid parameters P -> observed = Project.spec_read P (projection of the full
                                         read, container bound), and the store is unchanged *)
From Coq Require Import ZArith List Bool Strings.Byte Strings.String.
From YV Require Import Base.Verdict Val.Model Tree.Schema Tree.Editor Tree.Merge Tree.PathExpr Tree.Params Tree.Project.
Import ListNotations.
Open Scope Z_scope.

Inductive oerr := OBadRequest | ONotImplemented | OConflict | OOther.
Inductive obs :=
| ObsOk (c : content)        (* the capture after UpsertInto returned nil *)
| ObsErr (e : oerr)          (* error class by errors.Is, from Constrain/Find or from UpsertInto *)
| ObsPanic.

Inductive case :=
| CRead (kids : list snode) (data : content) (q : query)
        (asts : list (list byte * pexpr))     (* parameter name -> tree of its path expression *)
        (unchanged : bool) (o : obs).

Definition res_eqb (m : pres content) (o : obs) : bool :=
  match m, o with
  | POk c, ObsOk c' => content_eqb c c'
  | PErr PBadRequest, ObsErr OBadRequest => true
  | PErr PNotImplemented, ObsErr ONotImplemented => true
  | PErr PConflict, ObsErr OConflict => true
  | PErr PDepthZero, ObsErr OOther => true
  | PErr PPanic, ObsPanic => true
  | _, _ => false
  end.

(** * declarative reading of the parameters *)
Inductive reading := Invalid | Valid (P : option params) | Unreadable.

Definition ast_for (name : list byte) (asts : list (list byte * pexpr)) : option pexpr :=
  match find (fun a => bytes_eqb (fst a) name) asts with Some (_, e) => Some e | None => None end.

(** value of a path-expression parameter: Some None = invalid *)
Definition read_expr (name v : list byte) (asts : list (list byte * pexpr)) : option (option paths) :=
  match ast_for name asts with
  | Some e => if bytes_eqb (print_top e) v then Some (Some (denote e)) else None   (* harness inconsistency *)
  | None =>
      if balanced v 0
      then match parse_path_expr v with POk ps => Some (Some ps) | PErr _ => None end
      else Some None
  end.

Definition interpret (q : query) (asts : list (list byte * pexpr)) : reading :=
  match q with
  | [] => Valid None
  | _ =>
      let depth := match lookup (B "depth") q with
                   | None => Some (Some 64)
                   | Some v => match atoi v with Some n => if 1 <=? n then Some (Some n) else Some None | None => Some None end
                   end in
      let maxn := match lookup (B "fc.max-node-count") q with
                  | None => Some (Some 10000)
                  | Some v => match atoi v with Some n => if 0 <=? n then Some (Some n) else Some None | None => Some None end
                  end in
      let cont := match lookup (B "content") q with
                  | None => Some (Some None)
                  | Some v => if bytes_eqb v (B "config") then Some (Some (Some CConfig))
                              else if bytes_eqb v (B "nonconfig") then Some (Some (Some CNonconfig))
                              else if bytes_eqb v (B "all") then Some (Some (Some CAll)) else Some None
                  end in
      let trim := match lookup (B "with-defaults") q with
                  | None => Some (Some false)
                  | Some v => if bytes_eqb v (B "trim") then Some (Some true)
                              else if bytes_eqb v (B "report-all") then Some (Some false) else Some None
                  end in
      let fields := match lookup (B "fields") q with
                    | None => Some (Some None)
                    | Some v => match read_expr (B "fields") v asts with
                                | Some (Some ps) => Some (Some (Some ps)) | Some None => Some None | None => None end
                    end in
      let xfields := match lookup (B "fc.xfields") q with
                     | None => Some (Some None)
                     | Some v => match read_expr (B "fc.xfields") v asts with
                                 | Some (Some ps) => Some (Some (Some ps)) | Some None => Some None | None => None end
                     end in
      (* fc.range = selector ! start [ - [ end ] ] with unsigned decimal rows *)
      let range := match lookup (B "fc.range") q with
                   | None => Some (Some None)
                   | Some v =>
                       match cut_at x21 v [] with
                       | None => Some None
                       | Some (sel, rows) =>
                           let rows_ok :=
                             match cut_at x2d rows [] with
                             | None => Some (atoi rows, Some (-1))
                             | Some (st, en) => Some (atoi st, match en with [] => Some (-1) | _ => atoi en end)
                             end in
                           match rows_ok with
                           | Some (Some st, Some en) =>
                               match read_expr (B "fc.range") sel asts with
                               | Some (Some ps) => Some (Some (Some (ps, st, en)))
                               | Some None => Some None
                               | None => None
                               end
                           | _ => Some None
                           end
                       end
                   end in
      match depth, range, fields, xfields, maxn, cont, trim with
      | Some (Some d), Some (Some r), Some (Some f), Some (Some x), Some (Some n), Some (Some c), Some (Some t) =>
          Valid (Some (mkParams d r f x n c t))
      | None, _, _, _, _, _, _ | _, None, _, _, _, _, _ | _, _, None, _, _, _, _ | _, _, _, None, _, _, _
      | _, _, _, _, None, _, _ | _, _, _, _, _, None, _ | _, _, _, _, _, _, None => Unreadable
      | _, _, _, _, _, _, _ => Invalid
      end
  end.

Definition is_error (o : obs) : bool := match o with ObsErr _ => true | _ => false end.

Definition classify (c : case) : verdict :=
  match c with
  | CRead kids data q asts unchanged o =>
      let dom := forallb choice_free kids && forallb wf_schema kids
                 && shaped (SCont root_meta kids) (DCont data) in
      (* the reader without constraints is the shared export model (TREE.md: export = edit into
         an empty target), checked on every case *)
      let bridge := match edit_content false kids data (empty_content kids) Upsert, read_content None kids data with
                    | Ok c, POk c' => content_eqb c c'
                    | _, _ => false
                    end in
      let corr := res_eqb (read_query kids data q) o && (bridge || negb dom) in
      let spec :=
        if dom then
          match interpret q asts with
          | Invalid => is_error o
          | Valid P => res_eqb (spec_read P kids data) o && unchanged
          | Unreadable => false
          end
        else true in
      classify_gen corr spec None
  end.
