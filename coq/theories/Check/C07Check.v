(** Classification of C07 query cases (harness/props/c07.go).

    case = the flat kids and the content at the target selection, the decoded query (name, value)
    pairs in order, for path-expression values the expression tree the generator printed them from
    (when it generated one), whether the source store was unchanged after the read, and what
    Constrain/Find + UpsertInto(capture) was observed to do.

      corr     : observed = Params.read_query (the model of BuildConstraints + the constrained reader)
      spec_obs : the parameters are read DECLARATIVELY (Tree/Reading.v [interpret]: membership of
                 each value in its grammar; a path expression is denoted by [PathExpr.denote] of
                 its tree, the raw value having to be [print] of that tree) and then
                   invalid parameter  -> any error is what the property demands
                   valid parameters P -> observed = Project.spec_read P (projection of the full
                                         read, container bound), and the store is unchanged *)
From Coq Require Import ZArith List Bool Strings.Byte Strings.String.
From YV Require Import Base.Verdict Val.Model Tree.Schema Tree.Editor Tree.Merge Tree.PathExpr Tree.Params Tree.Project Tree.Reading.
Import ListNotations.
Open Scope Z_scope.

Inductive oerr := OBadRequest | ONotImplemented | OConflict | OOther.
Inductive obs :=
| ObsOk (c : content)        (* the capture after UpsertInto returned nil *)
| ObsErr (e : oerr)          (* error class by errors.Is, from Constrain/Find or from UpsertInto *)
| ObsPanic.

Inductive case :=
| CRead (kids : list snode) (data : content) (q : query)
        (asts : list (list byte * pexpr))     (* parameter name -> tree of its path expression *)
        (unchanged : bool) (o : obs).

Definition res_eqb (m : pres content) (o : obs) : bool :=
  match m, o with
  | POk c, ObsOk c' => content_eqb c c'
  | PErr PBadRequest, ObsErr OBadRequest => true
  | PErr PNotImplemented, ObsErr ONotImplemented => true
  | PErr PConflict, ObsErr OConflict => true
  | PErr PDepthZero, ObsErr OOther => true
  | PErr PPanic, ObsPanic => true
  | _, _ => false
  end.

Definition is_error (o : obs) : bool := match o with ObsErr _ => true | _ => false end.

Definition classify (c : case) : verdict :=
  match c with
  | CRead kids data q asts unchanged o =>
      let dom := forallb choice_free kids && forallb wf_schema kids
                 && shaped (SCont root_meta kids) (DCont data) in
      (* the reader without constraints is the shared export model (TREE.md: export = edit into
         an empty target), checked on every case *)
      let bridge := match edit_content false kids data (empty_content kids) Upsert, read_content None kids data with
                    | Ok c, POk c' => content_eqb c c'
                    | _, _ => false
                    end in
      let corr := res_eqb (read_query kids data q) o && (bridge || negb dom) in
      let spec :=
        if dom then
          match interpret q asts with
          | TBad => is_error o
          | TOk P => res_eqb (spec_read P kids data) o && unchanged
          | TUnk => false
          end
        else true in
      classify_gen corr spec None
  end.
