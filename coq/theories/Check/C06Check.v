(** Executable classification of C06 correspondence cases.  The harness (harness/props/c06.go) writes
    module texts, loads them with parser.LoadModuleFromString and reads the schema back through the
    public accessors; everything below is evaluated by Coq. *)
From Coq Require Import List Bool Arith Strings.Byte.
From YV Require Import Base.Verdict YLex.Keywords YLex.Model YLex.Spec Meta.Slices.
Import ListNotations.

Fixpoint bytes_eqb (a b : list byte) : bool :=
  match a, b with
  | [], [] => true
  | x :: a', y :: b' => Byte.eqb x y && bytes_eqb a' b'
  | _, _ => false
  end.

Fixpoint lists_eqb (a b : list (list byte)) : bool :=
  match a, b with
  | [], [] => true
  | x :: a', y :: b' => bytes_eqb x y && lists_eqb a' b'
  | _, _ => false
  end.

(** what was read back: the accessor's string, or the load failed *)
Inductive obs := OText (t : list byte) | OErr.
Definition obs_eqb (a b : obs) : bool :=
  match a, b with
  | OText x, OText y => bytes_eqb x y
  | OErr, OErr => true
  | _, _ => false
  end.

Inductive case :=
(** (L) one statement [kw j0 arg j1 term] inside a generated module; [mode] 0: the grammar rule uses
    string_value; 1: the rule takes the raw token (yang-version, revision, argument); 2: extension
    statement (string_or_number).  [src] is the statement text the harness actually loaded. *)
| CArg (kw : list byte) (mode : nat) (j0 : junk) (a : arg) (j1 : junk) (term : byte) (src : list byte) (o : obs)
(** (S) one property of one statement of a generated statement tree: [kind] 0: read back must equal
    what was written; 1: status; 2: extension on a secondary keyword (description "d" { p:e "x"; }) *)
| CRead (kind : nat) (written read : list (list byte))
(** kind 3: the when conditions that apply to a node that came out of a grouping: [written] = its own
    when, the when of the uses statement that copied it, the when of the uses statements around that
    one (innermost first; empty = not written); [read] = what When() gives (nothing or one) *)
(** determinism: canonical dumps of [n] loads of one text were all equal *)
| CDet (n : nat) (all_equal : bool)
(** successive loads in one process: a text was loaded and dumped, then [others] other texts were
    loaded; [reread]: the schema compiled first, read again, still gives that dump; [reload]: the
    first text loaded again gives that dump *)
| CInter (others : nat) (reread reload : bool)
(** (G) slice-valued fields through grouping expansion, refine and deviation (harness/props/c06g.go).
    [tbl]: the entries (musts, uniques, revisions) that occur, [prog]: what the module text makes the
    loader do to the numbered objects (entries by their index in [tbl]), [n]: number of objects,
    [o]: what was read back from objects 0..n-1 through the accessors (indexes into [tbl]), or
    [None] when the load failed *)
| CGroup (tbl : list cell) (prog : list iop) (n : nat) (o : option (list (list nat)))
(** a sequence of calls of Module.Revision / RevisionHistory / Revisions on a module whose revision
    statements are [revs] in textual order, with the answers *)
| CRevAcc (revs : list cell) (calls : list racc) (answers : list (list cell))
(** every exported accessor without arguments of every object reachable from the module was called
    ([calls] calls); [same]: everything read before is read again unchanged *)
| CSweep (calls : nat) (same : bool)

with iop :=
| IAppend (o : nat) (x : nat)
| IClone (src dst : nat)
| IDelete (o : nat) (x : nat) (as_set : bool).

(** well-formedness the lexical model relies on, without the two conditions that delimit known
    findings (indentation stripping, Unicode white space in unquoted strings) *)
Definition part_lex_ok (p : part) : bool :=
  match p with
  | PDq items => forallb item_ok items
  | PSq _ => part_ok p
  | PUq body => uq_rfc_ok body
  end.
Definition more_lex_ok (m : junk * junk * part) : bool :=
  let '(j1, j2, p) := m in junk_ok j1 && junk_ok j2 && part_lex_ok p && negb (is_uq p).
Definition arg_lex_ok (a : arg) : bool :=
  part_lex_ok (a_first a) && forallb more_lex_ok (a_more a)
  && match a_more a with [] => true | _ => negb (is_uq (a_first a)) end.
Definition stmt_lex_ok (j0 : junk) (a : arg) (j1 : junk) : bool :=
  match j0 with [] => false | _ => true end && junk_ok j0 && junk_ok j1 && arg_lex_ok a && after_ok a j1.

Definition part_strips (p : part) : bool := match p with PDq items => negb (no_strip items) | _ => false end.
Definition arg_strips (a : arg) : bool :=
  part_strips (a_first a) || existsb (fun m => part_strips (snd m)) (a_more a).
Definition arg_uni_space (a : arg) : bool :=
  match a_first a with PUq body => uq_has_uni_space body | _ => false end.
Definition arg_plain_uq (a : arg) : bool :=
  match a_first a, a_more a with PUq _, [] => true | _, _ => false end.

(** string_or_number of an extension statement *)
Definition arg_of_ext (toks : list token) : option (list byte) :=
  match toks with
  | [_; (tz, _)] => if Nat.eqb tz t_semi || Nat.eqb tz t_open then Some [] else None   (* optional_unknown_arg: empty *)
  | [_; (ty, v); (tz, _)] =>
    if Nat.eqb ty t_number && (Nat.eqb tz t_semi || Nat.eqb tz t_open) then Some v else arg_of toks
  | _ => arg_of toks
  end.

(** the model of "load the statement and read its argument back" *)
Definition model_arg (kw : list byte) (mode : nat) (src : list byte) : obs :=
  match lex_begin src with
  | Continue toks [] =>
    match deliver ring0 toks with
    | Some (d, _) =>
      (* the parser must see the statement's own first token (keyword / extension name) first;
         anything else (ring overrun) is a syntax error *)
      if bytes_eqb (snd (hd (0, []) d)) kw then
        match (match mode with 0 => arg_of d | 1 => arg_of_raw d | _ => arg_of_ext d end) with
        | Some t => OText t
        | None => OErr
        end
      else OErr
    | None => OErr
    end
  | _ => OErr
  end.

(** known findings (KNOWN_FINDINGS.txt, property=C06) *)
Definition kf_strip := 1.       (* indentation / trailing blanks of a multi-line double-quoted string not stripped *)
Definition kf_raw := 2.         (* yang-version, revision, argument keep the quotes; '+' rejected *)
Definition kf_uni_space := 3.   (* unquoted string cut at VT, FF or a non-ASCII Unicode white-space character *)
Definition kf_ring := 4.        (* 32 or more '+'-joined parts overflow the 64-slot token ring *)
Definition kf_status := 5.      (* status has no semantic action: always read back as current *)
Definition kf_ext2 := 6.        (* an extension inside a secondary keyword's block is attached twice *)
Definition kf_ext_num := 7.     (* unquoted extension argument starting with a digit or sign is lexed as a number
                                   followed by a string: syntax error *)

Definition kf_when := 8.        (* the when of a uses statement replaces the when of the grouping's node *)

Definition nonempty (t : list byte) : bool := match t with [] => false | _ => true end.
(** resolver.cloneDefs: [if when != nil { copy[i].setWhen(when) }] on every top-level copy, the copies
    of nested uses statements included: the outermost when that is written is the one that stays *)
Definition when_model (w : list (list byte)) : list (list byte) :=
  match rev (filter nonempty w) with x :: _ => [x] | [] => [] end.

Definition starts_numeric (a : arg) : bool :=
  match a_first a, a_more a with
  | PUq (b :: _), [] => ascii_digit b || Byte.eqb b x2b || Byte.eqb b x2d
  | _, _ => false
  end.

Definition arg_region (mode : nat) (a : arg) : option nat :=
  if Nat.leb 32 (arg_parts a) then Some kf_ring
  else if Nat.eqb mode 1 && negb (arg_plain_uq a) then Some kf_raw
  else if arg_uni_space a then Some kf_uni_space
  else if Nat.eqb mode 2 && starts_numeric a then Some kf_ext_num
  else if arg_strips a then Some kf_strip
  else None.

(** (G) *)
Definition to_op (tbl : list cell) (p : iop) : op :=
  match p with
  | IAppend o x => OAppend o (nth x tbl [])
  | IClone a b => OClone a b
  | IDelete o x m => ODelete o (nth x tbl []) m
  end.
Fixpoint cells_eqb (a b : list cell) : bool :=
  match a, b with
  | [], [] => true
  | x :: a', y :: b' => lists_eqb x y && cells_eqb a' b'
  | _, _ => false
  end.
Fixpoint cellss_eqb (a b : list (list cell)) : bool :=
  match a, b with
  | [], [] => true
  | x :: a', y :: b' => cells_eqb x y && cellss_eqb a' b'
  | _, _ => false
  end.
Definition readback_eqb (a b : option (list (list cell))) : bool :=
  match a, b with
  | Some x, Some y => cellss_eqb x y
  | None, None => true
  | _, _ => false
  end.

Definition is_semi_or_open (b : byte) : bool := Byte.eqb b c_semi || Byte.eqb b c_lb.

Definition current : list byte := [x63; x75; x72; x72; x65; x6e; x74].

Definition classify (c : case) : verdict :=
  match c with
  | CArg kw mode j0 a j1 term src o =>
    let wf := stmt_lex_ok j0 a j1 && is_semi_or_open term
              && bytes_eqb src (kw ++ render_junk j0 ++ arg_src a ++ render_junk j1 ++ [term]) in
    classify_gen (wf && obs_eqb (model_arg kw mode src) o)
                 (wf && obs_eqb (OText (arg_text a)) o && negb (arg_strips a))
                 (arg_region mode a)
  | CRead kind written read =>
    let model := match kind with
                 | 1 => [current]
                 | 2 => written ++ written
                 | 3 => when_model written
                 | _ => written
                 end in
    let want := match kind with 3 => filter nonempty written | _ => written end in
    classify_gen (lists_eqb model read) (lists_eqb want read)
                 (match kind with 1 => Some kf_status | 2 => Some kf_ext2 | 3 => Some kf_when | _ => None end)
  | CDet n all_equal => classify_gen all_equal all_equal None
  | CInter _ reread reload => classify_gen (reread && reload) (reread && reload) None
  | CGroup tbl prog n o =>
    let p := map (to_op tbl) prog in
    let obs := option_map (map (map (fun i => nth i tbl []))) o in
    classify_gen (readback_eqb (load_and_read true p n) obs) (readback_eqb (spec_read p n) obs) None
  | CRevAcc revs calls answers =>
    classify_gen (cellss_eqb (racc_run revs calls) answers) (cellss_eqb (map (racc_spec revs) calls) answers) None
  | CSweep _ same => classify_gen same same None
  end.
