(** Classification of C18 histories (harness/props/c18.go). *)
From Coq Require Import List Bool Arith Strings.Byte.
From YV Require Import Base.Verdict Val.Model Tree.Schema Tree.Editor Tree.Merge Tree.Delete Tree.DeleteDup.
Import ListNotations.

(** what was observed after one operation *)
Inductive obs :=
| ObsOk (c : content) (removed_still_found : bool) (every_entry_found_by_its_key : bool)
| ObsErr (e : eerr)
| ObsPanic.

(** one step of a history: the store content before (as exported), the operation, the observation *)
Inductive case := CStep (target_kind : nat) (kids : list snode) (before : content) (o : op) (ob : obs).

(** map-backed lists (nodeutil.Reflect creates lists as Go maps) keep no insertion order: for such
    targets rows are compared as multisets, recursively *)
Fixpoint dnode_eqb_u (a b : dnode) {struct a} : bool :=
  match a, b with
  | DLeaf x, DLeaf y => lval_eqb x y
  | DCont x, DCont y =>
      (fix go (p q : list (option dnode)) := match p, q with
        | [], [] => true
        | None :: p', None :: q' => go p' q'
        | Some i :: p', Some j :: q' => dnode_eqb_u i j && go p' q'
        | _, _ => false end) x y
  | DList x, DList y =>
      (fix rows (p : list dnode) (q : list dnode) {struct p} : bool :=
         match p with
         | [] => match q with [] => true | _ => false end
         | r :: p' =>
             (fix pick (seen rest : list dnode) {struct rest} : bool :=
                match rest with
                | [] => false
                | c :: rest' => if dnode_eqb_u r c then rows p' (rev_append seen rest') else pick (c :: seen) rest'
                end) [] q
         end) x y
  | _, _ => false
  end.
Fixpoint content_eqb_u (p q : content) : bool :=
  match p, q with
  | [], [] => true
  | None :: p', None :: q' => content_eqb_u p' q'
  | Some i :: p', Some j :: q' => dnode_eqb_u i j && content_eqb_u p' q'
  | _, _ => false
  end.

Definition res_obs_eqb (ordered : bool) (m : res content) (o : obs) : bool :=
  match m, o with
  | Ok c, ObsOk c' _ _ => if ordered then content_eqb c c' else content_eqb_u c c'
  | Err EConflict, ObsErr EConflict | Err ENotFound, ObsErr ENotFound | Err EOther, ObsErr EOther => true
  | _, _ => false
  end.

(** struct-backed targets (kinds 2, 3) are exported raw and compared modulo zero-valued non-key
    leaves (Tree/DeleteDup.v [znorm]: a Go struct field cannot be unset); key leaves are kept, so the
    uniqueness oracle runs on the keys as stored *)
Definition proj (kind : nat) (kids : list snode) (r : res content) : res content :=
  if Nat.leb 2 kind then znorm_res kids r else r.
Definition proj_obs (kind : nat) (kids : list snode) (o : obs) : obs :=
  match o with
  | ObsOk c a b => if Nat.leb 2 kind then ObsOk (znorm_content kids c) a b else o
  | _ => o
  end.

Definition classify (c : case) : verdict :=
  match c with
  | CStep kind kids before o ob =>
      let ordered := Nat.eqb kind 0 in
      let corr := res_obs_eqb ordered (proj kind kids (apply_op kids before o)) (proj_obs kind kids ob) in
      let spec :=
        res_obs_eqb ordered (proj kind kids (spec_op2 kids before o)) (proj_obs kind kids ob) &&
        match ob with
        | ObsOk c' still allfound =>
            negb still && allfound && (negb (keys_unique_content kids before) || keys_unique_content kids c')
        | _ => true
        end in
      classify_gen corr spec None
  end.
