(** Executable classification of C05 correspondence cases.  The harness (harness/props/c05.go)
    generates a leaf or leaf-list whose type is a typedef chain with restriction expressions,
    loads it with parser.LoadModuleFromString, writes candidate values through several write paths
    of the real library into a map-backed node and records what happened; everything below is
    evaluated by Coq.  The leaf is alone in its module or one of several string leaves whose
    pattern statements repeat the same expression with other invert-match modifiers: a case carries
    the leaf's OWN chain only, so the model and the spec state that nothing of a sibling statement
    (same text or not) takes part in the decision. *)
From Coq Require Import ZArith List Bool Lia Strings.Byte.
From YV Require Import Base.Verdict Restrict.RangeParse Restrict.Model Restrict.Spec Restrict.Proofs Restrict.Member Restrict.MemberProofs.
Import ListNotations.
Open Scope Z_scope.

(** one candidate value: the stored value before the write ([None] = leaf absent), the value
    written, and per write path (fixed order, see the harness) what was observed:
      outcome  0 accepted (nil error), 1 rejected (error), 2 panic
      store    0 the leaf holds what it held before, 1 it holds the written value, 2 anything else *)
Inductive row := Row (pre : option value) (v : value) (obs : list (Z * Z)) (tobs : list (Z * Z))
                     (sobs : list (Z * Z)).
(** [obs]: the converting write paths (UpsertFrom JSON / XML / reflect node, UpdateFrom, InsertFrom,
    SetValue with Go data); [tobs]: Selection.Set with a typed val.Value built by the harness;
    [sobs]: Selection.SetValue handed that same typed val.Value (NewValue converts it again; where
    it has no case for the library's own value type the write is rejected, which the property
    permits: [sobs] is held to "accepted only if a member", not to the converse) *)

(** a write to a leaf / leaf-list of enumeration, bits or identityref (Restrict/Member.v) *)
Inductive mrow := MRow (pre : option mvalue) (v : mvalue) (obs tobs sobs oobs : list (Z * Z)).
(** [oobs]: a leaf-list written with a SINGLE Go value / JSON scalar standing for the list of one [v]
    (SetValue, UpsertFrom JSON); like [sobs] held to "accepted only if a member" *)

(** [chain]: the restriction text of every level, leaf first, as written into the module;
    [ast]: the abstract syntax the generator printed that text from ([None]: the text was made
           invalid on purpose and the module must not load);
    [rxt]: the regular-expression oracle, (pattern, string, whole-string match) for every pattern of
           the chain and every string written;
    [loaded]: whether LoadModuleFromString returned a module. *)
Inductive case :=
| CType (b : base) (is_list : bool) (chain : list tlevel) (ast : option (list slevel))
        (rxt : list (text * text * bool)) (loaded : bool) (rows : list row)
(** a leaf whose type is a union of integer types, each member with an optional range statement
    (text, and the syntax it was printed from); rows: number written (onto an absent leaf) and
    per write path (outcome, store) *)
| CUnion (ms : list (ikind * option text * option (list alt))) (loaded : bool)
         (rows : list (Z * list (Z * Z)))
(** a leaf or leaf-list whose type is an enumeration / bits (possibly restricted by the typedef
    levels between it and the leaf) or an identityref over the module's identities *)
| CMember (t : mtype) (is_list : bool) (loaded : bool) (rows : list mrow).

Definition rx_lookup (tbl : list (text * text * bool)) (p s : text) : option bool :=
  match find (fun e => text_eqb (fst (fst e)) p && text_eqb (snd (fst e)) s) tbl with
  | Some e => Some (snd e)
  | None => None
  end.
Definition rx_of (tbl : list (text * text * bool)) (p s : text) : bool :=
  match rx_lookup tbl p s with Some b => b | None => false end.

Definition code_of (o : outcome) : Z :=
  match o with Accepted => 0 | Rejected => 1 | Panicked => 2 | LoadErr => 3 end.

Definition strings_of (v : value) : list text :=
  match v with
  | VOne (SStr t) => [t]
  | VMany l => flat_map (fun s => match s with SStr t => [t] | _ => [] end) l
  | _ => []
  end.

(** every (pattern, string) the model or the spec will ask for is in the oracle table *)
Definition rx_complete (tbl : list (text * text * bool)) (chain : list tlevel) (rows : list row) : bool :=
  forallb (fun l => forallb (fun p =>
    forallb (fun r => match r with Row _ v _ _ _ =>
      forallb (fun t => match rx_lookup tbl (fst p) t with Some _ => true | None => false end) (strings_of v) end)
      rows) (tl_pats l)) chain.

(** known findings (KNOWN_FINDINGS.txt), as regions of the parsed chain:
      1  a type statement with two or more patterns: they are OR-ed (patternCheck)
      2  patterns on more than one level of the chain: the derived type's replace the base's (mixin)
      4  a min/max keyword as single value or on the wrong side of "..": that alternative matches
         nothing (completeness only: the value it denotes is rejected)
      3  a union member's own range is never checked (node/value.go NewValue converts with
         val.ConvOneOf and CheckFieldPreConstraints has no case for FmtUnion)
      6  Selection.Set with a hand-built val.Enum / val.Bits: membership is only enforced by NewValue,
         which Set does not run *)
Definition has_pats (l : plevel) : bool := match pl_pats l with [] => false | _ => true end.
Definition known_region (pc : list plevel) : option nat :=
  if existsb (fun l => (2 <=? length (pl_pats l))%nat) pc then Some 1%nat
  else if (2 <=? length (filter has_pats pc))%nat then Some 2%nat
  else if negb (placed_chain pc) then Some 4%nat
  else None.

Definition known_region_b (b : base) (pc : list plevel) : option nat :=
  if membership_base b then Some 6%nat else known_region pc.

Definition obs_is (o st : Z) (p : Z * Z) : bool := (fst p =? o) && (snd p =? st).

Definition sval_eqb (a b : sval) : bool :=
  match a, b with
  | SNum x, SNum y => x =? y
  | SDec m k, SDec m' k' => (m =? m') && Nat.eqb k k'
  | SStr x, SStr y => text_eqb x y
  | SEnumName x, SEnumName y => text_eqb x y
  | SEnumVal x, SEnumVal y => x =? y
  | SBits x, SBits y => list_eqv text_eqb x y
  | _, _ => false
  end.
Definition value_eqb (a b : value) : bool :=
  match a, b with
  | VOne x, VOne y => sval_eqb x y
  | VMany x, VMany y => list_eqv sval_eqb x y
  | _, _ => false
  end.
(** store code of the model: what the leaf holds after the write, relative to before / written *)
Definition store_code (pre st' : option value) (v : value) : Z :=
  if opt_eqv value_eqb st' (Some v) then 1 else if opt_eqv value_eqb st' pre then 0 else 2.

Definition msval_eqb (a b : msval) : bool :=
  match a, b with
  | MName x, MName y => text_eqb x y
  | MNum x, MNum y => x =? y
  | MBitNames x, MBitNames y => list_eqv text_eqb x y
  | _, _ => false
  end.
Definition mvalue_eqb (a b : mvalue) : bool :=
  match a, b with
  | MOne x, MOne y => msval_eqb x y
  | MMany x, MMany y => list_eqv msval_eqb x y
  | _, _ => false
  end.
Definition mstore_code (pre st' : option mvalue) (v : mvalue) : Z :=
  if opt_eqv mvalue_eqb st' (Some v) then 1 else if opt_eqv mvalue_eqb st' pre then 0 else 2.

(** "accepted only if a member": accepted and stored, or rejected and untouched, when a member;
    rejected and untouched otherwise *)
Definition sound_only (member : bool) (obs : list (Z * Z)) : bool :=
  if member then forallb (fun p => obs_is 0 1 p || obs_is 1 0 p) obs else forallb (obs_is 1 0) obs.

(** the hypotheses of the theorems of Restrict/MemberProofs.v, decided *)
Fixpoint nodupb (l : list text) : bool :=
  match l with [] => true | x :: tl => negb (mem_text x tl) && nodupb tl end.
Fixpoint subset_chainb (restr : list (list text)) (inner : list text) : bool :=
  match restr with
  | [] => true
  | names :: tl =>
      forallb (fun n => mem_text n (match tl with [] => inner | below :: _ => below end)) names &&
      subset_chainb tl inner
  end.
Definition wf_mtypeb (t : mtype) : bool :=
  match t with
  | MEnum es restr => subset_chainb restr (map fst es) && nodupb (map fst es)
  | MBits ds restr => subset_chainb restr ds
  | MIdent ids _ => ordered_idsb [] ids
  end.

Definition classify (c : case) : verdict :=
  match c with
  | CType b il chain ast rxt loaded rows =>
      let rx := rx_of rxt in
      let parsed := parse_chain chain in
      (* the model's parser reads the text as the abstract syntax it was printed from *)
      let ast_agrees :=
        match parsed, ast with
        | Some pc, Some a => list_eqv slevel_eqv (map den_level pc) a
        | None, None => true
        | _, _ => false
        end in
      let levels := match ast with Some a => a | None => [] end in
      let corr_row (r : row) :=
        match r with Row pre v obs tobs sobs =>
          let '(o, st') := set_model rx b il chain pre v in
          let '(ot, stt) := set_typed_model rx b il chain pre v in
          let '(os, sts) := set_sv_typed_model rx b il chain pre v in
          (* the harness never writes the value the leaf already holds *)
          negb (opt_eqv value_eqb pre (Some v)) && forallb (obs_is (code_of o) (store_code pre st' v)) obs
          && forallb (obs_is (code_of ot) (store_code pre stt v)) tobs
          && forallb (obs_is (code_of os) (store_code pre sts v)) sobs
        end in
      let spec_row (r : row) :=
        match r with Row pre v obs tobs sobs =>
          let member := in_effective_typeb rx b il levels v in
          (if member then forallb (obs_is 0 1) (obs ++ tobs) else forallb (obs_is 1 0) (obs ++ tobs))
          && sound_only member sobs
        end in
      let corr :=
        Bool.eqb loaded (match parsed with Some _ => true | None => false end) && ast_agrees &&
        rx_complete rxt chain rows &&
        (if loaded then forallb corr_row rows else match rows with [] => true | _ => false end) in
      let spec :=
        Bool.eqb loaded (match ast with Some _ => true | None => false end) &&
        (if loaded then forallb spec_row rows else true) in
      classify_gen corr spec (match parsed with Some pc => known_region_b b pc | None => None end)
  | CUnion ms loaded rows =>
      let mtext := map (fun m => (fst (fst m), snd (fst m))) ms in
      let mast := map (fun m => (fst (fst m), snd m)) ms in
      let ast_agrees :=
        forallb (fun m => match snd (fst m), snd m with
                          | None, None => true
                          | Some t, Some a => match parse_range t with
                                              | Some r => list_eqv alt_eqv (map den_entry r) a
                                              | None => false
                                              end
                          | _, _ => false
                          end) ms in
      let corr :=
        Bool.eqb loaded (union_loads mtext) && ast_agrees &&
        forallb (fun r => let o := union_accept mtext (fst r) in
                          forallb (obs_is (code_of o) (match o with Accepted => 1 | _ => 0 end)) (snd r)) rows in
      let spec :=
        loaded &&
        forallb (fun r => if in_unionb mast (fst r) then forallb (obs_is 0 1) (snd r)
                          else forallb (obs_is 1 0) (snd r)) rows in
      (* finding 3: a union member that carries a restriction *)
      classify_gen corr spec
        (if existsb (fun m => match snd (fst m) with Some _ => true | None => false end) ms
         then Some 3%nat else None)
  | CMember t il loaded rows =>
      let corr_row (r : mrow) :=
        match r with MRow pre v obs tobs sobs oobs =>
          let '(o, st') := set_m accept_m t il pre v in
          let '(ot, stt) := set_m accept_m_set t il pre v in
          let '(os, sts) := set_m accept_m_sv_typed t il pre v in
          let '(oo, sto) := set_m accept_m_single t il pre v in
          negb (opt_eqv mvalue_eqb pre (Some v))
          && forallb (obs_is (code_of o) (mstore_code pre st' v)) obs
          && forallb (obs_is (code_of ot) (mstore_code pre stt v)) tobs
          && forallb (obs_is (code_of os) (mstore_code pre sts v)) sobs
          && forallb (obs_is (code_of oo) (mstore_code pre sto v)) oobs
        end in
      (* the converting paths and SetValue(val.Value) *)
      let spec_conv (r : mrow) :=
        match r with MRow pre v obs tobs sobs oobs =>
          let member := in_memberb t il v in
          (if member then forallb (obs_is 0 1) obs else forallb (obs_is 1 0) obs)
          && sound_only member sobs && sound_only member oobs
        end in
      (* Selection.Set(val.Value) *)
      let spec_set (r : mrow) :=
        match r with MRow pre v obs tobs sobs oobs =>
          if in_memberb t il v then forallb (obs_is 0 1) tobs else forallb (obs_is 1 0) tobs
        end in
      let corr :=
        wf_mtypeb t && loaded && (match compile_m t with Some _ => true | None => false end) &&
        forallb corr_row rows in
      (* finding 6 explains a failure of the Set path only *)
      classify_gen corr (forallb spec_conv rows && forallb spec_set rows)
        (if forallb spec_conv rows then Some 6%nat else None)
  end.

(** outside the listed regions the chain has at most one pattern and no misplaced keyword: these
    are the hypotheses under which Restrict/Proofs.v shows the model equal to the spec *)
Lemma flat_pats_le pc :
  (forall l, In l pc -> (length (pl_pats l) <= 1)%nat) ->
  (length (flat_map pl_pats pc) <= length (filter has_pats pc))%nat.
Proof.
  induction pc as [|l tl IH]; intros H; [cbn; lia|].
  cbn [flat_map filter]. rewrite app_length.
  assert (Hl := H l (or_introl eq_refl)).
  assert (IH' : (length (flat_map pl_pats tl) <= length (filter has_pats tl))%nat).
  { apply IH. intros x Hx. apply H. right. exact Hx. }
  unfold has_pats at 1. destruct (pl_pats l) as [|p [|q ps]]; cbn in *; lia.
Qed.

Lemma known_none pc : known_region pc = None -> pats_simple pc /\ placed_chain pc = true.
Proof.
  unfold known_region. intros H.
  destruct (existsb (fun l => (2 <=? length (pl_pats l))%nat) pc) eqn:E1; [discriminate|].
  destruct (2 <=? length (filter has_pats pc))%nat eqn:E2; [discriminate|].
  destruct (placed_chain pc) eqn:E3; [|discriminate]. split; [|reflexivity].
  unfold pats_simple. apply Nat.leb_gt in E2.
  assert (A : forall l, In l pc -> (length (pl_pats l) <= 1)%nat).
  { intros l Hl. destruct (2 <=? length (pl_pats l))%nat eqn:E; [|apply Nat.leb_gt in E; lia].
    assert (existsb (fun l => (2 <=? length (pl_pats l))%nat) pc = true).
    { apply existsb_exists. exists l. auto. }
    congruence. }
  pose proof (flat_pats_le pc A). lia.
Qed.

Section WithRegex.
Variable rx : text -> text -> bool.

(** outside the known-finding regions the decision of the model IS membership in the effective
    type (both directions), so a [ModelViolatesSpec] verdict cannot occur there *)
Lemma model_is_spec_outside_regions b il chain pc v :
  parse_chain chain = Some pc -> known_region pc = None -> integral_chain b pc = true -> wf_value v ->
  (accept rx b il chain v = Accepted <-> in_effective_type rx b il (map den_level pc) v).
Proof.
  intros Hp Hk Hi Wv. apply known_none in Hk. destruct Hk as [Hs Hpl]. split.
  - apply accept_sound; assumption.
  - apply accept_complete; assumption.
Qed.

(** inside regions 1, 2 (patterns) only soundness can fail; region 4 (keyword position) keeps it *)
Lemma sound_outside_pattern_regions b il chain pc v :
  parse_chain chain = Some pc -> integral_chain b pc = true -> wf_value v ->
  accept rx b il chain v = Accepted ->
  in_effective_type rx b il (map den_level pc) v \/ known_region pc = Some 1%nat \/ known_region pc = Some 2%nat.
Proof.
  intros Hp Hi Wv H. unfold known_region.
  destruct (existsb (fun l => (2 <=? length (pl_pats l))%nat) pc) eqn:E1; [tauto|].
  destruct (2 <=? length (filter has_pats pc))%nat eqn:E2; [tauto|].
  left. apply (accept_sound rx b il chain pc v); auto.
  unfold pats_simple. apply Nat.leb_gt in E2.
  assert (A : forall l, In l pc -> (length (pl_pats l) <= 1)%nat).
  { intros l Hl. destruct (2 <=? length (pl_pats l))%nat eqn:E; [|apply Nat.leb_gt in E; lia].
    assert (existsb (fun l => (2 <=? length (pl_pats l))%nat) pc = true).
    { apply existsb_exists. exists l. auto. }
    congruence. }
  pose proof (flat_pats_le pc A). lia.
Qed.

Lemma accept_total b il chain pc v :
  parse_chain chain = Some pc -> accept rx b il chain v = Accepted \/ accept rx b il chain v = Rejected.
Proof.
  intros Hp. pose proof (check_no_panic rx b il chain v) as NP. unfold accept in *. rewrite Hp in *.
  destruct (check_value rx b il (compile pc) v); tauto.
Qed.
End WithRegex.

(** ** The full statement (no region excluded) is false of the faithful model: witnesses *)
Definition full_soundness : Prop :=
  forall rx b il chain pc v,
    parse_chain chain = Some pc -> integral_chain b pc = true -> wf_value v ->
    accept rx b il chain v = Accepted -> in_effective_type rx b il (map den_level pc) v.

(** oracle for the witnesses: pattern "a" matches everything, any other pattern nothing *)
Definition rx_w (p s : text) : bool := text_eqb p [x61].
(** finding 1: type string { pattern "a"; pattern "b"; } accepts a value that "b" does not match *)
Definition kf1_chain : list tlevel := [mkT None None [([x61], false); ([x62], false)]].
(** finding 2: typedef with pattern "b", leaf type narrows with pattern "a": base pattern dropped *)
Definition kf2_chain : list tlevel := [mkT None None [([x61], false)]; mkT None None [([x62], false)]].
Definition kf_value : value := VOne (SStr [x7a]).

Lemma kf1_refuted :
  exists pc, parse_chain kf1_chain = Some pc /\ known_region pc = Some 1%nat /\
             accept rx_w BStr false kf1_chain kf_value = Accepted /\
             ~ in_effective_type rx_w BStr false (map den_level pc) kf_value.
Proof.
  eexists. split; [vm_compute; reflexivity|]. split; [vm_compute; reflexivity|].
  split; [vm_compute; reflexivity|]. intros H. apply in_effective_typeb_iff in H. vm_compute in H. discriminate.
Qed.

Lemma kf2_refuted :
  exists pc, parse_chain kf2_chain = Some pc /\ known_region pc = Some 2%nat /\
             accept rx_w BStr false kf2_chain kf_value = Accepted /\
             ~ in_effective_type rx_w BStr false (map den_level pc) kf_value.
Proof.
  eexists. split; [vm_compute; reflexivity|]. split; [vm_compute; reflexivity|].
  split; [vm_compute; reflexivity|]. intros H. apply in_effective_typeb_iff in H. vm_compute in H. discriminate.
Qed.

Lemma full_soundness_refuted : ~ full_soundness.
Proof.
  intros F.
  assert (Hp : parse_chain kf1_chain = Some [mkP None None [([x61], false); ([x62], false)]])
    by (vm_compute; reflexivity).
  specialize (F rx_w BStr false kf1_chain _ kf_value Hp).
  assert (H : in_effective_type rx_w BStr false
                (map den_level [mkP None None [([x61], false); ([x62], false)]]) kf_value).
  { apply F; [vm_compute; reflexivity| |vm_compute; reflexivity].
    cbn. split; [vm_compute; reflexivity|vm_compute; discriminate]. }
  apply in_effective_typeb_iff in H. vm_compute in H. discriminate.
Qed.

(** finding 4: int8 { range "max"; } - 127 is the value "max" denotes and it is rejected *)
Definition kf4_chain : list tlevel := [mkT (Some [x6d; x61; x78]) None []].
Lemma kf4_refuted :
  exists pc, parse_chain kf4_chain = Some pc /\ known_region pc = Some 4%nat /\
             accept rx_w (BNum I8) false kf4_chain (VOne (SNum 127)) = Rejected /\
             in_effective_type rx_w (BNum I8) false (map den_level pc) (VOne (SNum 127)).
Proof.
  eexists. split; [vm_compute; reflexivity|]. split; [vm_compute; reflexivity|].
  split; [vm_compute; reflexivity|]. apply in_effective_typeb_iff. vm_compute. reflexivity.
Qed.

Lemma hyps_met_witness :
  exists pc,
    parse_chain [mkT (Some [x6d;x69;x6e;x2e;x2e;x31;x30;x20;x7c;x20;x32;x30]) None [];
                 mkT None None [];
                 mkT (Some [x2d;x35;x2e;x2e;x31;x38;x34;x34;x36;x37;x34;x34;x30;x37;x33;x37;x30;x39;x35;x35;x31;x36;x31;x35]) None []]
      = Some pc /\
    known_region pc = None /\ integral_chain (BNum I64) pc = true /\
    accept rx_w (BNum I64) false
      [mkT (Some [x6d;x69;x6e;x2e;x2e;x31;x30;x20;x7c;x20;x32;x30]) None [];
       mkT None None [];
       mkT (Some [x2d;x35;x2e;x2e;x31;x38;x34;x34;x36;x37;x34;x34;x30;x37;x33;x37;x30;x39;x35;x35;x31;x36;x31;x35]) None []]
      (VOne (SNum 20)) = Accepted.
Proof. eexists. repeat split; vm_compute; reflexivity. Qed.

(** finding 6: Set(val.Enum{99,"zz"}) on an enumeration that declares only "a" is stored *)
Lemma kf6_refuted :
  accept_typed rx_w (BEnum [([x61], 0)]) false [mkT None None []] (VOne (SEnumName [x7a; x7a])) = Accepted /\
  accept rx_w (BEnum [([x61], 0)]) false [mkT None None []] (VOne (SEnumName [x7a; x7a])) = Rejected /\
  known_region_b (BEnum [([x61], 0)]) [mkP None None []] = Some 6%nat /\
  ~ in_effective_type rx_w (BEnum [([x61], 0)]) false [mkS None None []] (VOne (SEnumName [x7a; x7a])).
Proof.
  split; [vm_compute; reflexivity|]. split; [vm_compute; reflexivity|]. split; [vm_compute; reflexivity|].
  intros H. apply in_effective_typeb_iff in H. vm_compute in H. discriminate.
Qed.

(** finding 3: union { type int8 { range "1..10"; } type int16 { range "100..200"; } } stores 50 *)
Definition kf3_members : list (ikind * option text) :=
  [(I8, Some [x31; x2e; x2e; x31; x30]); (I16, Some [x31; x30; x30; x2e; x2e; x32; x30; x30])].
Lemma kf3_refuted :
  union_accept kf3_members 50 = Accepted /\
  ~ in_union [(I8, Some [mkAlt (BdNum 1 0) (BdNum 10 0)]); (I16, Some [mkAlt (BdNum 100 0) (BdNum 200 0)])] 50.
Proof.
  split; [vm_compute; reflexivity|]. intros H. apply in_unionb_iff in H. vm_compute in H. discriminate.
Qed.

(** ** Enumeration / bits / identityref cases: the decided well-formedness is the hypothesis of the
    theorems of Restrict/MemberProofs.v, so on every generated case the converting paths of the
    model decide exactly membership and a [ModelViolatesSpec] verdict cannot come from them *)
Lemma nodupb_ok l : nodupb l = true -> NoDup l.
Proof.
  induction l as [|x tl IH]; cbn; intros H; [constructor|].
  apply andb_true_iff in H. destruct H as [H1 H2]. constructor; [|apply IH; exact H2].
  intros Hin. apply mem_text_in in Hin. rewrite Hin in H1. discriminate.
Qed.

Lemma subset_chainb_ok restr inner : subset_chainb restr inner = true -> subset_chain restr inner.
Proof.
  induction restr as [|names tl IH]; cbn; intros H; [exact I|].
  apply andb_true_iff in H. destruct H as [H1 H2]. split; [|apply IH; exact H2].
  intros n Hn. rewrite forallb_forall in H1. apply mem_text_in. apply H1. exact Hn.
Qed.

Lemma wf_mtypeb_ok t : wf_mtypeb t = true -> wf_mtype t.
Proof.
  destruct t as [es restr|ds restr|ids bases]; cbn; intros H.
  - apply andb_true_iff in H. destruct H as [H1 H2]. split; [apply subset_chainb_ok; exact H1|apply nodupb_ok; exact H2].
  - apply subset_chainb_ok. exact H.
  - apply ordered_idsb_ok. exact H.
Qed.

Lemma member_model_is_spec t il v :
  wf_mtypeb t = true -> (accept_m t il v = Accepted <-> in_member t il v).
Proof. intros H. apply accept_m_iff. apply wf_mtypeb_ok. exact H. Qed.

Lemma member_oracle_decides t il v :
  wf_mtypeb t = true -> (in_memberb t il v = true <-> in_member t il v).
Proof.
  intros H. apply in_memberb_iff. apply wf_mtypeb_ok in H. destruct t; cbn in *; auto.
Qed.
