(** Executable classification of C11 correspondence cases.  The harness (harness/props/c11*.go)
    drives the real meta.IfFeature.Evaluate / parser.LoadModuleFromStringWithOptions and writes
    what it observed; everything below is evaluated by Coq. *)
From Coq Require Import ZArith List Bool Arith Strings.Byte.
From YV Require Import Base.Verdict Feature.IfFeature Feature.Guard.
Import ListNotations.

(** result codes: 0 false, 1 true, 2 error, 3 panic/timeout *)
Definition code_of (r : result) : Z :=
  match r with ROk false => 0%Z | ROk true => 1%Z | RErr => 2%Z | ROutOfFuel => 3%Z end.

(** 16 base-4 digits per word, least significant first (read off the binary representation) *)
Fixpoint digits4 (n : nat) (p : positive) : list Z :=
  match n with
  | O => []
  | S n' =>
      match p with
      | xO (xO q) => 0%Z :: digits4 n' q
      | xI (xO q) => 1%Z :: digits4 n' q
      | xO (xI q) => 2%Z :: digits4 n' q
      | xI (xI q) => 3%Z :: digits4 n' q
      | xH => 1%Z :: repeat 0%Z n'
      | xO xH => 2%Z :: repeat 0%Z n'
      | xI xH => 3%Z :: repeat 0%Z n'
      end
  end.
Definition unpack_word (n : nat) (w : Z) : list Z :=
  match w with Zpos p => digits4 n p | _ => repeat 0%Z n end.
Definition unpack (ws : list Z) (len : nat) : list Z := firstn len (flat_map (unpack_word 16) ws).

Fixpoint zlist_eqb (a b : list Z) : bool :=
  match a, b with
  | [], [] => true
  | x :: a', y :: b' => Z.eqb x y && zlist_eqb a' b'
  | _, _ => false
  end.

(** assignments: all subsets of the feature alphabet; for [a;b;c] the index is a*4+b*2+c *)
Fixpoint subsets (l : list (list byte)) : list (list (list byte)) :=
  match l with
  | [] => [[]]
  | x :: tl => let r := subsets tl in r ++ map (cons x) r
  end.
(** what the code's map of enabled features answers for a key *)
Definition env_of (enabled : list (list byte)) : env := Guard.env_of enabled.
Definition envs (feats : list (list byte)) : list env := map env_of (subsets feats).
(** specification side: an identifier-ref [prefix:]name denotes the feature called name *)
Definition spec_local (id : list byte) : list byte :=
  rev ((fix upto (l : list byte) : list byte :=
          match l with [] => [] | b :: tl => if beq b x3a then [] else b :: upto tl end) (rev id)).
Definition spec_env_of (enabled : list (list byte)) : env :=
  fun id => existsb (bytes_eqb (spec_local id)) enabled.
Definition spec_envs (feats : list (list byte)) : list env := map spec_env_of (subsets feats).

(** tokens as text *)
Definition tok_bytes (t : tok) : list byte :=
  match t with
  | TLp => lp | TRp => rp | TNot => kw_not | TAnd => kw_and | TOr => kw_or | TId id => id
  end.
Fixpoint spell (ts : list tok) : list byte :=
  match ts with
  | [] => []
  | [t] => tok_bytes t
  | t :: tl => tok_bytes t ++ x20 :: spell tl
  end.

Definition fa : list byte := [x61].
Definition fb : list byte := [x62].
Definition fc : list byte := [x63].
Definition abc : list (list byte) := [fa; fb; fc].
Definition alphabet : list tok := [TId fa; TId fb; TId fc; TNot; TAnd; TOr; TLp; TRp].

(** all token sequences of length n, first token most significant *)
Fixpoint all_seqs (n : nat) : list (list tok) :=
  match n with
  | O => [[]]
  | S n' => flat_map (fun t => map (cons t) (all_seqs n')) alphabet
  end.

(** a token sequence written as a number: digits 1..8 = alphabet position + 1, first token most
    significant (so the length is recoverable) *)
Fixpoint decode_seq (fuel : nat) (z : Z) (acc : list tok) : list tok :=
  match fuel with
  | O => acc
  | S f =>
      if (z <=? 0)%Z then acc
      else decode_seq f (z / 9)%Z (nth (Z.to_nat (z mod 9 - 1)) alphabet TRp :: acc)
  end.
Definition seq_of (z : Z) : list tok := decode_seq 40 z [].

Definition model_codes (text : list byte) (es : list env) : list Z :=
  map (fun e => code_of (eval_impl text e)) es.
Definition spec_tok_codes (ts : list tok) (es : list env) : list Z :=
  map (fun e => code_of (spec_tokens ts e)) es.
Definition spec_text_codes (text : list byte) (es : list env) : list Z :=
  map (fun e => code_of (spec_text text e)) es.
Definition denote_codes (x : fexpr) (es : list env) : list Z :=
  map (fun e => code_of (ROk (denote x e))) es.

(** region of known finding 1: a word byte touches a parenthesis from outside and the lenient
    reading (parentheses delimit themselves) finds an expression *)
Definition kf_touch (text : list byte) (es : list env) : bool :=
  touches text &&
  existsb (fun e => match spec_tokens (spec_lex text) e with ROk _ => true | _ => false end) es.

(** ** part (ii): guard presence.  Specification oracle: each guard text is read by the
    independent RFC reader [spec_text] against the features the configuration turns on *)
Definition guard_env (cfg : fconfig) (declared : list name) : env :=
  fun id => is_enabled cfg declared (spec_local id).
Definition guard_vals (cfg : fconfig) (declared : list name) (ifs : list text) : list result :=
  map (fun t => spec_text t (guard_env cfg declared)) ifs.
Definition is_err (r : result) : bool := match r with RErr | ROutOfFuel => true | _ => false end.
Definition is_true (r : result) : bool := match r with ROk true => true | _ => false end.
Definition is_false (r : result) : bool := match r with ROk false => true | _ => false end.

Definition stmt_guards (s : stmt) : list (list text) :=
  match s with
  | SData ifs | SCase ifs | SUses ifs | SAugment ifs => [ifs]
  | SRefines rs => rs
  end.

(** expected observation: None = the load must fail (some expression is malformed) *)
Definition spec_load (cfg : fconfig) (declared : list name) (ss : list stmt) : option (list (list bool)) :=
  if existsb (fun s => existsb (fun ifs => existsb is_err (guard_vals cfg declared ifs)) (stmt_guards s)) ss
  then None
  else Some (map (fun s => map (fun ifs => forallb is_true (guard_vals cfg declared ifs)) (stmt_guards s)) ss).

(** region of known finding 2: every malformed expression stands after one that is off on the
    same statement (so it is never evaluated), and there is at least one *)
Fixpoint shadowed (vals : list result) (seen_false : bool) : bool :=
  match vals with
  | [] => true
  | v :: tl => if is_err v then seen_false && shadowed tl seen_false
               else shadowed tl (seen_false || is_false v)
  end.
Definition kf_lazy (cfg : fconfig) (declared : list name) (ss : list stmt) : bool :=
  existsb (fun s => existsb (fun ifs => existsb is_err (guard_vals cfg declared ifs)) (stmt_guards s)) ss
  && forallb (fun s => forallb (fun ifs => shadowed (guard_vals cfg declared ifs) false) (stmt_guards s)) ss.

Fixpoint blist_eqb (a b : list bool) : bool :=
  match a, b with
  | [], [] => true
  | x :: a', y :: b' => Bool.eqb x y && blist_eqb a' b'
  | _, _ => false
  end.
Fixpoint bll_eqb (a b : list (list bool)) : bool :=
  match a, b with
  | [], [] => true
  | x :: a', y :: b' => blist_eqb x y && bll_eqb a' b'
  | _, _ => false
  end.

(** observed: code 0 loaded (with flags), 1 load error, 2 panic / inconsistent tree *)
Definition load_eqb (l : load) (code : Z) (obs : list (list bool)) : bool :=
  match l with
  | Loaded os => Z.eqb code 0 && bll_eqb os obs
  | LoadErr => Z.eqb code 1
  | LoadFuel => false
  end.
Definition spec_load_ok (o : option (list (list bool))) (code : Z) (obs : list (list bool)) : bool :=
  match o with
  | Some os => Z.eqb code 0 && bll_eqb os obs
  | None => Z.eqb code 1
  end.

Inductive case :=
| CExpr (c : cst) (w0 w1 text : list byte) (feats : list (list byte)) (obs : list Z)
    (* a generated grammatical written expression; obs: one code per assignment *)
| CTokAll (n : nat) (obs : list Z)
    (* every sequence of n tokens over [alphabet], single spaces, x 8 assignments, packed *)
| CTokList (seqs : list Z) (obs : list Z)
    (* listed token sequences (numbers, see seq_of), single spaces, x 8 assignments, packed *)
| CText (text : list byte) (feats : list (list byte)) (obs : list Z)
    (* arbitrary bytes; one code per assignment *)
| CGuard (cfg : fconfig) (declared : list name) (ss : list stmt) (code : Z) (obs : list (list bool)).
    (* a module loaded with Options.Features = cfg; per statement: present / refine applied *)

Definition classify (c : case) : verdict :=
  match c with
  | CExpr c w0 w1 text feats obs =>
      let es := envs feats in
      classify_gen (bytes_eqb text (w0 ++ render c ++ w1) && wf c && all_ws w0 && all_ws w1
                    && zlist_eqb (model_codes text es) obs)
                   (zlist_eqb (denote_codes (abstract c) (spec_envs feats)) obs) None
  | CTokAll n obs =>
      let es := envs abc in
      let seqs := all_seqs n in
      let o := unpack obs (length seqs * 8) in
      classify_gen (zlist_eqb (flat_map (fun ts => model_codes (spell ts) es) seqs) o)
                   (zlist_eqb (flat_map (fun ts => spec_tok_codes ts (spec_envs abc)) seqs) o) None
  | CTokList zs obs =>
      let es := envs abc in
      let seqs := map seq_of zs in
      let o := unpack obs (length seqs * 8) in
      classify_gen (zlist_eqb (flat_map (fun ts => model_codes (spell ts) es) seqs) o)
                   (zlist_eqb (flat_map (fun ts => spec_tok_codes ts (spec_envs abc)) seqs) o) None
  | CText text feats obs =>
      let es := envs feats in
      classify_gen (zlist_eqb (model_codes text es) obs)
                   (zlist_eqb (spec_text_codes text (spec_envs feats)) obs)
                   (if kf_touch text es then Some 1 else None)
  | CGuard cfg declared ss code obs =>
      classify_gen (load_eqb (compile cfg declared ss) code obs)
                   (spec_load_ok (spec_load cfg declared ss) code obs)
                   (if kf_lazy cfg declared ss then Some 2 else None)
  end.
