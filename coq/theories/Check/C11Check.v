(** Executable classification of C11 correspondence cases.  The harness (harness/props/c11*.go)
    drives the real meta.IfFeature.Evaluate / parser.LoadModuleFromStringWithOptions and writes
    what it observed; everything below is evaluated by Coq. *)
From Coq Require Import ZArith List Bool Arith Strings.Byte.
From YV Require Import Base.Verdict Feature.IfFeature Feature.Guard Feature.GuardTree Feature.Deviate.
Import ListNotations.

(** result codes: 0 false, 1 true, 2 error, 3 panic/timeout *)
Definition code_of (r : result) : Z :=
  match r with ROk false => 0%Z | ROk true => 1%Z | RErr => 2%Z | ROutOfFuel => 3%Z end.

(** 16 base-4 digits per word, least significant first (read off the binary representation) *)
Fixpoint digits4 (n : nat) (p : positive) : list Z :=
  match n with
  | O => []
  | S n' =>
      match p with
      | xO (xO q) => 0%Z :: digits4 n' q
      | xI (xO q) => 1%Z :: digits4 n' q
      | xO (xI q) => 2%Z :: digits4 n' q
      | xI (xI q) => 3%Z :: digits4 n' q
      | xH => 1%Z :: repeat 0%Z n'
      | xO xH => 2%Z :: repeat 0%Z n'
      | xI xH => 3%Z :: repeat 0%Z n'
      end
  end.
Definition unpack_word (n : nat) (w : Z) : list Z :=
  match w with Zpos p => digits4 n p | _ => repeat 0%Z n end.
Definition unpack (ws : list Z) (len : nat) : list Z := firstn len (flat_map (unpack_word 16) ws).

Fixpoint zlist_eqb (a b : list Z) : bool :=
  match a, b with
  | [], [] => true
  | x :: a', y :: b' => Z.eqb x y && zlist_eqb a' b'
  | _, _ => false
  end.

(** assignments: all subsets of the feature alphabet; for [a;b;c] the index is a*4+b*2+c *)
Fixpoint subsets (l : list (list byte)) : list (list (list byte)) :=
  match l with
  | [] => [[]]
  | x :: tl => let r := subsets tl in r ++ map (cons x) r
  end.
(** what the code's map of enabled features answers for a key *)
Definition env_of (enabled : list (list byte)) : env := Guard.env_of enabled.
Definition envs (feats : list (list byte)) : list env := map env_of (subsets feats).
(** specification side: an identifier-ref [prefix:]name denotes the feature called name *)
Definition spec_local (id : list byte) : list byte :=
  rev ((fix upto (l : list byte) : list byte :=
          match l with [] => [] | b :: tl => if beq b x3a then [] else b :: upto tl end) (rev id)).
Definition spec_env_of (enabled : list (list byte)) : env :=
  fun id => existsb (bytes_eqb (spec_local id)) enabled.
Definition spec_envs (feats : list (list byte)) : list env := map spec_env_of (subsets feats).

(** tokens as text *)
Definition tok_bytes (t : tok) : list byte :=
  match t with
  | TLp => lp | TRp => rp | TNot => kw_not | TAnd => kw_and | TOr => kw_or | TId id => id
  end.
Fixpoint spell (ts : list tok) : list byte :=
  match ts with
  | [] => []
  | [t] => tok_bytes t
  | t :: tl => tok_bytes t ++ x20 :: spell tl
  end.

Definition fa : list byte := [x61].
Definition fb : list byte := [x62].
Definition fc : list byte := [x63].
Definition abc : list (list byte) := [fa; fb; fc].
Definition alphabet : list tok := [TId fa; TId fb; TId fc; TNot; TAnd; TOr; TLp; TRp].

(** all token sequences of length n, first token most significant *)
Fixpoint all_seqs (n : nat) : list (list tok) :=
  match n with
  | O => [[]]
  | S n' => flat_map (fun t => map (cons t) (all_seqs n')) alphabet
  end.

(** a token sequence written as a number: digits 1..8 = alphabet position + 1, first token most
    significant (so the length is recoverable) *)
Fixpoint decode_seq (fuel : nat) (z : Z) (acc : list tok) : list tok :=
  match fuel with
  | O => acc
  | S f =>
      if (z <=? 0)%Z then acc
      else decode_seq f (z / 9)%Z (nth (Z.to_nat (z mod 9 - 1)) alphabet TRp :: acc)
  end.
Definition seq_of (z : Z) : list tok := decode_seq 40 z [].

Definition model_codes (text : list byte) (es : list env) : list Z :=
  map (fun e => code_of (eval_impl text e)) es.
Definition spec_tok_codes (ts : list tok) (es : list env) : list Z :=
  map (fun e => code_of (spec_tokens ts e)) es.
Definition spec_text_codes (text : list byte) (es : list env) : list Z :=
  map (fun e => code_of (spec_text text e)) es.
Definition denote_codes (x : fexpr) (es : list env) : list Z :=
  map (fun e => code_of (ROk (denote x e))) es.

(** region of known finding 1: a word byte touches a parenthesis from outside and the lenient
    reading (parentheses delimit themselves) finds an expression *)
Definition kf_touch (text : list byte) (es : list env) : bool :=
  touches text &&
  existsb (fun e => match spec_tokens (spec_lex text) e with ROk _ => true | _ => false end) es.

(** ** part (ii): guard presence.  Specification oracle: each guard text is read by the
    independent RFC reader [spec_text] against the features the configuration turns on *)
Definition guard_env (cfg : fconfig) (declared : list name) : env :=
  fun id => is_enabled cfg declared (spec_local id).
Definition guard_vals (cfg : fconfig) (declared : list name) (ifs : list text) : list result :=
  map (fun t => spec_text t (guard_env cfg declared)) ifs.
Definition is_err (r : result) : bool := match r with RErr | ROutOfFuel => true | _ => false end.
Definition is_true (r : result) : bool := match r with ROk true => true | _ => false end.
Definition is_false (r : result) : bool := match r with ROk false => true | _ => false end.

Definition stmt_guards (s : stmt) : list (list text) :=
  match s with
  | SData ifs | SCase ifs | SUses ifs | SAugment ifs => [ifs]
  | SRefines rs => rs
  end.

(** expected observation: None = the load must fail (some expression is malformed) *)
Definition spec_load (cfg : fconfig) (declared : list name) (ss : list stmt) : option (list (list bool)) :=
  if existsb (fun s => existsb (fun ifs => existsb is_err (guard_vals cfg declared ifs)) (stmt_guards s)) ss
  then None
  else Some (map (fun s => map (fun ifs => forallb is_true (guard_vals cfg declared ifs)) (stmt_guards s)) ss).

Fixpoint blist_eqb (a b : list bool) : bool :=
  match a, b with
  | [], [] => true
  | x :: a', y :: b' => Bool.eqb x y && blist_eqb a' b'
  | _, _ => false
  end.
Fixpoint bll_eqb (a b : list (list bool)) : bool :=
  match a, b with
  | [], [] => true
  | x :: a', y :: b' => blist_eqb x y && bll_eqb a' b'
  | _, _ => false
  end.

(** observed: code 0 loaded (with flags), 1 load error, 2 panic / inconsistent tree *)
Definition load_eqb (l : load) (code : Z) (obs : list (list bool)) : bool :=
  match l with
  | Loaded os => Z.eqb code 0 && bll_eqb os obs
  | LoadErr => Z.eqb code 1
  | LoadFuel => false
  end.
Definition spec_load_ok (o : option (list (list bool))) (code : Z) (obs : list (list bool)) : bool :=
  match o with
  | Some os => Z.eqb code 0 && bll_eqb os obs
  | None => Z.eqb code 1
  end.

(** ** part (ii), statements at every depth (Feature/GuardTree.v).  Specification oracle: a
    statement is there exactly when every if-feature expression on it and on each statement it is
    written inside reads true (independent reader [spec_text]); a malformed expression anywhere
    fails the load. *)
Fixpoint spec_ptree (cfg : fconfig) (declared : list name) (anc : bool) (n : node) : ptree :=
  match n with
  | Nd _ ifs kids =>
      let here := anc && forallb is_true (guard_vals cfg declared ifs) in
      Pt here (map (spec_ptree cfg declared here) kids)
  end.
Fixpoint node_has_err (cfg : fconfig) (declared : list name) (n : node) : bool :=
  match n with
  | Nd _ ifs kids => existsb is_err (guard_vals cfg declared ifs) || existsb (node_has_err cfg declared) kids
  end.
Definition spec_load_tree (cfg : fconfig) (declared : list name) (top : list node) : option (list ptree) :=
  if existsb (node_has_err cfg declared) top then None
  else Some (map (spec_ptree cfg declared true) top).

Fixpoint ptree_eqb (a b : ptree) : bool :=
  match a, b with
  | Pt x ka, Pt y kb =>
      Bool.eqb x y &&
      (fix go (l1 l2 : list ptree) : bool :=
         match l1, l2 with
         | [], [] => true
         | p :: t1, q :: t2 => ptree_eqb p q && go t1 t2
         | _, _ => false
         end) ka kb
  end.
Fixpoint ptrees_eqb (a b : list ptree) : bool :=
  match a, b with
  | [], [] => true
  | p :: t1, q :: t2 => ptree_eqb p q && ptrees_eqb t1 t2
  | _, _ => false
  end.

(** observed: code 0 loaded (with the flag trees), 1 load error, 2 panic / inconsistent tree;
    [noghost]: no definition that is absent from the listing of its parent is found by name
    (meta.Find from the nearest enclosing container, list, module, input, output, notification) *)
Definition tload_eqb (l : tload) (code : Z) (noghost : bool) (obs : list ptree) : bool :=
  match l with
  | TLoaded ps => Z.eqb code 0 && noghost && ptrees_eqb ps obs
  | TErr => Z.eqb code 1
  | TFuel => false
  end.
Definition spec_tload_ok (o : option (list ptree)) (code : Z) (noghost : bool) (obs : list ptree) : bool :=
  match o with
  | Some ps => Z.eqb code 0 && noghost && ptrees_eqb ps obs
  | None => Z.eqb code 1
  end.

(** ** part (iii): deviations.  Specification oracle, written property by property: each
    property evolves on its own under "add, then replace, then delete" (None = the deviation must
    be rejected). *)
Definition arg_of (o : option dargs) : dargs := match o with Some a => a | None => noargs end.

Definition sp_scalar {A} (cur add rep : option A) : option (option A) :=
  match (match add with
         | None => Some cur
         | Some v => match cur with None => Some (Some v) | Some _ => None end
         end) with
  | None => None
  | Some c => match rep with
              | None => Some c
              | Some v => match c with Some _ => Some (Some v) | None => None end
              end
  end.

Definition nonempty (t : list byte) : bool := match t with [] => false | _ => true end.

Definition sp_units (cur add rep del : list byte) : option (list byte) :=
  let s1 := if nonempty add then (if nonempty cur then None else Some add) else Some cur in
  let s2 := match s1 with
            | None => None
            | Some c => if nonempty rep then (if nonempty c then Some rep else None) else Some c
            end in
  match s2 with
  | None => None
  | Some c => if nonempty del then (if bytes_eqb c del then Some [] else None) else Some c
  end.

(** multiset difference; None when an element to remove is not there *)
Fixpoint count (x : list byte) (l : list (list byte)) : nat :=
  match l with [] => 0 | y :: tl => (if bytes_eqb x y then 1 else 0) + count x tl end.
Definition contains_all (xs l : list (list byte)) : bool :=
  forallb (fun x => count x xs <=? count x l) xs.
(** drop, for each x, the first [count x xs] occurrences *)
Fixpoint drop_counts (xs l : list (list byte)) : list (list byte) :=
  match l with
  | [] => []
  | y :: tl => if 0 <? count y xs
               then drop_counts ((fix rm (zs : list (list byte)) :=
                                    match zs with
                                    | [] => []
                                    | z :: zt => if bytes_eqb z y then zt else z :: rm zt
                                    end) xs) tl
               else y :: drop_counts xs tl
  end.

Definition sp_defaults (single : bool) (cur add rep del : option (list (list byte))) : option (option (list (list byte))) :=
  let s1 := match add with
            | None => Some cur
            | Some ds => match cur with None => Some (Some ds) | Some _ => None end
            end in
  let s2 := match s1 with
            | None => None
            | Some c => match rep with
                        | None => Some c
                        | Some ds => match c with
                                     | None => None
                                     | Some _ => if single && negb (length ds =? 1) then None else Some (Some ds)
                                     end
                        end
            end in
  match s2 with
  | None => None
  | Some c => match del with
              | None => Some c
              | Some ds =>
                  let l := match c with Some l => l | None => [] end in
                  if contains_all ds l
                  then Some (match drop_counts ds l with [] => None | r => Some r end)
                  else None
              end
  end.

(** musts: appended; a deleted expression must occur and all its occurrences go *)
Fixpoint sp_del_musts (ms cur : list (list byte)) : option (list (list byte)) :=
  match ms with
  | [] => Some cur
  | m :: tl => if 0 <? count m cur
               then sp_del_musts tl (filter (fun c => negb (bytes_eqb c m)) cur)
               else None
  end.

Definition set_eq (a b : list (list byte)) : bool :=
  (length a =? length b) && forallb (fun x => count x a =? count x b) a.
Fixpoint sp_del_unique (us cur : list (list (list byte))) : option (list (list (list byte))) :=
  match us with
  | [] => Some cur
  | u :: tl => if existsb (set_eq u) cur
               then sp_del_unique tl (filter (fun c => negb (set_eq u c)) cur)
               else None
  end.

Definition spec_deviate (single : bool) (d : deviation) (p : props) : option props :=
  let a := arg_of (d_add d) in let r := arg_of (d_replace d) in let dl := arg_of (d_delete d) in
  match sp_scalar (p_config p) (a_config a) (a_config r),
        sp_scalar (p_mandatory p) (a_mandatory a) (a_mandatory r),
        sp_scalar (p_min p) (a_min a) (a_min r),
        sp_scalar (p_max p) (a_max a) (a_max r),
        sp_del_musts (a_musts dl) (p_musts p ++ a_musts a),
        sp_units (p_units p) (a_units a) (a_units r) (a_units dl),
        sp_defaults single (p_defaults p) (a_defaults a) (a_defaults r) (a_defaults dl),
        sp_del_unique (a_unique dl) (p_unique p ++ a_unique a) with
  | Some c, Some m, Some mn, Some mx, Some ms, Some u, Some df, Some uq =>
      Some (mkProps c m mn mx ms u df uq (match a_type r with Some t => t | None => p_type p end))
  | _, _, _, _, _, _, _, _ => None
  end.

Definition kind_of_code (z : Z) : kind :=
  if Z.eqb z 0 then KLeaf else if Z.eqb z 1 then KLeafList else if Z.eqb z 2 then KList else KContainer.

Definition ob_eqb (a b : option bool) : bool :=
  match a, b with Some x, Some y => Bool.eqb x y | None, None => true | _, _ => false end.
Definition oz_eqb (a b : option Z) : bool :=
  match a, b with Some x, Some y => Z.eqb x y | None, None => true | _, _ => false end.
Fixpoint tl_eqb (a b : list (list byte)) : bool :=
  match a, b with
  | [], [] => true
  | x :: a', y :: b' => bytes_eqb x y && tl_eqb a' b'
  | _, _ => false
  end.
Fixpoint tll_eqb (a b : list (list (list byte))) : bool :=
  match a, b with
  | [], [] => true
  | x :: a', y :: b' => tl_eqb x y && tll_eqb a' b'
  | _, _ => false
  end.
Definition odef_eqb (a b : option (list (list byte))) : bool :=
  match a, b with Some x, Some y => tl_eqb x y | None, None => true | _, _ => false end.

(** what is observable after the whole compile: an unset config is inherited (true here) *)
Definition project (p : props) : props :=
  set_config p (Some (match p_config p with Some b => b | None => true end)).

Definition props_eqb (a b : props) : bool :=
  ob_eqb (p_config a) (p_config b) && ob_eqb (p_mandatory a) (p_mandatory b)
  && oz_eqb (p_min a) (p_min b) && oz_eqb (p_max a) (p_max b)
  && tl_eqb (p_musts a) (p_musts b) && bytes_eqb (p_units a) (p_units b)
  && odef_eqb (p_defaults a) (p_defaults b) && tll_eqb (p_unique a) (p_unique b)
  && bytes_eqb (p_type a) (p_type b).

(** observed: code 0 loaded / 1 load error / 2 panic; [removed]: the target is gone;
    [others_ok]: every other child of the parent is there, in order, with its record unchanged *)
Definition dev_corr (k : kind) (d : deviation) (p : props) (code : Z) (removed others_ok : bool) (obs : props) : bool :=
  match apply_deviation k d p with
  | DRemoved => Z.eqb code 0 && removed && others_ok
  | DOk p' => Z.eqb code 0 && negb removed && others_ok && props_eqb (project p') obs
  | DErr => Z.eqb code 1
  | DPanic => Z.eqb code 2
  end.
Definition dev_spec (k : kind) (d : deviation) (p : props) (code : Z) (removed others_ok : bool) (obs : props) : bool :=
  if d_not_supported d then Z.eqb code 0 && removed && others_ok
  else match spec_deviate (single_default k) d p with
       | Some p' => Z.eqb code 0 && negb removed && others_ok && props_eqb (project p') obs
       | None => Z.eqb code 1
       end.

(** the same grouping used a second time: the copy of the target that no deviation names still has
    exactly what the grouping declares, whatever happens to the named copy (the deviation is applied
    after the uses are expanded, to one expansion).  [copy] is what was read off that other copy;
    nothing is observable when the load fails. *)
Definition copy_kept (p : props) (code : Z) (copy : option props) : bool :=
  if Z.eqb code 0
  then match copy with Some q => props_eqb (project p) q | None => false end
  else true.

Inductive case :=
| CExpr (c : cst) (w0 w1 text : list byte) (feats : list (list byte)) (obs : list Z)
    (* a generated grammatical written expression; obs: one code per assignment *)
| CTokAll (n : nat) (obs : list Z)
    (* every sequence of n tokens over [alphabet], single spaces, x 8 assignments, packed *)
| CTokAllFrom (first : nat) (n : nat) (obs : list Z)
    (* every sequence of 1+n tokens starting with the first-th token of [alphabet] (a big table in slices) *)
| CTokList (seqs : list Z) (obs : list Z)
    (* listed token sequences (numbers, see seq_of), single spaces, x 8 assignments, packed *)
| CText (text : list byte) (feats : list (list byte)) (obs : list Z)
    (* arbitrary bytes; one code per assignment *)
| CGuard (cfg : fconfig) (declared : list name) (ss : list stmt) (code : Z) (obs : list (list bool))
    (* a module loaded with Options.Features = cfg; per statement: present / refine applied *)
| CGuardTree (cfg : fconfig) (declared : list name) (top : list node) (code : Z) (noghost : bool) (obs : list ptree)
    (* a module with guarded statements at every depth (containers, lists, choices and cases,
       groupings used with refines and augments, module-level augments, rpc/action input and
       output, notifications); one flag per statement, same shape as [top] *)
| CDeviate (kind_code : Z) (p : props) (d : deviation) (code : Z) (removed others_ok : bool) (obs : props)
    (* a deviation applied to a node with properties p (0 leaf, 1 leaf-list, 2 list, 3 container) *)
| CDeviateCopy (kind_code : Z) (p : props) (d : deviation) (code : Z) (removed others_ok : bool) (obs : props)
    (copy : option props).
    (* the node is declared in a grouping used in two containers and the deviation names one of the
       two copies; [copy]: the record of the other one.  [others_ok] here also covers the other
       children of both containers and the statements of the grouping itself *)

Definition classify (c : case) : verdict :=
  match c with
  | CExpr c w0 w1 text feats obs =>
      let es := envs feats in
      classify_gen (bytes_eqb text (w0 ++ render c ++ w1) && wf c && all_ws w0 && all_ws w1
                    && zlist_eqb (model_codes text es) obs)
                   (zlist_eqb (denote_codes (abstract c) (spec_envs feats)) obs) None
  | CTokAll n obs =>
      let es := envs abc in
      let seqs := all_seqs n in
      let o := unpack obs (length seqs * 8) in
      classify_gen (zlist_eqb (flat_map (fun ts => model_codes (spell ts) es) seqs) o)
                   (zlist_eqb (flat_map (fun ts => spec_tok_codes ts (spec_envs abc)) seqs) o) None
  | CTokAllFrom first n obs =>
      let es := envs abc in
      let seqs := map (cons (nth first alphabet TRp)) (all_seqs n) in
      let o := unpack obs (length seqs * 8) in
      classify_gen (Nat.ltb first 8 && zlist_eqb (flat_map (fun ts => model_codes (spell ts) es) seqs) o)
                   (zlist_eqb (flat_map (fun ts => spec_tok_codes ts (spec_envs abc)) seqs) o) None
  | CTokList zs obs =>
      let es := envs abc in
      let seqs := map seq_of zs in
      let o := unpack obs (length seqs * 8) in
      classify_gen (zlist_eqb (flat_map (fun ts => model_codes (spell ts) es) seqs) o)
                   (zlist_eqb (flat_map (fun ts => spec_tok_codes ts (spec_envs abc)) seqs) o) None
  | CText text feats obs =>
      let es := envs feats in
      classify_gen (zlist_eqb (model_codes text es) obs)
                   (zlist_eqb (spec_text_codes text (spec_envs feats)) obs)
                   (if kf_touch text es then Some 1 else None)
  | CGuard cfg declared ss code obs =>
      classify_gen (load_eqb (compile cfg declared ss) code obs)
                   (spec_load_ok (spec_load cfg declared ss) code obs)
                   None
  | CGuardTree cfg declared top code noghost obs =>
      classify_gen (tload_eqb (compile_tree cfg declared top) code noghost obs)
                   (spec_tload_ok (spec_load_tree cfg declared top) code noghost obs) None
  | CDeviate kc p d code removed others_ok obs =>
      let k := kind_of_code kc in
      classify_gen (dev_corr k d p code removed others_ok obs)
                   (dev_spec k d p code removed others_ok obs) None
  | CDeviateCopy kc p d code removed others_ok obs copy =>
      let k := kind_of_code kc in
      classify_gen (dev_corr k d p code removed others_ok obs && copy_kept p code copy)
                   (dev_spec k d p code removed others_ok obs && copy_kept p code copy) None
  end.
