(** Classification of C04 cases (harness/props/c04.go).
    CExport: a selection of a reference store is read out into a fresh reference store with the real
      Selection.UpsertInto / InsertInto.  corr: Editor.v's [edit_one] into the empty store gives the
      observed tree; spec: the observed tree is [Export.visit] (the data in schema order, chosen case
      only, defaults of unset leaves below the start node, nothing else).
    CRound: the tree is written with the real JSON writer (a configuration), the text read back with
      the real nodeutil.ReadJSON and upserted into a fresh store.  [doc] is the text decoded by
      encoding/json the way the reader does (oracle).  corr: [JsonR.jimport] of the decoded document
      gives the observed tree; spec: the observed tree is the exported tree. *)
From Coq Require Import ZArith List Bool Strings.Byte.
From YV Require Import Base.Verdict Val.Model Tree.Schema Tree.Editor Tree.Export Tree.JStr Tree.JsonSpec Tree.JsonExp Tree.JsonR.
Import ListNotations.
Open Scope Z_scope.

Inductive obs :=
| OTree (d : dnode)      (* the call returned nil; the fresh store afterwards *)
| OErr                   (* an error was returned *)
| OPanic.

Definition row_of (s : snode) : snode := match s with SList _ _ row => row | _ => s end.

Inductive case :=
| CExport (s : snode) (data : dnode) (o : obs)
| CRound (cfg : wcfg) (s : snode) (data : dnode) (doc : rjv) (o : obs).

(** some leaf of the exported tree satisfies [p] *)
Definition any_kid (f : snode -> dnode -> bool) : list snode -> content -> bool :=
  fix go ks cs :=
    match ks, cs with
    | k :: ks', Some d :: cs' => f k d || go ks' cs'
    | _ :: ks', None :: cs' => go ks' cs'
    | _, _ => false
    end.
Fixpoint any_leaf (p : ltype -> lval -> bool) (s : snode) (d : dnode) {struct s} : bool :=
  match s, d with
  | SLeaf _ ty _ _, DLeaf v => p ty v
  | SCont _ kids, DCont c => any_kid (fun k dk => any_leaf p k dk) kids c
  | SList _ _ row, DList rows => existsb (fun r => any_leaf p row r) rows
  | _, _ => false
  end.

(** known finding 1: a union with an integer member before its string member holding a string
    that reads as an integer comes back as the integer member *)
Fixpoint has_int_member (ms : list ltype) : bool :=
  match ms with TInt _ :: _ => true | _ :: tl => has_int_member tl | [] => false end.
Definition numeric_union_string (ty : ltype) (v : lval) : bool :=
  match ty, v with
  | TUnion ms, LV (VStr s) => has_int_member ms && match atoi s with Some _ => true | None => false end
  | _, _ => false
  end.

Definition obs_eqb (m : rres (res dnode)) (o : obs) : bool :=
  match m, o with
  | ROk (Ok d), OTree d' => dnode_eqb d d'
  | ROk (Err _), OErr => true
  | RErr, OErr => true
  | _, _ => false
  end.

Definition classify (c : case) : verdict :=
  match c with
  | CExport s data o =>
      let model := ROk (edit_one false s data (empty_node s) false Upsert) in
      let spec := match o with OTree d => dnode_eqb d (visit false s data) | _ => false end in
      classify_gen (obs_eqb model o) spec None
  | CRound cfg s data doc o =>
      let exported := visit false s data in
      let spec := match o with OTree d => dnode_eqb d exported | _ => false end in
      let known := if any_leaf numeric_union_string s exported then Some 1%nat else None in
      classify_gen (obs_eqb (jimport s doc) o) spec known
  end.
