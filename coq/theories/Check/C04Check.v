(** Classification of C04 cases (harness/props/c04.go).
    CExport: a selection of a reference store is read out into a fresh reference store with the real
      Selection.UpsertInto / InsertInto.  corr: Editor.v's [edit_one] into the empty store gives the
      observed tree; spec: the observed tree is [Export.visit] (the data in schema order, chosen case
      only, defaults of unset leaves below the start node, nothing else).
    CRound: the tree is written with the real JSON writer (a configuration), the text read back with
      the real nodeutil.ReadJSON and upserted into a fresh store.  [doc] is the text decoded by
      encoding/json the way the reader does (oracle).  corr: [JsonR.jimport] of the decoded document
      gives the observed tree; spec: the observed tree is the exported tree.
    CSession: ONE real JSONWtr value lives through a history (Out pointed at one of several
      streams, configuration fields changed, sel.InsertInto/UpsertInto(wtr.Node()), wtr.JSON(sel));
      the streams accept a limited number of bytes or any number.  corr: Tree/JsonSession.v's
      [run_session] (writer object with its private bufio.Writer, documents from the writer model
      JsonW.v) gives the observed results and the observed content of every stream; spec (a law that
      does not mention the writer object): with [fresh] = what a brand-new JSONWtr wrote for the same
      selection and configuration, every stream holds the documents of the exports made while it
      was Out, each once, in order, cut at its capacity; an export failed exactly when its stream
      did not take all of it; JSON(sel) returned the document. *)
From Coq Require Import ZArith List Bool Strings.Byte.
From YV Require Import Base.Verdict Val.Model Tree.Schema Tree.Editor Tree.Export Tree.JStr Tree.JsonSpec Tree.JsonExp Tree.JsonR
  Tree.JsonW Tree.JsonSession.
Import ListNotations.
Open Scope Z_scope.

Inductive obs :=
| OTree (d : dnode)      (* the call returned nil; the fresh store afterwards *)
| OErr                   (* an error was returned *)
| OPanic.

Definition row_of (s : snode) : snode := match s with SList _ _ row => row | _ => s end.

(** oracle tables supplied by the harness (as in C15Check.v): decimal text of every binary64 in the
    data and the defining module of every identity *)
Definition ftab := list (Z * Z * list byte).
Definition idtab := list (ident * ident).
Definition ftab_lookup (t : ftab) (m e : Z) : list byte :=
  match find (fun r => (fst (fst r) =? m) && (snd (fst r) =? e)) t with Some r => snd r | None => [] end.
Definition idtab_lookup (t : idtab) (l : ident) : option ident :=
  match find (fun r => ident_eqb (fst r) l) t with Some r => Some (snd r) | None => None end.
Definition mk_leaf_start (s : snode) (v : option lval) : start := StLeaf (smeta s) v.

Inductive case :=
| CExport (s : snode) (data : dnode) (o : obs)
| CRound (cfg : wcfg) (s : snode) (data : dnode) (doc : rjv) (o : obs)
| CSession (ft : ftab) (it : idtab) (starts : list start) (caps : list (option nat)) (cfg0 : wcfg) (out0 : nat)
    (ops : list sop) (fresh : list (list byte)) (res : list sres) (finals : list (list byte)).
    (* [caps]: per stream the number of bytes it accepts (None: any); [cfg0]/[out0]: the fields of the
       writer when it is made; [fresh]: per operation the output of a brand-new writer ([] for
       assignments); [res]: per operation what the call returned; [finals]: per stream what it received *)

(** some leaf of the exported tree satisfies [p] *)
Definition any_kid (f : snode -> dnode -> bool) : list snode -> content -> bool :=
  fix go ks cs :=
    match ks, cs with
    | k :: ks', Some d :: cs' => f k d || go ks' cs'
    | _ :: ks', None :: cs' => go ks' cs'
    | _, _ => false
    end.
Fixpoint any_leaf (p : ltype -> lval -> bool) (s : snode) (d : dnode) {struct s} : bool :=
  match s, d with
  | SLeaf _ ty _ _, DLeaf v => p ty v
  | SCont _ kids, DCont c => any_kid (fun k dk => any_leaf p k dk) kids c
  | SList _ _ row, DList rows => existsb (fun r => any_leaf p row r) rows
  | _, _ => false
  end.

(** known finding 1: a union with an integer member before its string member holding a string
    that reads as an integer comes back as the integer member *)
Fixpoint has_int_member (ms : list ltype) : bool :=
  match ms with TInt _ :: _ => true | _ :: tl => has_int_member tl | [] => false end.
Definition numeric_union_string (ty : ltype) (v : lval) : bool :=
  match ty, v with
  | TUnion ms, LV (VStr s) => has_int_member ms && match atoi s with Some _ => true | None => false end
  | _, _ => false
  end.

Definition obs_eqb (m : rres (res dnode)) (o : obs) : bool :=
  match m, o with
  | ROk (Ok d), OTree d' => dnode_eqb d d'
  | ROk (Err _), OErr => true
  | RErr, OErr => true
  | _, _ => false
  end.

(** ** sessions of one writer *)
Definition sres_eqb (a b : sres) : bool :=
  match a, b with
  | RSet, RSet => true
  | RExp x, RExp y => Bool.eqb x y
  | RJson x s, RJson y t => Bool.eqb x y && bytes_eqb s t
  | _, _ => false
  end.
Fixpoint list_eqb {A} (eqb : A -> A -> bool) (a b : list A) : bool :=
  match a, b with
  | [], [] => true
  | x :: a', y :: b' => eqb x y && list_eqb eqb a' b'
  | _, _ => false
  end.

(** the law, from the outputs of brand-new writers: [sent] = bytes offered to each stream so far *)
Fixpoint bump (k n : nat) (l : list nat) : list nat :=
  match l, k with
  | [], _ => []
  | x :: tl, O => (x + n)%nat :: tl
  | x :: tl, S k' => x :: bump k' n tl
  end.
Definition over (cap : option nat) (total : nat) : bool :=
  match cap with Some n => Nat.ltb n total | None => false end.
Fixpoint law_results (caps : list (option nat)) (out : nat) (sent : list nat) (ops : list sop) (fresh : list (list byte))
  : list sres :=
  match ops, fresh with
  | SOut k :: tl, _ :: ftl => RSet :: law_results caps k sent tl ftl
  | SCfg _ :: tl, _ :: ftl => RSet :: law_results caps out sent tl ftl
  | SExport _ :: tl, d :: ftl =>
      let sent' := bump out (length d) sent in
      RExp (over (nth out caps None) (nth out sent' O)) :: law_results caps out sent' tl ftl
  | SJSON _ :: tl, d :: ftl => RJson false d :: law_results caps out sent tl ftl
  | _, _ => []
  end.
Fixpoint law_directed (k out : nat) (ops : list sop) (fresh : list (list byte)) : list byte :=
  match ops, fresh with
  | SOut k' :: tl, _ :: ftl => law_directed k k' tl ftl
  | SExport _ :: tl, d :: ftl => (if Nat.eqb out k then d else []) ++ law_directed k out tl ftl
  | _ :: tl, _ :: ftl => law_directed k out tl ftl
  | _, _ => []
  end.
Definition cut (cap : option nat) (l : list byte) : list byte :=
  match cap with Some n => firstn n l | None => l end.
Fixpoint law_finals (caps : list (option nat)) (k out : nat) (ops : list sop) (fresh : list (list byte)) : list (list byte) :=
  match caps with
  | [] => []
  | c :: tl => cut c (law_directed k out ops fresh) :: law_finals tl (S k) out ops fresh
  end.

Definition classify (c : case) : verdict :=
  match c with
  | CExport s data o =>
      let model := ROk (edit_one false s data (empty_node s) false Upsert) in
      let spec := match o with OTree d => dnode_eqb d (visit false s data) | _ => false end in
      classify_gen (obs_eqb model o) spec None
  | CRound cfg s data doc o =>
      let exported := visit false s data in
      let spec := match o with OTree d => dnode_eqb d exported | _ => false end in
      let known := if any_leaf numeric_union_string s exported then Some 1%nat else None in
      classify_gen (obs_eqb (jimport s doc) o) spec known
  | CSession ft it starts caps cfg0 out0 ops fresh res finals =>
      let corr :=
        match run_session jw_node (ftab_lookup ft) (idtab_lookup it) starts
                          (map (fun c => mkSink [] c) caps) (mkJW out0 cfg0 None) ops with
        | Some (ssf, rs) => list_eqb sres_eqb rs res && list_eqb bytes_eqb (map sk_data ssf) finals
        | None => false
        end in
      let spec :=
        Nat.eqb (length fresh) (length ops) && Nat.ltb out0 (length caps) &&
        list_eqb sres_eqb (law_results caps out0 (map (fun _ => O) caps) ops fresh) res &&
        list_eqb bytes_eqb (law_finals caps O out0 ops fresh) finals in
      classify_gen corr spec None
  end.
