(** Executable classification of C17 correspondence cases.  The harness (harness/c17.go) runs the
    real val.Compare / val.Equal / val.CompareVals / list lookups and writes what it observed;
    everything below is evaluated by Coq. *)
From Coq Require Import ZArith List Bool Lia Strings.Byte.
From YV Require Import Base.Verdict Base.Wrap Val.Model Val.Proofs Val.History.
Import ListNotations.
Open Scope Z_scope.

(** observation codes: 0 negative, 1 zero, 2 positive, 3 panic; for Equal: 0 false, 1 true, 3 panic *)
Definition code_of_sgn (o : option Z) : Z :=
  match o with None => 3 | Some c => if c <? 0 then 0 else if c =? 0 then 1 else 2 end.
Definition code_of_bool (o : option bool) : Z :=
  match o with None => 3 | Some false => 0 | Some true => 1 end.

(** 16 base-4 digits per word, least significant first *)
Fixpoint unpack_word (n : nat) (w : Z) : list Z :=
  match n with O => [] | S n' => (w mod 4) :: unpack_word n' (w / 4) end.
Definition unpack (ws : list Z) (len : nat) : list Z :=
  firstn len (flat_map (unpack_word 16) ws).

Fixpoint zlist_eqb (a b : list Z) : bool :=
  match a, b with
  | [], [] => true
  | x :: a', y :: b' => (x =? y) && zlist_eqb a' b'
  | _, _ => false
  end.

Definition wf_valueb (v : value) : bool :=
  match v with
  | VInt f z => (is_signed f || is_unsigned f) && in_rangeb f z
  | VEnum id _ => in_sb 32 id
  | _ => true
  end.

Definition all_pairs {A} (l : list A) : list (A * A) :=
  flat_map (fun x => map (fun y => (x, y)) l) l.

Definition opt_key_eqb (a b : option key) : bool :=
  match a, b with
  | None, None => true
  | Some x, Some y => keys_ifeq x y
  | _, _ => false
  end.

Inductive case :=
| CTable (vals : list value) (signs eqs : list Z)       (* all ordered pairs, row major, packed *)
| CPair (x y : value) (sign eq : Z)
| CTuple (a b : key) (sign : Z) (eq : Z)                 (* CompareVals / EqualVals *)
| CLookup (kind : nat) (rows : list key) (k : key) (found : option key)
| CHist (elem : nat) (rows : list row) (ops : list hop) (obs : list (Z * list row)).
   (* a stream of keyed requests through ONE live Reflect list node over a slice;
      elem 0: []T (struct values), 1: []*T, 2: []map[string]interface{};
      obs: after each request, what the lookup answered (1 node / 0 nil / 3 error or panic) and the
      rows then held by the Go slice *)
   (* kind 0: Reflect slice list (sorted index + sort.Search); 1: nodeutil.Node slice (linear scan) *)

Definition spec_eq_code (x y : value) : Z :=
  match spec_sgn x y with Some c => if c =? 0 then 1 else 0 | None => 0 end.

(** the mathematically right answer for a lookup: the row whose key denotes the same as [k] *)
Fixpoint spec_lookup (rows : list key) (k : key) : option key :=
  match rows with
  | [] => None
  | r :: tl => match spec_lex r k with Some 0 => Some r | _ => spec_lookup tl k end
  end.
Definition spec_lex_eq_code (a b : key) : Z :=
  match spec_lex a b with Some 0 => 1 | _ => 0 end.

Fixpoint rows_eqb (a b : list row) : bool :=
  match a, b with
  | [], [] => true
  | (k1, t1) :: a', (k2, t2) :: b' => keys_ifeq k1 k2 && (t1 =? t2) && rows_eqb a' b'
  | _, _ => false
  end.
Fixpoint trace_eqb (a b : list (Z * list row)) : bool :=
  match a, b with
  | [], [] => true
  | (c1, r1) :: a', (c2, r2) :: b' => (c1 =? c2) && rows_eqb r1 r2 && trace_eqb a' b'
  | _, _ => false
  end.
(** the observed trace obeys the specification step by step: each observed state is what the
    request must make of the previously OBSERVED state *)
Fixpoint obs_spec_ok (prev : list row) (ops : list hop) (obs : list (Z * list row)) : bool :=
  match ops, obs with
  | [], [] => true
  | o :: ops', (c, rs) :: obs' =>
      let '(c', rs') := spec_hstep prev o in
      (c =? c') && rows_eqb rs rs' && obs_spec_ok rs ops' obs'
  | _, _ => false
  end.

Definition classify (c : case) : verdict :=
  match c with
  | CTable vals signs eqs =>
      let ps := all_pairs vals in
      let n := length ps in
      let os := unpack signs n in
      let oe := unpack eqs n in
      let ms := map (fun p => code_of_sgn (cmp_impl (fst p) (snd p))) ps in
      let me := map (fun p => code_of_bool (equal_impl (fst p) (snd p))) ps in
      let ss := map (fun p => code_of_sgn (spec_sgn (fst p) (snd p))) ps in
      let se := map (fun p => spec_eq_code (fst p) (snd p)) ps in
      classify_gen (zlist_eqb ms os && zlist_eqb me oe && forallb wf_valueb vals)
                   (zlist_eqb ss os && zlist_eqb se oe) None
  | CPair x y s e =>
      classify_gen ((code_of_sgn (cmp_impl x y) =? s) && (code_of_bool (equal_impl x y) =? e)
                    && wf_valueb x && wf_valueb y)
                   ((code_of_sgn (spec_sgn x y) =? s) && (spec_eq_code x y =? e)) None
  | CTuple a b s e =>
      classify_gen ((code_of_sgn (compare_vals a b) =? s) && (code_of_bool (equal_vals a b) =? e)
                    && forallb wf_valueb a && forallb wf_valueb b)
                   ((code_of_sgn (spec_lex a b) =? s) && (spec_lex_eq_code a b =? e)) None
  | CLookup kind rows k found =>
      let m := match kind with
               | O => reflect_find rows k
               | _ => match linear_find rows k O with Some i => nth_error rows i | None => None end
               end in
      classify_gen (opt_key_eqb m found) (opt_key_eqb (spec_lookup rows k) found) None
  | CHist _ rows ops obs =>
      classify_gen (trace_eqb (hist_impl rows ops) obs) (obs_spec_ok rows ops obs) None
  end.
