(** Executable classification of C14 correspondence cases.  The harness (harness/props/c14.go) loads
    texts in a worker sub-process (2 s limit) and walks a returned module through the public accessors;
    what it observed is classified here. *)
From Coq Require Import List Bool Arith Strings.Byte.
From YV Require Import Base.Verdict YLex.Keywords YLex.Model YLex.Spec Load.Model.
Import ListNotations.

Inductive obs :=
| OModule                         (* a module was returned and the walk through its accessors finished *)
| OError                          (* an error was returned *)
| OPanic (site : list byte)       (* the load panicked; innermost library frame *)
| OWalkPanic (site : list byte)   (* a module was returned but an accessor panicked *)
| OTimeout                        (* no answer within the limit (twice) *)
| OFatal                          (* the worker process died (stack exhaustion, fatal runtime error) *)
| OOther (what : list byte).

Inductive case :=
| CLoad (input : list byte) (lexical : bool) (o : obs)
(** every truncation point of one text: [codes] has one entry per prefix length 0..length-1
    (0 module, 1 error, 2 reported separately as a CLoad case) *)
| CPrefixes (input : list byte) (codes : list nat)
(** an import graph (Load/Model.v): [input] is the text that was loaded, [files] what the opener held
    (name index, text); the opener refused every request after the first [fuse]; [opens] are the
    names it was asked for, in order (empty when the worker died or was killed) *)
| CImports (g : igraph) (input : list byte) (files : list (nat * list byte)) (fuse : nat)
           (opens : list nat) (o : obs)
(** a grouping graph (Load/Model.v) and the text that was loaded *)
| CUses (g : ugraph) (input : list byte) (o : obs).

(** the property: a module or an error, nothing else *)
Definition spec_ok (o : obs) : bool := match o with OModule | OError => true | _ => false end.

Definition is_module (o : obs) : bool := match o with OModule => true | _ => false end.
Definition is_error (o : obs) : bool := match o with OError => true | _ => false end.
Definition is_timeout (o : obs) : bool := match o with OTimeout => true | _ => false end.

(** what the lexer model says about a load that involves this text only: a lexer error makes the
    load fail; a complete token stream says nothing (the parser decides) *)
Definition lex_corr (input : list byte) (module_returned : bool) : bool :=
  if in_domain input then
    match ylex input with
    | LexErr _ => negb module_returned
    | LexOk _ => true
    | LexPanic | LexFuel => false
    end
  else true.

(** known findings (KNOWN_FINDINGS.txt, property=C14) *)
Definition kf_deviation := 1.   (* applyDeviation: nil interface / failed assertion when the deviate
                                   sub-statement does not fit the target kind *)
Definition kf_uses_cycle := 2.  (* groupings that use each other without any data node: fillInRecursiveDefs
                                   never terminates *)

Definition s_deviat : list byte := [x64; x65; x76; x69; x61; x74].                       (* deviat *)
Definition s_apply_deviation : list byte :=
  [x61; x70; x70; x6c; x79; x44; x65; x76; x69; x61; x74; x69; x6f; x6e].               (* applyDeviation *)
Definition s_uses : list byte := [x75; x73; x65; x73].                                   (* uses *)
Definition s_grouping : list byte := [x67; x72; x6f; x75; x70; x69; x6e; x67].           (* grouping *)

Definition region (input : list byte) (o : obs) : option nat :=
  match o with
  | OPanic site =>
    if has_infix s_apply_deviation site && has_infix s_deviat input then Some kf_deviation else None
  | OTimeout =>
    if has_infix s_uses input && has_infix s_grouping input then Some kf_uses_cycle else None
  | _ => None
  end.

Definition s_lexer : list byte := [x2a; x6c; x65; x78; x65; x72; x29].    (* the receiver type of the lexer methods in a frame name *)
Definition lexer_panic (o : obs) : bool :=
  match o with OPanic site => has_infix s_lexer site | _ => false end.

Fixpoint prefixes_ok (input : list byte) (codes : list nat) (k : nat) : bool :=
  match codes with
  | [] => true
  | c :: codes' =>
    (match c with
     | 0 => lex_corr (firstn k input) true
     | 1 => lex_corr (firstn k input) false
     | _ => true
     end) && prefixes_ok input codes' (S k)
  end.

(** the structure a graph case is classified by is the structure of the texts that were loaded *)
Fixpoint files_match (fs : list (nat * ifile)) (ts : list (nat * list byte)) : bool :=
  match fs, ts with
  | [], [] => true
  | (k, f) :: fs', (k', t) :: ts' => Nat.eqb k k' && bytes_eqb (render_ifile f) t && files_match fs' ts'
  | _, _ => false
  end.

Definition imports_texts_ok (g : igraph) (input : list byte) (files : list (nat * list byte)) : bool :=
  igraph_wf g && bytes_eqb (render_ifile (ig_main g)) input && files_match (ig_files g) files.

(** what the model of the import loop says: the load ends; the opener is never asked twice for a
    name; when every text is stored under the name it declares the load succeeds iff every reachable
    import has a text, and on success exactly the reachable names were requested.  (Texts stored
    under another name make the outcome depend on Go's map order: only termination is predicted.) *)
Definition imports_corr (g : igraph) (opens : list nat) (o : obs) : bool :=
  nodupb opens &&
  match imp_model g with
  | IDone mo => if regular g then is_module o && same_set opens mo else spec_ok o
  | IFail _ => if regular g then is_error o else spec_ok o
  | IFuel => false
  end.

(** the spec oracle for an import graph, independent of the loop: a module or an error, and promptly -
    the opener was asked for at most twice as many texts as there are distinct import targets, and the
    load did not run into the opener's fuse *)
Definition imports_spec (g : igraph) (fuse : nat) (opens : list nat) (o : obs) : bool :=
  spec_ok o && Nat.leb (length opens) (2 * length (dedup (import_targets g))) && Nat.leb (length opens) fuse.

Definition classify (c : case) : verdict :=
  match c with
  | CLoad input lexical o =>
    (* the model also says that the lexer itself never panics (Props/C14.v) *)
    classify_gen ((if lexical then lex_corr input (is_module o) else true) && negb (lexer_panic o))
                 (spec_ok o) (region input o)
  | CPrefixes input codes =>
    classify_gen (prefixes_ok input codes 0 && Nat.eqb (length codes) (length input)) true None
  | CImports g input files fuse opens o =>
    classify_gen (imports_texts_ok g input files && imports_corr g opens o && negb (lexer_panic o))
                 (imports_spec g fuse opens o) None
  | CUses g input o =>
    (* the resolver is not modelled beyond this: outside the region of known finding 2 (a reachable
       cycle of direct uses between groupings without data nodes) the load ends with a module or an
       error; inside, nothing is predicted *)
    classify_gen (ugraph_wf g && bytes_eqb (render_ugraph g) input && negb (lexer_panic o) &&
                  (bare_uses_cycle g || spec_ok o))
                 (spec_ok o)
                 (if is_timeout o && bare_uses_cycle g then Some kf_uses_cycle else None)
  end.
