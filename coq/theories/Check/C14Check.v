(** Executable classification of C14 correspondence cases.  The harness (harness/props/c14.go) loads
    texts in a worker sub-process (2 s limit) and walks a returned module through the public accessors;
    what it observed is classified here. *)
From Coq Require Import List Bool Arith Strings.Byte.
From YV Require Import Base.Verdict YLex.Keywords YLex.Model YLex.Spec.
Import ListNotations.

Inductive obs :=
| OModule                         (* a module was returned and the walk through its accessors finished *)
| OError                          (* an error was returned *)
| OPanic (site : list byte)       (* the load panicked; innermost library frame *)
| OWalkPanic (site : list byte)   (* a module was returned but an accessor panicked *)
| OTimeout                        (* no answer within the limit (twice) *)
| OFatal                          (* the worker process died (stack exhaustion, fatal runtime error) *)
| OOther (what : list byte).

Inductive case :=
| CLoad (input : list byte) (lexical : bool) (o : obs)
(** every truncation point of one text: [codes] has one entry per prefix length 0..length-1
    (0 module, 1 error, 2 reported separately as a CLoad case) *)
| CPrefixes (input : list byte) (codes : list nat).

(** the property: a module or an error, nothing else *)
Definition spec_ok (o : obs) : bool := match o with OModule | OError => true | _ => false end.

Definition is_module (o : obs) : bool := match o with OModule => true | _ => false end.

(** what the lexer model says about a load that involves this text only: a lexer error makes the
    load fail; a complete token stream says nothing (the parser decides) *)
Definition lex_corr (input : list byte) (module_returned : bool) : bool :=
  if in_domain input then
    match ylex input with
    | LexErr _ => negb module_returned
    | LexOk _ => true
    | LexPanic | LexFuel => false
    end
  else true.

(** known findings (KNOWN_FINDINGS.txt, property=C14) *)
Definition kf_deviation := 1.   (* applyDeviation: nil interface / failed assertion when the deviate
                                   sub-statement does not fit the target kind *)
Definition kf_uses_cycle := 2.  (* groupings that use each other without any data node: fillInRecursiveDefs
                                   never terminates *)

Definition s_deviat : list byte := [x64; x65; x76; x69; x61; x74].                       (* deviat *)
Definition s_apply_deviation : list byte :=
  [x61; x70; x70; x6c; x79; x44; x65; x76; x69; x61; x74; x69; x6f; x6e].               (* applyDeviation *)
Definition s_uses : list byte := [x75; x73; x65; x73].                                   (* uses *)
Definition s_grouping : list byte := [x67; x72; x6f; x75; x70; x69; x6e; x67].           (* grouping *)

Definition region (input : list byte) (o : obs) : option nat :=
  match o with
  | OPanic site =>
    if has_infix s_apply_deviation site && has_infix s_deviat input then Some kf_deviation else None
  | OTimeout =>
    if has_infix s_uses input && has_infix s_grouping input then Some kf_uses_cycle else None
  | _ => None
  end.

Definition s_lexer : list byte := [x2a; x6c; x65; x78; x65; x72; x29].    (* the receiver type of the lexer methods in a frame name *)
Definition lexer_panic (o : obs) : bool :=
  match o with OPanic site => has_infix s_lexer site | _ => false end.

Fixpoint prefixes_ok (input : list byte) (codes : list nat) (k : nat) : bool :=
  match codes with
  | [] => true
  | c :: codes' =>
    (match c with
     | 0 => lex_corr (firstn k input) true
     | 1 => lex_corr (firstn k input) false
     | _ => true
     end) && prefixes_ok input codes' (S k)
  end.

Definition classify (c : case) : verdict :=
  match c with
  | CLoad input lexical o =>
    (* the model also says that the lexer itself never panics (Props/C14.v) *)
    classify_gen ((if lexical then lex_corr input (is_module o) else true) && negb (lexer_panic o))
                 (spec_ok o) (region input o)
  | CPrefixes input codes =>
    classify_gen (prefixes_ok input codes 0 && Nat.eqb (length codes) (length input)) true None
  end.
