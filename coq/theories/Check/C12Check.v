(** Classification of C12 fault-injection runs (harness/props/c12.go). *)
From Coq Require Import List Bool Arith Strings.Byte.
From YV Require Import Base.Verdict Tree.Trace Tree.TraceProofs.
Import ListNotations.

Inductive case :=
| CFault (root : path) (t : etree) (k : nat) (observed : list event) (errored wrapped : bool)
| CClean (root : path) (t : option etree) (observed : list event) (errored : bool).

Definition classify (c : case) : verdict :=
  match c with
  | CFault root t k observed errored wrapped =>
      (* wf_tree ties the parsed frame tree to the hypothesis of C12_all_faults *)
      classify_gen (wf_tree root t && events_eqb (run_fault t k) observed) (c12_ok root observed errored wrapped) None
  | CClean root t observed errored =>
      classify_gen (match t with Some t' => wf_tree root t' && events_eqb (run_clean t') observed | None => false end)
                   (c12_ok root observed errored false) None
  end.
