(** Classification of C12 fault-injection runs (harness/props/c12.go). *)
From Coq Require Import List Bool Arith Strings.Byte.
From YV Require Import Base.Verdict Tree.Trace Tree.TraceProofs.
Import ListNotations.

Inductive case :=
| CFault (root : path) (t : etree) (k : nat) (observed : list event) (errored wrapped : bool)
| CClean (root : path) (t : option etree) (observed : list event) (errored : bool)
| CFaultSpec (failed_kind : nat) (observed : list event) (outcome : nat).
   (* upserts that switch a choice case (the editor clears the old case through nested Delete edits,
      which the frame model does not cover): the requirement on error surfacing is evaluated on the
      observed callbacks alone.  failed_kind: 0 none/other, 1 the failing callback is Choose on the
      target, 2 Choose on the source.  outcome: 0 nil, 1 error wrapping the injected one, 2 another
      error, 3 panic *)

Definition classify (c : case) : verdict :=
  match c with
  | CFault root t k observed errored wrapped =>
      (* wf_tree ties the parsed frame tree to the hypothesis of C12_all_faults *)
      classify_gen (wf_tree root t && events_eqb (run_fault t k) observed) (c12_ok root observed errored wrapped) None
  | CClean root t observed errored =>
      classify_gen (match t with Some t' => wf_tree root t' && events_eqb (run_clean t') observed | None => false end)
                   (c12_ok root observed errored false) None
  | CFaultSpec fk observed outcome =>
      let spec := no_write_after_failure false observed
                  && (negb (any_failed observed) || Nat.eqb outcome 1) && negb (Nat.eqb outcome 3) in
      (* known findings, pinned to the defective outcome:
         1: an error returned by the target's Choose is swallowed by clearOnDifferentChoiceCase (the call returns nil)
         2: an error returned by Choose to containerMetaList.lookAhead (iterating the source, or the target's old case while it is cleared) makes it panic *)
      let known := match fk, outcome with
                   | 1, 0 => Some 1
                   | 2, 3 | 1, 3 => Some 2    (* lookAhead also iterates the TARGET's old case while clearing it *)
                   | _, _ => None
                   end in
      classify_gen true spec known
  end.
