(** Executable classification of C10 correspondence cases.  The harness (harness/props/c10.go)
    calls the real val.Conv / val.ConvOneOf on a source value for every target format and
    writes what it observed: an error, (nil, nil), or the returned value read back through
    Value() (reflection, arbitrary precision) together with its String(). *)
From Coq Require Import ZArith List Bool Lia Strings.Byte QArith.
From YV Require Import Base.Verdict Base.Wrap Val.Model Conv.Model Conv.Spec Conv.Front.
Import ListNotations.
Open Scope Z_scope.

Inductive obs :=
| OErr
| ONil                                            (* (nil, nil) *)
| OV (r : rval) (str : option (list byte))        (* Value() read back; String() of scalar int/bool/string *)
| OEnum (id : Z) (label : list byte)              (* a val.Enum (NewValue on an enumeration) *)
| OMay (o : obs).                                 (* the harness declares: oracle territory is allowed here *)

(** targets of a row, in this order *)
Definition row_fmts : list fmt :=
  [FInt8; FInt16; FInt32; FInt64; FUInt8; FUInt16; FUInt32; FUInt64; FDecimal64; FBool; FString].
Definition row_targets : list target := map TScalar row_fmts ++ map TList row_fmts.

Inductive case :=
| CRow (s : src) (os : list obs)                  (* one source against every row target *)
| COne (t : target) (s : src) (o : obs)
| COneOf (ts : list target) (s : src) (o : obs) (picked first : Z)
    (* ConvOneOf; index of the format returned; index of the first format the real val.Conv accepts *)
| CNew (ty : ntype) (s : src) (o : obs)                         (* node.NewValue(type, v) *)
| CNewStrs (tys : list ntype) (strs : list (list byte)) (os : option (list obs)) (may : bool).
    (* node.NewValuesByString(leaves, strs...): None = error, Some = the values *)

Definition fl_eqb (a b : fl) : bool :=
  match a, b with
  | FFin m1 e1, FFin m2 e2 => dec_cmp m1 e1 m2 e2 =? 0
  | FNegZero, FNegZero => true
  | FNaN, FNaN => true
  | FInf m, FInf n => Bool.eqb m n
  | _, _ => false
  end.
Definition cval_eqb (a b : cval) : bool :=
  match a, b with
  | CInt f x, CInt g y => fmt_eqb f g && (x =? y)
  | CDec x, CDec y => fl_eqb x y
  | CStr s, CStr t => bytes_eqb s t
  | CBool x, CBool y => Bool.eqb x y
  | _, _ => false
  end.
Definition rval_eqb (a b : rval) : bool :=
  match a, b with
  | RNil, RNil => true
  | RScalar x, RScalar y => cval_eqb x y
  | RList f l, RList g m => fmt_eqb f g && forall2b cval_eqb l m
  | _, _ => false
  end.
Definition opt_bytes_eqb (a b : option (list byte)) : bool :=
  match a, b with
  | None, None => true
  | Some x, Some y => bytes_eqb x y
  | _, _ => false
  end.
Definition model_str (r : rval) : option (list byte) :=
  match r with RScalar v => string_of v | _ => None end.

Fixpoint strip_may (o : obs) : obs := match o with OMay o' => strip_may o' | _ => o end.
Definition is_may (o : obs) : bool := match o with OMay _ => true | _ => false end.

(** observed = model *)
Definition corr_cell (t : target) (s : src) (o : obs) : bool :=
  match conv_impl t s with
  | Unmodelled => is_may o
  | Err => match strip_may o with OErr => true | _ => false end
  | Ok RNil => match strip_may o with ONil => true | _ => false end
  | Ok r => match strip_may o with
            | OV r' str => rval_eqb r r' && opt_bytes_eqb (model_str r) str
            | _ => false
            end
  end.

(** the spec oracle on what the implementation did: an error is always allowed; a value must be of
    the requested type, denote what the source denotes, and its String() must read back as it *)
Definition str_ok (r : rval) (str : option (list byte)) : bool :=
  match r, str with
  | RScalar v, Some t => agreeb (DText t) (denote_cval v)
  | _, _ => true
  end.
Definition spec_cell (t : target) (s : src) (o : obs) : bool :=
  match strip_may o with
  | OErr => true
  | ONil => match s with SScalar XNil => true | _ => false end
  | OV r str => exactb s r && rval_typedb t r && str_ok r str
  | OEnum _ _ => false
  | OMay _ => true
  end.

Definition unmodelled (t : target) (s : src) : bool :=
  match conv_impl t s with Unmodelled => true | _ => false end.

Definition classify_cell (t : target) (s : src) (o : obs) : verdict :=
  if unmodelled t s && is_may o then Agree      (* oracle territory, declared by the harness *)
  else classify_gen (corr_cell t s o) (spec_cell t s o)
                    (if kf_float_text t s then Some 1%nat else None).

Definition rank (v : verdict) : nat :=
  match v with Agree => 0 | Known _ => 1 | Diverge => 2 | ModelViolatesSpec => 3 | Violates => 4 end%nat.
Definition worse (a b : verdict) : verdict := if Nat.ltb (rank a) (rank b) then b else a.

Fixpoint classify_row (ts : list target) (s : src) (os : list obs) : verdict :=
  match ts, os with
  | [], [] => Agree
  | t :: ts', o :: os' => worse (classify_cell t s o) (classify_row ts' s os')
  | _, _ => Diverge                               (* malformed row *)
  end.

(** ConvOneOf: the model's pick; the spec: the value is exact for the format reported, and no
    earlier format would have converted *exactly* (first match) *)
Definition target_eqb (a b : target) : bool :=
  match a, b with
  | TScalar f, TScalar g | TList f, TList g => fmt_eqb f g
  | _, _ => false
  end.
Fixpoint index_of (t : target) (ts : list target) (i : Z) : Z :=
  match ts with [] => -1 | u :: tl => if target_eqb t u then i else index_of t tl (i + 1) end.
Definition spec_oneof (ts : list target) (s : src) (o : obs) (picked first : Z) : bool :=
  (* first match: an error only if no member converts, else the first member that converts *)
  (picked =? first) &&
  match strip_may o with
  | OErr => true
  | ONil => match s with SScalar XNil => true | _ => false end
  | OV r' _ => match nth_error ts (Z.to_nat picked) with
               | Some t' => (0 <=? picked) && exactb s r' && rval_typedb t' r'
               | None => false
               end
  | OEnum _ _ => false
  | OMay _ => true
  end.
Definition classify_oneof (ts : list target) (s : src) (o : obs) (picked first : Z) : verdict :=
  let known := if existsb (fun t => kf_float_text t s) ts then Some 1%nat else None in
  let spec := spec_oneof ts s o picked first in
  match conv_one_of ts s with
  | Unmodelled => if is_may o then Agree else Diverge
  | Err => classify_gen (match strip_may o with OErr => true | _ => false end) spec known
  | Ok (r, t) =>
      let corr := match strip_may o with
                  | OV r' _ => rval_eqb r r' && (index_of t ts 0 =? picked)
                  | ONil => match r with RNil => picked =? 0 | _ => false end
                  | _ => false
                  end in
      classify_gen corr spec known
  end.

(** node.NewValue *)
Definition corr_new (ty : ntype) (s : src) (o : obs) : bool :=
  match new_value ty s with
  | Unmodelled => is_may o
  | Err => match strip_may o with OErr => true | _ => false end
  | Ok (NR RNil) => match strip_may o with ONil => true | _ => false end
  | Ok (NR r) => match strip_may o with
                 | OV r' str => rval_eqb r r' && opt_bytes_eqb (model_str r) str
                 | _ => false
                 end
  | Ok (NREnum e) => match strip_may o with OEnum id l => enum_eqb e (id, l) | _ => false end
  end.
Definition spec_new (ty : ntype) (s : src) (o : obs) : bool :=
  match strip_may o with
  | OErr => true
  | ONil => is_nil s
  | OV r' str => nexactb ty s (NR r') && str_ok r' str
  | OEnum id l => nexactb ty s (NREnum (id, l))
  | OMay _ => true
  end.
Definition new_unmodelled (ty : ntype) (s : src) : bool :=
  match new_value ty s with Unmodelled => true | _ => false end.
Definition classify_new (ty : ntype) (s : src) (o : obs) : verdict :=
  if new_unmodelled ty s && is_may o then Agree
  else classify_gen (corr_new ty s o) (spec_new ty s o) (if nkf ty s then Some 1%nat else None).

(** node.NewValuesByString: values for the first min(len leaves, len strs) leaves, first error wins *)
Fixpoint classify_strs (tys : list ntype) (strs : list (list byte)) (os : option (list obs)) (may : bool)
  : verdict :=
  match tys, strs with
  | ty :: tys', str :: strs' =>
      let s := SScalar (XStr false str) in
      match new_value ty s with
      | Unmodelled => if may then Agree else Diverge
      | Err => match os with None => Agree | Some (o :: _) => classify_new ty s o | Some [] => Diverge end
      | Ok _ =>
          match os with
          | None => classify_strs tys' strs' None may          (* a later one must fail *)
          | Some (o :: os') => worse (classify_new ty s o) (classify_strs tys' strs' (Some os') may)
          | Some [] => Diverge
          end
      end
  | _, _ => match os with
            | None => Diverge                                  (* the model converted everything *)
            | Some [] => Agree
            | Some _ => Diverge
            end
  end.

Definition classify (c : case) : verdict :=
  match c with
  | CRow s os => classify_row row_targets s os
  | COne t s o => classify_cell t s o
  | COneOf ts s o p f => classify_oneof ts s o p f
  | CNew ty s o => classify_new ty s o
  | CNewStrs tys strs os may => classify_strs tys strs os may
  end.
