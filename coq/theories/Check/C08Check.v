(** Classification of C08 find scenarios (harness/props/c08.go).  One case = one generated schema and
    data tree plus a table of Find calls on the real library: (start location, path bytes, what the
    path was built to mean, what was observed). *)
From Coq Require Import ZArith List Bool Strings.Byte.
From YV Require Import Base.Verdict Val.Model Tree.Schema Tree.Editor Tree.Pct Tree.KeyText Tree.Find Tree.FindNode.
Import ListNotations.

(** positional address used by the SPEC side: row [j] of the list at flat kid [i] - no key
    comparison, no text *)
Inductive pstep := PName (i : nat) | PRow (i j : nat).

Inductive intent :=
| IPresent (t : list pstep)   (* the path is a valid spelling of the RESTCONF path of this present node *)
| IAbsent                     (* schema-valid path through a container / list / key that is not in the data *)
| IUnknown                    (* contains a name that is not in the schema *)
| INoClaim.                   (* other spellings and malformed input: only the correspondence is checked *)

Inductive fobs :=
| OFound (l : loc)                    (* sel.Path as schema positions + sel.Key() values *)
         (pstr pstr_nomod : list byte) (* sel.Path.String(), sel.Path.StringNoModule() *)
         (c : ocontent)               (* exported through a capturing reference-store node / Get() *)
         (reloc : option loc)         (* root.Find(sel.Path.StringNoModule()) run on the real code *)
| ONone
| OErr (e : ferr)
| OPanic.

Record fcase := mkF {
  f_start : loc; f_path : list byte; f_intent : intent; f_obs : fobs;
  f_pure : bool    (* no write/create/delete callback seen and the data tree is unchanged *)
}.

(** [CFindsN pol]: the data tree is served by nodes that answer a lookup by key with the reported
    key [ans_of pol] (Tree/FindNode.v: the request's key / nil / the entry's own key values, all
    lists alike or depending on the list's position); [CFinds] = the plain reference store, which
    echoes the request's key *)
Inductive case :=
| CFinds (pfx modname : ident) (kids : list snode) (data : content) (fs : list fcase)
| CFindsN (pol : kpolicy) (pfx modname : ident) (kids : list snode) (data : content) (fs : list fcase).

(** ** comparisons ([lvals_eqb], [step_eqb], [loc_eqb]: Tree/FindNode.v) *)
Definition oloc_eqb (a b : option loc) : bool :=
  match a, b with
  | None, None => true
  | Some x, Some y => loc_eqb x y
  | _, _ => false
  end.
Fixpoint rows_eqb (a b : list dnode) : bool :=
  match a, b with
  | [], [] => true
  | x :: a', y :: b' => dnode_eqb x y && rows_eqb a' b'
  | _, _ => false
  end.
Definition olval_eqb (a b : option lval) : bool :=
  match a, b with
  | None, None => true
  | Some x, Some y => lval_eqb x y
  | _, _ => false
  end.
(** expected content against observed content; an unobserved content ([OSkip]) is accepted *)
Definition ocontent_eqb (m o : ocontent) : bool :=
  match m, o with
  | _, OSkip => true
  | OCont (Ok a), OCont (Ok b) => content_eqb a b
  | OCont (Err _), OCont (Err _) => true
  | ORows (Ok a), ORows (Ok b) => rows_eqb a b
  | ORows (Err _), ORows (Err _) => true
  | OLeaf a, OLeaf b => olval_eqb a b
  | _, _ => false
  end.

(** ** correspondence: the observation equals what the model of the code computes *)
Definition model_reloc (ans : nodeans) (pfx : ident) (kids : list snode) (data : content) (l : loc) : option loc :=
  match find_n ans pfx kids data [] (path_string_nomod kids l) with
  | FOk r => r
  | _ => None
  end.

Definition corr_one (ans : nodeans) (pfx modname : ident) (kids : list snode) (data : content) (f : fcase) : bool :=
  f_pure f &&
  match find_n ans pfx kids data (f_start f) (f_path f), f_obs f with
  | FOk (Some l), OFound l' pstr pnm c reloc =>
      loc_eqb l l'
      && bytes_eqb pstr (path_string modname kids l)
      && bytes_eqb pnm (path_string_nomod kids l)
      && match resolve (AtCont kids data) l with
         | Some cur => ocontent_eqb (content_of cur) c
         | None => false
         end
      && oloc_eqb (model_reloc ans pfx kids data l) reloc
  | FOk None, ONone => true
  | FErr FNotFound, OErr FNotFound | FErr FOther, OErr FOther => true
  | FPanic, OPanic => true
  | _, _ => false
  end.

(** ** spec oracle, written without the model's parsing, key conversion or key matching:
    the target is given by POSITION; it must be the node found (same schema positions, the key
    values that entry holds, the content stored there), its rendered path must lead the real
    Find back to it, absent targets give no selection, unknown names the not-found error, and
    nothing may have been written. *)
Fixpoint key_lvals (k : list (option dnode)) : option (list lval) :=
  match k with
  | [] => Some []
  | Some (DLeaf v) :: tl => option_map (cons v) (key_lvals tl)
  | _ :: _ => None
  end.

Definition pos_step (cur : cursor) (p : pstep) : option (cursor * step) :=
  match cur, p with
  | AtCont kids data, PName i =>
      match step_into cur (SName i) with Some c => Some (c, SName i) | None => None end
  | AtCont kids data, PRow i j =>
      match nth_error kids i, nth i data None with
      | Some (SList _ keys row), Some (DList rows) =>
          match nth_error rows j with
          | Some (DCont c) =>
              match key_lvals (row_key keys (DCont c)) with
              | Some key => Some (AtCont (skids row) c, SKey i key)
              | None => None
              end
          | _ => None
          end
      | _, _ => None
      end
  | _, _ => None
  end.

Fixpoint pos_resolve (cur : cursor) (t : list pstep) : option (cursor * loc) :=
  match t with
  | [] => Some (cur, [])
  | p :: tl =>
      match pos_step cur p with
      | Some (c, st) =>
          match pos_resolve c tl with
          | Some (c', l) => Some (c', st :: l)
          | None => None
          end
      | None => None
      end
  end.

Definition spec_one (kids : list snode) (data : content) (f : fcase) : bool :=
  f_pure f &&
  match f_intent f with
  | IPresent t =>
      match pos_resolve (AtCont kids data) t, f_obs f with
      | Some (cur, l), OFound l' _ _ c reloc =>
          loc_eqb l l' && ocontent_eqb (content_of cur) c && oloc_eqb (Some l) reloc
      | _, _ => false
      end
  | IAbsent => match f_obs f with ONone => true | _ => false end
  | IUnknown => match f_obs f with OErr FNotFound => true | _ => false end
  | INoClaim => true
  end.

Definition classify (c : case) : verdict :=
  match c with
  | CFinds pfx modname kids data fs =>
      classify_gen (forallb (corr_one (ans_of (PAll KEcho)) pfx modname kids data) fs)
                   (forallb (spec_one kids data) fs) None
  | CFindsN pol pfx modname kids data fs =>
      classify_gen (forallb (corr_one (ans_of pol) pfx modname kids data) fs)
                   (forallb (spec_one kids data) fs) None
  end.
