(** C20 - concrete instances of Conc/Interleave.v: the hypotheses of the interleaving theorem are
    satisfiable by an unbounded family of operations (non-vacuity), and the unsynchronised counter
    meta.uid as it was at the pinned commit (read, then write back +1, in Builder.Uses) violates
    the conclusion (kept as the refuted old model; removed by "fix: meta.Builder.Uses ..."). *)
From Coq Require Import ZArith List Arith Bool Lia.
From YV Require Import Conc.Interleave.
Import ListNotations.
Local Open Scope Z_scope.

Definition upd (h : heap) (l : loc) (v : Z) : heap := fun l' => if Nat.eqb l' l then v else h l'.

(** local state: program counter and the value being computed *)
Definition lstate := (nat * Z)%type.

(** ** readers of a shared datum (location 0), each with a private cell 100+i *)
Definition cell (i : nat) : loc := (100 + i)%nat.

Definition rd_step1 (i : nat) : step lstate :=
  mkStep lstate [0%nat] [cell i]
    (fun st h => ((1%nat, h 0%nat), upd h (cell i) (h 0%nat + Z.of_nat i))).
Definition rd_step2 (i : nat) : step lstate :=
  mkStep lstate [cell i; 0%nat] []
    (fun st h => ((2%nat, h (cell i) * 2 + h 0%nat), h)).

Definition reader (i : nat) : op lstate :=
  mkOp lstate [0%nat; cell i] [cell i] (0%nat, 0)
    (fun st => match fst st with O => Some (rd_step1 i) | S O => Some (rd_step2 i) | _ => None end).

Definition rd_owner (l : loc) : option nat := if Nat.ltb l 100 then None else Some (l - 100)%nat.

Lemma rd_step1_ok i : step_ok lstate (rd_step1 i).
Proof.
  constructor; simpl.
  - intros st h h' A. rewrite (A 0%nat) by (left; reflexivity). reflexivity.
  - intros st h h' l A [<-|[]]. unfold upd. rewrite Nat.eqb_refl.
    rewrite (A 0%nat) by (left; reflexivity). reflexivity.
  - intros st h l N. unfold upd. destruct (Nat.eqb_spec l (cell i)) as [->|]; [|reflexivity].
    exfalso. apply N. left; reflexivity.
Qed.

Lemma rd_step2_ok i : step_ok lstate (rd_step2 i).
Proof.
  constructor; simpl.
  - intros st h h' A. rewrite (A (cell i)) by (left; reflexivity).
    rewrite (A 0%nat) by (right; left; reflexivity). reflexivity.
  - intros st h h' l A [].
  - reflexivity.
Qed.

Lemma readers_ok : all_ok lstate reader.
Proof.
  intros i [pc acc] s. simpl. destruct pc as [|[|pc]]; intros E; inversion E; subst; clear E.
  - split; [apply rd_step1_ok|]. split; intros x; simpl; tauto.
  - split; [apply rd_step2_ok|]. split; intros x; simpl; tauto.
Qed.

Lemma rd_owner_cell i : rd_owner (cell i) = Some i.
Proof.
  unfold rd_owner, cell. destruct (Nat.ltb_spec (100 + i) 100) as [H|H].
  - exfalso. apply (Nat.lt_irrefl 100). eapply Nat.le_lt_trans; [apply Nat.le_add_r|exact H].
  - f_equal. rewrite Nat.add_comm. apply Nat.add_sub.
Qed.

Lemma readers_discipline : discipline lstate reader rd_owner.
Proof.
  intros i. split.
  - intros l [<-|[]]. apply rd_owner_cell.
  - intros l [<-|[<-|[]]]; [left; reflexivity|right; apply rd_owner_cell].
Qed.

(** non-vacuity: for this family - any number of operations, any schedule - the theorem applies *)
Example readers_any_schedule : forall h0 sched,
  (forall i, locals lstate (run lstate reader h0 sched) i =
             fst (run_alone lstate (reader i) h0 (count_occ Nat.eq_dec sched i))) /\
  hp lstate (run lstate reader h0 sched) 0%nat = h0 0%nat.
Proof.
  intros h0 sched.
  destruct (immutable_shared lstate reader rd_owner readers_ok readers_discipline h0 sched) as [A B].
  split; [exact A|]. apply B. reflexivity.
Qed.

(** and concretely: three readers under the schedule 0 1 1 2 0 2 finish with 2*(7+i)+7 *)
Example readers_run :
  let s := run lstate reader (fun _ => 7) [0;1;1;2;0;2]%nat in
  locals lstate s 0%nat = (2%nat, 21) /\ locals lstate s 1%nat = (2%nat, 23) /\
  locals lstate s 2%nat = (2%nat, 25) /\ hp lstate s 0%nat = 7.
Proof. vm_compute. repeat split. Qed.

(** ** the old meta.uid counter: Builder.Uses did  x.schemaId = uid; uid++  on a package-level
    variable (location 0).  Two atomic steps: read uid into the local, write local+1 back. *)
Definition uid_step1 : step lstate :=
  mkStep lstate [0%nat] [] (fun st h => ((1%nat, h 0%nat), h)).
Definition uid_step2 : step lstate :=
  mkStep lstate [] [0%nat] (fun st h => ((2%nat, snd st), upd h 0%nat (snd st + 1))).
Definition uses_old (i : nat) : op lstate :=
  mkOp lstate [0%nat] [0%nat] (0%nat, 0)
    (fun st => match fst st with O => Some uid_step1 | S O => Some uid_step2 | _ => None end).

(** the footprint hypothesis fails ... *)
Example uid_not_disjoint : ~ writes_disjoint lstate uses_old.
Proof. intros H. apply (H 0%nat 1%nat 0%nat); [discriminate|left; reflexivity|left; reflexivity]. Qed.

(** ... and so does the conclusion: run after load 0, load 1 obtains id 1 where alone it obtains 0;
    interleaved, both obtain id 0 and one increment is lost; the two steps conflict *)
Example uid_counter_refuted :
  snd (locals lstate (run lstate uses_old (fun _ => 0) [0;0;1;1]%nat) 1%nat) = 1 /\
  snd (fst (run_alone lstate (uses_old 1%nat) (fun _ => 0) 2)) = 0 /\
  snd (locals lstate (run lstate uses_old (fun _ => 0) [0;1;0;1]%nat) 0%nat) =
  snd (locals lstate (run lstate uses_old (fun _ => 0) [0;1;0;1]%nat) 1%nat) /\
  hp lstate (run lstate uses_old (fun _ => 0) [0;1;0;1]%nat) 0%nat = 1 /\
  conflict lstate uid_step2 uid_step1.
Proof.
  vm_compute. repeat split. exists 0%nat. left. split; left; reflexivity.
Qed.

(** ** the "benign" lazy initialisation of a field of a shared object (e.g. memoising an accessor
    of a meta object on first use): read the cache cell 0; if empty compute (here: 42) and store.
    In this sequentially consistent model every goroutine still obtains 42 under every schedule -
    which is exactly why the pattern looks harmless - but the footprint hypothesis fails and the
    steps conflict: it is a data race (and under the Go memory model a racy read is not even
    guaranteed to see 0 or 42).  The obligations of Conc/Footprint.v and the race detector reject
    it; the theorem does not (and must not) cover it. *)
Definition lazy_step1 : step lstate :=
  mkStep lstate [0%nat] [] (fun st h => ((1%nat, h 0%nat), h)).
Definition lazy_step2 : step lstate :=
  mkStep lstate [] [0%nat]
    (fun st h => if snd st =? 0 then ((2%nat, 42), upd h 0%nat 42) else ((2%nat, snd st), h)).
Definition lazy_reader (i : nat) : op lstate :=
  mkOp lstate [0%nat] [0%nat] (0%nat, 0)
    (fun st => match fst st with O => Some lazy_step1 | S O => Some lazy_step2 | _ => None end).

Example lazy_init_is_a_race :
  ~ writes_disjoint lstate lazy_reader /\ conflict lstate lazy_step2 lazy_step1 /\
  snd (locals lstate (run lstate lazy_reader (fun _ => 0) [0;1;0;1]%nat) 0%nat) = 42 /\
  snd (locals lstate (run lstate lazy_reader (fun _ => 0) [0;1;0;1]%nat) 1%nat) = 42 /\
  snd (locals lstate (run lstate lazy_reader (fun _ => 0) [0;0;1;1]%nat) 1%nat) = 42.
Proof.
  split.
  { intros H. apply (H 0%nat 1%nat 0%nat); [discriminate|left; reflexivity|left; reflexivity]. }
  split.
  { exists 0%nat. left. split; left; reflexivity. }
  vm_compute. repeat split.
Qed.
