(** C20 - obligations over the output of the static write-set extractor (tools/footprint).

    The extractor lists, for each operation class, every instruction reachable (CHA call graph)
    from the class's API entry points that may write shared state: a package-level variable of the
    library, or a field / map / slice of an object whose type is declared in package meta (the
    objects a compiled module is made of).  It writes [Definition fp : footprint] into a generated
    file on every run of bin/check C20; that file ends with
      [Theorem footprint_obligations : obligations_ok fp = true. Proof. vm_compute. reflexivity. Qed.]
    so a code change that adds such a write breaks the build of the generated file.

    The allow-lists below are part of the trusted statement (bin/props.d/C20.json). *)
From Coq Require Import List String Bool Arith.
Import ListNotations.
Local Open Scope string_scope.

Inductive opclass := Load | Use.

Inductive lkind :=
| KGlobal       (* store to a package-level variable of the library, or to something reached from it *)
| KGlobalAddr   (* the address of a package-level variable escapes (call argument, stored, captured) *)
| KMetaField    (* store to a field of a meta object that is not a fresh local allocation *)
| KMetaMap      (* update/delete on a map held in a field of a meta object *)
| KMetaSlice    (* element store / append / copy on a slice held in a field of a meta object *)
| KMetaType.    (* map or slice of unknown origin whose type mentions meta types *)

Record wrec := mkW {
  w_class : opclass;
  w_kind : lkind;
  w_name : string;    (* the location: "/pkg.var", "Type.field", container type *)
  w_fn : string;      (* the function containing the instruction *)
  w_pos : string }.   (* file:line in the tree under test *)

Record footprint := mkFootprint {
  fp_entries : list string;       (* API entry points found, "class:pkg.Recv.Name" *)
  fp_missing : list string;       (* entry points the extractor was told to use but did not find *)
  fp_reach_load : nat;            (* functions of the library reachable from the load entries *)
  fp_reach_use : nat;
  fp_load_params : list string;   (* parameter types of the load entry points *)
  fp_writes : list wrec }.

(** the API surface the claim is about; the extractor must have found every one of them *)
Definition required_entries : list string := [
  "load:parser.LoadModule"; "load:parser.RequireModule"; "load:parser.LoadModuleFromString";
  "load:parser.LoadModuleFromStringWithOptions"; "load:parser.LoadModuleWithOptions";
  "use:node.Browser.Root"; "use:node.Browser.RootWithContext";
  "use:node.Selection.Find"; "use:node.Selection.Constrain";
  "use:node.Selection.UpsertFrom"; "use:node.Selection.UpsertInto";
  "use:node.Selection.InsertFrom"; "use:node.Selection.InsertInto";
  "use:node.Selection.UpdateFrom"; "use:node.Selection.UpdateInto";
  "use:node.Selection.ReplaceFrom"; "use:node.Selection.Delete";
  "use:node.Selection.GetValue"; "use:node.Selection.Action";
  "use:nodeutil.WriteJSON"; "use:nodeutil.WritePrettyJSON"; "use:nodeutil.WriteXML";
  "use:nodeutil.ReadJSON"; "use:nodeutil.ReflectChild" ].

(** a load is handed no existing meta object: only a source, a name/text and options *)
Definition load_params_allowed : list string := ["parser.Options"; "source.Opener"; "string"].

(** allow-list for operations on a browser (per-request state that the extractor cannot tell
    from shared state by type alone, and synchronised library state):
    - patch/xml.tinfoMap is a sync.Map (the vendored encoding/xml type cache);
    - structAsContainer.fields : map[meta.Definition]reflectFieldHandler is a cache inside the
      per-request reflection node (keyed BY schema objects, not part of them). *)
Definition use_allowed (w : wrec) : bool :=
  match w_kind w with
  | KGlobalAddr => String.eqb (w_name w) "/patch/xml.tinfoMap"
  | KMetaType => String.eqb (w_name w) "map[meta.Definition]nodeutil.reflectFieldHandler[map]"
  | _ => false
  end.

(** a load may write the meta objects it is building (it was handed none, [load_params_allowed]);
    it may not write any package-level variable *)
Definition load_allowed (w : wrec) : bool :=
  match w_kind w with
  | KGlobal => false
  | KGlobalAddr => String.eqb (w_name w) "/patch/xml.tinfoMap"
  | _ => true
  end.

Definition offender (w : wrec) : bool :=
  match w_class w with Use => negb (use_allowed w) | Load => negb (load_allowed w) end.
Definition offenders (fp : footprint) : list wrec := filter offender (fp_writes fp).

Definition mem (s : string) (l : list string) : bool := existsb (String.eqb s) l.
Definition is_nil {A} (l : list A) : bool := match l with [] => true | _ => false end.

Definition is_load_metafield (w : wrec) : bool :=
  match w_class w, w_kind w with Load, KMetaField => true | _, _ => false end.

(** the individual obligations *)
Definition ob_entries (fp : footprint) : bool :=
  forallb (fun e => mem e (fp_entries fp)) required_entries && is_nil (fp_missing fp).
Definition ob_load_params (fp : footprint) : bool :=
  forallb (fun p => mem p load_params_allowed) (fp_load_params fp).
(** the analysis is not empty: it reached the library and saw the builder write meta objects *)
Definition ob_reach (fp : footprint) : bool :=
  Nat.leb 200 (fp_reach_load fp) && Nat.leb 200 (fp_reach_use fp) &&
  Nat.leb 50 (List.length (filter is_load_metafield (fp_writes fp))).
Definition ob_writes (fp : footprint) : bool := is_nil (offenders fp).

Definition obligations_ok (fp : footprint) : bool :=
  ob_entries fp && ob_load_params fp && ob_reach fp && ob_writes fp.

(** names of the obligations that fail (printed by the generated file for the report) *)
Definition diagnose (fp : footprint) : list string :=
  (if ob_entries fp then [] else ["entry-points-missing"]) ++
  (if ob_load_params fp then [] else ["load-takes-an-unexpected-parameter-type"]) ++
  (if ob_reach fp then [] else ["analysis-reached-too-little"]) ++
  (if ob_writes fp then [] else ["shared-write-set-not-empty"]).

(** what the boolean means *)
Lemma offenders_nil fp : ob_writes fp = true ->
  forall w, In w (fp_writes fp) -> offender w = false.
Proof.
  unfold ob_writes, offenders. intros H w Hw.
  destruct (offender w) eqn:E; [|reflexivity].
  assert (I : In w (filter offender (fp_writes fp))) by (apply filter_In; auto).
  destruct (filter offender (fp_writes fp)); [destruct I|discriminate H].
Qed.

Lemma obligations_split fp : obligations_ok fp = true ->
  ob_entries fp = true /\ ob_load_params fp = true /\ ob_reach fp = true /\ ob_writes fp = true.
Proof.
  unfold obligations_ok. intros H.
  apply andb_true_iff in H as [H H4]. apply andb_true_iff in H as [H H3].
  apply andb_true_iff in H as [H1 H2]. auto.
Qed.

(** using a compiled module writes no shared location outside the allow-list *)
Theorem obligations_use fp : obligations_ok fp = true ->
  forall w, In w (fp_writes fp) -> w_class w = Use -> use_allowed w = true.
Proof.
  intros H w Hw Hc. destruct (obligations_split fp H) as [_ [_ [_ H4]]].
  pose proof (offenders_nil fp H4 w Hw) as O. unfold offender in O. rewrite Hc in O.
  now apply negb_false_iff in O.
Qed.

(** loading writes no package-level variable, and is given no pre-existing meta object *)
Theorem obligations_load fp : obligations_ok fp = true ->
  (forall w, In w (fp_writes fp) -> w_class w = Load -> w_kind w <> KGlobal) /\
  (forall p, In p (fp_load_params fp) -> In p load_params_allowed).
Proof.
  intros H. destruct (obligations_split fp H) as [_ [H2 [_ H4]]]. split.
  - intros w Hw Hc K. pose proof (offenders_nil fp H4 w Hw) as O.
    unfold offender, load_allowed in O. rewrite Hc, K in O. discriminate O.
  - intros p Hp. unfold ob_load_params in H2. rewrite forallb_forall in H2.
    specialize (H2 p Hp). unfold mem in H2. apply existsb_exists in H2 as [q [Hq E]].
    apply String.eqb_eq in E. now subst q.
Qed.

(** every required entry point was analysed *)
Theorem obligations_entries fp : obligations_ok fp = true ->
  forall e, In e required_entries -> In e (fp_entries fp).
Proof.
  intros H e He. destruct (obligations_split fp H) as [H1 _].
  unfold ob_entries in H1. apply andb_true_iff in H1 as [H1 _].
  rewrite forallb_forall in H1. specialize (H1 e He). unfold mem in H1.
  apply existsb_exists in H1 as [q [Hq E]]. apply String.eqb_eq in E. now subst q.
Qed.

(** the allow-lists really reject the defects they are meant to reject (self-test of the check) *)
Example uid_counter_rejected :
  offender (mkW Load KGlobal "/meta.uid" "(*meta.Builder).Uses" "meta/builder.go:440") = true.
Proof. reflexivity. Qed.
Example lazy_cache_rejected :
  offender (mkW Use KMetaField "List.keyMeta" "(*meta.List).KeyMeta" "meta/core_ext.go:1") = true.
Proof. reflexivity. Qed.
Example global_cache_rejected :
  offender (mkW Use KGlobal "/node.findCache[map]" "(*node.Selection).Find" "node/selection.go:1") = true.
Proof. reflexivity. Qed.
