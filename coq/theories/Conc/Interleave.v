(** C20 - generic interleaving theorem (DESIGN.md section 5, C20).

    A heap of locations; operations (goroutines) made of atomic steps, each step declaring the
    locations it reads and writes and acting only through that footprint; a schedule is any list
    of operation indexes (the interleaving chosen by the scheduler: entry [i] lets operation [i]
    perform its next atomic step; a finished operation stutters).

    [readonly_interleave]: if no operation writes a location another operation reads or writes,
    then under EVERY schedule every operation goes through exactly the local states - and ends
    with exactly the result - it has when run alone from the initial heap; locations nobody writes
    keep their initial value; steps of different operations never conflict and adjacent steps of
    different operations commute (no data race in the model's sense).  Unbounded in the number of
    operations, of steps and in the schedule.  What a goroutine does next may depend on what it
    read ([o_next] is a function of the local state).

    This is a theorem about the model only: the Go memory model, the scheduler and the tie
    between Go code and declared footprints are outside (bin/props.d/C20.json). *)
From Coq Require Import ZArith List Arith Bool Lia Sorting.Permutation.
Import ListNotations.

Definition loc := nat.
Definition heap := loc -> Z.

(** two heaps agree on a set of locations *)
Definition agree (ls : list loc) (h h' : heap) : Prop := forall l, In l ls -> h l = h' l.

Section Interleave.
Variable L : Type.   (* goroutine-local state: program counter, locals, the result being built *)

Record step := mkStep {
  s_reads : list loc;
  s_writes : list loc;
  s_act : L -> heap -> L * heap }.

(** the action respects the declared footprint: the new local state and the values written depend
    only on the local state and on the locations read; nothing outside the write set changes *)
Record step_ok (s : step) : Prop := mkStepOk {
  ok_local : forall st h h', agree (s_reads s) h h' -> fst (s_act s st h) = fst (s_act s st h');
  ok_written : forall st h h' l, agree (s_reads s) h h' -> In l (s_writes s) ->
               snd (s_act s st h) l = snd (s_act s st h') l;
  ok_frame : forall st h l, ~ In l (s_writes s) -> snd (s_act s st h) l = h l }.

Record op := mkOp {
  o_reads : list loc;
  o_writes : list loc;
  o_init : L;
  o_next : L -> option step }.     (* next atomic step from a local state; None: finished *)

(** every step an operation can take is well behaved and stays inside the operation's footprint *)
Definition op_ok (o : op) : Prop :=
  forall st s, o_next o st = Some s ->
  step_ok s /\ incl (s_reads s) (o_reads o) /\ incl (s_writes s) (o_writes o).

Definition skip : step := mkStep [] [] (fun st h => (st, h)).
Definition step_of (o : op) (st : L) : step :=
  match o_next o st with Some s => s | None => skip end.

(** one atomic step of an operation on (its local state, the heap) *)
Definition op_step (o : op) (c : L * heap) : L * heap := s_act (step_of o (fst c)) (fst c) (snd c).

(** the operation run alone for [n] steps from heap [h0] *)
Fixpoint run_alone (o : op) (h0 : heap) (n : nat) : L * heap :=
  match n with O => (o_init o, h0) | S n' => op_step o (run_alone o h0 n') end.

Definition finished (o : op) (st : L) : Prop := o_next o st = None.

(** ** the concurrent system: operations indexed by nat (a finite list of operations is the family
    that is idle beyond its length) *)
Variable ops : nat -> op.

Record sys := mkSys { locals : nat -> L; hp : heap }.
Definition sys_init (h0 : heap) : sys := mkSys (fun i => o_init (ops i)) h0.
Definition sys_step (s : sys) (i : nat) : sys :=
  let c := op_step (ops i) (locals s i, hp s) in
  mkSys (fun j => if Nat.eqb j i then fst c else locals s j) (snd c).
Definition run (h0 : heap) (sched : list nat) : sys := fold_left sys_step sched (sys_init h0).

Definition op_footprint (i : nat) : list loc := o_reads (ops i) ++ o_writes (ops i).

(** no operation writes what another reads or writes *)
Definition writes_disjoint : Prop :=
  forall i j l, i <> j -> In l (o_writes (ops i)) -> ~ In l (op_footprint j).

Definition all_ok : Prop := forall i, op_ok (ops i).

Lemma skip_ok : step_ok skip.
Proof. constructor; simpl; auto. Qed.

Lemma step_of_ok o st : op_ok o ->
  step_ok (step_of o st) /\ incl (s_reads (step_of o st)) (o_reads o) /\
  incl (s_writes (step_of o st)) (o_writes o).
Proof.
  intros H. unfold step_of. destruct (o_next o st) as [s|] eqn:E.
  - exact (H st s E).
  - split; [exact skip_ok|]. split; intros x [].
Qed.

(** ** invariant: the system state after a schedule prefix, thread by thread *)
Definition inv (h0 : heap) (s : sys) (cnt : nat -> nat) : Prop :=
  (forall i, locals s i = fst (run_alone (ops i) h0 (cnt i))) /\
  (forall i l, In l (op_footprint i) -> hp s l = snd (run_alone (ops i) h0 (cnt i)) l) /\
  (forall l, (forall i, ~ In l (o_writes (ops i))) -> hp s l = h0 l).

Lemma inv_ext h0 s c1 c2 : (forall i, c1 i = c2 i) -> inv h0 s c1 -> inv h0 s c2.
Proof.
  intros E [A [B C]]. split; [|split].
  - intros i. rewrite <- E. apply A.
  - intros i l Hl. rewrite <- E. now apply B.
  - exact C.
Qed.

Lemma inv_init h0 : inv h0 (sys_init h0) (fun _ => O).
Proof. split; [|split]; simpl; auto. Qed.

Lemma inv_step h0 s cnt i : all_ok -> writes_disjoint -> inv h0 s cnt ->
  inv h0 (sys_step s i) (fun j => if Nat.eqb j i then S (cnt i) else cnt j).
Proof.
  intros Hok Hd [A [B C]].
  set (o := ops i). set (a := run_alone o h0 (cnt i)).
  destruct (step_of_ok o (locals s i) (Hok i)) as [Sok [Ri Wi]].
  set (st := step_of o (locals s i)) in *.
  assert (Ag : agree (s_reads st) (hp s) (snd a)).
  { intros l Hl. apply B. unfold op_footprint. apply in_or_app. left. now apply Ri. }
  assert (Ea : op_step o a = s_act st (locals s i) (snd a)).
  { assert (Fa : fst a = locals s i) by (symmetry; apply A).
    unfold op_step. rewrite Fa. reflexivity. }
  split; [|split].
  - intros j. simpl. destruct (Nat.eqb_spec j i) as [->|N].
    + simpl. fold o. fold a. rewrite Ea. unfold op_step. simpl. fold o. fold st.
      now apply (ok_local st Sok).
    + apply A.
  - intros j l Hl. simpl. unfold op_step. simpl. fold o. fold st.
    destruct (Nat.eqb_spec j i) as [->|N].
    + simpl. fold o. fold a. rewrite Ea.
      destruct (in_dec Nat.eq_dec l (s_writes st)) as [W|W].
      * now apply (ok_written st Sok).
      * rewrite !(ok_frame st Sok) by exact W. now apply B.
    + rewrite (ok_frame st Sok).
      * now apply B.
      * intros W. apply Wi in W. exact (Hd i j l (not_eq_sym N) W Hl).
  - intros l Hl. simpl. unfold op_step. simpl. fold o. fold st.
    rewrite (ok_frame st Sok); [now apply C|]. intros W. apply Wi in W. exact (Hl i W).
Qed.

Lemma inv_run h0 : all_ok -> writes_disjoint -> forall sched s cnt, inv h0 s cnt ->
  inv h0 (fold_left sys_step sched s) (fun j => cnt j + count_occ Nat.eq_dec sched j).
Proof.
  intros Hok Hd. induction sched as [|i sched IH]; intros s cnt H; simpl.
  - eapply inv_ext; [|exact H]. intros i; lia.
  - eapply inv_ext; [|apply IH; apply inv_step; eauto].
    intros j. simpl. destruct (Nat.eq_dec i j) as [->|N].
    + rewrite Nat.eqb_refl. lia.
    + destruct (Nat.eqb_spec j i) as [->|_]; [congruence|lia].
Qed.

(** * Main theorem *)
Theorem readonly_interleave : all_ok -> writes_disjoint -> forall h0 sched,
  let n i := count_occ Nat.eq_dec sched i in
  (forall i, locals (run h0 sched) i = fst (run_alone (ops i) h0 (n i))) /\
  (forall i l, In l (op_footprint i) -> hp (run h0 sched) l = snd (run_alone (ops i) h0 (n i)) l) /\
  (forall l, (forall i, ~ In l (o_writes (ops i))) -> hp (run h0 sched) l = h0 l).
Proof.
  intros Hok Hd h0 sched. unfold run.
  exact (inv_run h0 Hok Hd sched (sys_init h0) (fun _ => O) (inv_init h0)).
Qed.

(** ** results: a finished operation's local state is its result *)
Lemma alone_stable o h0 n : finished o (fst (run_alone o h0 n)) ->
  forall m, n <= m -> run_alone o h0 m = run_alone o h0 n.
Proof.
  intros F m Hm. induction Hm as [|m Hm IH]; [reflexivity|].
  simpl. rewrite IH. unfold op_step, step_of. unfold finished in F. rewrite F. simpl.
  now destruct (run_alone o h0 n).
Qed.

(** if operation [i] runs alone to completion in [k] steps with result [r], then under every
    schedule that gives it at least [k] turns it is finished with the same result *)
Theorem interleave_result : all_ok -> writes_disjoint -> forall h0 sched i k,
  finished (ops i) (fst (run_alone (ops i) h0 k)) -> k <= count_occ Nat.eq_dec sched i ->
  locals (run h0 sched) i = fst (run_alone (ops i) h0 k) /\ finished (ops i) (locals (run h0 sched) i).
Proof.
  intros Hok Hd h0 sched i k F Hk.
  destruct (readonly_interleave Hok Hd h0 sched) as [A _]. rewrite (A i).
  rewrite (alone_stable _ _ _ F _ Hk). auto.
Qed.

(** conversely a thread seen finished under a schedule holds the result of the run alone *)
Theorem interleave_result_conv : all_ok -> writes_disjoint -> forall h0 sched i,
  finished (ops i) (locals (run h0 sched) i) ->
  forall m, count_occ Nat.eq_dec sched i <= m ->
  fst (run_alone (ops i) h0 m) = locals (run h0 sched) i.
Proof.
  intros Hok Hd h0 sched i F m Hm.
  destruct (readonly_interleave Hok Hd h0 sched) as [A _]. rewrite (A i) in *.
  now rewrite (alone_stable _ _ _ F _ Hm).
Qed.

(** ** no data race in the model's sense *)
Definition conflict (a b : step) : Prop :=
  exists l, (In l (s_writes a) /\ In l (s_reads b ++ s_writes b)) \/
            (In l (s_writes b) /\ In l (s_reads a ++ s_writes a)).

(** whatever their local states, the next steps of two different operations never conflict *)
Theorem no_conflict : all_ok -> writes_disjoint -> forall i j sti stj,
  i <> j -> ~ conflict (step_of (ops i) sti) (step_of (ops j) stj).
Proof.
  intros Hok Hd i j sti stj N [l [[W R]|[W R]]].
  - destruct (step_of_ok (ops i) sti (Hok i)) as [_ [_ Wi]].
    destruct (step_of_ok (ops j) stj (Hok j)) as [_ [Rj Wj]].
    apply (Hd i j l N (Wi l W)). unfold op_footprint. apply in_or_app.
    apply in_app_or in R as [R|R]; [left; now apply Rj|right; now apply Wj].
  - destruct (step_of_ok (ops i) sti (Hok i)) as [_ [Ri Wi]].
    destruct (step_of_ok (ops j) stj (Hok j)) as [_ [_ Wj]].
    apply (Hd j i l (not_eq_sym N) (Wj l W)). unfold op_footprint. apply in_or_app.
    apply in_app_or in R as [R|R]; [left; now apply Ri|right; now apply Wi].
Qed.

Definition sys_eq (s t : sys) : Prop := (forall i, locals s i = locals t i) /\ (forall l, hp s l = hp t l).

(** adjacent steps of different operations can be swapped: from any state, [i] then [j] and
    [j] then [i] reach the same state *)
Theorem adjacent_commute : all_ok -> writes_disjoint -> forall s i j, i <> j ->
  sys_eq (sys_step (sys_step s i) j) (sys_step (sys_step s j) i).
Proof.
  intros Hok Hd s i j N.
  destruct (step_of_ok (ops i) (locals s i) (Hok i)) as [Oki [Ri Wi]].
  destruct (step_of_ok (ops j) (locals s j) (Hok j)) as [Okj [Rj Wj]].
  set (a := step_of (ops i) (locals s i)) in *. set (b := step_of (ops j) (locals s j)) in *.
  assert (Dab : forall l, In l (s_writes a) -> ~ In l (s_reads b) /\ ~ In l (s_writes b)).
  { intros l W. apply Wi in W. pose proof (Hd i j l N W) as D. unfold op_footprint in D.
    split; intros X; apply D; apply in_or_app; [left; now apply Rj|right; now apply Wj]. }
  assert (Dba : forall l, In l (s_writes b) -> ~ In l (s_reads a) /\ ~ In l (s_writes a)).
  { intros l W. apply Wj in W. pose proof (Hd j i l (not_eq_sym N) W) as D. unfold op_footprint in D.
    split; intros X; apply D; apply in_or_app; [left; now apply Ri|right; now apply Wi]. }
  assert (Aga : forall st, agree (s_reads a) (hp s) (snd (s_act b st (hp s)))).
  { intros st l Hl. symmetry. apply (ok_frame b Okj). intros W. exact (proj1 (Dba l W) Hl). }
  assert (Agb : forall st, agree (s_reads b) (hp s) (snd (s_act a st (hp s)))).
  { intros st l Hl. symmetry. apply (ok_frame a Oki). intros W. exact (proj1 (Dab l W) Hl). }
  assert (Nji : Nat.eqb j i = false) by (apply Nat.eqb_neq; auto).
  assert (Nij : Nat.eqb i j = false) by (apply Nat.eqb_neq; auto).
  split.
  - intros k. simpl. unfold op_step. simpl. rewrite Nji, Nij. fold a b.
    destruct (Nat.eqb_spec k j) as [->|Nk].
    + rewrite Nji. simpl. symmetry. apply (ok_local b Okj). apply Agb.
    + destruct (Nat.eqb_spec k i) as [->|Nk']; [|reflexivity].
      simpl. apply (ok_local a Oki). apply Aga.
  - intros l. simpl. unfold op_step. simpl. rewrite Nji, Nij. fold a b.
    destruct (in_dec Nat.eq_dec l (s_writes a)) as [Wa|Wa].
    + rewrite (ok_frame b Okj) by exact (proj2 (Dab l Wa)).
      apply (ok_written a Oki); [apply Aga|exact Wa].
    + rewrite (ok_frame a Oki _ (snd (s_act b (locals s j) (hp s)))) by exact Wa.
      destruct (in_dec Nat.eq_dec l (s_writes b)) as [Wb|Wb].
      * symmetry. apply (ok_written b Okj); [apply Agb|exact Wb].
      * rewrite !(ok_frame b Okj) by exact Wb. rewrite (ok_frame a Oki) by exact Wa. reflexivity.
Qed.


(** ** the outcome does not depend on the interleaving: two schedules that give every operation
    the same number of turns (e.g. any permutation of a schedule) end in the same local states and
    in heaps that agree on every operation's footprint and on every location nobody writes *)
Theorem schedule_independence : all_ok -> writes_disjoint -> forall h0 s1 s2,
  (forall i, count_occ Nat.eq_dec s1 i = count_occ Nat.eq_dec s2 i) ->
  (forall i, locals (run h0 s1) i = locals (run h0 s2) i) /\
  (forall i l, In l (op_footprint i) -> hp (run h0 s1) l = hp (run h0 s2) l) /\
  (forall l, (forall i, ~ In l (o_writes (ops i))) -> hp (run h0 s1) l = hp (run h0 s2) l).
Proof.
  intros Hok Hd h0 s1 s2 E.
  destruct (readonly_interleave Hok Hd h0 s1) as [A1 [B1 C1]].
  destruct (readonly_interleave Hok Hd h0 s2) as [A2 [B2 C2]].
  split; [|split].
  - intros i. rewrite A1, A2, E. reflexivity.
  - intros i l Hl. rewrite (B1 i l Hl), (B2 i l Hl), E. reflexivity.
  - intros l Hl. rewrite (C1 l Hl), (C2 l Hl). reflexivity.
Qed.

Corollary permuted_schedule : all_ok -> writes_disjoint -> forall h0 s1 s2, Permutation s1 s2 ->
  forall i, locals (run h0 s1) i = locals (run h0 s2) i.
Proof.
  intros Hok Hd h0 s1 s2 P.
  apply (schedule_independence Hok Hd h0 s1 s2).
  intros i. now apply Permutation_count_occ.
Qed.

(** ** ownership discipline: the shape the C20 obligations establish for the code.
    [owner l = None]: shared state (the compiled module, package-level variables);
    [owner l = Some i]: private to operation [i] (objects it allocated: per-request selections,
    constraints, nodes, writers; the module a load is building). *)
Variable owner : loc -> option nat.

Definition discipline : Prop :=
  forall i, (forall l, In l (o_writes (ops i)) -> owner l = Some i) /\
            (forall l, In l (o_reads (ops i)) -> owner l = None \/ owner l = Some i).

Lemma discipline_disjoint : discipline -> writes_disjoint.
Proof.
  intros D i j l N W F. destruct (D i) as [Wi _]. destruct (D j) as [Wj Rj].
  pose proof (Wi l W) as O. unfold op_footprint in F. apply in_app_or in F as [F|F].
  - destruct (Rj l F) as [E|E]; rewrite O in E; [discriminate|]. injection E. auto.
  - pose proof (Wj l F) as E. rewrite O in E. injection E. auto.
Qed.

(** operations that write only what they own, over shared state nobody writes: every operation
    obtains exactly what it obtains alone, and the shared state never changes *)
Theorem immutable_shared : all_ok -> discipline -> forall h0 sched,
  (forall i, locals (run h0 sched) i =
             fst (run_alone (ops i) h0 (count_occ Nat.eq_dec sched i))) /\
  (forall l, owner l = None -> hp (run h0 sched) l = h0 l).
Proof.
  intros Hok D h0 sched.
  destruct (readonly_interleave Hok (discipline_disjoint D) h0 sched) as [A [_ C]].
  split; [exact A|]. intros l O. apply C. intros i W.
  destruct (D i) as [Wi _]. rewrite (Wi l W) in O. discriminate.
Qed.

End Interleave.

(** ** finitely many operations given as a list: the family that is idle beyond the list *)
Section ListOfOps.
Variable L : Type.

Definition idle (d : L) : op L := mkOp L [] [] d (fun _ => None).
Definition ops_of_list (d : L) (l : list (op L)) : nat -> op L := fun i => nth i l (idle d).

Lemma idle_ok d : op_ok L (idle d).
Proof. intros st s E. discriminate E. Qed.

Definition list_disjoint (l : list (op L)) : Prop :=
  forall i j oi oj x, i <> j -> nth_error l i = Some oi -> nth_error l j = Some oj ->
  In x (o_writes L oi) -> ~ In x (o_reads L oj ++ o_writes L oj).

Lemma nth_idle_or_elem d (l : list (op L)) i :
  (nth_error l i = Some (nth i l (idle d))) \/ (nth i l (idle d) = idle d).
Proof.
  destruct (Nat.lt_ge_cases i (length l)) as [H|H].
  - left. now apply nth_error_nth'.
  - right. now apply nth_overflow.
Qed.

Theorem readonly_interleave_list : forall (d : L) (l : list (op L)),
  Forall (op_ok L) l -> list_disjoint l -> forall h0 sched i o,
  nth_error l i = Some o ->
  locals L (run L (ops_of_list d l) h0 sched) i =
  fst (run_alone L o h0 (count_occ Nat.eq_dec sched i)).
Proof.
  intros d l Hok Hd h0 sched i o Hi.
  assert (A : all_ok L (ops_of_list d l)).
  { intros k. unfold ops_of_list. destruct (nth_idle_or_elem d l k) as [E|E].
    - rewrite Forall_forall in Hok. apply Hok. eapply nth_error_In; eauto.
    - rewrite E. apply idle_ok. }
  assert (D : writes_disjoint L (ops_of_list d l)).
  { intros a b x N W F. unfold op_footprint, ops_of_list in *.
    destruct (nth_idle_or_elem d l a) as [Ea|Ea]; [|rewrite Ea in W; destruct W].
    destruct (nth_idle_or_elem d l b) as [Eb|Eb]; [|rewrite Eb in F; destruct F].
    exact (Hd a b _ _ x N Ea Eb W F). }
  destruct (readonly_interleave L (ops_of_list d l) A D h0 sched) as [R _].
  rewrite (R i). unfold ops_of_list. now rewrite (nth_error_nth l i (idle d) Hi).
Qed.
End ListOfOps.
