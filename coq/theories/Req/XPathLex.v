(** xpath/lexer.go + the grammar of xpath/parser.y + xpath/ast.go Parse2, over ASCII input, with the
    fixed-size structures explicit:
      - the token ring (64 slots): the lexer runs one [lexBegin] step only when the ring is empty and a
        step emits at most two tokens ([lex_step_emits_le2]), so the ring never wraps;
      - the path stack (256 slots): one push per statement; site 1 = push beyond the last slot (an
        index-out-of-range panic before commit f9843f5, now a parse error);
      - site 2 = [l.stack.pop()] in Parse2 on an empty stack: every accepted sentence has pushed at least
        once ([accept_pushes_positive]).
    A lexing error ends the token stream (the lexer's state becomes nil, yyParse sees EOF; lastError is
    only reported when the grammar then fails).  A NUL byte is the lexer's eof rune: acceptNumeric does
    not back up over it and acceptLiteral stops at it - transcribed as is.
    Outside the model: the goyacc driver (replaced by a recogniser of the same regular grammar:
    segments = (stmt '/'?)+, stmt = qname [op (number | literal)], qname = name [':' name]), strconv
    number parsing ([MOkOrErr] when a number token occurs), non-ASCII input ([MUnmodelled]). *)
From Coq Require Import ZArith NArith List Bool Arith Strings.Byte.
From YV Require Import Val.Model Req.Types.
Import ListNotations.

Inductive tok := TName | TLit | TNum | TOp | TSlash | TColon.

Definition bn (c : byte) : N := Byte.to_N c.
Definition is_space (c : byte) : bool := ((9 <=? bn c) && (bn c <=? 13) || (bn c =? 32))%N.
Definition is_digit (c : byte) : bool := ((48 <=? bn c) && (bn c <=? 57))%N.
Definition is_letter (c : byte) : bool := ((65 <=? bn c) && (bn c <=? 90) || (97 <=? bn c) && (bn c <=? 122))%N.
Definition is_alnum (c : byte) : bool :=
  is_digit c || is_letter c || Byte.eqb c x2d || Byte.eqb c x5f || Byte.eqb c x2e.

(** acceptWS *)
Fixpoint skipws (s : list byte) : list byte :=
  match s with
  | c :: tl => if is_space c then skipws tl else s
  | [] => []
  end.

(** acceptAlphaNumeric: number of bytes accepted and what is left *)
Fixpoint take_alnum (s : list byte) : nat * list byte :=
  match s with
  | c :: tl => if is_alnum c then let (n, r) := take_alnum tl in (S n, r) else (O, s)
  | [] => (O, [])
  end.

(** acceptNumeric: digits, and '.' after the first one; a NUL terminator is not backed up *)
Fixpoint numeric (first : bool) (s : list byte) : bool * list byte :=
  match s with
  | [] => (negb first, [])
  | c :: tl =>
      if is_digit c || (negb first && Byte.eqb c x2e) then numeric false tl
      else (negb first, if Byte.eqb c x00 then tl else s)
  end.

(** acceptLiteral: '...' ; end of input or a NUL inside gives up where it stands *)
Fixpoint lit_body (s : list byte) : bool * list byte :=
  match s with
  | [] => (false, [])
  | c :: tl => if Byte.eqb c x00 then (false, tl) else if Byte.eqb c x27 then (true, tl) else lit_body tl
  end.
Definition literal (s : list byte) : bool * list byte :=
  match s with
  | [] => (false, [])
  | c :: tl => if Byte.eqb c x00 then (false, tl) else if Byte.eqb c x27 then lit_body tl else (false, s)
  end.

(** acceptOperator: = != < <= > >= ; a lone '!' stays consumed *)
Definition operator (s : list byte) : bool * list byte :=
  match s with
  | [] => (false, [])
  | c :: tl =>
      if Byte.eqb c x3d then (true, tl)
      else if Byte.eqb c x21 then
        match tl with
        | d :: tl2 => if Byte.eqb d x3d then (true, tl2) else (false, tl)
        | [] => (false, tl)
        end
      else if Byte.eqb c x3c || Byte.eqb c x3e then
        match tl with
        | d :: tl2 => if Byte.eqb d x3d then (true, tl2) else (true, tl)
        | [] => (true, tl)
        end
      else (false, s)
  end.

Inductive lstep := LEnd | LErrAfter (pre : list tok) | LToks (toks : list tok) (rest : list byte).

(** acceptToken(token_name), acceptToken(token_number), l.error("unknown statement") *)
Definition name_or_err (pre : list tok) (s : list byte) : lstep :=
  let (n, r) := take_alnum s in
  match n with
  | S _ => LToks (pre ++ [TName]) (skipws r)
  | O => let (ok, r4) := numeric true s in
         if ok then LToks (pre ++ [TNum]) (skipws r4) else LErrAfter pre
  end.

(** one run of lexBegin *)
Definition lex_step (s : list byte) : lstep :=
  match s with
  | [] => LEnd
  | c :: tl =>
      if Byte.eqb c x2f then LToks [TSlash] (skipws tl)
      else if Byte.eqb c x3a then LToks [TColon] (skipws tl)
      else
        let (isop, r1) := operator s in
        if isop then
          let r1 := skipws r1 in
          let (okn, rn) := numeric true r1 in
          if okn then LToks [TOp; TNum] (skipws rn)
          else let (okl, rl) := literal rn in
               if okl then LToks [TOp; TLit] (skipws rl)
               else name_or_err [TOp] rl
        else name_or_err [] r1
  end.

(** the whole token stream; None = out of fuel (excluded for fuel = S (length s) by [lex_all_fuel]) *)
Fixpoint lex_all (fuel : nat) (s : list byte) : option (list tok) :=
  match fuel with
  | O => None
  | S f =>
      match lex_step s with
      | LEnd => Some []
      | LErrAfter pre => Some pre
      | LToks t r => match lex_all f r with Some l => Some (t ++ l) | None => None end
      end
  end.

(** recogniser of the grammar; [count] = stack pushes (one per stmt) *)
Inductive pst := PStart | PName | PColon | PQName | POp | PStmt | PSlash.
Inductive pres := PAccept (pushes : nat) (has_prefix has_num : bool) | PSyntax.

Fixpoint run (st : pst) (toks : list tok) (count : nat) (pfx num : bool) : pres :=
  match toks with
  | [] =>
      match st with
      | PName | PQName => PAccept (S count) pfx num
      | PStmt | PSlash => PAccept count pfx num
      | PStart | PColon | POp => PSyntax
      end
  | t :: r =>
      match st, t with
      | PStart, TName => run PName r count pfx num
      | PName, TColon => run PColon r count pfx num
      | PColon, TName => run PQName r count true num
      | PName, TOp | PQName, TOp => run POp r count pfx num
      | POp, TNum => run PStmt r (S count) pfx true
      | POp, TLit => run PStmt r (S count) pfx num
      | PName, TSlash | PQName, TSlash => run PSlash r (S count) pfx num
      | PName, TName | PQName, TName => run PName r (S count) pfx num
      | PStmt, TSlash => run PSlash r count pfx num
      | PStmt, TName | PSlash, TName => run PName r count pfx num
      | _, _ => PSyntax
      end
  end.

Definition non_ascii (c : byte) : bool := (128 <=? bn c)%N.
Definition path_stack_size : nat := 256.

(** xpath.Parse (node.NewWhere / NewFilterConstraint).  [old]: before f9843f5, exact for inputs that
    parse and have no prefix *)
Definition xpath_parse (old : bool) (t : list byte) : mres :=
  if existsb non_ascii t then MUnmodelled
  else
    match lex_all (S (length t)) (skipws t) with
    | None => MUnmodelled
    | Some toks =>
        match run PStart toks 0 false false with
        | PSyntax => MErr
        | PAccept n pfx num =>
            if pfx then MErr                                        (* lookup of the prefix fails *)
            else if Nat.ltb path_stack_size n then (if old then MPanic 1 else MErr)
            else if Nat.eqb n 0 then MPanic 2
            else if num then MOkOrErr else MOk
        end
    end.
