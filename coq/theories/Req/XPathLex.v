From Coq Require Import ZArith List Bool Strings.Byte.
From YV Require Import Val.Model Req.Types.
Import ListNotations.
(* placeholder until the lexer model is written *)
Definition xpath_parse (old : bool) (t : list byte) : mres := MUnmodelled.
