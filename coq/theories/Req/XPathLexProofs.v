From Coq Require Import ZArith NArith List Bool Arith Lia Strings.Byte.
From YV Require Import Val.Model Req.Types Req.XPathLex.
Import ListNotations.
Local Open Scope nat_scope.

Lemma skipws_le : forall s, length (skipws s) <= length s.
Proof. induction s as [|c tl IH]; simpl; auto. destruct (is_space c); simpl; lia. Qed.

Lemma take_alnum_len : forall s n r, take_alnum s = (n, r) -> length s = n + length r.
Proof.
  induction s as [|c tl IH]; simpl; intros n r H.
  - inversion H; reflexivity.
  - destruct (is_alnum c).
    + destruct (take_alnum tl) as [n' r'] eqn:E. inversion H; subst. rewrite (IH n' r eq_refl). reflexivity.
    + inversion H; subst. reflexivity.
Qed.

Lemma numeric_le : forall s f ok r, numeric f s = (ok, r) -> length r <= length s.
Proof.
  induction s as [|c tl IH]; simpl; intros f ok r H.
  - inversion H; auto.
  - destruct (is_digit c || negb f && Byte.eqb c x2e).
    + apply IH in H. lia.
    + inversion H; subst. destruct (Byte.eqb c x00); simpl; lia.
Qed.

Lemma numeric_first_lt : forall s r, numeric true s = (true, r) -> length r < length s.
Proof.
  destruct s as [|c tl]; simpl; intros r H; [inversion H|].
  destruct (is_digit c); simpl in H.
  - apply numeric_le in H. lia.
  - inversion H.
Qed.

Lemma lit_body_le : forall s ok r, lit_body s = (ok, r) -> length r <= length s.
Proof.
  induction s as [|c tl IH]; simpl; intros ok r H.
  - inversion H; auto.
  - destruct (Byte.eqb c x00); [inversion H; subst; lia|].
    destruct (Byte.eqb c x27); [inversion H; subst; lia|]. apply IH in H. lia.
Qed.

Lemma literal_le : forall s ok r, literal s = (ok, r) -> length r <= length s.
Proof.
  destruct s as [|c tl]; simpl; intros ok r H.
  - inversion H; auto.
  - destruct (Byte.eqb c x00); [inversion H; subst; lia|].
    destruct (Byte.eqb c x27); [apply lit_body_le in H; lia|inversion H; subst; simpl; lia].
Qed.

Lemma operator_le : forall s ok r, operator s = (ok, r) -> length r <= length s /\ (ok = true -> length r < length s).
Proof.
  Ltac fin H := inversion H; subst; simpl; split; [lia | intros; try discriminate; lia].
  destruct s as [|c tl]; simpl; intros ok r H.
  - fin H.
  - destruct (Byte.eqb c x3d); [fin H|].
    destruct (Byte.eqb c x21).
    { destruct tl as [|d tl2]; [fin H|]. destruct (Byte.eqb d x3d); fin H. }
    destruct (Byte.eqb c x3c || Byte.eqb c x3e).
    { destruct tl as [|d tl2]; [fin H|]. destruct (Byte.eqb d x3d); fin H. }
    fin H.
Qed.

Lemma name_or_err_progress : forall pre s t r, name_or_err pre s = LToks t r -> length r < length s.
Proof.
  unfold name_or_err. intros pre s t r H.
  destruct (take_alnum s) as [n r0] eqn:E. apply take_alnum_len in E.
  destruct n.
  - destruct (numeric true s) as [ok r4] eqn:En. destruct ok; [|discriminate].
    inversion H; subst. apply numeric_first_lt in En. pose proof (skipws_le r4). lia.
  - inversion H; subst. pose proof (skipws_le r0). lia.
Qed.

(** every step of the lexer that continues consumes input: the lexer cannot loop *)
Lemma lex_step_progress : forall s t r, lex_step s = LToks t r -> length r < length s.
Proof.
  intros s t r H. destruct s as [|c tl]; [discriminate|]. unfold lex_step in H.
  destruct (Byte.eqb c x2f); [inversion H; subst; pose proof (skipws_le tl); simpl; lia|].
  destruct (Byte.eqb c x3a); [inversion H; subst; pose proof (skipws_le tl); simpl; lia|].
  destruct (operator (c :: tl)) as [isop r1] eqn:Eo. apply operator_le in Eo. destruct Eo as [Hle Hlt].
  destruct isop.
  - specialize (Hlt eq_refl). pose proof (skipws_le r1) as Hs.
    destruct (numeric true (skipws r1)) as [okn rn] eqn:En. pose proof (numeric_le _ _ _ _ En) as Hn.
    destruct okn; [inversion H; subst; pose proof (skipws_le rn); lia|].
    destruct (literal rn) as [okl rl] eqn:El. pose proof (literal_le _ _ _ El) as Hl.
    destruct okl; [inversion H; subst; pose proof (skipws_le rl); lia|].
    apply name_or_err_progress in H. lia.
  - apply name_or_err_progress in H. lia.
Qed.

Lemma lex_all_enough : forall fuel s, length s < fuel -> lex_all fuel s <> None.
Proof.
  induction fuel as [|f IH]; intros s Hf; [lia|]. simpl.
  destruct (lex_step s) as [|pre|t r] eqn:E; try discriminate.
  apply lex_step_progress in E. pose proof (IH r) as H. destruct (lex_all f r); [discriminate|].
  exfalso. apply H; [lia|reflexivity].
Qed.

Theorem lex_all_fuel : forall s, lex_all (S (length s)) s <> None.
Proof. intro s. apply lex_all_enough. lia. Qed.

(** at most two tokens are pending when the parser drains the 64-slot ring *)
Theorem lex_step_emits_le2 : forall s,
  match lex_step s with
  | LToks t _ => length t <= 2
  | LErrAfter pre => length pre <= 1
  | LEnd => True
  end.
Proof.
  intro s. unfold lex_step. destruct s as [|c tl]; [exact I|].
  destruct (Byte.eqb c x2f); [simpl; lia|].
  destruct (Byte.eqb c x3a); [simpl; lia|].
  destruct (operator (c :: tl)) as [isop r1]. destruct isop.
  - destruct (numeric true (skipws r1)) as [okn rn]. destruct okn; [simpl; lia|].
    destruct (literal rn) as [okl rl]. destruct okl; [simpl; lia|].
    unfold name_or_err. destruct (take_alnum rl) as [n r0]. destruct n; [|simpl; lia].
    destruct (numeric true rl) as [ok r4]. destruct ok; simpl; lia.
  - unfold name_or_err. destruct (take_alnum r1) as [n r0]. destruct n; [|simpl; lia].
    destruct (numeric true r1) as [ok r4]. destruct ok; simpl; lia.
Qed.

(** pushes only grow, and from inside a statement an accepted sentence pushes at least once more *)
Lemma run_pushes : forall toks st count pfx num k p n,
  run st toks count pfx num = PAccept k p n ->
  count <= k /\ (match st with PName | PColon | PQName | POp => count < k | _ => True end).
Proof.
  induction toks as [|t r IH]; intros st count pfx num k p n H.
  - destruct st; simpl in H; inversion H; subst; split; auto; lia.
  - destruct st, t; simpl in H; try discriminate;
      apply IH in H; destruct H as [H1 H2]; split; try exact I; lia.
Qed.

Theorem accept_pushes_positive : forall toks k p n, run PStart toks 0 false false = PAccept k p n -> 0 < k.
Proof.
  intros toks k p n H. destruct toks as [|t r]; [discriminate|].
  destruct t; simpl in H; try discriminate. apply run_pushes in H. lia.
Qed.

Theorem xpath_parse_total : forall t, is_panic (xpath_parse false t) = false.
Proof.
  intro t. unfold xpath_parse. destruct (existsb non_ascii t); auto.
  destruct (lex_all _ _) as [toks|]; auto.
  destruct (run PStart toks 0 false false) as [n pfx num|] eqn:E; auto.
  destruct pfx; auto. destruct (Nat.ltb path_stack_size n); auto.
  apply accept_pushes_positive in E. destruct (Nat.eqb n 0) eqn:E0; [apply Nat.eqb_eq in E0; lia|].
  destruct num; auto.
Qed.

(** an ASCII text is always inside the model (the fuel never runs out) *)
Theorem xpath_parse_modelled : forall t, existsb non_ascii t = false -> xpath_parse false t <> MUnmodelled.
Proof.
  intros t Ha. unfold xpath_parse. rewrite Ha.
  pose proof (lex_all_enough (S (length t)) (skipws t)) as H.
  destruct (lex_all (S (length t)) (skipws t)) as [toks|]; [|exfalso; apply H; [pose proof (skipws_le t); lia|reflexivity]].
  destruct (run PStart toks 0 false false) as [n pfx num|] eqn:E; [|discriminate].
  destruct pfx; [discriminate|]. destruct (Nat.ltb path_stack_size n); [discriminate|].
  apply accept_pushes_positive in E. destruct (Nat.eqb n 0) eqn:E0; [apply Nat.eqb_eq in E0; lia|].
  destruct num; discriminate.
Qed.

(** more statements than the stack holds: rejected now, an index out of range before the fix *)
Definition steps (n : nat) : list byte := concat (repeat [x61; x2f] n) ++ [x61].
Example xpath_300_steps : xpath_parse false (steps 299) = MErr /\ xpath_parse true (steps 299) = MPanic 1 /\
                          xpath_parse false (steps 255) = MOk /\ xpath_parse false (steps 256) = MErr.
Proof. vm_compute. auto. Qed.
Example xpath_empty_is_error : xpath_parse false [] = MErr.
Proof. vm_compute. reflexivity. Qed.
