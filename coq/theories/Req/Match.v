(** node/path_matcher.go - PathMatchExpression.PathMatches / match for one parsed path of the selector.

    Go walks the candidate path from its tail towards the root ([p = p.Parent]) while the selector
    index [i] runs down from the last segment; [j] is the index the current candidate segment would
    have in the selector if base were a prefix of candidate.  Before commit dc67b80 reaching
    [p == nil] was a panic ("illegal call : base was not found to be any parent of candidate"),
    which every selector longer than the candidate is deep below base triggers; now it is "no match".
    [EqualNoKey] only compares lengths (equalSegment compares nothing when Meta is set). *)
From Coq Require Import ZArith List Bool Strings.Byte.
From YV Require Import Val.Model Req.Types.
Import ListNotations.
Open Scope Z_scope.

Inductive mout := MatchRes (b : bool) | MatchPanic.

(** [x :: p'] is the candidate from the current segment up to the root (never nil at the loop head);
    [rs] the selector segments still to match, last first; [old]: the code before the fix *)
Fixpoint match_go (old : bool) (x : ident) (p' : list ident) (rs : list ident) (j : Z) (base_len : nat)
  {struct p'} : mout :=
  match rs with
  | [] => MatchRes (Nat.eqb (S (length p')) base_len)            (* return p.EqualNoKey(base) *)
  | s :: rs' =>
      let i := Z.of_nat (length rs') in
      if (j =? i) && negb (bytes_eqb x s) then MatchRes false     (* p.Meta.Ident() != segs[i] *)
      else
        let rs2 := if j =? i then rs' else rs in                   (* i-- *)
        match p' with
        | [] => if old then MatchPanic else MatchRes false         (* p = p.Parent; p == nil *)
        | y :: p'' => match_go old y p'' rs2 (j - 1) base_len
        end
  end.

(** [cand]: idents of the candidate path, module first; [base_len]: length of the base path *)
Definition path_matches (old : bool) (segs : list ident) (base_len : nat) (cand : list ident) : mout :=
  match segs with
  | [] => MatchRes true                                            (* empty selector selects everything *)
  | _ =>
      match rev cand with
      | [] => MatchRes false                                       (* not a path *)
      | x :: p' => match_go old x p' (rev segs) (Z.of_nat (length cand) - Z.of_nat base_len - 1) base_len
      end
  end.
