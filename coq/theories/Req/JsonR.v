(** nodeutil/json_rdr.go as the editor drives it (node/edit.go enter/node/list, node/container_meta_list.go):
    shape dispatch  decoded JSON value kind x schema node kind  ->  child | list | field | error | panic.
    Explicit crash sites ([old = true]: before commits 842e28a, e36d1ff, c2b62bb):
      site 1  value.(map[string]interface{})    a non-object where a container is declared   (OnChild)
      site 2  value.([]interface{})             a non-array where a list is declared         (OnChild)
      site 3  list[i].(map[string]interface{})  a list entry that is not an object           (JsonListReader)
      a list entry without (or with a null) key handed a nil key to the target node (target dependent).
    The walk visits the flat kids of a container in schema order; a kid under choices is visited when
    the reader's OnChoose picks its case at every level: a case is picked when one of its DIRECT data
    definitions is a member of the object (Go ranges over a map of cases: if two cases qualify the pick
    is not determined -> [MUnmodelled]).  Leaf values go to node.NewValue (outside this model): a
    document without a shape error is [MOkOrErr].  encoding/json is outside the model: the input is the
    decoded value. *)
From Coq Require Import ZArith List Bool Arith Strings.Byte.
From YV Require Import Val.Model Req.Types.
Import ListNotations.

Definition qualified (modname name : ident) : ident := modname ++ [x3a] ++ name.
(** fqkGet: ident, then module:ident *)
Definition member (modname name : ident) (ms : jms) : option jv :=
  match jms_find name ms with
  | Some v => Some v
  | None => jms_find (qualified modname name) ms
  end.
Definition found (modname name : ident) (ms : jms) : bool :=
  match member modname name ms with Some _ => true | None => false end.

Fixpoint guard_eqb (a b : guard) : bool :=
  match a, b with
  | [], [] => true
  | (c, k) :: a', (c', k') :: b' => Nat.eqb c c' && Nat.eqb k k' && guard_eqb a' b'
  | _, _ => false
  end.
Fixpoint any_kid (f : sk -> bool) (l : sks) : bool :=
  match l with SNil => false | SCons k tl => f k || any_kid f tl end.

(** some direct data definition of the case at guard [g] is a member *)
Definition case_present (modname : ident) (kids : sks) (ms : jms) (g : guard) : bool :=
  any_kid (fun k => guard_eqb (sk_guard k) g && found modname (sk_name k) ms) kids.
(** another case of choice [c] (same enclosing cases [pre]) has a direct member too *)
Definition other_case_present (modname : ident) (kids : sks) (ms : jms) (pre : guard) (c k : nat) : bool :=
  any_kid (fun kid =>
    match rev (sk_guard kid) with
    | (c', k') :: rp => guard_eqb (rev rp) pre && Nat.eqb c c' && negb (Nat.eqb k k') && found modname (sk_name kid) ms
    | [] => false
    end) kids.

(** is the kid with guard [pre ++ g] reached?  None: not determined (two cases qualify) *)
Fixpoint guard_visit (modname : ident) (kids : sks) (ms : jms) (pre g : guard) : option bool :=
  match g with
  | [] => Some true
  | (c, k) :: g' =>
      let here := pre ++ [(c, k)] in
      if other_case_present modname kids ms pre c k then None
      else if case_present modname kids ms here then guard_visit modname kids ms here g'
      else Some false
  end.

(** every key leaf of the entry is a member with a non-null value (NewValue(nil) is a nil key) *)
Definition keys_present (modname : ident) (keys : list nat) (kids : sks) (ms : jms) : bool :=
  forallb (fun i => match sks_nth i kids with
                    | Some k => match member modname (sk_name k) ms with
                                | Some JNull | None => false
                                | Some _ => true
                                end
                    | None => false
                    end) keys.

Inductive wres := WGo | WStop (m : mres).

Fixpoint read_kids (old : bool) (modname : ident) (all : sks) (ms : jms) (l : sks) {struct l} : wres :=
  match l with
  | SNil => WGo
  | SCons k tl =>
      match guard_visit modname all ms [] (sk_guard k) with
      | None => WStop MUnmodelled
      | Some false => read_kids old modname all ms tl
      | Some true =>
          match read_kid old modname k ms with
          | WGo => read_kids old modname all ms tl
          | WStop m => WStop m
          end
      end
  end
with read_kid (old : bool) (modname : ident) (k : sk) (ms : jms) {struct k} : wres :=
  match k with
  | SkLeaf _ _ _ _ => WGo                                           (* OnField -> node.NewValue *)
  | SkCont name _ _ kids =>
      match member modname name ms with
      | None => WGo
      | Some (JObj ms') => read_kids old modname kids ms' kids      (* JsonContainerReader(object) *)
      | Some _ => WStop (if old then MPanic 1 else MErr)
      end
  | SkList name _ _ keys kids =>
      match member modname name ms with
      | None => WGo
      | Some (JArr items) =>                                        (* JsonListReader(list), rows in order *)
          (fix rows (its : jvs) : wres :=
             match its with
             | JVNil => WGo
             | JVCons it its' =>
                 match it with
                 | JObj ms' =>
                     if keys_present modname keys kids ms' then
                       match read_kids old modname kids ms' kids with
                       | WGo => rows its'
                       | WStop m => WStop m
                       end
                     else WStop (if old then MOkOrErr else MErr)
                 | _ => WStop (if old then MPanic 3 else MErr)
                 end
             end) items
      | Some _ => WStop (if old then MPanic 2 else MErr)
      end
  end.

(** Browser.Root().UpsertFrom(nodeutil.ReadJSON(text)) seen from the reader *)
Definition read_doc (old : bool) (w : world) (doc : jv) : mres :=
  match doc with
  | JObj ms =>
      match read_kids old (w_module w) (sk_kids (w_root w)) ms (sk_kids (w_root w)) with
      | WGo => MOkOrErr
      | WStop m => m
      end
  | _ => MUnmodelled                     (* encoding/json rejects it before the reader exists *)
  end.
