(** C13, URL paths: the number of key values of a list segment (node/path_slice.go after commit 110eb81)
    and steps below nodes that hold no definitions (leaf, leaf-list, choice, anydata, anyxml, rpc, action:
    [NChoice] or an [SkLeaf] entry of the skeleton).

      - a segment "name=v1,..,vm" only ever proceeds to a list that has at most m keys;
      - when the list it names has more keys than values were given the step - and with it the whole
        Find - is an error (never the old hand-over of nil key values to the node, never a panic);
      - whatever follows a segment that resolved to a node without definitions is an error. *)
From Coq Require Import ZArith NArith List Bool Lia Arith Strings.Byte.
From YV Require Import Val.Model Req.Types Req.UrlPath Req.UrlPathProofs.
Import ListNotations.

Lemma unescape_all_length : forall l r, unescape_all l = Some r -> length r = length l.
Proof.
  induction l as [|s tl IH]; intros r H; simpl in H.
  - inversion H. reflexivity.
  - destruct (unescape s); [|discriminate].
    destruct (unescape_all tl) as [r'|] eqn:E; [|discriminate].
    inversion H; subst. simpl. f_equal. apply IH. reflexivity.
Qed.

(** the number of key values a segment carries (strings.Split(b, ",") of what follows the first '=') *)
Definition seg_key_count (seg : list byte) : option nat :=
  match cut_first x3d seg with
  | Some (_, b) => Some (length (split_on x2c b))
  | None => None
  end.

Definition list_key_count (n : nref) : option nat :=
  match n with NSk (SkList _ _ _ kpos _) => Some (length kpos) | _ => None end.

(** a keyed segment proceeds only to a list, and only with at least as many values as the list has keys *)
Theorem keyed_step_has_enough_keys : forall modname r cur seg m tgt,
  seg_key_count seg = Some m ->
  step false modname r cur seg = SNext tgt ->
  exists k, list_key_count tgt = Some k /\ (k <= m)%nat.
Proof.
  intros modname r cur seg m tgt Hm. unfold seg_key_count in Hm. unfold step.
  destruct (cut_first x3d seg) as [[a b]|]; [|discriminate]. inversion Hm; subst m. clear Hm.
  destruct (unescape a); [|discriminate].
  destruct (unescape_all (split_on x2c b)) as [keys|] eqn:EK; [|discriminate].
  apply unescape_all_length in EK.
  destruct cur as [[| |]|]; try discriminate;
    destruct (existsb _ _); try discriminate;
    destruct (find_seg _ _ _ _) as [[[| |]|]|]; try discriminate;
    simpl; destruct (Nat.ltb _ _) eqn:L; try discriminate;
    destruct (conv_keys _ _); try discriminate;
    intro H; inversion H; subst; simpl; eexists; (split; [reflexivity|]);
    apply Nat.ltb_ge in L; lia.
Qed.

(** fewer key values than the list has keys: the step is an error - whatever the node the step starts
    from is, whatever the values are, whether or not they would convert *)
Theorem too_few_keys_is_error : forall modname r cur seg a b id n g c kpos kids,
  cut_first x3d seg = Some (a, b) ->
  unescape a = Some id ->
  (forall s, cur = NSk s -> find_seg r modname s id = Some (NSk (SkList n g c kpos kids))) ->
  (length (split_on x2c b) < length kpos)%nat ->
  step false modname r cur seg = SStop MErr.
Proof.
  intros modname r cur seg a b id n g c kpos kids Hc Hu Hf Hl. unfold step. rewrite Hc, Hu.
  destruct (unescape_all (split_on x2c b)) as [keys|] eqn:EK; [|reflexivity].
  apply unescape_all_length in EK.
  destruct cur as [[nm gg il kt|nm gg cc kk|nm gg cc kp kk]|]; try reflexivity.
  - destruct (existsb _ _); [reflexivity|]. rewrite (Hf _ eq_refl). simpl.
    rewrite EK. apply Nat.ltb_lt in Hl. rewrite Hl. reflexivity.
  - destruct (existsb _ _); [reflexivity|]. rewrite (Hf _ eq_refl). simpl.
    rewrite EK. apply Nat.ltb_lt in Hl. rewrite Hl. reflexivity.
Qed.

(** an error of a step is the verdict of the walk, whatever follows *)
Lemma walk_step_err : forall modname r cur seg tl,
  seg <> [] -> step false modname r cur seg = SStop MErr -> walk false modname r cur (seg :: tl) = MErr.
Proof.
  intros modname r cur seg tl Hne H. simpl. destruct seg; [contradiction|]. rewrite H. reflexivity.
Qed.

Lemma split_on_single : forall sep s, existsb (Byte.eqb sep) s = false -> split_on sep s = [s].
Proof.
  induction s as [|c tl IH]; intro H; simpl in *; [reflexivity|].
  apply orb_false_elim in H. destruct H as [Hc Ht].
  rewrite byte_eqb_sym in Hc. rewrite Hc. rewrite (IH Ht). reflexivity.
Qed.

Lemma no_slash_no_dotdot : forall p, existsb (Byte.eqb x2f) p = false -> starts_dotdot p = false.
Proof.
  intros p H. destruct p as [|a [|b [|c t]]]; simpl in *; try reflexivity.
  apply orb_false_elim in H. destruct H as [_ H].
  apply orb_false_elim in H. destruct H as [_ H].
  apply orb_false_elim in H. destruct H as [H _].
  rewrite byte_eqb_sym in H. rewrite H. rewrite !andb_false_r. reflexivity.
Qed.

(** Browser.Root().Find("list=v1,..,vm") on a list with more than m keys is an error *)
Theorem find_too_few_keys_is_error : forall w seg a b id n g c kpos kids,
  existsb (Byte.eqb x2f) seg = false ->
  existsb (Byte.eqb x3f) seg = false ->
  cut_first x3d seg = Some (a, b) ->
  unescape a = Some id ->
  find_seg true (w_module w) (w_root w) id = Some (NSk (SkList n g c kpos kids)) ->
  (length (split_on x2c b) < length kpos)%nat ->
  find_path false w seg = MErr.
Proof.
  intros w seg a b id n g c kpos kids Hs Hq Hc Hu Hf Hl. unfold find_path.
  rewrite (no_slash_no_dotdot _ Hs), Hq, (split_on_single _ _ Hs).
  apply walk_step_err.
  - intro E; subst seg; discriminate.
  - eapply too_few_keys_is_error; eauto. intros s E. inversion E; subst. exact Hf.
Qed.

(** the same at any depth: as soon as a segment of the walk is such a list segment, the walk is an error *)
Theorem walk_too_few_keys_is_error : forall modname r cur seg a b id n g c kpos kids tl,
  cut_first x3d seg = Some (a, b) ->
  unescape a = Some id ->
  (forall s, cur = NSk s -> find_seg r modname s id = Some (NSk (SkList n g c kpos kids))) ->
  (length (split_on x2c b) < length kpos)%nat ->
  walk false modname r cur (seg :: tl) = MErr.
Proof.
  intros. apply walk_step_err.
  - intro E; subst seg; discriminate.
  - eapply too_few_keys_is_error; eauto.
Qed.

(** ---- nodes that hold no definitions ---------------------------------------------------------------- *)
Definition terminal (n : nref) : Prop := n = NChoice \/ exists nm g l k, n = NSk (SkLeaf nm g l k).

(** whatever non-empty segment follows a segment that resolved to a leaf, leaf-list, choice, anydata, anyxml,
    rpc or action, and whatever comes after it: an error (before 68f1aac: the type assertion of site 1) *)
Theorem walk_below_terminal_is_error : forall modname r cur seg tgt seg2 tl,
  seg <> [] -> seg2 <> [] ->
  step false modname r cur seg = SNext tgt -> terminal tgt ->
  walk false modname r cur (seg :: seg2 :: tl) = MErr.
Proof.
  intros modname r cur seg tgt seg2 tl H1 H2 Hs Ht.
  simpl. destruct seg; [contradiction|]. rewrite Hs.
  destruct seg2 as [|c2 s2]; [contradiction|].
  rewrite (step_below_leaf_is_error modname false tgt (c2 :: s2) Ht). reflexivity.
Qed.

(** ---- examples: list l2 with keys (a : int32, b : string), leaf v, and an anydata node "any" ---------- *)
Definition keys_world : world :=
  mkWorld [x6b] (SkCont [x6b] [] []
    (SCons (SkList [x6c;x32] [] [] [0%nat; 1%nat]
       (SCons (SkLeaf [x61] [] false (KtInt true (-2147483648) 2147483647))
       (SCons (SkLeaf [x62] [] false KtStr)
       (SCons (SkLeaf [x76] [] false KtStr) SNil))))
    (SCons (SkLeaf [x61;x6e;x79] [] false KtOther) SNil))).

Example keys_demo :
  (* l2=1   l2=1,x   l2=1,x,y   l2=1/v   any/x/y   l2=1,x/v *)
  find_path false keys_world [x6c;x32;x3d;x31] = MErr /\
  find_path false keys_world [x6c;x32;x3d;x31;x2c;x78] = MOkOrErr /\
  find_path false keys_world [x6c;x32;x3d;x31;x2c;x78;x2c;x79] = MOkOrErr /\
  find_path false keys_world [x6c;x32;x3d;x31;x2f;x76] = MErr /\
  find_path false keys_world [x61;x6e;x79;x2f;x78;x2f;x79] = MErr /\
  find_path false keys_world [x6c;x32;x3d;x31;x2c;x78;x2f;x76] = MOkOrErr /\
  (* the code before 110eb81 went on with nil key values *)
  find_path true keys_world [x6c;x32;x3d;x31] = MOkOrErr.
Proof. vm_compute. repeat split. Qed.

(** the hypotheses of [find_too_few_keys_is_error] are satisfiable: Find("l2=1") *)
Example find_too_few_keys_sat :
  exists seg a b id n g c kpos kids,
    existsb (Byte.eqb x2f) seg = false /\ existsb (Byte.eqb x3f) seg = false /\
    cut_first x3d seg = Some (a, b) /\ unescape a = Some id /\
    find_seg true (w_module keys_world) (w_root keys_world) id = Some (NSk (SkList n g c kpos kids)) /\
    (length (split_on x2c b) < length kpos)%nat.
Proof.
  exists [x6c;x32;x3d;x31], [x6c;x32], [x31], [x6c;x32].
  do 5 eexists. vm_compute. repeat split; try reflexivity; try lia.
Qed.
