From Coq Require Import ZArith List Bool Lia Strings.Byte.
From YV Require Import Val.Model Req.Types Req.Match.
Import ListNotations.
Open Scope Z_scope.

Lemma match_go_total : forall p' x rs j bl, match_go false x p' rs j bl <> MatchPanic.
Proof.
  induction p' as [|y p'' IH]; intros x rs j bl; destruct rs as [|s rs']; simpl; try discriminate.
  - destruct ((j =? Z.of_nat (length rs')) && negb (bytes_eqb x s)); discriminate.
  - destruct ((j =? Z.of_nat (length rs')) && negb (bytes_eqb x s)); [discriminate|].
    apply IH.
Qed.

Theorem path_matches_total : forall segs bl cand, path_matches false segs bl cand <> MatchPanic.
Proof.
  intros segs bl cand. unfold path_matches. destruct segs; [discriminate|].
  destruct (rev cand); [discriminate|]. apply match_go_total.
Qed.

(** a selector with more segments than the walk has candidate segments left never matches: with
    [j < i] the indexes can never meet ([j] falls, [i] stays), so the walk runs off the root *)
Lemma match_go_short : forall p' x rs j bl,
  rs <> [] -> j < Z.of_nat (length rs) - 1 -> match_go false x p' rs j bl = MatchRes false.
Proof.
  induction p' as [|y p'' IH]; intros x rs j bl Hne Hj; destruct rs as [|s rs']; try congruence;
    change (length (s :: rs')) with (S (length rs')) in Hj; rewrite Nat2Z.inj_succ in Hj;
    assert (E : (j =? Z.of_nat (length rs')) = false) by (apply Z.eqb_neq; lia);
    cbn [match_go]; rewrite E; cbn [andb].
  - reflexivity.
  - apply IH; [discriminate|]. change (length (s :: rs')) with (S (length rs')). rewrite Nat2Z.inj_succ. lia.
Qed.

Theorem selector_longer_than_candidate_no_match : forall segs bl cand,
  (length cand - bl < length segs)%nat -> (bl <= length cand)%nat -> cand <> [] ->
  path_matches false segs bl cand = MatchRes false.
Proof.
  intros segs bl cand Hlen Hbl Hc. unfold path_matches.
  destruct segs as [|s0 segs']; [simpl in Hlen; lia|].
  destruct (rev cand) as [|x p'] eqn:E.
  - apply (f_equal (@length _)) in E. rewrite rev_length in E. destruct cand; simpl in *; congruence.
  - apply match_go_short.
    + intro H. apply (f_equal (@length _)) in H. rewrite rev_length in H. simpl in H. lia.
    + rewrite rev_length. simpl length in *. lia.
Qed.

(** the code before the fix: fields=a/b/c/d/e against the candidate m/c/z *)
Example path_matches_old_panics :
  path_matches true [[x61];[x62];[x63];[x64];[x65]] 1 [[x6d];[x63];[x7a]] = MatchPanic.
Proof. vm_compute. reflexivity. Qed.
