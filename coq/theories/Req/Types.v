(** C13 - request content never crashes the library: datatypes shared by the request models.

    A [world] is the schema skeleton the harness dumps from the real *meta.Module (names, node kinds,
    choice guards as in Tree/Schema.v, key positions and the key leaves' conversion class).  The
    skeleton uses a mutual list type [sks] instead of [list sk] so that the readers below are plain
    structural fixpoints and induction needs no nested principle. *)
From Coq Require Import ZArith List Bool Strings.Byte.
From YV Require Import Val.Model.
Import ListNotations.
Open Scope Z_scope.

Definition ident := list byte.
Definition guard := list (nat * nat).     (* (choice id in the parent, case index), outermost first *)

(** how a key string of a URL path converts (node.NewValue on a string, val/conv.go) *)
Inductive keyty :=
| KtStr                                   (* always converts *)
| KtInt (signed : bool) (lo hi : Z)       (* strconv.ParseInt / ParseUint base 10, then the range test *)
| KtOther.                                (* enum, union, ...: outside the model *)

Inductive sk :=
| SkLeaf (name : ident) (g : guard) (is_list : bool) (kt : keyty)
| SkCont (name : ident) (g : guard) (choices : list ident) (kids : sks)
| SkList (name : ident) (g : guard) (choices : list ident) (keys : list nat) (kids : sks)
with sks := SNil | SCons (s : sk) (tl : sks).

Record world := mkWorld { w_module : ident; w_root : sk }.

Definition sk_name (s : sk) : ident :=
  match s with SkLeaf n _ _ _ => n | SkCont n _ _ _ => n | SkList n _ _ _ _ => n end.
Definition sk_guard (s : sk) : guard :=
  match s with SkLeaf _ g _ _ => g | SkCont _ g _ _ => g | SkList _ g _ _ _ => g end.
Definition sk_kids (s : sk) : sks :=
  match s with SkLeaf _ _ _ _ => SNil | SkCont _ _ _ k => k | SkList _ _ _ _ k => k end.
Definition sk_choices (s : sk) : list ident :=
  match s with SkLeaf _ _ _ _ => [] | SkCont _ _ c _ => c | SkList _ _ c _ _ => c end.

Fixpoint sks_find (name : ident) (l : sks) : option sk :=
  match l with
  | SNil => None
  | SCons s tl => if bytes_eqb (sk_name s) name then Some s else sks_find name tl
  end.
Fixpoint sks_nth (n : nat) (l : sks) : option sk :=
  match l, n with
  | SNil, _ => None
  | SCons s _, O => Some s
  | SCons _ tl, S n' => sks_nth n' tl
  end.

(** a decoded JSON value (encoding/json into interface{}): scalars carry no payload, the value
    conversions of leaves are outside this model *)
Inductive jv := JNull | JBool | JNum | JStr | JArr (items : jvs) | JObj (members : jms)
with jvs := JVNil | JVCons (v : jv) (tl : jvs)
with jms := JMNil | JMCons (name : ident) (v : jv) (tl : jms).

Fixpoint jms_find (name : ident) (l : jms) : option jv :=
  match l with
  | JMNil => None
  | JMCons n v tl => if bytes_eqb n name then Some v else jms_find name tl
  end.
Fixpoint jms_len (l : jms) : nat := match l with JMNil => O | JMCons _ _ tl => S (jms_len tl) end.

(** outcome classes of a request as the harness observes them *)
Inductive outcome := OOk | OErr | OPanic (frame : list byte) | OTimeout | OFatal.

(** what a model says about a request *)
Inductive mres :=
| MOk            (* returns normally *)
| MErr           (* returns an error *)
| MOkOrErr       (* no crash; Ok or Err depends on parts outside the model (value conversion, data) *)
| MPanic (site : nat)
| MUnmodelled.   (* the input leaves the modelled domain *)

Definition is_panic (m : mres) : bool := match m with MPanic _ => true | _ => false end.

(** model input carried by a case *)
Inductive minput :=
| MNone
| MPath (w : world) (path : list byte)
| MRel (w : world) (names : list ident) (row : bool) (path : list byte)
    (* Find(path) on the selection root.Find leads to through the schema idents [names] ([row]: the
       last ident is a list and the selection is one of its entries); [path] may start with "../"
       steps and may carry a "?query" part *)
| MJson (w : world) (doc : jv)
| MMatch (segs : list ident) (base_len : nat) (cand : list ident)
| MXPath (text : list byte).
