(** What the totality theorems give the check: whenever the correspondence holds on a modelled request
    (the observed outcome class is the one the model computes), the request did not crash - and a
    request whose model verdict is "error" was observed as an error. *)
From Coq Require Import ZArith List Bool Arith Strings.Byte.
From YV Require Import Base.Verdict Val.Model Req.Types Req.Match Req.MatchProofs Req.UrlPath Req.UrlPathProofs
  Req.JsonR Req.JsonRProofs Req.XPathLex Req.XPathLexProofs Check.C13Check.
Import ListNotations.

Definition no_crash (o : outcome) : Prop := match o with OOk | OErr => True | _ => False end.

Lemma agrees_no_crash : forall m o, is_panic m = false -> agrees m o = Some true -> no_crash o.
Proof. intros m o Hp H. destruct m, o; simpl in *; try discriminate; exact I. Qed.

Theorem corr_implies_no_crash : forall mi o matched, model_of mi o matched = Some true -> no_crash o.
Proof.
  intros mi o matched H. destruct mi as [|w p|w names row p|w d|segs bl cand|t]; simpl in H.
  - discriminate.
  - eapply agrees_no_crash; [apply find_path_total|exact H].
  - destruct (agrees (find_rel false w names row p) o) as [b|] eqn:A; [|discriminate].
    inversion H as [Hb]. apply andb_prop in Hb. destruct Hb as [-> _].
    eapply agrees_no_crash; [apply find_rel_total|exact A].
  - eapply agrees_no_crash; [apply read_doc_total|exact H].
  - pose proof (path_matches_total segs bl cand) as T.
    destruct (path_matches false segs bl cand); [|congruence].
    destruct o; simpl in *; try discriminate; exact I.
  - eapply agrees_no_crash; [apply xpath_parse_total|exact H].
Qed.

(** on a modelled request an Agree verdict means: no crash, store preserved, and the named shape
    mismatches rejected - i.e. the verdict cannot hide a crash behind the model *)
Theorem agree_means_spec : forall kind tag must_err mi o preserved matched,
  classify (Case kind tag must_err mi o preserved matched) = Agree ->
  spec_ok must_err o preserved = true /\ no_crash o.
Proof.
  intros. unfold classify, classify_gen in H.
  destruct (spec_ok must_err o preserved) eqn:S.
  - split; auto. unfold spec_ok in S. destruct o; try discriminate; exact I.
  - simpl in H. destruct (model_of mi o matched) as [[|]|]; discriminate.
Qed.
