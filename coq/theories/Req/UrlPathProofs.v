From Coq Require Import ZArith NArith List Bool Lia Strings.Byte.
From YV Require Import Val.Model Req.Types Req.UrlPath.
Import ListNotations.

Definition sres_no_panic (r : sres) : Prop := match r with SStop (MPanic _) => False | _ => True end.

Lemma step_total : forall modname r cur seg, sres_no_panic (step false modname r cur seg).
Proof.
  intros. unfold step.
  destruct (cut_first x3d seg) as [[a b]|];
    destruct (unescape _); simpl; auto;
    try destruct (unescape_all _); simpl; auto;
    destruct cur as [[| |]|]; simpl; auto;
    destruct (existsb _ _); simpl; auto;
    destruct (find_seg _ _ _ _) as [[[| |]|]|]; simpl; auto;
    destruct (conv_keys _ _); simpl; auto.
Qed.

Lemma walk_total : forall segs modname r cur, is_panic (walk false modname r cur segs) = false.
Proof.
  induction segs as [|seg tl IH]; intros; simpl; auto.
  destruct seg as [|c seg']; auto.
  pose proof (step_total modname r cur (c :: seg')) as H.
  destruct (step false modname r cur (c :: seg')) as [n|m]; [apply IH|].
  destruct m; simpl in *; auto; contradiction.
Qed.

Theorem find_path_total : forall w path, is_panic (find_path false w path) = false.
Proof.
  intros. unfold find_path. destruct (starts_dotdot path); auto.
  destruct (existsb _ path); auto. apply walk_total.
Qed.

(** a step below a leaf, a leaf-list or a choice is an error (whatever the segment is) *)
Theorem step_below_leaf_is_error : forall modname r cur seg,
  (cur = NChoice \/ exists n g l k, cur = NSk (SkLeaf n g l k)) ->
  step false modname r cur seg = SStop MErr.
Proof.
  intros modname r cur seg H.
  destruct H as [->|(n0 & g0 & i0 & k0 & ->)]; unfold step;
    destruct (cut_first x3d seg) as [[a b]|];
    destruct (unescape _); auto;
    try destruct (unescape_all _); auto.
Qed.

(** a segment carrying "=" only ever resolves to a list: a key on anything else is an error *)
Theorem keyed_segment_resolves_to_list : forall modname r cur seg a b tgt,
  cut_first x3d seg = Some (a, b) ->
  step false modname r cur seg = SNext tgt ->
  exists n g c k kids, tgt = NSk (SkList n g c k kids).
Proof.
  intros modname r cur seg a b tgt Hc. unfold step. rewrite Hc.
  destruct (unescape a); [|discriminate].
  destruct (unescape_all _); [|discriminate].
  destruct cur as [[| |]|]; try discriminate;
    destruct (existsb _ _); try discriminate;
    destruct (find_seg _ _ _ _) as [[[| |]|]|]; try discriminate;
    destruct (conv_keys _ _); try discriminate;
    intro H; inversion H; subst; eauto 10.
Qed.

Theorem key_on_nonlist_is_error : forall modname r cur seg a b,
  cut_first x3d seg = Some (a, b) ->
  match step false modname r cur seg with
  | SNext (NSk (SkList _ _ _ _ _)) => True
  | SNext _ => False
  | SStop m => is_panic m = false
  end.
Proof.
  intros. pose proof (step_total modname r cur seg) as T.
  destruct (step false modname r cur seg) as [tgt|m] eqn:E.
  - destruct (keyed_segment_resolves_to_list _ _ _ _ _ _ _ H E) as (n & g & c & k & kids & ->). exact I.
  - destruct m; simpl in *; auto; contradiction.
Qed.

(** the code before the fixes: Find("c=1") on a container, Find("top/x") below a leaf *)
Definition demo_world : world :=
  mkWorld [x6d] (SkCont [x6d] [] []
    (SCons (SkCont [x63] [] [] (SCons (SkLeaf [x7a] [] false KtStr) SNil))
    (SCons (SkLeaf [x74;x6f;x70] [] false (KtInt true (-2147483648) 2147483647)) SNil))).
Example find_old_key_on_container_panics : find_path true demo_world [x63;x3d;x31] = MPanic 2.
Proof. vm_compute. reflexivity. Qed.
Example find_old_step_below_leaf_panics : find_path true demo_world [x74;x6f;x70;x2f;x78] = MPanic 1.
Proof. vm_compute. reflexivity. Qed.
Example find_fixed_rejects_both :
  find_path false demo_world [x63;x3d;x31] = MErr /\ find_path false demo_world [x74;x6f;x70;x2f;x78] = MErr /\
  find_path false demo_world [x63;x2f;x7a] = MOkOrErr.
Proof. vm_compute. auto. Qed.
