From Coq Require Import ZArith NArith List Bool Lia Strings.Byte.
From YV Require Import Val.Model Req.Types Req.UrlPath.
Import ListNotations.

Definition sres_no_panic (r : sres) : Prop := match r with SStop (MPanic _) => False | _ => True end.

Lemma step_total : forall modname r cur seg, sres_no_panic (step false modname r cur seg).
Proof.
  intros. unfold step.
  destruct (cut_first x3d seg) as [[a b]|];
    destruct (unescape _); simpl; auto;
    try destruct (unescape_all _); simpl; auto;
    destruct cur as [[| |]|]; simpl; auto;
    destruct (existsb _ _); simpl; auto;
    destruct (find_seg _ _ _ _) as [[[| |]|]|]; simpl; auto;
    try destruct (Nat.ltb _ _); simpl; auto;
    destruct (conv_keys _ _); simpl; auto.
Qed.

Lemma walk_total : forall segs modname r cur, is_panic (walk false modname r cur segs) = false.
Proof.
  induction segs as [|seg tl IH]; intros; simpl; auto.
  destruct seg as [|c seg']; auto.
  pose proof (step_total modname r cur (c :: seg')) as H.
  destruct (step false modname r cur (c :: seg')) as [n|m]; [apply IH|].
  destruct m; simpl in *; auto; contradiction.
Qed.

Theorem find_path_total : forall w path, is_panic (find_path false w path) = false.
Proof.
  intros. unfold find_path. destruct (starts_dotdot path); auto.
  destruct (existsb _ path); auto. apply walk_total.
Qed.

(** Find on a selection below the root, with "../" steps and a query part *)
Theorem find_rel_total : forall w names row path, is_panic (find_rel false w names row path) = false.
Proof.
  intros. unfold find_rel.
  destruct (anc_chain _ _ _ _) as [chain|]; auto.
  destruct (go_up chain path) as [[[|s rest] p]|]; auto.
  destruct (cut_first x3f p) as [[pp q]|]; [|apply walk_total].
  pose proof (walk_total (split_on x2f pp) (w_module w) (match rest with [] => true | _ => false end) (NSk s)) as T.
  destruct (walk _ _ _ _ _); simpl in *; auto.
Qed.

(** more "../" steps than there are selections above the start selection: an error *)
Lemma go_up_length : forall chain p c' p', go_up chain p = Some (c', p') -> (0 < length c' <= length chain)%nat.
Proof.
  induction chain as [|s rest IH]; intros p c' p' H; simpl in H; [discriminate|].
  destruct (starts_dotdot p).
  - destruct rest as [|s2 r2]; [discriminate|]. apply IH in H. simpl in *. lia.
  - inversion H; subst. simpl. lia.
Qed.


Definition no_qmark (p : list byte) : Prop := existsb (Byte.eqb x3f) p = false.

Lemma starts_dotdot_app : forall p q, no_qmark p -> starts_dotdot (p ++ x3f :: q) = starts_dotdot p.
Proof.
  intros p q _. destruct p as [|a [|b [|c t]]]; simpl.
  - destruct q as [|b [|c t]]; reflexivity.
  - destruct q; simpl; destruct (Byte.eqb a x2e); reflexivity.
  - destruct (Byte.eqb a x2e), (Byte.eqb b x2e); reflexivity.
  - reflexivity.
Qed.

Lemma no_qmark_skipn : forall n p, no_qmark p -> no_qmark (skipn n p).
Proof.
  unfold no_qmark. induction n; destruct p; simpl; auto. intros H.
  apply orb_false_elim in H. apply IHn. tauto.
Qed.

Lemma skipn3_app : forall p (x : list byte), starts_dotdot p = true -> skipn 3 (p ++ x) = skipn 3 p ++ x.
Proof. intros p x H. destruct p as [|a [|b [|c t]]]; simpl in *; try discriminate; reflexivity. Qed.

Lemma go_up_app : forall chain p q, no_qmark p ->
  go_up chain (p ++ x3f :: q) =
    match go_up chain p with Some (c', p') => Some (c', p' ++ x3f :: q) | None => None end
  /\ (forall c' p', go_up chain p = Some (c', p') -> no_qmark p').
Proof.
  induction chain as [|s rest IH]; intros p q Hp; [simpl; split; [reflexivity|discriminate]|].
  cbn [go_up]. rewrite starts_dotdot_app by exact Hp.
  destruct (starts_dotdot p) eqn:D.
  - destruct rest as [|s2 r2]; [split; [reflexivity|discriminate]|].
    rewrite skipn3_app by exact D. apply IH. apply no_qmark_skipn. exact Hp.
  - split; [reflexivity|]. intros c' p' H. inversion H; subst. exact Hp.
Qed.

Lemma byte_eqb_sym : forall a b : byte, Byte.eqb a b = Byte.eqb b a.
Proof.
  intros a b. destruct (Byte.eqb a b) eqn:E, (Byte.eqb b a) eqn:F; auto.
  - apply byte_dec_bl in E. subst. rewrite (byte_dec_lb eq_refl) in F. discriminate.
  - apply byte_dec_bl in F. subst. rewrite (byte_dec_lb eq_refl) in E. discriminate.
Qed.

Lemma cut_first_app : forall p q, no_qmark p -> cut_first x3f (p ++ x3f :: q) = Some (p, q) /\ cut_first x3f p = None.
Proof.
  unfold no_qmark. induction p as [|c t IH]; intros q H; simpl in *; [split; reflexivity|].
  apply orb_false_elim in H. destruct H as [Hc Ht].
  rewrite byte_eqb_sym in Hc. rewrite Hc.
  destruct (IH q Ht) as [-> ->]. split; reflexivity.
Qed.

(** the query part is cut where it starts in what the "../" steps leave of the path: whatever the query is
    and however many "../" steps precede it, the verdict is that of the path without the query, except that
    the query may turn a normal result into an error *)
Theorem find_rel_query_cut : forall w names row p q, no_qmark p ->
  find_rel false w names row (p ++ x3f :: q) = with_query (find_rel false w names row p).
Proof.
  intros w names row p q Hp. unfold find_rel.
  destruct (anc_chain _ _ _ _) as [chain|]; [|reflexivity].
  destruct (go_up_app chain p q Hp) as [-> Hn].
  destruct (go_up chain p) as [[[|s rest] p']|]; try reflexivity.
  destruct (cut_first_app p' q (Hn _ _ eq_refl)) as [-> ->]. reflexivity.
Qed.

(** a step below a leaf, a leaf-list or a choice is an error (whatever the segment is) *)
Theorem step_below_leaf_is_error : forall modname r cur seg,
  (cur = NChoice \/ exists n g l k, cur = NSk (SkLeaf n g l k)) ->
  step false modname r cur seg = SStop MErr.
Proof.
  intros modname r cur seg H.
  destruct H as [->|(n0 & g0 & i0 & k0 & ->)]; unfold step;
    destruct (cut_first x3d seg) as [[a b]|];
    destruct (unescape _); auto;
    try destruct (unescape_all _); auto.
Qed.

(** a segment carrying "=" only ever resolves to a list: a key on anything else is an error *)
Theorem keyed_segment_resolves_to_list : forall modname r cur seg a b tgt,
  cut_first x3d seg = Some (a, b) ->
  step false modname r cur seg = SNext tgt ->
  exists n g c k kids, tgt = NSk (SkList n g c k kids).
Proof.
  intros modname r cur seg a b tgt Hc. unfold step. rewrite Hc.
  destruct (unescape a); [|discriminate].
  destruct (unescape_all _); [|discriminate].
  destruct cur as [[| |]|]; try discriminate;
    destruct (existsb _ _); try discriminate;
    destruct (find_seg _ _ _ _) as [[[| |]|]|]; try discriminate;
    simpl; try destruct (Nat.ltb _ _); try discriminate;
    destruct (conv_keys _ _); try discriminate;
    intro H; inversion H; subst; eauto 10.
Qed.

Theorem key_on_nonlist_is_error : forall modname r cur seg a b,
  cut_first x3d seg = Some (a, b) ->
  match step false modname r cur seg with
  | SNext (NSk (SkList _ _ _ _ _)) => True
  | SNext _ => False
  | SStop m => is_panic m = false
  end.
Proof.
  intros. pose proof (step_total modname r cur seg) as T.
  destruct (step false modname r cur seg) as [tgt|m] eqn:E.
  - destruct (keyed_segment_resolves_to_list _ _ _ _ _ _ _ H E) as (n & g & c & k & kids & ->). exact I.
  - destruct m; simpl in *; auto; contradiction.
Qed.

(** the code before the fixes: Find("c=1") on a container, Find("top/x") below a leaf *)
Definition demo_world : world :=
  mkWorld [x6d] (SkCont [x6d] [] []
    (SCons (SkCont [x63] [] [] (SCons (SkLeaf [x7a] [] false KtStr) SNil))
    (SCons (SkLeaf [x74;x6f;x70] [] false (KtInt true (-2147483648) 2147483647)) SNil))).
Example find_old_key_on_container_panics : find_path true demo_world [x63;x3d;x31] = MPanic 2.
Proof. vm_compute. reflexivity. Qed.
Example find_old_step_below_leaf_panics : find_path true demo_world [x74;x6f;x70;x2f;x78] = MPanic 1.
Proof. vm_compute. reflexivity. Qed.
Example find_fixed_rejects_both :
  find_path false demo_world [x63;x3d;x31] = MErr /\ find_path false demo_world [x74;x6f;x70;x2f;x78] = MErr /\
  find_path false demo_world [x63;x2f;x7a] = MOkOrErr.
Proof. vm_compute. auto. Qed.

(** with one "../" too many the request is an error, with or without a query *)
Example find_rel_demo :
  (* on the selection of container c:  "../top?"  "../top?a=1"  "../../top"  "../c=1?a"  "z?"  "../nosuch?depth=1" *)
  find_rel false demo_world [[x63]] false [x2e;x2e;x2f;x74;x6f;x70;x3f] = MOkOrErr /\
  find_rel false demo_world [[x63]] false [x2e;x2e;x2f;x74;x6f;x70;x3f;x61;x3d;x31] = MOkOrErr /\
  find_rel false demo_world [[x63]] false [x2e;x2e;x2f;x2e;x2e;x2f;x74;x6f;x70] = MErr /\
  find_rel false demo_world [[x63]] false [x2e;x2e;x2f;x63;x3d;x31;x3f;x61] = MErr /\
  find_rel false demo_world [[x63]] false [x7a;x3f] = MOkOrErr /\
  find_rel false demo_world [[x63]] false [x2e;x2e;x2f;x6e;x6f;x73;x75;x63;x68;x3f;x64;x65;x70;x74;x68;x3d;x31] = MErr.
Proof. vm_compute. repeat split. Qed.
