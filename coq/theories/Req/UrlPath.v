(** node/find.go Selection.Find (on the root without a query part: [find_path]; on any selection, with the
    "../" loop and the cut of the "?query" part: [find_rel] at the end of this file) + node/path_slice.go parseUrlPath + meta/find.go
    meta.Find for idents without '/', as executable model with the two type assertions on
    user-supplied segments explicit:
      site 1  p.Meta.(meta.HasDefinitions)   - a step below a leaf, leaf-list or choice
      site 2  seg.Meta.( *meta.List)          - a key on a segment that is not a list
    and the count test of commit 110eb81: a list segment with fewer key values than the list has keys is
    an error (more values than keys are ignored by NewValuesByString).  Nodes that hold no definitions
    besides leaf / leaf-list / choice - anydata, anyxml, rpc and action - are [SkLeaf] entries of the
    skeleton (terminal for site 1; they are never key leaves).
    ([old = true] is the code before commits d2f10c0 / 249fcce, where both panic).
    An ident containing '/' after unescaping (%2F) is "not found" since commit 7b2b71b (before, meta.Find
    navigated it as a schema path and the segment resolved to a node that is no child of its parent).
    Outside the model: net/url (QueryUnescape is transcribed: %XX and '+'), the conversion of key
    strings other than string / integer types ([KtOther] -> [MUnmodelled]), the query part, and everything after parsing
    (findSlice against the data: [MOkOrErr]).
    Assumption of the worlds: module prefix = module name, no imports/augments. *)
From Coq Require Import ZArith NArith List Bool Strings.Byte.
From YV Require Import Val.Model Req.Types.
Import ListNotations.
Open Scope Z_scope.

(** strings.Split *)
Fixpoint split_on (sep : byte) (s : list byte) : list (list byte) :=
  match s with
  | [] => [[]]
  | c :: tl =>
      if Byte.eqb c sep then [] :: split_on sep tl
      else match split_on sep tl with
           | [] => [[c]]
           | h :: t => (c :: h) :: t
           end
  end.

(** strings.Index + slicing around the first occurrence *)
Fixpoint cut_first (sep : byte) (s : list byte) : option (list byte * list byte) :=
  match s with
  | [] => None
  | c :: tl =>
      if Byte.eqb c sep then Some ([], tl)
      else match cut_first sep tl with
           | Some (a, b) => Some (c :: a, b)
           | None => None
           end
  end.

Definition bN (c : byte) : N := Byte.to_N c.
Definition hexval (c : byte) : option N :=
  let n := bN c in
  if (48 <=? n)%N && (n <=? 57)%N then Some (n - 48)%N
  else if (97 <=? n)%N && (n <=? 102)%N then Some (n - 87)%N
  else if (65 <=? n)%N && (n <=? 70)%N then Some (n - 55)%N
  else None.
Definition byte_of (n : N) : byte := match Byte.of_N n with Some b => b | None => x00 end.

(** url.QueryUnescape: "%" must be followed by two hex digits, "+" is a space *)
Fixpoint unescape (s : list byte) : option (list byte) :=
  match s with
  | [] => Some []
  | c :: tl =>
      if Byte.eqb c x25 then
        match tl with
        | h1 :: h2 :: tl2 =>
            match hexval h1, hexval h2 with
            | Some a, Some b =>
                match unescape tl2 with Some r => Some (byte_of (16 * a + b)%N :: r) | None => None end
            | _, _ => None
            end
        | _ => None
        end
      else match unescape tl with
           | Some r => Some ((if Byte.eqb c x2b then x20 else c) :: r)
           | None => None
           end
  end.
Fixpoint unescape_all (l : list (list byte)) : option (list (list byte)) :=
  match l with
  | [] => Some []
  | s :: tl => match unescape s with
               | None => None
               | Some u => match unescape_all tl with Some r => Some (u :: r) | None => None end
               end
  end.

(** strconv.ParseInt(s,10,_) / ParseUint(s,10,_) followed by the range test of val/conv.go *)
Definition isdigit (c : byte) : bool := (48 <=? bN c)%N && (bN c <=? 57)%N.
Fixpoint digits_val (acc : Z) (s : list byte) : option Z :=
  match s with
  | [] => Some acc
  | c :: tl => if isdigit c then digits_val (acc * 10 + (Z.of_N (bN c) - 48)) tl else None
  end.
Definition parse_int (signed : bool) (lo hi : Z) (s : list byte) : bool :=
  let '(neg, body) :=
    if signed then
      match s with
      | c :: tl => if Byte.eqb c x2d then (true, tl) else if Byte.eqb c x2b then (false, tl) else (false, s)
      | [] => (false, s)
      end
    else (false, s) in
  match body with
  | [] => false
  | _ => match digits_val 0 body with
         | Some v => let v := if neg then - v else v in (lo <=? v) && (v <=? hi)
         | None => false
         end
  end.

Inductive kres := KOk | KErr | KUnmodelled.
(** node.NewValuesByString: min(len types, len strings) conversions, the first failure wins *)
Fixpoint conv_keys (tys : list keyty) (strs : list (list byte)) : kres :=
  match tys, strs with
  | ty :: tys', s :: strs' =>
      match ty with
      | KtStr => conv_keys tys' strs'
      | KtInt sg lo hi => if parse_int sg lo hi s then conv_keys tys' strs' else KErr
      | KtOther => KUnmodelled
      end
  | _, _ => KOk
  end.
Definition key_types (kpos : list nat) (kids : sks) : list keyty :=
  map (fun i => match sks_nth i kids with Some (SkLeaf _ _ false kt) => kt | _ => KtOther end) kpos.

(** what a path segment resolved to *)
Inductive nref := NSk (s : sk) | NChoice.

(** dataDefsIndex of a container / list / module: every flat kid and every choice by name *)
Definition lookup (s : sk) (name : ident) : option nref :=
  match sks_find name (sk_kids s) with
  | Some k => Some (NSk k)
  | None => if existsb (bytes_eqb name) (sk_choices s) then Some NChoice else None
  end.

(** meta.Find on an ident without '/': "pre:" pieces are stripped while the first ':' of what is left
    has an index > 0; at the module every stripped prefix must be the module's prefix *)
Fixpoint strip_prefixes (is_root : bool) (modname : ident) (acc : list byte) (frozen : bool) (s : list byte)
  : option (list byte) :=
  match s with
  | [] => Some (rev acc)
  | c :: tl =>
      if Byte.eqb c x3a && negb frozen then
        match acc with
        | [] => strip_prefixes is_root modname [c] true tl
        | _ => if is_root && negb (bytes_eqb (rev acc) modname) then None
               else strip_prefixes is_root modname [] false tl
        end
      else strip_prefixes is_root modname (c :: acc) frozen tl
  end.
Definition meta_find (is_root : bool) (modname : ident) (s : sk) (id : list byte) : option nref :=
  match strip_prefixes is_root modname [] false id with
  | None => None
  | Some nm => lookup s nm
  end.
(** parseUrlPath's second look-up: "module:ident" with the defining module's name *)
Definition find_seg (is_root : bool) (modname : ident) (s : sk) (id : list byte) : option nref :=
  match meta_find is_root modname s id with
  | Some r => Some r
  | None =>
      match cut_first x3a id with
      | Some (pre, rest) =>
          match pre with
          | [] => None
          | _ => match meta_find is_root modname s rest with
                 | Some r => if bytes_eqb pre modname then Some r else None
                 | None => None
                 end
          end
      | None => None
      end
  end.

Inductive sres := SNext (n : nref) | SStop (m : mres).

Definition step (old : bool) (modname : ident) (is_root : bool) (cur : nref) (seg : list byte) : sres :=
  let '(rawid, rawkeys) :=
    match cut_first x3d seg with
    | Some (a, b) => (a, Some (split_on x2c b))
    | None => (seg, None)
    end in
  match unescape rawid with
  | None => SStop MErr
  | Some id =>
      match (match rawkeys with None => Some [] | Some ks => unescape_all ks end) with
      | None => SStop MErr
      | Some keys =>
          match cur with
          | NChoice | NSk (SkLeaf _ _ _ _) => SStop (if old then MPanic 1 else MErr)
          | NSk s =>
              if existsb (Byte.eqb x2f) id then SStop (if old then MUnmodelled else MErr)   (* 7b2b71b *)
              else
                match find_seg is_root modname s id with
                | None => SStop MErr
                | Some tgt =>
                    match rawkeys with
                    | None => SNext tgt
                    | Some _ =>
                        match tgt with
                        | NSk (SkList _ _ _ kpos kids) =>
                            (* 110eb81: fewer key values than the list has keys is a bad request; before,
                               NewValuesByString left the missing values nil and the node was handed them *)
                            if negb old && (length keys <? length kpos)%nat then SStop MErr
                            else
                            match conv_keys (key_types kpos kids) keys with
                            | KOk => SNext tgt
                            | KErr => SStop MErr
                            | KUnmodelled => SStop MUnmodelled
                            end
                        | _ => SStop (if old then MPanic 2 else MErr)
                        end
                    end
                end
          end
      end
  end.

Fixpoint walk (old : bool) (modname : ident) (is_root : bool) (cur : nref) (segs : list (list byte)) : mres :=
  match segs with
  | [] => MOkOrErr
  | seg :: tl =>
      match seg with
      | [] => MOkOrErr                                   (* "a/b/c same as a/b/c/": break *)
      | _ => match step old modname is_root cur seg with
             | SNext n => walk old modname false n tl
             | SStop m => m
             end
      end
  end.

Definition starts_dotdot (p : list byte) : bool :=
  match p with
  | a :: b :: c :: _ => Byte.eqb a x2e && Byte.eqb b x2e && Byte.eqb c x2f
  | _ => false
  end.

(** Browser.Root().Find(path) *)
Definition find_path (old : bool) (w : world) (path : list byte) : mres :=
  if starts_dotdot path then MErr                        (* no parent path to resolve *)
  else if existsb (Byte.eqb x3f) path then MUnmodelled
  else walk old (w_module w) true (NSk (w_root w)) (split_on x2f path).

(** ---- Find on a selection below the root: leading "../" steps and the "?query" part ----------------

    node/find.go Selection.Find: every leading "../" moves to [s.parent] (none left: "no parent path",
    an error) and drops three bytes of the path; what remains is cut at ITS first '?' - the query is
    decoded (net/url, parseQueryParams, BuildConstraints: outside the model, it can only turn the
    result into an error) - and the part in front of the '?' is parsed by parseUrlPath against the meta
    of the selection the "../" steps led to.

    The selections above the start selection are what findSlice / selekt / selectListItem build
    (node/selection.go): one per container or leaf step, and two per list step that carries a key -
    the list selection and, below it, the entry selection; both have the list as their meta. *)
Fixpoint anc_chain (cur : sk) (names : list ident) (row : bool) (acc : list sk) : option (list sk) :=
  match names with
  | [] => Some acc
  | n :: tl =>
      match sks_find n (sk_kids cur) with
      | None => None
      | Some k =>
          match k with
          | SkLeaf _ _ _ _ => match tl with [] => Some (k :: acc) | _ => None end
          | SkCont _ _ _ _ => anc_chain k tl row (k :: acc)
          | SkList _ _ _ _ _ =>
              match tl with
              | [] => Some (if row then k :: k :: acc else k :: acc)
              | _ => anc_chain k tl row (k :: k :: acc)      (* below a list only through an entry *)
              end
          end
      end
  end.

(** the loop  for strings.HasPrefix(p, "../") { if s.parent == nil { error }; p = p[3:]; s = s.Parent() } ;
    [chain] is the start selection and the selections above it, innermost first *)
Fixpoint go_up (chain : list sk) (p : list byte) : option (list sk * list byte) :=
  match chain with
  | [] => None
  | _ :: rest =>
      if starts_dotdot p then
        match rest with
        | [] => None                                      (* no parent path to resolve *)
        | _ => go_up rest (skipn 3 p)
        end
      else Some (chain, p)
  end.

(** what the query part can do to the verdict of the path part: reject the request, nothing else
    (under [old] a query error may come before the crash of the path part: not modelled) *)
Definition with_query (m : mres) : mres :=
  match m with
  | MPanic _ => MUnmodelled
  | MOk => MOkOrErr
  | _ => m
  end.

Definition find_rel (old : bool) (w : world) (names : list ident) (row : bool) (path : list byte) : mres :=
  match anc_chain (w_root w) names row [w_root w] with
  | None => MUnmodelled
  | Some chain =>
      match go_up chain path with
      | None => MErr
      | Some ([], _) => MUnmodelled
      | Some (s :: rest, p) =>
          let is_root := match rest with [] => true | _ => false end in
          match cut_first x3f p with
          | None => walk old (w_module w) is_root (NSk s) (split_on x2f p)
          | Some (pp, _) => with_query (walk old (w_module w) is_root (NSk s) (split_on x2f pp))
          end
      end
  end.

(** ---- queries that name no parameter BuildConstraints knows ---------------------------------------
    Such a query builds no field / range / content / where constraint (the depth and node-count limits
    it installs do not apply to navigation requests), so Find returns what it returns without it. *)
Definition known_params : list (list byte) :=
  [ [x64;x65;x70;x74;x68];                                                       (* depth *)
    [x66;x63;x2e;x72;x61;x6e;x67;x65];                                           (* fc.range *)
    [x66;x69;x65;x6c;x64;x73];                                                   (* fields *)
    [x66;x63;x2e;x78;x66;x69;x65;x6c;x64;x73];                                   (* fc.xfields *)
    [x66;x63;x2e;x6d;x61;x78;x2d;x6e;x6f;x64;x65;x2d;x63;x6f;x75;x6e;x74];       (* fc.max-node-count *)
    [x63;x6f;x6e;x74;x65;x6e;x74];                                               (* content *)
    [x77;x69;x74;x68;x2d;x64;x65;x66;x61;x75;x6c;x74;x73];                       (* with-defaults *)
    [x66;x69;x6c;x74;x65;x72];                                                   (* filter *)
    [x77;x68;x65;x72;x65] ].                                                     (* where *)

(** letters, digits and  = & . - _  : nothing net/url or QueryUnescape could reject or rewrite *)
Definition plain_byte (c : byte) : bool :=
  let n := bN c in
  ((48 <=? n)%N && (n <=? 57)%N) || ((97 <=? n)%N && (n <=? 122)%N) || ((65 <=? n)%N && (n <=? 90)%N)
  || Byte.eqb c x3d || Byte.eqb c x26 || Byte.eqb c x2e || Byte.eqb c x2d || Byte.eqb c x5f.

Definition pair_key (pair : list byte) : list byte :=
  match cut_first x3d pair with Some (k, _) => k | None => pair end.

Definition neutral_query (q : list byte) : bool :=
  forallb plain_byte q
  && forallb (fun pr => negb (existsb (bytes_eqb (pair_key pr)) known_params)) (split_on x26 q).

(** [same]: 2 when the harness observed Find(path) and Find(path without its query) to end alike (same
    outcome class, same selection path), 1 when not, 0 when it did not look *)
Definition query_law (path : list byte) (same : nat) : bool :=
  match cut_first x3f path with
  | Some (_, q) => if neutral_query q then Nat.eqb same 2 else true
  | None => true
  end.
