(** node/find.go Selection.Find (without a query part) + node/path_slice.go parseUrlPath + meta/find.go
    meta.Find for idents without '/', as executable model with the two type assertions on
    user-supplied segments explicit:
      site 1  p.Meta.(meta.HasDefinitions)   - a step below a leaf, leaf-list or choice
      site 2  seg.Meta.( *meta.List)          - a key on a segment that is not a list
    ([old = true] is the code before commits d2f10c0 / 249fcce, where both panic).
    An ident containing '/' after unescaping (%2F) is "not found" since commit 7b2b71b (before, meta.Find
    navigated it as a schema path and the segment resolved to a node that is no child of its parent).
    Outside the model: net/url (QueryUnescape is transcribed: %XX and '+'), the conversion of key
    strings other than string / integer types ([KtOther] -> [MUnmodelled]), the query part, and everything after parsing
    (findSlice against the data: [MOkOrErr]).
    Assumption of the worlds: module prefix = module name, no imports/augments. *)
From Coq Require Import ZArith NArith List Bool Strings.Byte.
From YV Require Import Val.Model Req.Types.
Import ListNotations.
Open Scope Z_scope.

(** strings.Split *)
Fixpoint split_on (sep : byte) (s : list byte) : list (list byte) :=
  match s with
  | [] => [[]]
  | c :: tl =>
      if Byte.eqb c sep then [] :: split_on sep tl
      else match split_on sep tl with
           | [] => [[c]]
           | h :: t => (c :: h) :: t
           end
  end.

(** strings.Index + slicing around the first occurrence *)
Fixpoint cut_first (sep : byte) (s : list byte) : option (list byte * list byte) :=
  match s with
  | [] => None
  | c :: tl =>
      if Byte.eqb c sep then Some ([], tl)
      else match cut_first sep tl with
           | Some (a, b) => Some (c :: a, b)
           | None => None
           end
  end.

Definition bN (c : byte) : N := Byte.to_N c.
Definition hexval (c : byte) : option N :=
  let n := bN c in
  if (48 <=? n)%N && (n <=? 57)%N then Some (n - 48)%N
  else if (97 <=? n)%N && (n <=? 102)%N then Some (n - 87)%N
  else if (65 <=? n)%N && (n <=? 70)%N then Some (n - 55)%N
  else None.
Definition byte_of (n : N) : byte := match Byte.of_N n with Some b => b | None => x00 end.

(** url.QueryUnescape: "%" must be followed by two hex digits, "+" is a space *)
Fixpoint unescape (s : list byte) : option (list byte) :=
  match s with
  | [] => Some []
  | c :: tl =>
      if Byte.eqb c x25 then
        match tl with
        | h1 :: h2 :: tl2 =>
            match hexval h1, hexval h2 with
            | Some a, Some b =>
                match unescape tl2 with Some r => Some (byte_of (16 * a + b)%N :: r) | None => None end
            | _, _ => None
            end
        | _ => None
        end
      else match unescape tl with
           | Some r => Some ((if Byte.eqb c x2b then x20 else c) :: r)
           | None => None
           end
  end.
Fixpoint unescape_all (l : list (list byte)) : option (list (list byte)) :=
  match l with
  | [] => Some []
  | s :: tl => match unescape s with
               | None => None
               | Some u => match unescape_all tl with Some r => Some (u :: r) | None => None end
               end
  end.

(** strconv.ParseInt(s,10,_) / ParseUint(s,10,_) followed by the range test of val/conv.go *)
Definition isdigit (c : byte) : bool := (48 <=? bN c)%N && (bN c <=? 57)%N.
Fixpoint digits_val (acc : Z) (s : list byte) : option Z :=
  match s with
  | [] => Some acc
  | c :: tl => if isdigit c then digits_val (acc * 10 + (Z.of_N (bN c) - 48)) tl else None
  end.
Definition parse_int (signed : bool) (lo hi : Z) (s : list byte) : bool :=
  let '(neg, body) :=
    if signed then
      match s with
      | c :: tl => if Byte.eqb c x2d then (true, tl) else if Byte.eqb c x2b then (false, tl) else (false, s)
      | [] => (false, s)
      end
    else (false, s) in
  match body with
  | [] => false
  | _ => match digits_val 0 body with
         | Some v => let v := if neg then - v else v in (lo <=? v) && (v <=? hi)
         | None => false
         end
  end.

Inductive kres := KOk | KErr | KUnmodelled.
(** node.NewValuesByString: min(len types, len strings) conversions, the first failure wins *)
Fixpoint conv_keys (tys : list keyty) (strs : list (list byte)) : kres :=
  match tys, strs with
  | ty :: tys', s :: strs' =>
      match ty with
      | KtStr => conv_keys tys' strs'
      | KtInt sg lo hi => if parse_int sg lo hi s then conv_keys tys' strs' else KErr
      | KtOther => KUnmodelled
      end
  | _, _ => KOk
  end.
Definition key_types (kpos : list nat) (kids : sks) : list keyty :=
  map (fun i => match sks_nth i kids with Some (SkLeaf _ _ false kt) => kt | _ => KtOther end) kpos.

(** what a path segment resolved to *)
Inductive nref := NSk (s : sk) | NChoice.

(** dataDefsIndex of a container / list / module: every flat kid and every choice by name *)
Definition lookup (s : sk) (name : ident) : option nref :=
  match sks_find name (sk_kids s) with
  | Some k => Some (NSk k)
  | None => if existsb (bytes_eqb name) (sk_choices s) then Some NChoice else None
  end.

(** meta.Find on an ident without '/': "pre:" pieces are stripped while the first ':' of what is left
    has an index > 0; at the module every stripped prefix must be the module's prefix *)
Fixpoint strip_prefixes (is_root : bool) (modname : ident) (acc : list byte) (frozen : bool) (s : list byte)
  : option (list byte) :=
  match s with
  | [] => Some (rev acc)
  | c :: tl =>
      if Byte.eqb c x3a && negb frozen then
        match acc with
        | [] => strip_prefixes is_root modname [c] true tl
        | _ => if is_root && negb (bytes_eqb (rev acc) modname) then None
               else strip_prefixes is_root modname [] false tl
        end
      else strip_prefixes is_root modname (c :: acc) frozen tl
  end.
Definition meta_find (is_root : bool) (modname : ident) (s : sk) (id : list byte) : option nref :=
  match strip_prefixes is_root modname [] false id with
  | None => None
  | Some nm => lookup s nm
  end.
(** parseUrlPath's second look-up: "module:ident" with the defining module's name *)
Definition find_seg (is_root : bool) (modname : ident) (s : sk) (id : list byte) : option nref :=
  match meta_find is_root modname s id with
  | Some r => Some r
  | None =>
      match cut_first x3a id with
      | Some (pre, rest) =>
          match pre with
          | [] => None
          | _ => match meta_find is_root modname s rest with
                 | Some r => if bytes_eqb pre modname then Some r else None
                 | None => None
                 end
          end
      | None => None
      end
  end.

Inductive sres := SNext (n : nref) | SStop (m : mres).

Definition step (old : bool) (modname : ident) (is_root : bool) (cur : nref) (seg : list byte) : sres :=
  let '(rawid, rawkeys) :=
    match cut_first x3d seg with
    | Some (a, b) => (a, Some (split_on x2c b))
    | None => (seg, None)
    end in
  match unescape rawid with
  | None => SStop MErr
  | Some id =>
      match (match rawkeys with None => Some [] | Some ks => unescape_all ks end) with
      | None => SStop MErr
      | Some keys =>
          match cur with
          | NChoice | NSk (SkLeaf _ _ _ _) => SStop (if old then MPanic 1 else MErr)
          | NSk s =>
              if existsb (Byte.eqb x2f) id then SStop (if old then MUnmodelled else MErr)   (* 7b2b71b *)
              else
                match find_seg is_root modname s id with
                | None => SStop MErr
                | Some tgt =>
                    match rawkeys with
                    | None => SNext tgt
                    | Some _ =>
                        match tgt with
                        | NSk (SkList _ _ _ kpos kids) =>
                            match conv_keys (key_types kpos kids) keys with
                            | KOk => SNext tgt
                            | KErr => SStop MErr
                            | KUnmodelled => SStop MUnmodelled
                            end
                        | _ => SStop (if old then MPanic 2 else MErr)
                        end
                    end
                end
          end
      end
  end.

Fixpoint walk (old : bool) (modname : ident) (is_root : bool) (cur : nref) (segs : list (list byte)) : mres :=
  match segs with
  | [] => MOkOrErr
  | seg :: tl =>
      match seg with
      | [] => MOkOrErr                                   (* "a/b/c same as a/b/c/": break *)
      | _ => match step old modname is_root cur seg with
             | SNext n => walk old modname false n tl
             | SStop m => m
             end
      end
  end.

Definition starts_dotdot (p : list byte) : bool :=
  match p with
  | a :: b :: c :: _ => Byte.eqb a x2e && Byte.eqb b x2e && Byte.eqb c x2f
  | _ => false
  end.

(** Browser.Root().Find(path) *)
Definition find_path (old : bool) (w : world) (path : list byte) : mres :=
  if starts_dotdot path then MErr                        (* no parent path to resolve *)
  else if existsb (Byte.eqb x3f) path then MUnmodelled
  else walk old (w_module w) true (NSk (w_root w)) (split_on x2f path).
