From Coq Require Import ZArith List Bool Arith Strings.Byte.
From YV Require Import Val.Model Req.Types Req.JsonR.
Import ListNotations.

Scheme sk_mind := Induction for sk Sort Prop
  with sks_mind := Induction for sks Sort Prop.
Combined Scheme sk_sks_ind from sk_mind, sks_mind.

Definition wres_no_panic (r : wres) : Prop := match r with WStop (MPanic _) => False | _ => True end.

Lemma read_total_mut : forall modname,
  (forall k ms, wres_no_panic (read_kid false modname k ms)) /\
  (forall l all ms, wres_no_panic (read_kids false modname all ms l)).
Proof.
  intro modname. apply sk_sks_ind.
  - intros; exact I.
  - intros name g choices kids IH ms. cbn [read_kid].
    destruct (member modname name ms) as [[| | | | |ms']|]; cbn; auto.
  - intros name g choices keys kids IH ms. cbn [read_kid].
    destruct (member modname name ms) as [[| | | |items|]|]; cbn; auto.
    induction items as [|it its' IHi]; cbn; auto.
    destruct it; cbn; auto.
    destruct (keys_present modname keys kids members); cbn; auto.
    pose proof (IH kids members) as H.
    destruct (read_kids false modname kids members kids); auto.
  - intros; exact I.
  - intros k IHk tl IHtl all ms. cbn [read_kids].
    destruct (guard_visit modname all ms [] (sk_guard k)) as [[|]|]; cbn; auto.
    pose proof (IHk ms) as H. destruct (read_kid false modname k ms); auto.
Qed.

Theorem read_doc_total : forall w doc, is_panic (read_doc false w doc) = false.
Proof.
  intros w doc. unfold read_doc. destruct doc; auto.
  pose proof (proj2 (read_total_mut (w_module w)) (sk_kids (w_root w)) (sk_kids (w_root w)) members) as H.
  destruct (read_kids _ _ _ _ _) as [|m]; auto. destruct m; simpl in *; auto; contradiction.
Qed.

Definition is_obj (v : jv) : bool := match v with JObj _ => true | _ => false end.
Definition is_arr (v : jv) : bool := match v with JArr _ => true | _ => false end.

(** a scalar, an array or null where a container is declared *)
Theorem non_object_for_container_is_error : forall modname name g c kids ms v,
  member modname name ms = Some v -> is_obj v = false ->
  read_kid false modname (SkCont name g c kids) ms = WStop MErr.
Proof. intros. cbn [read_kid]. rewrite H. destruct v; try reflexivity; discriminate. Qed.

(** an object, a scalar or null where a list is declared *)
Theorem non_array_for_list_is_error : forall modname name g c keys kids ms v,
  member modname name ms = Some v -> is_arr v = false ->
  read_kid false modname (SkList name g c keys kids) ms = WStop MErr.
Proof. intros. cbn [read_kid]. rewrite H. destruct v; try reflexivity; discriminate. Qed.

(** the rows of a list are read in order; [rows_of] is the inner loop of [read_kid] on a list *)
Definition rows_of (modname : ident) (keys : list nat) (kids : sks) : jvs -> wres :=
  fix rows (its : jvs) : wres :=
    match its with
    | JVNil => WGo
    | JVCons it its' =>
        match it with
        | JObj ms' =>
            if keys_present modname keys kids ms' then
              match read_kids false modname kids ms' kids with
              | WGo => rows its'
              | WStop m => WStop m
              end
            else WStop MErr
        | _ => WStop MErr
        end
    end.
Lemma read_list_rows : forall modname name g c keys kids ms items,
  member modname name ms = Some (JArr items) ->
  read_kid false modname (SkList name g c keys kids) ms = rows_of modname keys kids items.
Proof. intros. cbn [read_kid]. rewrite H. reflexivity. Qed.

Fixpoint jvs_app (a b : jvs) : jvs := match a with JVNil => b | JVCons v tl => JVCons v (jvs_app tl b) end.

(** entries before the offending one that read without a shape error do not hide it *)
Definition rows_fine (modname : ident) (keys : list nat) (kids : sks) (pre : jvs) : Prop :=
  rows_of modname keys kids pre = WGo.

Lemma rows_app : forall modname keys kids pre post,
  rows_fine modname keys kids pre ->
  rows_of modname keys kids (jvs_app pre post) = rows_of modname keys kids post.
Proof.
  unfold rows_fine. induction pre as [|it pre' IH]; intros post H; [reflexivity|].
  cbn in *. destruct it; try discriminate.
  destruct (keys_present modname keys kids members); try discriminate.
  destruct (read_kids false modname kids members kids); try discriminate. apply IH, H.
Qed.

(** a list entry that is not an object, at any position *)
Theorem non_object_entry_is_error : forall modname name g c keys kids ms pre it post,
  member modname name ms = Some (JArr (jvs_app pre (JVCons it post))) ->
  rows_fine modname keys kids pre -> is_obj it = false ->
  read_kid false modname (SkList name g c keys kids) ms = WStop MErr.
Proof.
  intros. rewrite (read_list_rows _ _ _ _ _ _ _ _ H), rows_app by assumption.
  cbn. destruct it; try reflexivity; discriminate.
Qed.

(** a list entry without one of its keys (absent or null), at any position *)
Theorem entry_without_key_is_error : forall modname name g c keys kids ms pre ms' post,
  member modname name ms = Some (JArr (jvs_app pre (JVCons (JObj ms') post))) ->
  rows_fine modname keys kids pre -> keys_present modname keys kids ms' = false ->
  read_kid false modname (SkList name g c keys kids) ms = WStop MErr.
Proof.
  intros. rewrite (read_list_rows _ _ _ _ _ _ _ _ H), rows_app by assumption.
  cbn. rewrite H1. reflexivity.
Qed.

(** a shape error in a visited kid is the result of the enclosing container, whatever follows *)
Theorem kid_error_is_container_error : forall modname all ms k tl,
  guard_visit modname all ms [] (sk_guard k) = Some true ->
  read_kid false modname k ms = WStop MErr ->
  read_kids false modname all ms (SCons k tl) = WStop MErr.
Proof. intros. cbn [read_kids]. rewrite H, H0. reflexivity. Qed.

(** the code before the fixes *)
Definition jdemo_world : world :=
  mkWorld [x6d] (SkCont [x6d] [] []
    (SCons (SkCont [x63] [] []
       (SCons (SkList [x71] [] [] [0%nat] (SCons (SkLeaf [x6b] [] false KtStr) (SCons (SkLeaf [x76] [] false KtOther) SNil))) SNil))
     SNil)).
(* {"c":5}  {"c":{"q":{}}}  {"c":{"q":[1]}}  {"c":{"q":[{"v":1}]}} *)
Definition jd1 := JObj (JMCons [x63] JNum JMNil).
Definition jd2 := JObj (JMCons [x63] (JObj (JMCons [x71] (JObj JMNil) JMNil)) JMNil).
Definition jd3 := JObj (JMCons [x63] (JObj (JMCons [x71] (JArr (JVCons JNum JVNil)) JMNil)) JMNil).
Definition jd4 := JObj (JMCons [x63] (JObj (JMCons [x71] (JArr (JVCons (JObj (JMCons [x76] JNum JMNil)) JVNil)) JMNil)) JMNil).
Example read_old_panics :
  read_doc true jdemo_world jd1 = MPanic 1 /\ read_doc true jdemo_world jd2 = MPanic 2 /\
  read_doc true jdemo_world jd3 = MPanic 3.
Proof. vm_compute. auto. Qed.
Example read_fixed_rejects :
  read_doc false jdemo_world jd1 = MErr /\ read_doc false jdemo_world jd2 = MErr /\
  read_doc false jdemo_world jd3 = MErr /\ read_doc false jdemo_world jd4 = MErr.
Proof. vm_compute. auto. Qed.
