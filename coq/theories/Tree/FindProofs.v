(** Proofs of the C08 theorems about Tree/Find.v. *)
From Coq Require Import ZArith List Bool Strings.Byte Lia.
From YV Require Import Val.Model Val.Proofs Tree.Schema Tree.Editor Tree.Pct Tree.PctProofs
     Tree.KeyText Tree.KeyTextProofs Tree.Find Tree.FindText.
Import ListNotations.

(** ** hypotheses about a location, stated along the location only *)

(** a YANG identifier as far as the proofs need it: non-empty, unreserved characters only, not
    starting with '.' (YANG: a letter or '_') *)
Definition ident_ok (s : list byte) : bool :=
  match s with [] => false | c :: _ => negb (Byte.eqb c dot) && forallb unreserved s end.

(** the name of kid [i] resolves to kid [i] (sibling names are unique) and it and its module's
    name are identifiers *)
Definition name_res (kids : list snode) (i : nat) (k : snode) : Prop :=
  lookup_name kids (sname k) O = Some (i, k) /\ ident_ok (sname k) = true /\ ident_ok (nm_mod (smeta k)) = true.

(** [l] is a location of the schema: every step names an existing kid; a leaf or a list without key
    ends it; a key has one conforming value per key leaf *)
Fixpoint loc_ok (kids : list snode) (l : loc) : Prop :=
  match l with
  | [] => True
  | st :: tl =>
      match st with
      | SName i =>
          exists k, nth_error kids i = Some k /\ name_res kids i k /\
                    match k with SCont _ kids' => loc_ok kids' tl | _ => tl = [] end
      | SKey i key =>
          exists k, nth_error kids i = Some k /\ name_res kids i k /\
                    match k with
                    | SList _ _ row => key <> [] /\ Forall2 key_val_ok (key_types k) key /\ loc_ok (skids row) tl
                    | _ => False
                    end
      end
  end.

(** the parsed form of a location *)
Definition step_idx (st : step) : nat := match st with SName i => i | SKey i _ => i end.
Definition step_key (st : step) : option (list (option lval)) :=
  match st with SName _ => None | SKey _ key => Some (map Some key) end.
Fixpoint segs_of (kids : list snode) (l : loc) : list seg :=
  match l with
  | [] => []
  | st :: tl =>
      match nth_error kids (step_idx st) with
      | Some k => mkSeg (step_idx st) k (step_key st)
                  :: match scope_of_node k with Some kids' => segs_of kids' tl | None => [] end
      | None => []
      end
  end.

(** ** identifiers *)
Lemma ident_ok_parts s : ident_ok s = true ->
  exists c r, s = c :: r /\ Byte.eqb c dot = false /\ forallb unreserved s = true.
Proof.
  destruct s as [|c r]; simpl; [discriminate|]. intros H. apply andb_true_iff in H. destruct H as [H1 H2].
  exists c, r. apply negb_true_iff in H1. auto.
Qed.

Lemma ident_free s c : ident_ok s = true -> In c [slash; equals; comma; colon; qmark] -> free c s.
Proof.
  intros H Hin. destruct (ident_ok_parts s H) as [x [r [-> [_ Hu]]]].
  apply (forallb_free unreserved); [|exact Hu]. intros b Hb. apply unreserved_not; assumption.
Qed.

Lemma unreserved_not_pct b : unreserved b = true -> Byte.eqb pct b = false /\ Byte.eqb plus b = false.
Proof.
  intros Hu. pose proof (unreserved_plain b) as H. rewrite Hu in H. simpl in H. unfold plain_char in H.
  repeat (apply andb_true_iff in H; destruct H as [H ?]).
  split; rewrite beq_sym; apply negb_true_iff; assumption.
Qed.

Lemma ident_free_pct s : ident_ok s = true -> free pct s /\ free plus s.
Proof.
  intros H. destruct (ident_ok_parts s H) as [x [r [-> [_ Hu]]]].
  split; apply (forallb_free unreserved); try exact Hu; intros b Hb; apply unreserved_not_pct; exact Hb.
Qed.

(** the text of one step's name, qualified or not *)
Lemma step_name_facts q k : ident_ok (sname k) = true -> ident_ok (nm_mod (smeta k)) = true ->
  (exists c r, step_name q k = c :: r /\ Byte.eqb c dot = false)
  /\ free slash (step_name q k) /\ free equals (step_name q k) /\ free comma (step_name q k)
  /\ free qmark (step_name q k) /\ free pct (step_name q k) /\ free plus (step_name q k).
Proof.
  intros Hn Hm.
  assert (Hc : forall c, In c [slash; equals; comma; qmark] -> free c (step_name q k)).
  { intros c Hin. unfold step_name. destruct q.
    - apply free_app. split; [apply ident_free; [exact Hm|simpl in *; tauto]|].
      apply free_cons. split; [|apply ident_free; [exact Hn|simpl in *; tauto]].
      simpl in Hin. repeat (destruct Hin as [<-|Hin]; [reflexivity|]). contradiction.
    - apply ident_free; [exact Hn|simpl in *; tauto]. }
  split; [|repeat split; try (apply Hc; simpl; tauto)].
  - unfold step_name. destruct q.
    + destruct (ident_ok_parts _ Hm) as [c [r [E [Hd _]]]]. rewrite E. exists c, (r ++ colon :: sname k). split; [reflexivity|exact Hd].
    + destruct (ident_ok_parts _ Hn) as [c [r [E [Hd _]]]]. rewrite E. exists c, r. split; [reflexivity|exact Hd].
  - unfold step_name. destruct q; [|apply ident_free_pct, Hn].
    apply free_app. split; [apply ident_free_pct, Hm|]. apply free_cons. split; [reflexivity|apply ident_free_pct, Hn].
  - unfold step_name. destruct q; [|apply ident_free_pct, Hn].
    apply free_app. split; [apply ident_free_pct, Hm|]. apply free_cons. split; [reflexivity|apply ident_free_pct, Hn].
Qed.

(** ** meta.Find *)
Lemma mfind_plain is_mod pfx kids : forall s cur acc,
  free colon s -> mfind is_mod pfx kids cur acc s = lookup_name kids cur O.
Proof.
  induction s as [|c s IH]; intros cur acc H; [reflexivity|].
  apply free_cons in H. destruct H as [H1 H2]. simpl. rewrite beq_sym, H1. apply IH, H2.
Qed.

Lemma mfind_qual is_mod pfx kids name : forall q cur acc,
  free colon q -> rev acc ++ q <> [] ->
  mfind is_mod pfx kids cur acc (q ++ colon :: name) =
  if is_mod && negb (ident_eqb (rev acc ++ q) pfx) then None else mfind is_mod pfx kids name [] name.
Proof.
  induction q as [|c q IH]; intros cur acc Hf Hne.
  - rewrite app_nil_r in *. simpl. destruct acc as [|a acc]; [simpl in Hne; congruence|]. reflexivity.
  - apply free_cons in Hf. destruct Hf as [H1 H2]. simpl. rewrite beq_sym, H1.
    rewrite IH; [|exact H2|simpl; rewrite <- app_assoc; simpl; destruct (rev acc); discriminate].
    simpl. rewrite <- app_assoc. reflexivity.
Qed.

Lemma seg_lookup_ok is_mod pfx kids i k q :
  name_res kids i k -> seg_lookup is_mod pfx kids (step_name q k) = Some (i, k).
Proof.
  intros [Hl [Hn Hm]]. unfold seg_lookup, step_name. destruct q.
  - assert (Hfm : free colon (nm_mod (smeta k))) by (apply ident_free; [exact Hm|simpl; tauto]).
    assert (Hfn : free colon (sname k)) by (apply ident_free; [exact Hn|simpl; tauto]).
    assert (Hne : nm_mod (smeta k) <> []) by (destruct (ident_ok_parts _ Hm) as [c [r [E _]]]; rewrite E; discriminate).
    rewrite (mfind_qual is_mod pfx kids (sname k) (nm_mod (smeta k)) _ []) by (simpl; assumption).
    simpl rev. simpl app. rewrite (mfind_plain is_mod pfx kids (sname k) (sname k) []) by exact Hfn.
    destruct (is_mod && negb (ident_eqb (nm_mod (smeta k)) pfx)); [|rewrite Hl; reflexivity].
    unfold first_colon. rewrite cut_at_app by exact Hfm.
    destruct (nm_mod (smeta k)) as [|c r] eqn:E; [congruence|].
    rewrite (mfind_plain is_mod pfx kids (sname k) (sname k) []) by exact Hfn. rewrite Hl.
    unfold ident_eqb. rewrite E, bytes_eqb_refl. reflexivity.
  - rewrite (mfind_plain is_mod pfx kids (sname k) (sname k) []) by (apply ident_free; [exact Hn|simpl; tauto]).
    rewrite Hl. reflexivity.
Qed.

(** ** keys as text.
    Everything from here to [find_render_from] holds for ANY way [esc] of writing a key's text
    that url.QueryUnescape decodes back and that leaves no raw '/', ',' or '?' ([valid_enc]):
    the reference encoder, lower-case hex, over-encoding, '+' for a space, ... *)
Definition valid_enc (esc : list byte -> list byte) : Prop :=
  (forall t, unescape (esc t) = Some t) /\ (forall t c, In c [slash; comma; qmark] -> free c (esc t)).

Lemma escape_valid : valid_enc escape.
Proof. split; [exact pct_roundtrip|]. intros t c Hin. apply escape_free. simpl in *. tauto. Qed.

Lemma escape_all_valid : valid_enc escape_all.
Proof. split; [exact escape_all_roundtrip|]. intros t c Hin. apply escape_all_free. simpl in *. tauto. Qed.

Section Enc.
Variable esc : list byte -> list byte.
Hypothesis esc_valid : valid_enc esc.
Let esc_dec := proj1 esc_valid.
Let esc_free := proj2 esc_valid.

Lemma unescape_all_escape : forall texts, unescape_all (map esc texts) = Some texts.
Proof. induction texts as [|t ts IH]; simpl; [reflexivity|]. rewrite esc_dec, IH. reflexivity. Qed.

Lemma conv_keys_text : forall tys key,
  Forall2 key_val_ok tys key -> conv_keys tys (map key_text key) = Some (map Some key).
Proof.
  intros tys key H. induction H as [|ty v tys key Hv _ IH]; simpl; [reflexivity|].
  rewrite (conv_key_text ty v Hv), IH. reflexivity.
Qed.

Definition key_seg (key : list lval) : list byte := join comma (map (fun v => esc (key_text v)) key).

Lemma key_seg_split key : key <> [] ->
  unescape_all (split_on comma (key_seg key)) = Some (map key_text key).
Proof.
  intros Hne. unfold key_seg. rewrite <- (map_map key_text esc).
  rewrite split_join_plain.
  - apply unescape_all_escape.
  - destruct key; simpl; congruence.
  - apply Forall_forall. intros x Hx. apply in_map_iff in Hx. destruct Hx as [t [<- _]].
    apply esc_free. simpl. tauto.
Qed.

Lemma key_seg_free key c : In c [slash; qmark] -> free c (key_seg key).
Proof.
  intros Hin. unfold key_seg. induction key as [|v key IH]; [reflexivity|].
  assert (Hv : free c (esc (key_text v))) by (apply esc_free; simpl in *; tauto).
  destruct key as [|w key]; [exact Hv|].
  change (join comma (map (fun v => esc (key_text v)) (v :: w :: key)))
    with (esc (key_text v) ++ comma :: join comma (map (fun v => esc (key_text v)) (w :: key))).
  apply free_app. split; [exact Hv|]. apply free_cons. split; [|exact IH].
  simpl in Hin. repeat (destruct Hin as [<-|Hin]; [reflexivity|]). contradiction.
Qed.

(** ** parseUrlPath on a rendered location *)
Arguments parse_one : simpl never.

Lemma parse_one_name is_mod pfx kids i k q next :
  name_res kids i k ->
  parse_one is_mod pfx kids (step_name q k) next = pcons (mkSeg i k None) (next (scope_of_node k)).
Proof.
  intros Hr. destruct (Hr) as [_ [Hn Hm]].
  destruct (step_name_facts q k Hn Hm) as [_ [Hsl [Heq [_ [_ [Hp Hpl]]]]]].
  unfold parse_one. rewrite cut_at_free by exact Heq. rewrite unescape_plain by assumption.
  unfold free in Hsl. rewrite Hsl. rewrite (seg_lookup_ok is_mod pfx kids i k q Hr). reflexivity.
Qed.

Lemma parse_one_key is_mod pfx kids i m keys row q key next :
  let k := SList m keys row in
  name_res kids i k -> key <> [] -> Forall2 key_val_ok (key_types k) key ->
  parse_one is_mod pfx kids (step_name q k ++ equals :: key_seg key) next =
  pcons (mkSeg i k (Some (map Some key))) (next (scope_of_node k)).
Proof.
  intros k Hr Hne Hkeys. destruct (Hr) as [_ [Hn Hm]].
  destruct (step_name_facts q k Hn Hm) as [_ [Hsl [Heq [_ [_ [Hp Hpl]]]]]].
  unfold parse_one. rewrite cut_at_app by exact Heq. rewrite unescape_plain by assumption.
  rewrite key_seg_split by exact Hne. simpl option_map.
  unfold free in Hsl. rewrite Hsl. rewrite (seg_lookup_ok is_mod pfx kids i k q Hr).
  assert (Hlen : length (key_types k) = length key).
  { clear - Hkeys. induction Hkeys as [|a b la lb _ _ IH]; [reflexivity|]. simpl. now rewrite IH. }
  assert (Hlt : Nat.ltb (length (map key_text key)) (length (key_types k)) = false)
    by (rewrite map_length, Hlen; apply Nat.ltb_irrefl).
  rewrite Hlt.
  unfold k at 1. rewrite (conv_keys_text _ _ Hkeys). reflexivity.
Qed.

Lemma parse_segs_cons is_mod pfx kids c sg tl :
  parse_segs is_mod pfx (Some kids) ((c :: sg) :: tl) =
  parse_one is_mod pfx kids (c :: sg) (fun sc => parse_segs false pfx sc tl).
Proof. reflexivity. Qed.

Lemma parse_segs_end is_mod pfx scope rest :
  rest = [] \/ (exists r, rest = [] :: r) -> parse_segs is_mod pfx scope rest = POk [].
Proof. intros [->|[r ->]]; reflexivity. Qed.

Lemma parse_render pfx : forall l kids quals is_mod rest,
  loc_ok kids l -> rest = [] \/ (exists r, rest = [] :: r) ->
  parse_segs is_mod pfx (Some kids) (render_segs esc quals kids l ++ rest) = POk (segs_of kids l).
Proof.
  induction l as [|st tl IH]; intros kids quals is_mod rest Hok Hrest.
  - simpl. apply parse_segs_end, Hrest.
  - simpl render_segs. destruct (next_qual quals) as [q quals'].
    destruct st as [i|i key]; simpl in Hok; destruct Hok as [k [Hnth [Hr Hk]]]; simpl segs_of; rewrite Hnth.
    + destruct (Hr) as [_ [Hn Hm]].
      destruct (step_name_facts q k Hn Hm) as [[c [r [E _]]] _].
      rewrite <- app_comm_cons. rewrite E. rewrite parse_segs_cons. rewrite <- E.
      rewrite (parse_one_name _ _ _ i k q _ Hr). cbv beta.
      destruct k as [m ty il d|m kids'|m keys row]; simpl scope_of_node; cbv iota beta.
      * subst tl. simpl. rewrite parse_segs_end by exact Hrest. reflexivity.
      * rewrite IH by assumption. reflexivity.
      * subst tl. simpl. rewrite parse_segs_end by exact Hrest. reflexivity.
    + destruct k as [m ty il d|m kids'|m keys row]; try contradiction.
      destruct Hk as [Hne [Hkeys Htl]].
      destruct (Hr) as [_ [Hn Hm]].
      destruct (step_name_facts q (SList m keys row) Hn Hm) as [[c [r [E _]]] _].
      rewrite <- app_comm_cons.
      change (join comma (map (fun v => esc (key_text v)) key)) with (key_seg key).
      rewrite E. rewrite <- app_comm_cons. rewrite parse_segs_cons. rewrite app_comm_cons. rewrite <- E.
      rewrite (parse_one_key _ _ _ i m keys row q key _ Hr Hne Hkeys). cbv beta.
      simpl scope_of_node; cbv iota beta. rewrite IH by assumption. reflexivity.
Qed.

(** ** findSlice on the parsed location *)
Lemma all_some_map_some {A} (l : list A) : all_some (map Some l) = Some l.
Proof. induction l as [|a l IH]; simpl; [reflexivity|]. rewrite IH. reflexivity. Qed.

Lemma walk_resolve : forall l kids data,
  loc_ok kids l ->
  walk (AtCont kids data) (segs_of kids l) =
  WOk (match resolve (AtCont kids data) l with Some _ => Some l | None => None end).
Proof.
  induction l as [|st tl IH]; intros kids data Hok; [reflexivity|].
  destruct st as [i|i key]; simpl in Hok; destruct Hok as [k [Hnth [Hr Hk]]];
    simpl segs_of; simpl step_idx; rewrite Hnth; simpl resolve; unfold step_into; rewrite Hnth.
  - destruct k as [m ty il d|m kids'|m keys row]; simpl scope_of_node; cbv iota beta.
    + subst tl. reflexivity.
    + simpl walk. destruct (nth i data None) as [[v|c|rows]|]; try reflexivity.
      rewrite IH by exact Hk. destruct (resolve (AtCont kids' c) tl); reflexivity.
    + subst tl. simpl walk. destruct (nth i data None) as [[v|c|rows]|]; reflexivity.
  - destruct k as [m ty il d|m kids'|m keys row]; try contradiction.
    destruct Hk as [Hne [Hkeys Htl]].
    simpl walk. destruct (nth i data None) as [[v|c|rows]|]; try reflexivity.
    unfold key_dnodes. rewrite map_map.
    replace (map (fun x => option_map DLeaf (Some x)) key) with (map (fun v => Some (DLeaf v)) key) by reflexivity.
    destruct (row_at (SList m keys row) rows (map (fun v => Some (DLeaf v)) key)) as [c|]; [|reflexivity].
    rewrite all_some_map_some. simpl skids. rewrite IH by exact Htl.
    destruct (resolve (AtCont (skids row) c) tl); reflexivity.
Qed.

(** ** the "../" steps *)
Fixpoint chain_len (l : list step) : nat :=
  match l with [] => O | SName _ :: tl => S (chain_len tl) | SKey _ _ :: tl => S (S (chain_len tl)) end.

Fixpoint ups (n : nat) : list byte := match n with O => [] | S n' => dot :: dot :: slash :: ups n' end.

(** a path that does not begin with '.' *)
Definition nodot (p : list byte) : Prop := match p with [] => True | c :: _ => Byte.eqb c dot = false end.

Lemma strip_up_nodot rl p : nodot p -> strip_up rl p = Some (rl, p).
Proof.
  intros H. destruct rl; destruct p as [|c1 [|c2 [|c3 p']]]; try reflexivity; simpl in H; simpl; rewrite H; reflexivity.
Qed.

Lemma strip_up_ups : forall e rb p, nodot p -> strip_up (e ++ rb) (ups (chain_len e) ++ p) = Some (rb, p).
Proof.
  induction e as [|st e IH]; intros rb p Hp.
  - simpl. apply strip_up_nodot, Hp.
  - destruct st as [i|i key].
    + simpl. apply IH, Hp.
    + simpl. apply IH, Hp.
Qed.

(** ** Find on a rendered location *)
Lemma resolve_app : forall a b cur,
  resolve cur (a ++ b) = match resolve cur a with Some c => resolve c b | None => None end.
Proof.
  induction a as [|st a IH]; intros b cur; [reflexivity|]. simpl.
  destruct (step_into cur st); [apply IH|reflexivity].
Qed.

Lemma render_segs_props : forall l kids quals,
  loc_ok kids l ->
  Forall (fun s => free slash s /\ free qmark s) (render_segs esc quals kids l)
  /\ (l <> [] -> exists c r tl, render_segs esc quals kids l = (c :: r) :: tl /\ Byte.eqb c dot = false).
Proof.
  induction l as [|st tl IH]; intros kids quals Hok.
  - split; [constructor|congruence].
  - simpl render_segs. destruct (next_qual quals) as [q quals'].
    destruct st as [i|i key]; simpl in Hok; destruct Hok as [k [Hnth [Hr Hk]]]; rewrite Hnth;
      destruct (Hr) as [_ [Hn Hm]];
      destruct (step_name_facts q k Hn Hm) as [[c [r [E Hd]]] [Hsl [_ [_ [Hq _]]]]].
    + split.
      * constructor; [split; assumption|].
        destruct k as [m ty il d|m kids'|m keys row]; simpl scope_of_node; cbv iota beta.
        -- constructor.
        -- apply IH, Hk.
        -- subst tl. constructor.
      * intros _. rewrite E. eexists _, _, _. split; [reflexivity|exact Hd].
    + destruct k as [m ty il d|m kids'|m keys row]; try contradiction. destruct Hk as [Hne [Hkeys Htl]].
      change (join comma (map (fun v => esc (key_text v)) key)) with (key_seg key).
      split.
      * constructor.
        -- split; apply free_app; (split; [assumption|]); apply free_cons; (split; [reflexivity|]);
             apply key_seg_free; simpl; tauto.
        -- simpl scope_of_node; cbv iota beta. apply IH, Htl.
      * intros _. rewrite E. rewrite <- app_comm_cons. eexists _, _, _. split; [reflexivity|exact Hd].
Qed.

Lemma join_free sep c : forall segs, Byte.eqb c sep = false -> Forall (free c) segs -> free c (join sep segs).
Proof.
  induction segs as [|a segs IH]; intros Hc Hall; [reflexivity|].
  inversion Hall as [|? ? Ha Hs]; subst. destruct segs as [|b segs]; [exact Ha|].
  change (join sep (a :: b :: segs)) with (a ++ sep :: join sep (b :: segs)).
  apply free_app. split; [exact Ha|]. apply free_cons. split; [exact Hc|apply IH; assumption].
Qed.

(** the heart of C08: from the selection at [base] (a container, a list entry or the root), after
    the "../" steps that lead there from [base ++ ext], the rendered path of a schema location [l]
    below [base] - any segments module-qualified, trailing slash or not - is found exactly when it is
    present, at exactly that location *)
Theorem find_render_from : forall pfx kids data base ext bk bd l quals trailing,
  resolve (AtCont kids data) base = Some (AtCont bk bd) ->
  loc_ok bk l ->
  find pfx kids data (base ++ ext) (ups (chain_len (rev ext)) ++ render_with esc quals trailing bk l) =
  FOk (match resolve (AtCont bk bd) l with Some _ => Some (base ++ l) | None => None end).
Proof.
  intros pfx kids data base ext bk bd l quals trailing Hbase Hok.
  destruct (render_segs_props l bk quals Hok) as [Hfree Hfirst].
  assert (Hsl : Forall (free slash) (render_segs esc quals bk l)).
  { eapply Forall_impl; [|exact Hfree]. intros s [H _]. exact H. }
  assert (Hqm : Forall (free qmark) (render_segs esc quals bk l)).
  { eapply Forall_impl; [|exact Hfree]. intros s [_ H]. exact H. }
  assert (Hnodot : nodot (render_with esc quals trailing bk l)).
  { unfold render_with. destruct l as [|st tl].
    - simpl. destruct trailing; simpl; [reflexivity|exact I].
    - destruct (Hfirst ltac:(congruence)) as [c [r [tl' [E Hd]]]]. rewrite E.
      destruct tl'; simpl; exact Hd. }
  assert (Hnoq : free qmark (render_with esc quals trailing bk l)).
  { unfold render_with. apply free_app. split; [apply join_free; [reflexivity|exact Hqm]|].
    destruct trailing; reflexivity. }
  unfold find. rewrite rev_app_distr. rewrite strip_up_ups by exact Hnodot. rewrite rev_involutive.
  unfold find_from. rewrite cut_at_free by exact Hnoq. simpl fst. rewrite Hbase.
  simpl scope_of.
  assert (Hsplit : exists rest, (rest = [] \/ exists r, rest = [] :: r) /\
             split_on slash (render_with esc quals trailing bk l) = render_segs esc quals bk l ++ rest).
  { unfold render_with. destruct (render_segs esc quals bk l) as [|s0 ss] eqn:E.
    - simpl. destruct trailing; simpl.
      + exists [[]; []]. split; [right; eexists; reflexivity|reflexivity].
      + exists [[]]. split; [right; eexists; reflexivity|reflexivity].
    - destruct trailing.
      + rewrite split_join_trailing by (congruence || exact Hsl). exists [[]]. split; [right; eexists; reflexivity|reflexivity].
      + rewrite app_nil_r, split_join_plain by (congruence || exact Hsl). exists []. split; [left; reflexivity|rewrite app_nil_r; reflexivity]. }
  destruct Hsplit as [rest [Hrest ->]].
  rewrite (parse_render pfx l bk quals (is_root base) rest Hok Hrest).
  rewrite (walk_resolve l bk bd Hok).
  destruct (resolve (AtCont bk bd) l); reflexivity.
Qed.

End Enc.
