(** C18 support: key equality ([key_eqb], i.e. val.Equal position by position) is symmetric and
    transitive on ALL values, well-formed or not, so no well-formedness hypothesis on key leaves is
    needed by the uniqueness theorems.  (Reflexivity needs every key position to hold a leaf.) *)
From Coq Require Import ZArith List Bool Lia Strings.Byte.
From YV Require Import Base.Wrap Val.Model Val.Proofs Tree.Schema Tree.Editor.
Import ListNotations.
Open Scope Z_scope.

(** what val.Equal decides: the denotations agree; for enums (whose Compare is a 64-bit
    subtraction) the ids agree modulo 2^64 *)
Definition veq (x y : value) : Prop :=
  match x, y with
  | VEnum a _, VEnum b _ => (a - b) mod 2 ^ 64 = 0
  | _, _ => same_denotation x y
  end.

Lemma wraps64_zero z : wraps 64 z = 0 <-> z mod 2 ^ 64 = 0.
Proof.
  unfold wraps. change (64 - 1) with 63.
  pose proof (Z.mod_pos_bound z (2 ^ 64) ltac:(reflexivity)) as Hb.
  change (2 ^ 64) with 18446744073709551616 in *. change (2 ^ 63) with 9223372036854775808.
  destruct (Z.ltb_spec (z mod 18446744073709551616) 9223372036854775808); lia.
Qed.

Lemma value_eqb_veq x y : value_eqb x y = true <-> veq x y.
Proof.
  unfold value_eqb, equal_impl.
  destruct x as [f a|m1 e1|a|a|a|a la|a], y as [g b|m2 e2|b|b|b|b lb|b]; cbn [format_of cmp_impl veq same_denotation];
    try (destruct f; cbn; (split; [discriminate|tauto]));
    try (destruct g; cbn; (split; [discriminate|tauto]));
    try (cbn; split; [discriminate|tauto]).
  - destruct (fmt_eqb f g) eqn:E.
    + apply fmt_eqb_eq in E. subst g. rewrite Z.eqb_eq, cmp3_eq. tauto.
    + split; [discriminate|]. intros [-> _]. rewrite fmt_eqb_refl in E. discriminate.
  - cbn. unfold dec_cmp. rewrite Z.eqb_eq, cmp3_eq. tauto.
  - cbn. rewrite Z.eqb_eq. apply lex_cmp_eq.
  - cbn. rewrite Z.eqb_eq. apply lex_cmp_eq.
  - cbn. destruct a, b; cbn; split; intros; congruence.
  - cbn. rewrite Z.eqb_eq. apply wraps64_zero.
  - cbn. rewrite Z.eqb_eq. apply lex_cmp_eq.
Qed.

Lemma veq_sym x y : veq x y -> veq y x.
Proof.
  destruct x, y; cbn [veq]; try (apply same_denotation_sym).
  intros H. apply Z.mod_divide in H; [|discriminate]. apply Z.mod_divide; [discriminate|].
  replace (id0 - id) with (- (id - id0)) by lia. apply Z.divide_opp_r. assumption.
Qed.

Lemma veq_trans x y z : veq x y -> veq y z -> veq x z.
Proof.
  destruct x, y; cbn [veq same_denotation]; try tauto; destruct z; cbn [veq same_denotation]; try tauto.
  - intros [-> ->] [-> ->]. auto.
  - exact (same_denotation_trans (VDec m e) (VDec m0 e0) (VDec m1 e1)).
  - congruence.
  - congruence.
  - congruence.
  - intros A B. apply Z.mod_divide in A, B; try discriminate. apply Z.mod_divide; [discriminate|].
    replace (id - id1) with ((id - id0) + (id0 - id1)) by lia. apply Z.divide_add_r; assumption.
  - congruence.
Qed.

Lemma veq_refl x : veq x x.
Proof. destruct x; cbn; auto. rewrite Z.sub_diag. reflexivity. Qed.

Lemma value_eqb_refl x : value_eqb x x = true.
Proof. apply value_eqb_veq, veq_refl. Qed.
Lemma value_eqb_sym x y : value_eqb x y = true -> value_eqb y x = true.
Proof. rewrite !value_eqb_veq. apply veq_sym. Qed.
Lemma value_eqb_trans x y z : value_eqb x y = true -> value_eqb y z = true -> value_eqb x z = true.
Proof. rewrite !value_eqb_veq. apply veq_trans. Qed.

(** * leaf values *)
Section LvalInd.
  Variable P : lval -> Prop.
  Hypothesis HV : forall v, P (LV v).
  Hypothesis HE : P LEmpty.
  Hypothesis HB : forall n, P (LBits n).
  Hypothesis HL : forall items, Forall P items -> P (LList items).
  Fixpoint lval_rect' (v : lval) : P v :=
    match v with
    | LV x => HV x
    | LEmpty => HE
    | LBits n => HB n
    | LList items =>
        HL items ((fix go (l : list lval) : Forall P l :=
                     match l with
                     | [] => Forall_nil P
                     | i :: l' => Forall_cons i (lval_rect' i) (go l')
                     end) items)
    end.
End LvalInd.

Definition leqb {A} (e : A -> A -> bool) : list A -> list A -> bool :=
  fix go (p q : list A) : bool :=
    match p, q with
    | [], [] => true
    | i :: p', j :: q' => e i j && go p' q'
    | _, _ => false
    end.

Lemma lval_eqb_bits' x y : lval_eqb (LBits x) (LBits y) = leqb ident_eqb x y.
Proof. reflexivity. Qed.
Lemma lval_eqb_list' x y : lval_eqb (LList x) (LList y) = leqb lval_eqb x y.
Proof. reflexivity. Qed.

Lemma ident_eqb_iff a b : ident_eqb a b = true <-> a = b.
Proof. unfold ident_eqb, bytes_eqb. rewrite Z.eqb_eq. apply lex_cmp_eq. Qed.

Lemma leqb_ident_iff x : forall y, leqb ident_eqb x y = true <-> x = y.
Proof.
  induction x as [|a x IH]; intros [|b y]; simpl; split; intros H; try discriminate; auto.
  - apply andb_true_iff in H as [A B]. apply ident_eqb_iff in A. apply IH in B. congruence.
  - inversion H; subst. apply andb_true_iff; split; [apply ident_eqb_iff|apply IH]; reflexivity.
Qed.

Lemma lval_eqb_refl a : lval_eqb a a = true.
Proof.
  induction a as [x| |n|items IH] using lval_rect'.
  - apply value_eqb_refl.
  - reflexivity.
  - rewrite lval_eqb_bits'. apply leqb_ident_iff. reflexivity.
  - rewrite lval_eqb_list'. induction IH as [|i items Hi _ IHl]; simpl; [reflexivity|].
    rewrite Hi. exact IHl.
Qed.

Lemma lval_eqb_sym a : forall b, lval_eqb a b = true -> lval_eqb b a = true.
Proof.
  induction a as [x| |n|items IH] using lval_rect'; intros b Hab.
  - destruct b as [y| | |]; try discriminate Hab. apply value_eqb_sym. exact Hab.
  - destruct b; try discriminate Hab. reflexivity.
  - destruct b as [| |y|]; try discriminate Hab.
    rewrite lval_eqb_bits' in *. apply leqb_ident_iff in Hab. subst. apply leqb_ident_iff. reflexivity.
  - destruct b as [| | |y]; try discriminate Hab. rewrite lval_eqb_list' in *.
    revert y Hab. induction IH as [|i items Hi _ IHl]; intros [|j y] Hab; simpl in *; try discriminate; auto.
    apply andb_true_iff in Hab as [E1 E2]. apply andb_true_iff; split; [apply Hi; assumption|apply IHl; assumption].
Qed.

Lemma lval_eqb_trans a : forall b c, lval_eqb a b = true -> lval_eqb b c = true -> lval_eqb a c = true.
Proof.
  induction a as [x| |n|items IH] using lval_rect'; intros b c Hab Hbc.
  - destruct b as [y| | |]; try discriminate Hab. destruct c as [z| | |]; try discriminate Hbc.
    exact (value_eqb_trans x y z Hab Hbc).
  - destruct b; try discriminate Hab. destruct c; try discriminate Hbc. reflexivity.
  - destruct b as [| |y|]; try discriminate Hab. destruct c as [| |z|]; try discriminate Hbc.
    rewrite lval_eqb_bits' in *. apply leqb_ident_iff in Hab, Hbc. subst. apply leqb_ident_iff. reflexivity.
  - destruct b as [| | |y]; try discriminate Hab. destruct c as [| | |z]; try discriminate Hbc.
    rewrite lval_eqb_list' in *.
    revert y z Hab Hbc. induction IH as [|i items Hi _ IHl]; intros [|j y] [|k z] Hab Hbc;
      simpl in *; try discriminate; auto.
    apply andb_true_iff in Hab as [E1 E2]. apply andb_true_iff in Hbc as [F1 F2].
    apply andb_true_iff; split; [eapply Hi; eauto|eapply IHl; eauto].
Qed.

(** * keys *)
Lemma okey_eqb_sym a b : okey_eqb a b = true -> okey_eqb b a = true.
Proof. destruct a as [[x| |]|], b as [[y| |]|]; simpl; try discriminate. apply lval_eqb_sym. Qed.

Lemma okey_eqb_trans a b c : okey_eqb a b = true -> okey_eqb b c = true -> okey_eqb a c = true.
Proof.
  destruct a as [[x| |]|], b as [[y| |]|], c as [[z| |]|]; simpl; try discriminate. apply lval_eqb_trans.
Qed.

Lemma key_eqb_sym a : forall b, key_eqb a b = true -> key_eqb b a = true.
Proof.
  induction a as [|x a IH]; intros [|y b] H; simpl in *; try discriminate; auto.
  apply andb_true_iff in H as [E1 E2]. apply andb_true_iff; split; [apply okey_eqb_sym|apply IH]; assumption.
Qed.

Lemma key_eqb_trans a : forall b c, key_eqb a b = true -> key_eqb b c = true -> key_eqb a c = true.
Proof.
  induction a as [|x a IH]; intros [|y b] [|z c] Hab Hbc; simpl in *; try discriminate; auto.
  apply andb_true_iff in Hab as [E1 E2]. apply andb_true_iff in Hbc as [F1 F2].
  apply andb_true_iff; split; [eapply okey_eqb_trans; eauto|eapply IH; eauto].
Qed.

Lemma key_eqb_comm a b : key_eqb a b = key_eqb b a.
Proof.
  destruct (key_eqb a b) eqn:E.
  - symmetry. apply key_eqb_sym. assumption.
  - destruct (key_eqb b a) eqn:E'; [|reflexivity]. apply key_eqb_sym in E'. congruence.
Qed.

(** keys that compare equal have the same length and every position set: one is usable iff the other is *)
Lemma key_eqb_usable a : forall b, key_eqb a b = true -> key_usable a = key_usable b.
Proof.
  unfold key_usable. induction a as [|x a IH]; intros [|y b] H; simpl in *; try discriminate; auto.
  apply andb_true_iff in H as [E1 E2].
  destruct x as [[?| |]|], y as [[?| |]|]; simpl in E1; try discriminate. simpl.
  specialize (IH b E2). destruct a, b; simpl in *; try discriminate; auto.
Qed.

(** a key made of leaves only equals itself *)
Definition is_leaf_val (o : option dnode) : bool := match o with Some (DLeaf _) => true | _ => false end.
Lemma key_eqb_refl a : forallb is_leaf_val a = true -> key_eqb a a = true.
Proof.
  induction a as [|x a IH]; simpl; intros H; [reflexivity|].
  apply andb_true_iff in H as [H1 H2]. destruct x as [[v| |]|]; try discriminate. simpl.
  rewrite lval_eqb_refl. auto.
Qed.
