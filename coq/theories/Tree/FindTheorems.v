(** The C08 theorems in the form Props/C08.v states them (corollaries of Tree/FindProofs.v), the
    refutations of the behaviour at the pinned commit, and witnesses that the hypotheses are met. *)
From Coq Require Import ZArith List Bool Strings.Byte Lia.
From YV Require Import Val.Model Val.Proofs Tree.Schema Tree.Editor Tree.Pct Tree.PctProofs
     Tree.KeyText Tree.KeyTextProofs Tree.Find Tree.FindText Tree.FindProofs.
Import ListNotations.

Arguments parse_one : simpl never.

Section Enc.
Variable esc : list byte -> list byte.
Hypothesis esc_valid : valid_enc esc.

(** from the module root *)
Theorem find_render_enc : forall pfx kids data l quals trailing cur,
  loc_ok kids l -> resolve (AtCont kids data) l = Some cur ->
  find pfx kids data [] (render_with esc quals trailing kids l) = FOk (Some l).
Proof.
  intros pfx kids data l quals trailing cur Hok Hres.
  pose proof (find_render_from esc esc_valid pfx kids data [] [] kids data l quals trailing eq_refl Hok) as H.
  simpl in H. rewrite Hres in H. exact H.
Qed.

Theorem find_absent_none_enc : forall pfx kids data l quals trailing,
  loc_ok kids l -> resolve (AtCont kids data) l = None ->
  find pfx kids data [] (render_with esc quals trailing kids l) = FOk None.
Proof.
  intros pfx kids data l quals trailing Hok Hres.
  pose proof (find_render_from esc esc_valid pfx kids data [] [] kids data l quals trailing eq_refl Hok) as H.
  simpl in H. rewrite Hres in H. exact H.
Qed.

(** ** a name that is not in the schema *)
Fixpoint scope_after (kids : list snode) (l : loc) : option (list snode) :=
  match l with
  | [] => Some kids
  | st :: tl =>
      match nth_error kids (step_idx st) with
      | Some k => match scope_of_node k with Some kids' => scope_after kids' tl | None => None end
      | None => None
      end
  end.

Lemma parse_one_unknown is_mod pfx kids name next :
  ident_ok name = true -> lookup_name kids name O = None ->
  parse_one is_mod pfx kids name next = PErr FNotFound.
Proof.
  intros Hn Hl.
  assert (Hf : forall c, In c [slash; equals; comma; colon; qmark] -> free c name) by (intros; apply ident_free; assumption).
  destruct (ident_free_pct name Hn) as [Hp Hpl].
  unfold parse_one. rewrite cut_at_free by (apply Hf; simpl; tauto). rewrite unescape_plain by assumption.
  pose proof (Hf slash ltac:(simpl; tauto)) as Hs. unfold free in Hs. rewrite Hs.
  unfold seg_lookup. rewrite mfind_plain by (apply Hf; simpl; tauto). rewrite Hl.
  unfold first_colon. rewrite cut_at_free by (apply Hf; simpl; tauto). destruct name; reflexivity.
Qed.

Lemma parse_unknown pfx name more : ident_ok name = true ->
  forall pre kids quals is_mod sk,
  loc_ok kids pre -> scope_after kids pre = Some sk -> lookup_name sk name O = None ->
  parse_segs is_mod pfx (Some kids) (render_segs esc quals kids pre ++ name :: more) = PErr FNotFound.
Proof.
  intros Hn. induction pre as [|st tl IH]; intros kids quals is_mod sk Hok Hsc Hl.
  - simpl in Hsc. inversion Hsc; subst sk. simpl app.
    destruct (ident_ok_parts name Hn) as [c [r [E _]]]. rewrite E. rewrite parse_segs_cons. rewrite <- E.
    apply parse_one_unknown; assumption.
  - simpl render_segs. destruct (next_qual quals) as [q quals'].
    simpl in Hsc.
    destruct st as [i|i key]; simpl in Hok; destruct Hok as [k [Hnth [Hr Hk]]]; simpl step_idx in Hsc; rewrite Hnth in *.
    + destruct (Hr) as [_ [Hnk Hm]].
      destruct (step_name_facts q k Hnk Hm) as [[c [r [E _]]] _].
      rewrite <- app_comm_cons. rewrite E. rewrite parse_segs_cons. rewrite <- E.
      rewrite (parse_one_name _ _ _ i k q _ Hr). cbv beta.
      destruct k as [m ty il d|m kids'|m keys row]; simpl scope_of_node in *; cbv iota beta in *.
      * discriminate.
      * rewrite (IH kids' quals' false sk) by assumption. reflexivity.
      * subst tl. simpl in Hsc. inversion Hsc; subst sk. simpl app.
        destruct (ident_ok_parts name Hn) as [c' [r' [E' _]]]. rewrite E'. rewrite parse_segs_cons. rewrite <- E'.
        rewrite parse_one_unknown by assumption. reflexivity.
    + destruct k as [m ty il d|m kids'|m keys row]; try contradiction.
      destruct Hk as [Hne [Hkeys Htl]].
      destruct (Hr) as [_ [Hnk Hm]].
      destruct (step_name_facts q (SList m keys row) Hnk Hm) as [[c [r [E _]]] _].
      rewrite <- app_comm_cons.
      change (join comma (map (fun v => esc (key_text v)) key)) with (key_seg esc key).
      rewrite E. rewrite <- app_comm_cons. rewrite parse_segs_cons. rewrite app_comm_cons. rewrite <- E.
      rewrite (parse_one_key esc esc_valid _ _ _ i m keys row q key _ Hr Hne Hkeys). cbv beta.
      simpl scope_of_node in *; cbv iota beta in *.
      rewrite (IH (skids row) quals' false sk) by assumption. reflexivity.
Qed.

(** a path whose first unknown segment is [name] - after any schema-valid prefix (whether or not
    that prefix exists in the data) and before anything - is answered with the not-found error *)
Theorem find_unknown_notfound_enc : forall pfx kids data pre quals name more sk,
  loc_ok kids pre -> scope_after kids pre = Some sk ->
  ident_ok name = true -> lookup_name sk name O = None ->
  Forall (fun s => free slash s /\ free qmark s) more ->
  find pfx kids data [] (join slash (render_segs esc quals kids pre ++ name :: more)) = FErr FNotFound.
Proof.
  intros pfx kids data pre quals name more sk Hok Hsc Hn Hl Hmore.
  destruct (render_segs_props esc esc_valid pre kids quals Hok) as [Hfree Hfirst].
  assert (Hname : free slash name /\ free qmark name) by (split; apply ident_free; simpl; tauto).
  assert (Hall : Forall (fun s => free slash s /\ free qmark s) (render_segs esc quals kids pre ++ name :: more)).
  { apply Forall_app. split; [exact Hfree|]. constructor; assumption. }
  assert (Hsl : Forall (free slash) (render_segs esc quals kids pre ++ name :: more)).
  { eapply Forall_impl; [|exact Hall]. intros s [H _]. exact H. }
  assert (Hqm : Forall (free qmark) (render_segs esc quals kids pre ++ name :: more)).
  { eapply Forall_impl; [|exact Hall]. intros s [_ H]. exact H. }
  assert (Hne : render_segs esc quals kids pre ++ name :: more <> []) by (destruct (render_segs esc quals kids pre); discriminate).
  assert (Hnodot : nodot (join slash (render_segs esc quals kids pre ++ name :: more))).
  { destruct pre as [|st tl].
    - simpl. destruct (ident_ok_parts name Hn) as [c [r [E [Hd _]]]]. rewrite E. destruct more; simpl; exact Hd.
    - destruct (Hfirst ltac:(congruence)) as [c [r [tl' [E Hd]]]]. rewrite E.
      simpl app. destruct (tl' ++ name :: more) eqn:E2; [destruct tl'; discriminate|]. simpl. exact Hd. }
  unfold find. simpl rev. rewrite strip_up_nodot by exact Hnodot. simpl rev.
  unfold find_from. rewrite cut_at_free by (apply join_free; [reflexivity|exact Hqm]). simpl fst.
  simpl resolve. simpl scope_of. rewrite split_join_plain by assumption.
  rewrite (parse_unknown pfx name more Hn pre kids quals _ sk Hok Hsc Hl). reflexivity.
Qed.

End Enc.

(** with the reference encoder *)
Theorem find_render : forall pfx kids data l quals trailing cur,
  loc_ok kids l -> resolve (AtCont kids data) l = Some cur ->
  find pfx kids data [] (render quals trailing kids l) = FOk (Some l).
Proof. exact (find_render_enc escape escape_valid). Qed.

Theorem find_absent_none : forall pfx kids data l quals trailing,
  loc_ok kids l -> resolve (AtCont kids data) l = None ->
  find pfx kids data [] (render quals trailing kids l) = FOk None.
Proof. exact (find_absent_none_enc escape escape_valid). Qed.

(** Path.StringNoModule() of the selection found at [l] leads Find from the root back to [l] *)
Theorem path_string_identifies : forall pfx kids data l cur,
  loc_ok kids l -> resolve (AtCont kids data) l = Some cur ->
  find pfx kids data [] (path_string_nomod kids l) = FOk (Some l).
Proof.
  intros pfx kids data l cur Hok Hres.
  pose proof (find_render pfx kids data l [] false cur Hok Hres) as H.
  unfold render, render_with in H. rewrite app_nil_r in H. exact H.
Qed.


(** ** navigation only reads.
    findSlice builds its requests as ChildRequest{Request{Selection, Target}, Meta} and
    ListRequest{Request{Selection, Target}, First, Meta, Key}: New and Delete keep their zero value.
    [walk_reqs] lists the requests of a walk with exactly those fields; the reference store
    (harness/tree/store.go) changes data only on New or Delete (Tree/Editor.v header). *)
Inductive req :=
| RChild (i : nat) (new del : bool)
| RNext (key : list (option lval)) (new del : bool).

Definition req_reads (r : req) : bool :=
  match r with RChild _ n d => negb n && negb d | RNext _ n d => negb n && negb d end.

Fixpoint walk_reqs (cur : cursor) (segs : list seg) : list req :=
  match segs with
  | [] => []
  | sg :: tl =>
      let i := sg_idx sg in
      match sg_node sg with
      | SLeaf _ _ _ _ => []
      | SCont _ kids' =>
          RChild i false false ::
          match cur with
          | AtCont _ data => match nth i data None with Some (DCont c) => walk_reqs (AtCont kids' c) tl | _ => [] end
          | _ => []
          end
      | SList _ _ row as lst =>
          RChild i false false ::
          match cur with
          | AtCont _ data =>
              match nth i data None, sg_key sg with
              | Some (DList rows), Some key =>
                  RNext key false false ::
                  match row_at lst rows (map (option_map DLeaf) key) with
                  | Some c => walk_reqs (AtCont (skids row) c) tl
                  | None => []
                  end
              | _, _ => []
              end
          | _ => []
          end
      end
  end.

Theorem find_pure : forall segs cur, forallb req_reads (walk_reqs cur segs) = true.
Proof.
  induction segs as [|sg tl IH]; intros cur; [reflexivity|].
  simpl. destruct (sg_node sg) as [m ty il d|m kids'|m keys row]; [reflexivity| |].
  - simpl. destruct cur as [kids data|lst rows|s v]; try reflexivity.
    destruct (nth (sg_idx sg) data None) as [[v|c|rows]|]; try reflexivity. apply IH.
  - simpl. destruct cur as [kids data|lst rows|s v]; try reflexivity.
    destruct (nth (sg_idx sg) data None) as [[v|c|rows]|]; try reflexivity.
    destruct (sg_key sg) as [key|]; [|reflexivity]. simpl.
    destruct (row_at (SList m keys row) rows (map (option_map DLeaf) key)); [apply IH|reflexivity].
Qed.

(** ** witnesses *)
Definition mk (name : list byte) : nmeta := mkMeta name [x6d] true [] None.
Definition n_c : list byte := [x63].          (* c *)
Definition n_q : list byte := [x71].          (* q *)
Definition n_k : list byte := [x6b].          (* k *)
Definition n_n : list byte := [x6e].          (* n *)
Definition n_v : list byte := [x76].          (* v *)

(** container c { list q { key "k n"; leaf k {string} leaf n {int32} leaf v {string} } } *)
Definition ex_row : snode :=
  SCont (mk n_q) [SLeaf (mk n_k) TStr false None; SLeaf (mk n_n) (TInt FInt32) false None; SLeaf (mk n_v) TStr false None].
Definition ex_kids : list snode := [SCont (mk n_c) [SList (mk n_q) [0; 1]%nat ex_row]].

Definition ex_key : list lval := [LV (VStr [x61; x2f; x62; x2c; x63; x20; x25]); LV (VInt FInt32 (-5))].  (* "a/b,c %", -5 *)
Definition ex_data : content :=
  [Some (DCont [Some (DList [DCont [Some (DLeaf (LV (VStr [x61; x2f; x62; x2c; x63; x20; x25])));
                                    Some (DLeaf (LV (VInt FInt32 (-5))));
                                    Some (DLeaf (LV (VStr [x56])))]])])].
Definition ex_loc : loc := [SName 0; SKey 0 ex_key; SName 2].

Example ex_loc_ok : loc_ok ex_kids ex_loc.
Proof.
  simpl. eexists. split; [reflexivity|]. split; [repeat split; reflexivity|].
  eexists. split; [reflexivity|]. split; [repeat split; reflexivity|].
  split; [discriminate|]. split.
  - repeat constructor.
  - eexists. split; [reflexivity|]. split; [repeat split; reflexivity|]. reflexivity.
Qed.

Example ex_loc_present : exists cur, resolve (AtCont ex_kids ex_data) ex_loc = Some cur.
Proof. eexists. vm_compute. reflexivity. Qed.

(** c/q=a%2Fb%2Cc%20%25,-5/v *)
Example ex_render :
  render [] false ex_kids ex_loc =
  [x63; x2f; x71; x3d; x61; x25; x32; x46; x62; x25; x32; x43; x63; x25; x32; x30; x25; x32; x35; x2c; x2d; x35; x2f; x76].
Proof. vm_compute. reflexivity. Qed.

Example ex_find : find [x6d] ex_kids ex_data [] (render [true; false; true] true ex_kids ex_loc) = FOk (Some ex_loc).
Proof. vm_compute. reflexivity. Qed.

(** from the entry's leaf selection's holder c/q=.. : "../../" leads to c, then down again *)
Example ex_find_dotdot :
  find [x6d] ex_kids ex_data [SName 0; SKey 0 ex_key]
       (ups 2 ++ render [] false [SList (mk n_q) [0; 1]%nat ex_row] [SKey 0 ex_key; SName 0])
  = FOk (Some [SName 0; SKey 0 ex_key; SName 0]).
Proof. vm_compute. reflexivity. Qed.

Example ex_unknown : find [x6d] ex_kids ex_data [] [x63; x2f; x7a; x7a] = FErr FNotFound.   (* c/zz *)
Proof. vm_compute. reflexivity. Qed.

(** ** the behaviour at the pinned commit, refuted *)

(** any leading "../" failed: the original path was parsed against the original selection *)
Example find_old_dotdot_refuted :
  find_old [x6d] ex_kids ex_data [SName 0; SKey 0 ex_key]
       (ups 2 ++ render [] false [SList (mk n_q) [0; 1]%nat ex_row] [SKey 0 ex_key; SName 0])
  = FErr FNotFound.
Proof. vm_compute. reflexivity. Qed.

(** Path.String() with verbatim keys does not lead back to the entry *)
Example path_string_old_refuted :
  find [x6d] ex_kids ex_data [] (path_string_nomod_old ex_kids [SName 0; SKey 0 ex_key]) <> FOk (Some [SName 0; SKey 0 ex_key]).
Proof. vm_compute. discriminate. Qed.
