(** Leaf level of the XML round trip: the lexical form a writer renders converts back to the value.

      int_text_roundtrip : parse_int / parse_uint (z_text z) = Some z   for every z in range
      trim_graphic       : strings.TrimSpace leaves text of graphic ASCII alone
      leaf_roundtrip     : conv_scalar ty (leaf_text ty <element written for v>) = Some v
    for every leaf type of the model (integers of the eight formats, decimal64 through the stated
    strconv contract, string, boolean, binary, empty, enumeration by label and by id, leafref). *)
From Coq Require Import ZArith NArith List Bool Lia Strings.Byte Decimal DecimalPos.
From YV Require Import Base.Wrap Val.Model Tree.Schema Tree.Editor Tree.XmlEsc Tree.XmlEscProofs Tree.XmlW Tree.XmlR.
Import ListNotations.
Open Scope Z_scope.

(** ** decimal digits *)
Lemma bytes_uint_bytes : forall u, bytes_uint (uint_bytes u) = Some u.
Proof. induction u; simpl; try rewrite IHu; reflexivity. Qed.

Lemma uint_bytes_nonnil : forall u, u <> Nil -> uint_bytes u <> [].
Proof. intros u H. destruct u; simpl; congruence. Qed.

Lemma parse_nat_pos : forall p, parse_nat (uint_bytes (Pos.to_uint p)) = Some (Zpos p).
Proof.
  intros p. unfold parse_nat.
  pose proof (Unsigned.to_uint_nonnil p) as Hn.
  destruct (uint_bytes (Pos.to_uint p)) eqn:E.
  - exfalso. exact (uint_bytes_nonnil _ Hn E).
  - rewrite <- E, bytes_uint_bytes, Unsigned.of_to. reflexivity.
Qed.

(** the first byte of a rendered number is a digit, never a sign *)
Lemma uint_bytes_head : forall u, u <> Nil ->
  exists b r, uint_bytes u = b :: r /\ b <> x2d /\ b <> x2b.
Proof.
  intros u H. destruct u; try congruence; simpl; do 2 eexists; (split; [reflexivity | split; discriminate]).
Qed.

Lemma parse_signed_pos : forall p, signed_nat (uint_bytes (Pos.to_uint p)) = Some (Zpos p).
Proof.
  intros p. destruct (uint_bytes_head _ (Unsigned.to_uint_nonnil p)) as (b & r & E & H1 & H2).
  rewrite <- (parse_nat_pos p). rewrite E. unfold signed_nat.
  destruct b; try reflexivity; congruence.
Qed.

Theorem parse_int_text : forall bits z, - 2 ^ (bits - 1) <= z < 2 ^ (bits - 1) ->
  parse_int bits (z_text z) = Some z.
Proof.
  intros bits z Hr. unfold parse_int.
  assert (R : (- 2 ^ (bits - 1) <=? z) && (z <? 2 ^ (bits - 1)) = true).
  { apply andb_true_iff. split; [apply Z.leb_le | apply Z.ltb_lt]; lia. }
  destruct z as [|p|p]; simpl z_text.
  - simpl. simpl in R. rewrite R. reflexivity.
  - rewrite parse_signed_pos. rewrite R. reflexivity.
  - change (signed_nat (x2d :: uint_bytes (Pos.to_uint p))) with (option_map Z.opp (parse_nat (uint_bytes (Pos.to_uint p)))).
    rewrite parse_nat_pos. change (option_map Z.opp (Some (Z.pos p))) with (Some (Z.neg p)).
    cbv iota beta. rewrite R. reflexivity.
Qed.

Theorem parse_uint_text : forall bits z, 0 <= z < 2 ^ bits -> parse_uint bits (z_text z) = Some z.
Proof.
  intros bits z Hr. unfold parse_uint.
  assert (R : (z <? 2 ^ bits) = true) by (apply Z.ltb_lt; lia).
  destruct z as [|p|p]; simpl z_text.
  - simpl. simpl in R. rewrite R. reflexivity.
  - rewrite parse_nat_pos, R. reflexivity.
  - lia.
Qed.

(** ** graphic ASCII text passes through sanitising and trimming unchanged *)
Definition graphic (b : byte) : bool := (33 <=? bN b)%N && (bN b <=? 126)%N.

Lemma graphic_facts : forall b, graphic b = true ->
  ascii_space b = false /\ in_char_range (bN b) = true /\ (bN b <? 128)%N = true /\
  byte_eqb b xc2 = false /\ byte_eqb b xe1 = false /\ byte_eqb b xe2 = false /\ byte_eqb b xe3 = false.
Proof.
  intros b H. destruct b; try (cbv in H; discriminate H); cbv; repeat split; reflexivity.
Qed.

Lemma graphic_okb : forall s, forallb graphic s = true -> xml_okb s = true.
Proof.
  induction s as [|b s IH]; intros H; [reflexivity|].
  simpl in H. apply andb_true_iff in H. destruct H as (Hb & Hs).
  destruct (graphic_facts b Hb) as (_ & R & L & _).
  simpl. rewrite L, R. apply IH. exact Hs.
Qed.

Lemma trim_left_graphic : forall s, forallb graphic s = true -> trim_left s = s.
Proof.
  intros s H. destruct s as [|b0 t0]; [reflexivity|].
  simpl in H. apply andb_true_iff in H. destruct H as (H0 & Ht).
  destruct (graphic_facts b0 H0) as (A & _ & _ & C2 & E1 & E2 & E3).
  simpl. rewrite A. destruct t0 as [|b1 t1]; [reflexivity|].
  unfold is_sp2. rewrite C2. simpl. destruct t1 as [|b2 t2]; [reflexivity|].
  unfold is_sp3. rewrite E1, E2, E3. reflexivity.
Qed.

Lemma trim_left_rev_graphic : forall s, forallb graphic s = true -> trim_left_rev s = s.
Proof.
  intros s H. destruct s as [|b0 t0]; [reflexivity|].
  simpl in H. apply andb_true_iff in H. destruct H as (H0 & Ht).
  destruct (graphic_facts b0 H0) as (A & _).
  simpl. rewrite A. destruct t0 as [|b1 t1]; [reflexivity|].
  simpl in Ht. apply andb_true_iff in Ht. destruct Ht as (H1 & Ht).
  destruct (graphic_facts b1 H1) as (_ & _ & _ & C2 & _).
  unfold is_sp2. rewrite C2. simpl. destruct t1 as [|b2 t2]; [reflexivity|].
  simpl in Ht. apply andb_true_iff in Ht. destruct Ht as (H2 & Ht).
  destruct (graphic_facts b2 H2) as (_ & _ & _ & _ & E1 & E2 & E3).
  unfold is_sp3. rewrite E1, E2, E3. reflexivity.
Qed.

Lemma forallb_rev : forall (A : Type) (f : A -> bool) l, forallb f (List.rev l) = forallb f l.
Proof.
  intros A f l. induction l as [|a l IH]; [reflexivity|].
  simpl. rewrite forallb_app, IH. simpl. rewrite andb_true_r. apply andb_comm.
Qed.

Theorem trim_graphic : forall s, forallb graphic s = true -> trim_space s = s.
Proof.
  intros s H. unfold trim_space. rewrite trim_left_graphic by exact H.
  rewrite trim_left_rev_graphic by (rewrite forallb_rev; exact H).
  apply List.rev_involutive.
Qed.

Lemma uint_bytes_graphic : forall u, forallb graphic (uint_bytes u) = true.
Proof. induction u; simpl; try rewrite IHu; reflexivity. Qed.

Lemma z_text_graphic : forall z, forallb graphic (z_text z) = true.
Proof. intros z. destruct z; simpl; try apply uint_bytes_graphic; reflexivity. Qed.

(** what the reader gets from the element written for lexical form [t] *)
Lemma chardata_text_kids : forall t, chardata (text_kids t) = sanitize t.
Proof.
  intros t. unfold text_kids. destruct (sanitize t) eqn:E; [reflexivity|].
  simpl. rewrite app_nil_r. reflexivity.
Qed.

Lemma graphic_passes : forall t, forallb graphic t = true -> trim_space (sanitize t) = t /\ sanitize t = t.
Proof.
  intros t H. rewrite (sanitize_id t (graphic_okb t H)). split; [apply trim_graphic; exact H | reflexivity].
Qed.

(** ** values of the model's leaf types *)
Definition is_none {A} (o : option A) : bool := match o with None => true | Some _ => false end.

Section Leaf.
  Variable enum_ids : bool.
  Variable fmt_dec : Z -> Z -> text.
  Variable parse_dec : text -> option (Z * Z).
  Variable dec_ok : Z -> Z -> bool.
  (** the strconv contract: FormatFloat(f,'f',-1,64) is plain text that ParseFloat maps back to f *)
  Hypothesis dec_contract : forall m e, dec_ok m e = true ->
    parse_dec (trim_space (sanitize (fmt_dec m e))) = Some (m, e).

  (** [v] is a value of leaf type [ty] that XML can carry.  Strings: any sequence of XML characters
      (white space anywhere, markup, empty).  Binary: base64 text is XML text without edge white
      space.  Enumeration: the label is the one the schema maps to this id, it is XML text without
      edge white space that does not read as a number (node.toEnum tries numbers first). *)
  Fixpoint value_okb (ty : ltype) (v : lval) {struct ty} : bool :=
    match ty, v with
    | TInt f, LV (VInt g z) => fmt_eqb f g && (is_signed f || is_unsigned f) && in_rangeb f z
    | TDec _, LV (VDec m e) => dec_ok m e
    | TStr, LV (VStr s) => xml_okb s
    | TBool, LV (VBool _) => true
    | TBin, LV (VBin s) => xml_okb s && text_eqb (trim_space s) s
    | TEmpty, LEmpty => true
    | TEnum labels, LV (VEnum id l) =>
        if enum_ids
        then in_sb 32 id && match enum_by_id labels id with Some (LV (VEnum i' l')) => (i' =? id) && text_eqb l' l | _ => false end
        else xml_okb l && text_eqb (trim_space l) l && is_none (parse_int 32 l) && is_none (parse_uint 32 l)
             && match enum_by_label labels l with Some (LV (VEnum i' l')) => (i' =? id) && text_eqb l' l | _ => false end
    | TLeafRef t, _ => value_okb t v
    | _, _ => false
    end.

  Lemma text_eqb_eq : forall a b, text_eqb a b = true -> a = b.
  Proof.
    induction a as [|x a IH]; destruct b as [|y b]; simpl; intros H; try discriminate; [reflexivity|].
    apply andb_true_iff in H. destruct H as (H1 & H2).
    apply byte_eqb_true in H1. subst. f_equal. apply IH. exact H2.
  Qed.
  Lemma text_eqb_refl : forall a, text_eqb a a = true.
  Proof.
    induction a as [|x a IH]; [reflexivity|]. simpl. rewrite IH, andb_true_r.
    unfold byte_eqb. apply Byte.byte_dec_lb. reflexivity.
  Qed.

  Lemma fmt_eqb_eq : forall f g, fmt_eqb f g = true -> f = g.
  Proof. destruct f, g; simpl; intros H; try discriminate; reflexivity. Qed.

  Lemma width_signed : forall f z, is_signed f = true -> in_rangeb f z = true ->
    - 2 ^ (width f - 1) <= z < 2 ^ (width f - 1).
  Proof.
    intros f z Hs H. unfold in_rangeb in H. rewrite Hs in H. unfold in_sb in H.
    apply andb_true_iff in H. destruct H as (A & B). apply Z.leb_le in A. apply Z.ltb_lt in B. lia.
  Qed.
  Lemma width_unsigned : forall f z, is_signed f = false -> in_rangeb f z = true ->
    0 <= z < 2 ^ width f.
  Proof.
    intros f z Hs H. unfold in_rangeb in H. rewrite Hs in H. unfold in_ub in H.
    apply andb_true_iff in H. destruct H as (A & B). apply Z.leb_le in A. apply Z.ltb_lt in B. lia.
  Qed.

  (** the text a reader extracts for type [ty] from the element written for lexical form [t] *)
  Definition read_text (ty : ltype) (t : text) : text :=
    if is_string_ty ty then sanitize t else trim_space (sanitize t).

  Lemma leaf_text_written : forall (ty : ltype) (n : ident) (a : option text) (t : text),
    leaf_text false ty (XE n a (text_kids t)) = read_text ty t.
  Proof.
    intros. unfold leaf_text, read_text. simpl xkids. rewrite chardata_text_kids.
    rewrite andb_true_r. reflexivity.
  Qed.

  Lemma bool_roundtrip : forall b : bool,
    parse_bool (trim_space (sanitize (if b then [x74; x72; x75; x65] else [x66; x61; x6c; x73; x65]))) = Some b.
  Proof. destruct b; reflexivity. Qed.

  Theorem scalar_roundtrip : forall ty v, value_okb ty v = true ->
    conv_scalar parse_dec ty (read_text ty (render_scalar enum_ids fmt_dec v)) = Some v.
  Proof.
    induction ty; intros v H; simpl in H.
    - (* TInt *)
      destruct v as [[g z| | | | | |]| | |]; try discriminate H.
      apply andb_true_iff in H. destruct H as (H & Hr). apply andb_true_iff in H. destruct H as (Hf & Hk).
      apply fmt_eqb_eq in Hf. subst g.
      unfold read_text. simpl is_string_ty. cbv iota. simpl render_scalar.
      destruct (graphic_passes (z_text z) (z_text_graphic z)) as (T & S). rewrite T.
      simpl conv_scalar. unfold int_bits.
      destruct (is_signed f) eqn:Es.
      + rewrite parse_int_text by (apply width_signed; assumption). reflexivity.
      + rewrite parse_uint_text by (apply width_unsigned; assumption). reflexivity.
    - (* TDec *)
      destruct v as [[| m e | | | | |]| | |]; try discriminate H.
      unfold read_text. simpl. rewrite dec_contract by exact H. reflexivity.
    - (* TStr *)
      destruct v as [[| | s | | | |]| | |]; try discriminate H.
      unfold read_text. simpl. rewrite sanitize_id by exact H. reflexivity.
    - (* TBool *)
      destruct v as [[| | | | b | |]| | |]; try discriminate H.
      unfold read_text. simpl is_string_ty. cbv iota. simpl render_scalar. simpl conv_scalar.
      rewrite bool_roundtrip. reflexivity.
    - (* TBin *)
      destruct v as [[| | | s | | |]| | |]; try discriminate H.
      apply andb_true_iff in H. destruct H as (Hx & Ht). apply text_eqb_eq in Ht.
      unfold read_text. simpl. rewrite sanitize_id by exact Hx. rewrite Ht. reflexivity.
    - (* TEmpty *)
      destruct v as [[| | | | | |]| | |]; try discriminate H. reflexivity.
    - (* TEnum *)
      destruct v as [[| | | | | id l |]| | |]; try discriminate H.
      unfold read_text. simpl is_string_ty. cbv iota. simpl render_scalar. simpl conv_scalar.
      destruct enum_ids.
      + apply andb_true_iff in H. destruct H as (Hr & Hl).
        destruct (graphic_passes (z_text id) (z_text_graphic id)) as (T & S). rewrite T.
        unfold conv_enum. rewrite parse_int_text.
        * destruct (enum_by_id labels id) as [[[| | | | | i' l' |]| | |]|]; try discriminate Hl.
          apply andb_true_iff in Hl. destruct Hl as (A & B). apply Z.eqb_eq in A. apply text_eqb_eq in B.
          subst. reflexivity.
        * unfold in_sb in Hr. apply andb_true_iff in Hr. destruct Hr as (A & B).
          apply Z.leb_le in A. apply Z.ltb_lt in B. simpl in *. lia.
      + repeat (apply andb_true_iff in H; destruct H as (H & ?)).
        apply text_eqb_eq in H3. rewrite (sanitize_id l H), H3.
        unfold conv_enum.
        destruct (parse_int 32 l); [discriminate H2|]. destruct (parse_uint 32 l); [discriminate H1|].
        destruct (enum_by_label labels l) as [[[| | | | | i' l' |]| | |]|]; try discriminate H0.
        apply andb_true_iff in H0. destruct H0 as (A & B). apply Z.eqb_eq in A. apply text_eqb_eq in B.
        subst. reflexivity.
    - discriminate H.
    - discriminate H.
    - discriminate H.
    - (* TLeafRef *)
      simpl conv_scalar. unfold read_text in *. simpl is_string_ty. apply IHty. exact H.
  Qed.
End Leaf.
