(** Percent-encoding as node/path_slice.go uses it (C08).

    [unescape] is Go's net/url.QueryUnescape = unescape(s, encodeQueryComponent) at the byte level:
    a first pass rejects every '%' that is not followed by two hex digits (EscapeError), the second
    pass turns "%XX" into the byte XX and '+' into a space; every other byte is copied.  (The other
    checks of net/url.unescape apply to the host modes only.)  [None] = the error return.

    [escape] is the reference encoder of the spec and, since fix f3253ef, also what
    node/path.go writeEscapedKey does to every key value in Path.String(): every byte outside the
    RFC 3986 unreserved set (ALPHA / DIGIT / '-' / '.' / '_' / '~') becomes '%' HEX HEX, upper case. *)
From Coq Require Import List Bool NArith Strings.Byte.
Import ListNotations.
Open Scope N_scope.

Definition bN (b : byte) : N := Byte.to_N b.
Definition byte_of (n : N) : byte := match Byte.of_N n with Some b => b | None => x00 end.

Definition between (lo hi n : N) : bool := (lo <=? n) && (n <=? hi).

(** net/url ishex / unhex *)
Definition is_hex (b : byte) : bool :=
  let n := bN b in between 48 57 n || between 97 102 n || between 65 70 n.
Definition unhex (b : byte) : N :=
  let n := bN b in
  if between 48 57 n then n - 48
  else if between 97 102 n then n - 97 + 10
  else if between 65 70 n then n - 65 + 10
  else 0.

Definition pct : byte := x25.     (* '%' *)
Definition plus : byte := x2b.    (* '+' *)
Definition space : byte := x20.

Fixpoint unescape (s : list byte) : option (list byte) :=
  match s with
  | [] => Some []
  | c :: tl =>
      if Byte.eqb c pct then
        match tl with
        | h :: l :: tl' =>
            if is_hex h && is_hex l
            then option_map (cons (byte_of (16 * unhex h + unhex l))) (unescape tl')
            else None
        | _ => None
        end
      else option_map (cons (if Byte.eqb c plus then space else c)) (unescape tl)
  end.

(** RFC 3986 unreserved *)
Definition unreserved (b : byte) : bool :=
  let n := bN b in
  between 97 122 n || between 65 90 n || between 48 57 n
  || (n =? 45) || (n =? 95) || (n =? 46) || (n =? 126).

(** "0123456789ABCDEF"[n] *)
Definition hex_digit (n : N) : byte := byte_of (if n <? 10 then 48 + n else 55 + n).

Definition escape_byte (b : byte) : list byte :=
  if unreserved b then [b] else [pct; hex_digit (bN b / 16); hex_digit (bN b mod 16)].

Definition escape (s : list byte) : list byte := flat_map escape_byte s.

(** bytes that can occur in the output of [escape] *)
Definition esc_char (b : byte) : bool := unreserved b || Byte.eqb b pct.

(** a second encoder, for the generality of the theorems: every byte as %xx with lower-case hex *)
Definition hex_digit_lower (n : N) : byte := byte_of (if n <? 10 then 48 + n else 87 + n).
Definition escape_all_byte (b : byte) : list byte := [pct; hex_digit_lower (bN b / 16); hex_digit_lower (bN b mod 16)].
Definition escape_all (s : list byte) : list byte := flat_map escape_all_byte s.
