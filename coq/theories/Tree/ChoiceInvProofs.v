(** C09: Upsert preserves "at most one case of a choice holds data" (Tree/ChoiceInv.v), for every
    schema view, every shaped target satisfying the invariant and every shaped source - no
    hypothesis on the guards beyond what the editor itself checks (a definition is only written
    when its guard is selected in the source, which already makes the guard free of
    self-conflicts), and no hypothesis on the source's invariant. *)
From Coq Require Import ZArith List Bool Lia Arith Strings.Byte.
From YV Require Import Val.Model Tree.Schema Tree.Editor Tree.Merge Tree.EditorProofs Tree.ChoiceInv Tree.ChoiceProofs.
Import ListNotations.
Open Scope nat_scope.

(** * contents that only lost data *)
Definition csub (t' t : content) : Prop := Forall2 (fun a b : option dnode => a = None \/ a = b) t' t.

Lemma csub_refl t : csub t t.
Proof. induction t; constructor; auto. Qed.

Lemma csub_trans t1 t2 t3 : csub t1 t2 -> csub t2 t3 -> csub t1 t3.
Proof.
  intros H; revert t3; induction H as [|a b l1 l2 Hab _ IH]; intros t3 H2; inversion H2; subst; constructor.
  - destruct Hab as [-> | ->]; auto.
  - apply IH; assumption.
Qed.

Lemma csub_length t' t : csub t' t -> length t' = length t.
Proof. induction 1; simpl; auto. Qed.

Lemma csub_nth t' t : csub t' t -> forall j d, nth j t' None = Some d -> nth j t None = Some d.
Proof.
  induction 1 as [|a b l1 l2 Hab _ IH]; intros [|j] d H; simpl in *; try discriminate.
  - destruct Hab as [-> | ->]; [discriminate|assumption].
  - apply IH; assumption.
Qed.

Lemma map_combine_sub (f : snode * option dnode -> option dnode) :
  (forall s d, f (s, d) = None \/ f (s, d) = d) ->
  forall ks t, length t = length ks -> csub (map f (combine ks t)) t.
Proof.
  intros Hf. induction ks as [|k ks IH]; intros [|d t] Hl; simpl in *; try discriminate; constructor.
  - apply Hf.
  - apply IH. lia.
Qed.

Lemma clear_case_sub c k kids t : length t = length kids -> csub (clear_case c k kids t) t.
Proof.
  intros Hl. unfold clear_case. apply map_combine_sub; [|assumption].
  intros s d. destruct (guard_case c (sguard s)); auto. destruct (guard_after c (sguard s)); auto.
  destruct (Nat.eqb k n && guard_selected g kids t); auto.
Qed.

(** * occupied pairs, pointwise *)
Lemma occupied_intro kids : forall t j s d p,
  nth_error kids j = Some s -> nth j t None = Some d -> In p (sguard s) -> In p (occupied kids t).
Proof.
  induction kids as [|k kids IH]; intros t j s d p Hk Ht Hp; [destruct j; discriminate|].
  destruct t as [|[x|] t]; [destruct j; discriminate| |]; destruct j as [|j]; simpl in *.
  - inversion Hk; subst. apply in_or_app; left; assumption.
  - apply in_or_app; right. eapply IH; eauto.
  - discriminate.
  - eapply IH; eauto.
Qed.

Lemma occupied_elim kids : forall t p, In p (occupied kids t) ->
  exists j s d, nth_error kids j = Some s /\ nth j t None = Some d /\ In p (sguard s).
Proof.
  induction kids as [|k kids IH]; intros t p H; [destruct t; contradiction|].
  destruct t as [|[x|] t]; simpl in H; [contradiction| |].
  - apply in_app_or in H as [H|H].
    + exists 0, k, x. auto.
    + destruct (IH _ _ H) as (j & s & d & A & B & C). exists (S j), s, d. auto.
  - destruct (IH _ _ H) as (j & s & d & A & B & C). exists (S j), s, d. auto.
Qed.

Lemma occupied_sub kids t' t p : csub t' t -> In p (occupied kids t') -> In p (occupied kids t).
Proof.
  intros Hs H. destruct (occupied_elim _ _ _ H) as (j & s & d & A & B & C).
  eapply occupied_intro; eauto. eapply csub_nth; eauto.
Qed.

Lemma occupied_set_nth kids : forall t i k d p,
  nth_error kids i = Some k -> In p (occupied kids (set_nth i (Some d) t)) ->
  In p (sguard k) \/ In p (occupied kids t).
Proof.
  induction kids as [|k0 kids IH]; intros t i k d p Hk H; [destruct i; discriminate|].
  destruct t as [|x t]; [destruct i; simpl in H; contradiction|].
  destruct i as [|i]; simpl in Hk.
  - inversion Hk; subst. simpl in H. apply in_app_or in H as [H|H]; [left; assumption|right].
    destruct x; simpl; [apply in_or_app; right|]; assumption.
  - destruct x as [x|]; simpl in H |- *.
    + apply in_app_or in H as [H|H]; [right; apply in_or_app; left; assumption|].
      destruct (IH _ _ _ _ _ Hk H); [left; assumption|right; apply in_or_app; right; assumption].
    + eapply IH; eauto.
Qed.

(** * the invariant at one level, as a statement about pairs *)
Lemma no_conflict_spec l :
  no_conflict l = true <-> (forall p q, In p l -> In q l -> fst p = fst q -> snd p = snd q).
Proof.
  induction l as [|a l IH]; simpl.
  - split; [intros _ p q []|reflexivity].
  - rewrite andb_true_iff, negb_true_iff, IH. split.
    + intros [Hex Hl] p q [Hp|Hp] [Hq|Hq] Hf; subst.
      * reflexivity.
      * destruct (Nat.eq_dec (snd p) (snd q)) as [E|E]; [assumption|exfalso].
        assert (X : existsb (pair_conflict p) l = true).
        { apply existsb_exists. exists q. split; [assumption|]. unfold pair_conflict.
          apply andb_true_iff; split; [apply Nat.eqb_eq; assumption|].
          apply negb_true_iff. apply Nat.eqb_neq; assumption. }
        congruence.
      * destruct (Nat.eq_dec (snd p) (snd q)) as [E|E]; [assumption|exfalso].
        assert (X : existsb (pair_conflict q) l = true).
        { apply existsb_exists. exists p. split; [assumption|]. unfold pair_conflict.
          apply andb_true_iff; split; [apply Nat.eqb_eq; symmetry; assumption|].
          apply negb_true_iff. apply Nat.eqb_neq. intros X; apply E; symmetry; assumption. }
        congruence.
      * apply Hl; assumption.
    + intros H. split.
      * destruct (existsb (pair_conflict a) l) eqn:E; [exfalso|reflexivity].
        apply existsb_exists in E as (q & Hq & Hc). unfold pair_conflict in Hc.
        apply andb_true_iff in Hc as [Hf Hs]. apply Nat.eqb_eq in Hf.
        apply negb_true_iff in Hs. apply Nat.eqb_neq in Hs. apply Hs. apply H; auto.
      * intros p q Hp Hq. apply H; auto.
Qed.

Lemma no_conflict_incl l' l : incl l' l -> no_conflict l = true -> no_conflict l' = true.
Proof. rewrite !no_conflict_spec. intros Hi H p q Hp Hq. apply H; apply Hi; assumption. Qed.

Lemma one_case_sub kids t' t : csub t' t -> one_case_here kids t = true -> one_case_here kids t' = true.
Proof. intros Hs. apply no_conflict_incl. intros p. apply occupied_sub; assumption. Qed.

(** * guards *)
Lemma guard_case_In c g k : guard_case c g = Some k -> In (c, k) g.
Proof.
  induction g as [|[c' k'] g IH]; simpl; [discriminate|].
  destruct (Nat.eqb_spec c c'); intros H.
  - inversion H; subst. left; reflexivity.
  - right; auto.
Qed.

Lemma In_guard_case c g k : In (c, k) g -> exists k1, guard_case c g = Some k1.
Proof.
  induction g as [|[c' k'] g IH]; simpl; [contradiction|].
  intros [H|H]; destruct (Nat.eqb_spec c c'); eauto. inversion H; congruence.
Qed.

Lemma In_guard_after c g k : In (c, k) g -> exists rest, guard_after c g = Some rest.
Proof.
  induction g as [|[c' k'] g IH]; simpl; [contradiction|].
  intros [H|H]; destruct (Nat.eqb_spec c c'); eauto. inversion H; congruence.
Qed.

Lemma guard_after_incl c g rest : guard_after c g = Some rest -> incl rest g.
Proof.
  revert rest; induction g as [|[c' k'] g IH]; simpl; intros rest H; [discriminate|].
  destruct (Nat.eqb c c').
  - inversion H; subst. apply incl_tl, incl_refl.
  - apply incl_tl. auto.
Qed.

(** * choose under the invariant *)
Lemma cwd_in c kids : forall t k, In k (cases_with_data c kids t) -> In (c, k) (occupied kids t).
Proof.
  induction kids as [|s kids IH]; intros t k H; [destruct t; contradiction|].
  destruct t as [|[x|] t]; simpl in H; [contradiction| |].
  - simpl. apply in_or_app. destruct (guard_case c (sguard s)) as [k1|] eqn:E; simpl in H.
    + destruct H as [H|H]; [subst; left; apply guard_case_In; assumption|right; auto].
    + right; auto.
  - simpl. destruct (guard_case c (sguard s)); simpl in H; auto.
Qed.

Lemma cwd_nonempty c kids : forall t k, In (c, k) (occupied kids t) -> cases_with_data c kids t <> [].
Proof.
  induction kids as [|s kids IH]; intros t k H; [destruct t; contradiction|].
  destruct t as [|[x|] t]; simpl in H; [contradiction| |]; simpl.
  - apply in_app_or in H as [H|H].
    + destruct (In_guard_case _ _ _ H) as [k1 ->]. simpl. discriminate.
    + destruct (guard_case c (sguard s)); simpl; [discriminate|eauto].
  - destruct (guard_case c (sguard s)); simpl; eauto.
Qed.

Lemma fold_min_const k l : (forall x, In x l -> x = k) -> fold_left Nat.min l k = k.
Proof.
  induction l as [|a l IH]; simpl; intros H; [reflexivity|].
  rewrite (H a (or_introl eq_refl)), Nat.min_id. apply IH. auto.
Qed.

Lemma choose_inv c k kids t :
  one_case_here kids t = true -> In (c, k) (occupied kids t) -> choose c kids t = Some k.
Proof.
  intros Hinv Hin. unfold one_case_here in Hinv. rewrite no_conflict_spec in Hinv.
  assert (Hall : forall x, In x (cases_with_data c kids t) -> x = k).
  { intros x Hx. apply cwd_in in Hx. exact (Hinv (c, x) (c, k) Hx Hin eq_refl). }
  pose proof (cwd_nonempty _ _ _ _ Hin) as Hne. unfold choose.
  destruct (cases_with_data c kids t) as [|a l]; [congruence|].
  rewrite (Hall a (or_introl eq_refl)). f_equal. apply fold_min_const.
  intros x Hx. apply Hall. right; assumption.
Qed.

Lemma choose_none c kids t k : choose c kids t = None -> ~ In (c, k) (occupied kids t).
Proof.
  unfold choose. intros H Hin. apply cwd_nonempty in Hin.
  destruct (cases_with_data c kids t); [congruence|discriminate].
Qed.

Lemma guard_selected_inv g kids t :
  one_case_here kids t = true -> (forall p, In p g -> In p (occupied kids t)) ->
  guard_selected g kids t = true.
Proof.
  intros Hinv. induction g as [|[c k] g IH]; intros H; simpl; [reflexivity|].
  rewrite (choose_inv c k kids t Hinv) by (apply H; left; reflexivity).
  rewrite Nat.eqb_refl. apply IH. intros p Hp. apply H; right; assumption.
Qed.

Lemma guard_selected_In g kids t : guard_selected g kids t = true ->
  forall c k, In (c, k) g -> choose c kids t = Some k.
Proof.
  induction g as [|[c0 k0] g IH]; simpl; intros H c k Hin; [contradiction|].
  destruct (choose c0 kids t) as [k'|] eqn:E; [|discriminate].
  apply andb_true_iff in H as [Hk Hg]. apply Nat.eqb_eq in Hk. subst k'.
  destruct Hin as [Hin|Hin]; [inversion Hin; subst; assumption|auto].
Qed.

(** a definition the editor visits has a guard without self-conflict *)
Lemma guard_selected_no_conflict g kids t : guard_selected g kids t = true -> no_conflict g = true.
Proof.
  intros H. apply no_conflict_spec. intros [c k] [c' k'] Hp Hq Hf. simpl in *. subst c'.
  pose proof (guard_selected_In _ _ _ H _ _ Hp). pose proof (guard_selected_In _ _ _ H _ _ Hq). congruence.
Qed.

(** * one clearing step, the whole clearing, the write *)
Definition clear_step (kids : list snode) (t : content) (ck : nat * nat) : content :=
  let (c, k) := ck in
  match choose c kids t with
  | None => t
  | Some k' => if Nat.eqb k k' then t else clear_case c k' kids t
  end.

(** every pair of choice [c] that holds data names case [k] *)
Definition only_case (kids : list snode) (t : content) (ck : nat * nat) : Prop :=
  forall p, In p (occupied kids t) -> fst p = fst ck -> snd p = snd ck.

Lemma only_case_sub kids t' t ck : csub t' t -> only_case kids t ck -> only_case kids t' ck.
Proof. intros Hs H p Hp. apply H. eapply occupied_sub; eauto. Qed.

Lemma clear_step_sub kids t ck : length t = length kids -> csub (clear_step kids t ck) t.
Proof.
  intros Hl. destruct ck as [c k]. unfold clear_step.
  destruct (choose c kids t) as [k'|]; [|apply csub_refl].
  destruct (Nat.eqb k k'); [apply csub_refl|apply clear_case_sub; assumption].
Qed.

Lemma clear_step_only kids t ck : length t = length kids -> one_case_here kids t = true ->
  only_case kids (clear_step kids t ck) ck.
Proof.
  intros Hl Hinv. destruct ck as [c k]. unfold clear_step, only_case. simpl.
  destruct (choose c kids t) as [k'|] eqn:Ech.
  - destruct (Nat.eqb_spec k k') as [-> | Hne].
    + intros [c1 k1] Hp Hf. simpl in *. subst c1.
      pose proof (choose_inv _ _ _ _ Hinv Hp). congruence.
    + intros [c1 k1] Hp Hf. simpl in *. subst c1. exfalso.
      destruct (occupied_elim _ _ _ Hp) as (j & s & d & Hs & Hd & Hg).
      pose proof (csub_nth _ _ (clear_case_sub c k' kids t Hl) _ _ Hd) as Hd0.
      assert (Hocc : forall p, In p (sguard s) -> In p (occupied kids t)).
      { intros p Hin. eapply occupied_intro; eauto. }
      rewrite (clear_case_nth c k' kids t j s Hl Hs) in Hd.
      destruct (In_guard_case _ _ _ Hg) as [k2 Hk2]. destruct (In_guard_after _ _ _ Hg) as [rest Hrest].
      rewrite Hk2, Hrest in Hd.
      assert (k2 = k').
      { pose proof (choose_inv _ _ _ _ Hinv (Hocc _ (guard_case_In _ _ _ Hk2))). congruence. }
      subst k2. rewrite Nat.eqb_refl in Hd.
      rewrite guard_selected_inv in Hd; [discriminate|assumption|].
      intros p Hin. apply Hocc. eapply guard_after_incl; eauto.
  - intros [c1 k1] Hp Hf. simpl in *. subst c1. exfalso. eapply choose_none; eauto.
Qed.

Lemma clear_fold kids l : forall t, length t = length kids -> one_case_here kids t = true ->
  let t' := fold_left (clear_step kids) l t in
  csub t' t /\ forall ck, In ck l -> only_case kids t' ck.
Proof.
  induction l as [|a l IH]; intros t Hl Hinv; simpl.
  - split; [apply csub_refl|intros ck []].
  - pose proof (clear_step_sub kids t a Hl) as Hs1.
    destruct (IH (clear_step kids t a)) as [Hs Ho].
    + rewrite (csub_length _ _ Hs1). assumption.
    + eapply one_case_sub; eauto.
    + split; [eapply csub_trans; eauto|].
      intros ck [<-|Hin]; [|auto].
      eapply only_case_sub; [exact Hs|]. apply clear_step_only; assumption.
Qed.

Lemma clear_other_case_fold want kids t :
  clear_other_case want kids t = fold_left (clear_step kids) (rev (sguard want)) t.
Proof. reflexivity. Qed.

Lemma clear_other_case_sub k kids t : length t = length kids -> one_case_here kids t = true ->
  csub (clear_other_case k kids t) t.
Proof. intros Hl Hinv. rewrite clear_other_case_fold. apply (clear_fold kids _ t Hl Hinv). Qed.

(** (a) the single-level step of an upsert write *)
Theorem upsert_write_one_case kids t i k d :
  length t = length kids -> nth_error kids i = Some k -> no_conflict (sguard k) = true ->
  one_case_here kids t = true ->
  one_case_here kids (set_nth i (Some d) (clear_other_case k kids t)) = true.
Proof.
  intros Hl Hk Hg Hinv. rewrite clear_other_case_fold.
  destruct (clear_fold kids (rev (sguard k)) t Hl Hinv) as [Hs Ho].
  set (t' := fold_left (clear_step kids) (rev (sguard k)) t) in *.
  pose proof (one_case_sub _ _ _ Hs Hinv) as Hinv'.
  unfold one_case_here in *. rewrite no_conflict_spec in *.
  intros p q Hp Hq Hf.
  apply (occupied_set_nth _ _ _ _ _ _ Hk) in Hp. apply (occupied_set_nth _ _ _ _ _ _ Hk) in Hq.
  destruct Hp as [Hp|Hp], Hq as [Hq|Hq].
  - apply Hg; assumption.
  - symmetry. apply (Ho p); [apply in_rev in Hp; assumption|assumption|symmetry; assumption].
  - apply (Ho q); [apply in_rev in Hq; assumption|assumption|assumption].
  - apply Hinv'; assumption.
Qed.

(** * (b) through the editor loops *)
Lemma shaped_kids_nth rec ks : forall c i k d,
  shaped_kids rec ks c = true -> nth_error ks i = Some k -> nth i c None = Some d -> rec k d = true.
Proof.
  induction ks as [|k0 ks IH]; intros [|x c] i k d H Hk Hd; simpl in H; try discriminate;
    [destruct i; discriminate|].
  apply andb_true_iff in H as [Hx H]. destruct i as [|i]; simpl in *.
  - inversion Hk; subst. assumption.
  - eapply IH; eauto.
Qed.

Lemma shaped_kids_set rec ks : forall c i k x,
  shaped_kids rec ks c = true -> nth_error ks i = Some k -> rec k x = true ->
  shaped_kids rec ks (set_nth i (Some x) c) = true.
Proof.
  induction ks as [|k0 ks IH]; intros [|y c] i k x H Hk Hx; simpl in H; try discriminate;
    [destruct i; discriminate|].
  apply andb_true_iff in H as [Hy H]. destruct i as [|i]; simpl in *.
  - inversion Hk; subst. rewrite Hx, H. reflexivity.
  - rewrite Hy. simpl. eapply IH; eauto.
Qed.

Lemma shaped_kids_sub rec ks : forall c' c, csub c' c ->
  shaped_kids rec ks c = true -> shaped_kids rec ks c' = true.
Proof.
  induction ks as [|k0 ks IH]; intros c' c Hs H; inversion Hs; subst; simpl in *; try discriminate; auto.
  apply andb_true_iff in H as [Hy H]. apply andb_true_iff; split; [|eapply IH; eauto].
  match goal with X : _ \/ _ |- _ => destruct X as [-> | ->] end; auto.
Qed.

Lemma inv_kids_nth rec ks : forall c i k d,
  inv_kids rec ks c = true -> nth_error ks i = Some k -> nth i c None = Some d -> rec k d = true.
Proof.
  induction ks as [|k0 ks IH]; intros [|x c] i k d H Hk Hd; simpl in H;
    try (destruct i; discriminate).
  apply andb_true_iff in H as [Hx H]. destruct i as [|i]; simpl in *.
  - inversion Hk; subst. assumption.
  - eapply IH; eauto.
Qed.

Lemma inv_kids_set rec ks : forall c i k x,
  inv_kids rec ks c = true -> nth_error ks i = Some k -> rec k x = true ->
  inv_kids rec ks (set_nth i (Some x) c) = true.
Proof.
  induction ks as [|k0 ks IH]; intros [|y c] i k x H Hk Hx; simpl in H;
    try (destruct i; discriminate); [destruct i; reflexivity|].
  apply andb_true_iff in H as [Hy H]. destruct i as [|i]; simpl in *.
  - inversion Hk; subst. rewrite Hx, H. reflexivity.
  - rewrite Hy. simpl. eapply IH; eauto.
Qed.

Lemma inv_kids_sub rec ks : forall c' c, csub c' c ->
  inv_kids rec ks c = true -> inv_kids rec ks c' = true.
Proof.
  induction ks as [|k0 ks IH]; intros c' c Hs H; inversion Hs; subst; simpl in *; auto.
  apply andb_true_iff in H as [Hy H]. apply andb_true_iff; split; [|eapply IH; eauto].
  match goal with X : _ \/ _ |- _ => destruct X as [-> | ->] end; auto.
Qed.

Lemma occupied_empty kids : occupied kids (empty_content kids) = [].
Proof. induction kids; simpl; auto. Qed.

Lemma inv_kids_empty rec kids : inv_kids rec kids (empty_content kids) = true.
Proof. induction kids; simpl; auto. Qed.

Lemma inv_empty_node k : inv k (empty_node k) = true.
Proof.
  destruct k; simpl; auto. unfold one_case_here. rewrite occupied_empty, inv_kids_empty. reflexivity.
Qed.

Lemma inv_leaf m ty il dflt d : inv (SLeaf m ty il dflt) d = true.
Proof. reflexivity. Qed.

(** one write of the upsert loop: clear the other cases, put [x] at the position of [k] *)
Lemma write_good kids tc i k x :
  nth_error kids i = Some k -> no_conflict (sguard k) = true ->
  shaped_kids shaped kids tc = true -> inv_content kids tc = true ->
  shaped k x = true -> inv k x = true ->
  shaped_kids shaped kids (set_nth i (Some x) (clear_other_case k kids tc)) = true /\
  inv_content kids (set_nth i (Some x) (clear_other_case k kids tc)) = true.
Proof.
  intros Hk Hg Hsh Hinv Hx Hix. unfold inv_content in *. apply andb_true_iff in Hinv as [Hone Hkids].
  pose proof (shaped_kids_length _ _ _ Hsh) as Hl.
  pose proof (clear_other_case_sub k kids tc Hl Hone) as Hsub.
  split; [|apply andb_true_iff; split].
  - eapply shaped_kids_set; eauto. eapply shaped_kids_sub; eauto.
  - apply upsert_write_one_case; assumption.
  - eapply inv_kids_set; eauto. eapply inv_kids_sub; eauto.
Qed.

Section Loops.
  Variable ud : bool.
  Variable rec : recfun.

  Definition rec_good (k : snode) : Prop :=
    forall sd td newc r, shaped k sd = true -> shaped k td = true -> inv k td = true ->
      rec k sd td newc Upsert = Ok r -> shaped k r = true /\ inv k r = true.

  Lemma kid_loop_inv kids sc new : shaped_kids shaped kids sc = true ->
    forall ks, Forall (fun k => is_leaf k = false -> rec_good k) ks ->
    forall kpre tc r, kids = kpre ++ ks ->
      shaped_kids shaped kids tc = true -> inv_content kids tc = true ->
      kid_loop ud rec kids sc new Upsert ks (length kpre) tc = Ok r ->
      shaped_kids shaped kids r = true /\ inv_content kids r = true.
  Proof.
    intros Hsc. induction 1 as [|k ks Hk _ IH]; intros kpre tc r Hkids Hsh Hinv Hrun.
    - simpl in Hrun. inversion Hrun; subst. auto.
    - assert (Hnth : nth_error kids (length kpre) = Some k).
      { subst kids. rewrite nth_error_app2 by lia. rewrite Nat.sub_diag. reflexivity. }
      assert (Hnext : forall tc', shaped_kids shaped kids tc' = true -> inv_content kids tc' = true ->
                 kid_loop ud rec kids sc new Upsert ks (S (length kpre)) tc' = Ok r ->
                 shaped_kids shaped kids r = true /\ inv_content kids r = true).
      { intros tc' H1 H2 H3. apply (IH (kpre ++ [k]) tc' r); auto.
        - rewrite <- app_assoc. assumption.
        - rewrite app_length. simpl. rewrite Nat.add_1_r. assumption. }
      cbn [kid_loop] in Hrun.
      destruct (guard_selected (sguard k) kids sc) eqn:Hsel; cbn [negb] in Hrun; [|apply (Hnext tc); assumption].
      pose proof (guard_selected_no_conflict _ _ _ Hsel) as Hg.
      destruct k as [m ty il dflt|m kk|m keys row].
      + (* leaf *)
        cbn [strategy_eqb] in Hrun.
        match type of Hrun with context [match ?v with Some _ => _ | None => _ end] =>
          destruct v as [d|] eqn:Ev end; [|apply (Hnext tc); assumption].
        assert (Hd : shaped (SLeaf m ty il dflt) d = true).
        { destruct (nth (length kpre) sc None) as [d0|] eqn:E0.
          - injection Ev as <-. exact (shaped_kids_nth _ _ _ _ _ _ Hsc Hnth E0).
          - match type of Ev with (if ?b then _ else _) = _ => destruct b end; [|discriminate].
            destruct dflt; simpl in Ev; [|discriminate]. injection Ev as <-. reflexivity. }
        destruct (write_good kids tc (length kpre) _ d Hnth Hg Hsh Hinv Hd (inv_leaf _ _ _ _ _)) as [A B].
        eapply Hnext; eauto.
      + (* container *)
        specialize (Hk eq_refl).
        destruct (nth (length kpre) sc None) as [sd|] eqn:Esd; [|apply (Hnext tc); assumption].
        assert (Hsd : shaped (SCont m kk) sd = true) by exact (shaped_kids_nth _ _ _ _ _ _ Hsc Hnth Esd).
        unfold inv_content in Hinv. pose proof Hinv as Hinv0. apply andb_true_iff in Hinv0 as [_ Hik].
        destruct (nth (length kpre) tc None) as [td|] eqn:Etd.
        * destruct (rec (SCont m kk) sd td false Upsert) as [td'|e] eqn:R; [|discriminate Hrun].
          apply Hk in R as [R1 R2]; [| assumption | exact (shaped_kids_nth _ _ _ _ _ _ Hsh Hnth Etd) | exact (inv_kids_nth _ _ _ _ _ _ Hik Hnth Etd)].
          destruct (write_good kids tc (length kpre) _ td' Hnth Hg Hsh Hinv R1 R2) as [A B].
          eapply Hnext; eauto.
        * destruct (rec (SCont m kk) sd (empty_node (SCont m kk)) true Upsert) as [td'|e] eqn:R; [|discriminate Hrun].
          apply Hk in R as [R1 R2]; [| assumption | apply shaped_empty_node; reflexivity | apply inv_empty_node].
          destruct (write_good kids tc (length kpre) _ td' Hnth Hg Hsh Hinv R1 R2) as [A B].
          eapply Hnext; eauto.
      + (* list *)
        specialize (Hk eq_refl).
        destruct (nth (length kpre) sc None) as [sd|] eqn:Esd; [|apply (Hnext tc); assumption].
        assert (Hsd : shaped (SList m keys row) sd = true) by exact (shaped_kids_nth _ _ _ _ _ _ Hsc Hnth Esd).
        unfold inv_content in Hinv. pose proof Hinv as Hinv0. apply andb_true_iff in Hinv0 as [_ Hik].
        destruct (nth (length kpre) tc None) as [td|] eqn:Etd.
        * destruct (rec (SList m keys row) sd td false Upsert) as [td'|e] eqn:R; [|discriminate Hrun].
          apply Hk in R as [R1 R2]; [| assumption | exact (shaped_kids_nth _ _ _ _ _ _ Hsh Hnth Etd) | exact (inv_kids_nth _ _ _ _ _ _ Hik Hnth Etd)].
          destruct (write_good kids tc (length kpre) _ td' Hnth Hg Hsh Hinv R1 R2) as [A B].
          eapply Hnext; eauto.
        * destruct (rec (SList m keys row) sd (empty_node (SList m keys row)) true Upsert) as [td'|e] eqn:R; [|discriminate Hrun].
          apply Hk in R as [R1 R2]; [| assumption | apply shaped_empty_node; reflexivity | apply inv_empty_node].
          destruct (write_good kids tc (length kpre) _ td' Hnth Hg Hsh Hinv R1 R2) as [A B].
          eapply Hnext; eauto.
  Qed.

  Lemma row_loop_inv keys row : rec_good row -> is_leaf row = false ->
    forall srows trows r,
      forallb (shaped row) srows = true ->
      forallb (shaped row) trows = true -> forallb (inv row) trows = true ->
      row_loop rec keys row Upsert srows trows = Ok r ->
      forallb (shaped row) r = true /\ forallb (inv row) r = true.
  Proof.
    intros Hrec Hnl. induction srows as [|sr srows IH]; intros trows r Hs Ht Hi Hrun.
    - simpl in Hrun. inversion Hrun; subst. auto.
    - simpl in Hs. apply andb_true_iff in Hs as [Hsr Hs].
      cbn [row_loop] in Hrun. fold (lookup_row keys sr trows) in Hrun.
      destruct (lookup_row keys sr trows) as [j|] eqn:E.
      + pose proof (lookup_row_bound _ _ _ _ E) as Hj.
        destruct (rec row sr (nth j trows (DCont [])) false Upsert) as [tr'|e] eqn:R; [|discriminate Hrun].
        apply Hrec in R as [R1 R2]; [|assumption|apply forallb_nth; assumption|apply forallb_nth; assumption].
        apply IH in Hrun; auto; apply forallb_set_nth; assumption.
      + destruct (rec row sr (empty_node row) true Upsert) as [tr'|e] eqn:R; [|discriminate Hrun].
        apply Hrec in R as [R1 R2]; [|assumption|apply shaped_empty_node; assumption|apply inv_empty_node].
        apply IH in Hrun; auto; apply forallb_app'; auto; simpl; rewrite andb_true_r; assumption.
  Qed.
End Loops.

(** Upsert keeps the target shaped and keeps the invariant, at every depth *)
Theorem upsert_preserves_inv ud s : wf_schema s = true ->
  forall src tgt new r, shaped s src = true -> shaped s tgt = true -> inv s tgt = true ->
  edit_one ud s src tgt new Upsert = Ok r -> shaped s r = true /\ inv s r = true.
Proof.
  induction s as [m ty il d|m kids IH|m keys row IH] using snode_ind'; intros Hwf src tgt new r Hs Ht Hi Hrun.
  - simpl in Hrun. discriminate.
  - destruct src as [|sc|], tgt as [|tc|]; simpl in Hs, Ht; try discriminate.
    cbn [edit_one] in Hrun.
    destruct (kid_loop ud (edit_one ud) kids sc new Upsert kids 0 tc) as [tc'|e] eqn:E; [|discriminate Hrun].
    inversion Hrun; subst r.
    simpl in Hwf. rewrite forallb_forall in Hwf.
    assert (HF : Forall (fun k => is_leaf k = false -> rec_good (edit_one ud) k) kids).
    { rewrite Forall_forall in *. intros k Hk _ sd td newc r0. apply IH; auto. }
    exact (kid_loop_inv ud (edit_one ud) kids sc new Hs kids HF [] tc tc' eq_refl Ht Hi E).
  - destruct src as [| |srows], tgt as [| |trows]; simpl in Hs, Ht; try discriminate.
    cbn [edit_one] in Hrun.
    destruct (row_loop (edit_one ud) keys row Upsert srows trows) as [tr'|e] eqn:E; [|discriminate Hrun].
    inversion Hrun; subst r.
    simpl in Hwf. apply andb_true_iff in Hwf as [Hnl Hwf]. apply negb_true_iff in Hnl.
    assert (Hrec : rec_good (edit_one ud) row) by (intros sd td newc r0; apply IH; auto).
    exact (row_loop_inv (edit_one ud) keys row Hrec Hnl srows trows tr' Hs Ht Hi E).
Qed.

Corollary upsert_content_preserves_inv ud kids src tgt r :
  forallb wf_schema kids = true ->
  shaped_kids shaped kids src = true -> shaped_kids shaped kids tgt = true -> inv_content kids tgt = true ->
  edit_content ud kids src tgt Upsert = Ok r ->
  shaped_kids shaped kids r = true /\ inv_content kids r = true.
Proof.
  intros Hwf Hs Ht Hi Hrun. unfold edit_content in Hrun.
  destruct (edit_one ud (SCont (mkMeta [] [] true [] None) kids) (DCont src) (DCont tgt) false Upsert) as [d|e] eqn:E;
    [|discriminate].
  apply upsert_preserves_inv in E; auto.
  destruct d as [|c|]; try discriminate. inversion Hrun; subst. exact E.
Qed.

(** (c) every upsert history *)
Definition upsert_history ud kids (srcs : list content) (acc : res content) : res content :=
  fold_left (fun acc src => match acc with
                            | Ok t => edit_content ud kids src t Upsert
                            | Err e => Err e end) srcs acc.

Lemma upsert_history_err ud kids srcs e : upsert_history ud kids srcs (Err e) = Err e.
Proof. induction srcs; simpl; auto. Qed.

Theorem upsert_history_preserves_inv ud kids srcs : forall tgt r,
  forallb wf_schema kids = true ->
  shaped_kids shaped kids tgt = true -> inv_content kids tgt = true ->
  Forall (fun src => shaped_kids shaped kids src = true) srcs ->
  upsert_history ud kids srcs (Ok tgt) = Ok r ->
  shaped_kids shaped kids r = true /\ inv_content kids r = true.
Proof.
  induction srcs as [|src srcs IH]; intros tgt r Hwf Ht Hi Hs Hrun.
  - simpl in Hrun. inversion Hrun; subst. auto.
  - inversion Hs; subst. cbn [upsert_history fold_left] in Hrun.
    destruct (edit_content ud kids src tgt Upsert) as [t1|e] eqn:E.
    + destruct (upsert_content_preserves_inv ud kids src tgt t1 Hwf H1 Ht Hi E) as [A B].
      apply (IH t1 r); auto.
    + fold (upsert_history ud kids srcs (Err e)) in Hrun. rewrite upsert_history_err in Hrun. discriminate.
Qed.
