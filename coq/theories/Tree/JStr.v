(** Byte-level model of nodeutil/json_wtr_str.go [writeString] (a copy of encoding/json's string
    escaper, always called with escapeHTML = true by JSONWtr.writeString) and a reference decoder of
    JSON string literals (RFC 8259 section 7), written independently of the writer.

    Text is [list byte]; a Go string is an arbitrary byte sequence.  utf8.DecodeRuneInString is
    modelled by [utf8_seq]: the well-formed multi-byte sequences of the Unicode standard (table 3-7;
    no overlong forms, no surrogates, nothing above U+10FFFF); everything else is (RuneError, 1). *)
From Coq Require Import ZArith List Bool Strings.Byte.
From YV Require Import Val.Model.
Import ListNotations.
Open Scope Z_scope.

Definition bz (b : byte) : Z := byte_z b.
Definition zb (z : Z) : byte := match Byte.of_N (Z.to_N z) with Some b => b | None => x00 end.

(** htmlSafeSet[b] for b < utf8.RuneSelf: everything from space to DEL except double quote,
    ampersand, less-than, greater-than and backslash *)
Definition html_safe (b : byte) : bool :=
  let z := bz b in
  (32 <=? z) && (z <? 128) && negb (z =? 34) && negb (z =? 38) && negb (z =? 60) && negb (z =? 62) && negb (z =? 92).

(** var hex = "0123456789abcdef" *)
Definition hexd (n : Z) : byte := if n <? 10 then zb (48 + n) else zb (87 + n).

(** the escape written for an ASCII byte that is not in htmlSafeSet *)
Definition esc_ascii (b : byte) : list byte :=
  let z := bz b in
  x5c ::
  (if (z =? 92) || (z =? 34) then [b]
   else if z =? 10 then [x6e]
   else if z =? 13 then [x72]
   else if z =? 9 then [x74]
   else [x75; x30; x30; hexd (z / 16); hexd (z mod 16)]).

Definition is_cont (b : byte) : bool := (128 <=? bz b) && (bz b <=? 191).

(** utf8.DecodeRuneInString on (b0 :: t), b0 >= 0x80: Some (code point, size) for a well-formed
    sequence, None for (RuneError, 1) *)
Definition utf8_seq (b0 : byte) (t : list byte) : option (Z * nat) :=
  let z0 := bz b0 in
  if (194 <=? z0) && (z0 <=? 223) then
    match t with
    | b1 :: _ => if is_cont b1 then Some ((z0 - 192) * 64 + (bz b1 - 128), 2%nat) else None
    | _ => None
    end
  else if (224 <=? z0) && (z0 <=? 239) then
    match t with
    | b1 :: b2 :: _ =>
        let lo := if z0 =? 224 then 160 else 128 in
        let hi := if z0 =? 237 then 159 else 191 in
        if (lo <=? bz b1) && (bz b1 <=? hi) && is_cont b2
        then Some ((z0 - 224) * 4096 + (bz b1 - 128) * 64 + (bz b2 - 128), 3%nat) else None
    | _ => None
    end
  else if (240 <=? z0) && (z0 <=? 244) then
    match t with
    | b1 :: b2 :: b3 :: _ =>
        let lo := if z0 =? 240 then 144 else 128 in
        let hi := if z0 =? 244 then 143 else 191 in
        if (lo <=? bz b1) && (bz b1 <=? hi) && is_cont b2 && is_cont b3
        then Some ((z0 - 240) * 262144 + (bz b1 - 128) * 4096 + (bz b2 - 128) * 64 + (bz b3 - 128), 4%nat)
        else None
    | _ => None
    end
  else None.

(** backslash u f f f d *)
Definition esc_fffd : list byte := [x5c; x75; x66; x66; x66; x64].
(** `\u202` + hex[c & 0xF] *)
Definition esc_202x (c : Z) : list byte := [x5c; x75; x32; x30; x32; hexd (c mod 16)].

(** the loop of writeString: what is written between the two quotes *)
Fixpoint jbody (s : list byte) : list byte :=
  match s with
  | [] => []
  | b0 :: t0 =>
      if bz b0 <? 128 then
        (if html_safe b0 then [b0] else esc_ascii b0) ++ jbody t0
      else
        match utf8_seq b0 t0 with
        | Some (c, 2%nat) =>
            match t0 with
            | b1 :: t1 => b0 :: b1 :: jbody t1
            | _ => esc_fffd ++ jbody t0
            end
        | Some (c, 3%nat) =>
            match t0 with
            | b1 :: b2 :: t2 =>
                (if (c =? 8232) || (c =? 8233) then esc_202x c else [b0; b1; b2]) ++ jbody t2
            | _ => esc_fffd ++ jbody t0
            end
        | Some (c, 4%nat) =>
            match t0 with
            | b1 :: b2 :: b3 :: t3 => b0 :: b1 :: b2 :: b3 :: jbody t3
            | _ => esc_fffd ++ jbody t0
            end
        | _ => esc_fffd ++ jbody t0
        end
  end.

Definition jwrite (s : list byte) : list byte := x22 :: jbody s ++ [x22].

(** the text a JSON string written by [jwrite] denotes: [s] with every byte that is not part of a
    well-formed UTF-8 sequence replaced by U+FFFD (EF BF BD) *)
Definition fffd : list byte := [xef; xbf; xbd].
Fixpoint sanitize (s : list byte) : list byte :=
  match s with
  | [] => []
  | b0 :: t0 =>
      if bz b0 <? 128 then b0 :: sanitize t0
      else
        match utf8_seq b0 t0 with
        | Some (_, 2%nat) => match t0 with b1 :: t1 => b0 :: b1 :: sanitize t1 | _ => fffd ++ sanitize t0 end
        | Some (_, 3%nat) => match t0 with b1 :: b2 :: t2 => b0 :: b1 :: b2 :: sanitize t2 | _ => fffd ++ sanitize t0 end
        | Some (_, 4%nat) => match t0 with b1 :: b2 :: b3 :: t3 => b0 :: b1 :: b2 :: b3 :: sanitize t3 | _ => fffd ++ sanitize t0 end
        | _ => fffd ++ sanitize t0
        end
  end.

(** well-formed UTF-8 (what a YANG string is required to be) *)
Fixpoint valid_utf8 (s : list byte) : bool :=
  match s with
  | [] => true
  | b0 :: t0 =>
      if bz b0 <? 128 then valid_utf8 t0
      else
        match utf8_seq b0 t0 with
        | Some (_, 2%nat) => match t0 with b1 :: t1 => valid_utf8 t1 | _ => false end
        | Some (_, 3%nat) => match t0 with b1 :: b2 :: t2 => valid_utf8 t2 | _ => false end
        | Some (_, 4%nat) => match t0 with b1 :: b2 :: b3 :: t3 => valid_utf8 t3 | _ => false end
        | _ => false
        end
  end.

(** * Reference decoder of a JSON string literal (RFC 8259 section 7) *)

Definition hexval (b : byte) : option Z :=
  let z := bz b in
  if (48 <=? z) && (z <=? 57) then Some (z - 48)
  else if (97 <=? z) && (z <=? 102) then Some (z - 87)
  else if (65 <=? z) && (z <=? 70) then Some (z - 55)
  else None.

Definition hex4 (h1 h2 h3 h4 : byte) : option Z :=
  match hexval h1, hexval h2, hexval h3, hexval h4 with
  | Some a, Some b, Some c, Some d => Some (((a * 16 + b) * 16 + c) * 16 + d)
  | _, _, _, _ => None
  end.

(** UTF-8 encoding of a scalar value *)
Definition utf8_enc (c : Z) : list byte :=
  if c <? 128 then [zb c]
  else if c <? 2048 then [zb (192 + c / 64); zb (128 + c mod 64)]
  else if c <? 65536 then [zb (224 + c / 4096); zb (128 + (c / 64) mod 64); zb (128 + c mod 64)]
  else [zb (240 + c / 262144); zb (128 + (c / 4096) mod 64); zb (128 + (c / 64) mod 64); zb (128 + c mod 64)].

(** the two-character escapes *)
Definition simple_esc (e : byte) : option byte :=
  let z := bz e in
  if z =? 34 then Some x22 else if z =? 92 then Some x5c else if z =? 47 then Some x2f
  else if z =? 98 then Some x08 else if z =? 102 then Some x0c else if z =? 110 then Some x0a
  else if z =? 114 then Some x0d else if z =? 116 then Some x09 else None.

(** [jdec s]: [s] starts just after the opening quote; result: decoded text and what follows the
    closing quote.  Unescaped control characters, unknown escapes, lone surrogates: None. *)
Fixpoint jdec (s : list byte) : option (list byte * list byte) :=
  match s with
  | [] => None
  | b :: t =>
      if bz b =? 34 then Some ([], t)
      else if bz b =? 92 then
        match t with
        | [] => None
        | e :: t1 =>
            if bz e =? 117 then
              match t1 with
              | h1 :: h2 :: h3 :: h4 :: t5 =>
                  match hex4 h1 h2 h3 h4 with
                  | None => None
                  | Some cp =>
                      if (55296 <=? cp) && (cp <=? 56319) then
                        (* high surrogate: must be followed by an escaped low surrogate *)
                        match t5 with
                        | q1 :: q2 :: g1 :: g2 :: g3 :: g4 :: t11 =>
                            if (bz q1 =? 92) && (bz q2 =? 117) then
                              match hex4 g1 g2 g3 g4 with
                              | Some lo =>
                                  if (56320 <=? lo) && (lo <=? 57343) then
                                    match jdec t11 with
                                    | Some (r, rest) =>
                                        Some (utf8_enc (65536 + (cp - 55296) * 1024 + (lo - 56320)) ++ r, rest)
                                    | None => None
                                    end
                                  else None
                              | None => None
                              end
                            else None
                        | _ => None
                        end
                      else if (56320 <=? cp) && (cp <=? 57343) then None
                      else match jdec t5 with
                           | Some (r, rest) => Some (utf8_enc cp ++ r, rest)
                           | None => None
                           end
                  end
              | _ => None
              end
            else
              match simple_esc e with
              | Some c => match jdec t1 with Some (r, rest) => Some (c :: r, rest) | None => None end
              | None => None
              end
        end
      else if bz b <? 32 then None
      else match jdec t with Some (r, rest) => Some (b :: r, rest) | None => None end
  end.

(** a complete string literal *)
Definition jdecode (s : list byte) : option (list byte) :=
  match s with
  | q :: t => if bz q =? 34 then match jdec t with Some (r, []) => Some r | _ => None end else None
  | [] => None
  end.

(** no raw control character between the quotes *)
Definition no_ctl (s : list byte) : bool := forallb (fun b => 32 <=? bz b) s.
