(** The constrained reader: what Selection.Constrain(query) / Find(path?query) followed by
    UpsertInto(capturing node) delivers (node/selection.go BuildConstraints, node/constraints.go,
    max_depth.go, max_node.go, content_param.go, fields_matcher.go, list_range.go,
    with_defaults_param.go, edit.go), as repaired.

    Shape: the export of Tree/Editor.v (edit_one .. Upsert into an EMPTY target: every container,
    list and entry of the target is new, so schema defaults are filled below the entry point and
    nothing is ever found by key in the target) with the hooks of the constraint table consulted
    where selekt / selectListItem / get consult them, in table order, first veto wins:

        id                 priority weight   hooks
        depth              50       10       container-pre, field-pre
        fields             50       10       container-pre, field-pre
        fc.xfields         50       10       container-pre, field-pre
        fc.range           50       20       list-pre
        fc.max-node-count  60       10       container-post     (counter: state of the read)
        content            70       10       container-pre, field-pre
        with-defaults      70       50       field-post

    Paths are the idents below the request's base, tail first (see PathExpr.v).
    Domain: choice-free schemas (guards are not consulted here; choices are C09's), data shaped
    like the schema.  Not modelled: the target-side lookup of an entry by key (an exported entry is
    appended; the reference store never holds two entries with one key), filter / where (C16). *)
From Coq Require Import ZArith List Bool Strings.Byte Strings.String.
From YV Require Import Val.Model Tree.Schema Tree.PathExpr.
Import ListNotations.
Open Scope Z_scope.

Definition B (s : string) : list byte := list_byte_of_string s.

(** * parameter parsing (BuildConstraints) *)
Inductive content_mode := CAll | CNonconfig | CConfig.

Record params := mkParams {
  p_depth : Z;                          (* MaxDepth.MaxDepth: 64 unless depth= *)
  p_range : option (paths * Z * Z);     (* ListRange: Selector, StartRow, EndRow (-1: open) *)
  p_fields : option paths;              (* FieldsMatcher{reverse: false} *)
  p_xfields : option paths;             (* FieldsMatcher{reverse: true} *)
  p_max_node : Z;                       (* MaxNode.Max: 10000 unless fc.max-node-count= *)
  p_content : option content_mode;
  p_trim : bool }.                      (* WithDefaultsTrim *)

(** the decoded query: (name, value) in order of appearance; params[name][0] = first occurrence *)
Definition query := list (list byte * list byte).
Fixpoint lookup (k : list byte) (q : query) : option (list byte) :=
  match q with
  | [] => None
  | (n, v) :: tl => if bytes_eqb n k then Some v else lookup k tl
  end.

(** strconv.Atoi / ParseInt(s, 10, 64): optional sign, at least one digit, digits only, int64 range *)
Definition digit_val (b : byte) : option Z :=
  match b with
  | x30 => Some 0 | x31 => Some 1 | x32 => Some 2 | x33 => Some 3 | x34 => Some 4
  | x35 => Some 5 | x36 => Some 6 | x37 => Some 7 | x38 => Some 8 | x39 => Some 9
  | _ => None
  end.
Fixpoint digits_val (s : list byte) (acc : Z) : option Z :=
  match s with
  | [] => Some acc
  | b :: tl => match digit_val b with Some d => digits_val tl (acc * 10 + d) | None => None end
  end.
Definition atoi (s : list byte) : option Z :=
  let '(neg, body) := match s with
                      | x2d :: tl => (true, tl)
                      | x2b :: tl => (false, tl)
                      | _ => (false, s)
                      end in
  match body with
  | [] => None
  | _ => match digits_val body 0 with
         | None => None
         | Some v => let v := if neg then - v else v in
                     if (v <? -9223372036854775808) || (v >? 9223372036854775807) then None else Some v
         end
  end.

(** strings.IndexRune(s, sep) split: (before, after) *)
Fixpoint cut_at (sep : byte) (s : list byte) (cur : list byte) : option (list byte * list byte) :=
  match s with
  | [] => None
  | b :: tl => if Byte.eqb b sep then Some (rev cur, tl) else cut_at sep tl (b :: cur)
  end.
(** strings.Split(s, sep) *)
Fixpoint split_on (sep : byte) (s : list byte) (cur : list byte) : list (list byte) :=
  match s with
  | [] => [rev cur]
  | b :: tl => if Byte.eqb b sep then rev cur :: split_on sep tl [] else split_on sep tl (b :: cur)
  end.

Definition bind {A C} (r : pres A) (f : A -> pres C) : pres C :=
  match r with POk a => f a | PErr e => PErr e end.
Notation "'do' x <- r ; k" := (bind r (fun x => k)) (at level 200, x pattern, r at level 100, k at level 200).

(** NewListRange *)
Definition new_list_range (v : list byte) : pres (paths * Z * Z) :=
  match cut_at x21 v [] with
  | None => PErr PBadRequest
  | Some (sel, rows) =>
      do ps <- parse_path_expr sel;
      match split_on x2d rows [] with
      | [st] => match atoi st with Some s => POk (ps, s, -1) | None => PErr PBadRequest end
      | [st; en] =>
          match atoi st with
          | None => PErr PBadRequest
          | Some s => match en with
                      | [] => POk (ps, s, -1)
                      | _ => match atoi en with Some e => POk (ps, s, e) | None => PErr PBadRequest end
                      end
          end
      | _ => PErr PBadRequest
      end
  end.

Definition new_content (v : list byte) : pres content_mode :=
  if bytes_eqb v (B "config") then POk CConfig
  else if bytes_eqb v (B "nonconfig") then POk CNonconfig
  else if bytes_eqb v (B "all") then POk CAll
  else PErr PBadRequest.

Definition new_with_defaults (v : list byte) : pres bool :=
  if bytes_eqb v (B "trim") then POk true
  else if bytes_eqb v (B "explicit") then PErr PNotImplemented
  else if bytes_eqb v (B "report-all") then POk false
  else if bytes_eqb v (B "report-all-tagged") then PErr PNotImplemented
  else PErr PBadRequest.

Definition opt_param {A} (k : list byte) (q : query) (f : list byte -> pres A) : pres (option A) :=
  match lookup k q with
  | None => POk None
  | Some v => do a <- f v; POk (Some a)
  end.

(** BuildConstraints on a selection without constraints; None = no constraint object at all.
    Errors in the order the Go function meets them. *)
Definition build_constraints (q : query) : pres (option params) :=
  match q with
  | [] => POk None
  | _ =>
      do depth <- match lookup (B "depth") q with
                  | None => POk 64
                  | Some v => match atoi v with
                              | None => PErr PBadRequest
                              | Some n => if n =? 0 then PErr PDepthZero
                                          else if n <? 0 then PErr PBadRequest else POk n
                              end
                  end;
      do range <- opt_param (B "fc.range") q new_list_range;
      do fields <- opt_param (B "fields") q parse_path_expr;
      do xfields <- opt_param (B "fc.xfields") q parse_path_expr;
      do maxn <- match lookup (B "fc.max-node-count") q with
                 | None => POk 10000
                 | Some v => match atoi v with
                             | None => PErr PBadRequest
                             | Some n => if n <? 0 then PErr PBadRequest else POk n
                             end
                 end;
      do cont <- opt_param (B "content") q new_content;
      do trim <- opt_param (B "with-defaults") q new_with_defaults;
      POk (Some (mkParams depth range fields xfields maxn cont
                          (match trim with Some t => t | None => false end)))
  end.

(** * the hooks *)

(** MaxDepth.checkPathLen(current = the path of the selection the request is made on, base):
    one step per path element below the base (a list entry shares the element of its list, so
    "isListItem" never holds on the paths selections are built with) *)
Fixpoint check_path_len (maxd : Z) (rp : list ident) (depth : Z) : bool :=
  match rp with
  | [] => true
  | _ :: tl => let depth := depth + 1 in
               if depth >=? maxd then false else check_path_len maxd tl depth
  end.

(** FieldsMatcher.visible *)
Definition fields_visible (reverse : bool) (ps : paths) (rp : list ident) : option bool :=
  if reverse then option_map negb (path_matches ps rp)
  else match path_matches ps rp with
       | None => None
       | Some true => Some true
       | Some false => path_leads_to ps rp
       end.

(** Constraints.Check*PreConstraints: compiled entries in order, first veto (or panic) ends it *)
Fixpoint first_veto (cs : list (unit -> option bool)) : option bool :=
  match cs with
  | [] => Some true
  | c :: tl => match c tt with
               | None => None
               | Some false => Some false
               | Some true => first_veto tl
               end
  end.

Definition skipz {A} : list A -> Z -> list A :=
  fix go (l : list A) (n : Z) : list A :=
    match l with
    | [] => []
    | _ :: tl => if n <=? 0 then l else go tl (n - 1)
    end.

Definition root_meta : nmeta := mkMeta [] [] true [] None.

Section Reader.
  Variable P : option params.

  (** [rp]: path of the selection the request is made on; the request's own path is name :: rp *)
  Definition pre_checks (rp : list ident) (m : nmeta) (content_ok : content_mode -> bool) : option bool :=
    match P with
    | None => Some true
    | Some p =>
        first_veto
          [ (fun _ => Some (check_path_len (p_depth p) rp 0));
            (fun _ => match p_fields p with Some ps => fields_visible false ps (nm_name m :: rp) | None => Some true end);
            (fun _ => match p_xfields p with Some ps => fields_visible true ps (nm_name m :: rp) | None => Some true end);
            (fun _ => match p_content p with Some c => Some (content_ok c) | None => Some true end) ]
    end.

  (** ContentConstraint.CheckContainerPreConstraints *)
  Definition pre_cont (rp : list ident) (m : nmeta) : option bool :=
    pre_checks rp m (fun c => match c with CConfig => nm_config m | _ => true end).
  (** ContentConstraint.CheckFieldPreConstraints *)
  Definition pre_field (rp : list ident) (m : nmeta) : option bool :=
    pre_checks rp m (fun c => match c with
                              | CAll => true
                              | CConfig => nm_config m
                              | CNonconfig => negb (nm_config m)
                              end).

  (** WithDefaults.CheckFieldPostConstraints *)
  Definition post_field (dflt : option lval) (v : option dnode) : option dnode :=
    match P with
    | Some p =>
        if p_trim p then
          match dflt, v with
          | Some d, Some (DLeaf x) => if lval_eqb d x then None else v
          | _, _ => v
          end
        else v
    | None => v
    end.

  (** MaxNode.CheckContainerPostConstraints *)
  Definition over (c : Z) : bool :=
    match P with Some p => c >? p_max_node p | None => false end.
  Definition bump (cnt : Z) : pres Z :=
    let c := cnt + 1 in if over c then PErr PConflict else POk c.

  (** ListRange.CheckListPreConstraints: the window that applies to the list at [rp], if any *)
  Definition list_window (rp : list ident) : option (option (Z * Z)) :=
    match P with
    | Some p =>
        match p_range p with
        | Some (ps, s, e) =>
            match path_matches_exactly ps rp with
            | None => None
            | Some true => Some (Some (s, e))
            | Some false => Some None
            end
        | None => Some None
        end
    | None => Some None
    end.

  (** the containerMetaList loop of editor.enter: one [step] per definition *)
  Definition kids_loop (step : snode -> option dnode -> Z -> pres (Z * option dnode))
    : list snode -> content -> Z -> pres (Z * content) :=
    fix go (ks : list snode) (dc : content) (cnt : Z) : pres (Z * content) :=
      match ks, dc with
      | [], [] => POk (cnt, [])
      | k :: ks', d :: dc' =>
          do (c1, o) <- step k d cnt;
          do (c2, out) <- go ks' dc' c1;
          POk (c2, o :: out)
      | _, _ => PErr PUnshaped
      end.

  (** the loop of editor.list: Next(row) until the store has no more rows or the window ends
      ([stop] is consulted from the second request on: r.First is false then) *)
  Definition rows_loop (row_step : dnode -> Z -> pres (Z * dnode)) (stop : Z -> bool)
    : list dnode -> Z -> bool -> Z -> pres (Z * list dnode) :=
    fix go (rs : list dnode) (idx : Z) (first : bool) (cnt : Z) : pres (Z * list dnode) :=
      match rs with
      | [] => POk (cnt, [])
      | r :: rs' =>
          if negb first && stop idx then POk (cnt, [])
          else do (c1, tr) <- row_step r cnt;
               do (c2, out) <- go rs' (idx + 1) false c1;
               POk (c2, tr :: out)
      end.

  (** editor.enter(from, to, new, upsert): [rp] the path of [from]; [new]: the target node was
      created by this edit (always, below the entry point); [cnt]: MaxNode.Count *)
  Fixpoint read_one (s : snode) (d : dnode) (rp : list ident) (new : bool) (cnt : Z) {struct s}
    : pres (Z * dnode) :=
    match s, d with
    | SCont _ kids, DCont dc =>
        do (c, out) <-
           kids_loop
             (fun k dk cnt =>
                match k with
                | SLeaf m _ _ dflt =>
                    (* editor.leaf: Selection.get = field-pre, Node.Field, default, field-post *)
                    match pre_field rp m with
                    | None => PErr PPanic
                    | Some false => POk (cnt, None)
                    | Some true =>
                        let v := match dk with
                                 | Some x => Some x
                                 | None => if new then option_map DLeaf dflt else None
                                 end in
                        POk (cnt, post_field dflt v)
                    end
                | SCont m _ | SList m _ _ =>
                    (* editor.node: selekt = container-pre, Node.Child, container-post *)
                    match pre_cont rp m with
                    | None => PErr PPanic
                    | Some false => POk (cnt, None)
                    | Some true =>
                        match dk with
                        | None => POk (cnt, None)
                        | Some sd =>
                            do c1 <- bump cnt;
                            do (c2, td) <- read_one k sd (nm_name m :: rp) true c1;
                            POk (c2, Some td)
                        end
                    end
                end) kids dc cnt;
        POk (c, DCont out)
    | SList _ _ row, DList rows =>
        match list_window rp with
        | None => PErr PPanic
        | Some None =>
            do (c, out) <- rows_loop (fun r cnt => read_one row r rp true cnt) (fun _ => false) rows 0 true cnt;
            POk (c, DList out)
        | Some (Some (st, en)) =>
            if negb (en =? -1) && (st >=? en) then POk (cnt, DList [])       (* empty window *)
            else
              do (c, out) <- rows_loop (fun r cnt => read_one row r rp true cnt)
                                        (fun idx => (idx >=? en) && negb (en =? -1))
                                        (skipz rows st) st true cnt;
              POk (c, DList out)
        end
    | _, _ => PErr PUnshaped
    end.

  (** Selection.UpsertInto on a container-like selection (module root, container, list entry):
      editor.edit -> enter(from, to, new = false, ...) *)
  Definition read_content (kids : list snode) (data : content) : pres content :=
    match read_one (SCont root_meta kids) (DCont data) [] false 0 with
    | POk (_, DCont c) => POk c
    | POk _ => PErr PUnshaped
    | PErr e => PErr e
    end.
End Reader.

(** sel.Constrain(query) (or Find(path?query)) then UpsertInto(capture) *)
Definition read_query (kids : list snode) (data : content) (q : query) : pres content :=
  do P <- build_constraints q;
  read_content P kids data.
