(** C07 with a LIST as the read target (Selection on a list node, not on one of its entries:
    editor.enter -> editor.list): the constrained reader of Params.v entered at a list.

    [read_list] is a thin wrapper: Params.read_one on the SList node with the request path of the
    target itself (rp = [], the entries share the path element of their list), i.e. the list-pre
    hook (fc.range window) and then one read_one per visited row with the same hooks and the same
    MaxNode counter ([read_list_unfold]).

    Theorems: the read of a list is the projection by the parameters' view of the full read of its
    rows ([read_list_is_projection]); depth=n alone is the projection by [view_depth n]
    ([read_list_depth]); and the depth statement in words - every node of the result lies at most
    n levels below the target ([read_list_depth_bound], [levels]), nothing at most n levels below
    it is dropped ([project_depth_keeps]).  The same bounds hold for a container target. *)
From Coq Require Import Strings.String.
From Coq Require Import ZArith List Bool Lia Strings.Byte.
From YV Require Import Val.Model Tree.Schema Tree.Merge Tree.PathExpr Tree.PathExprProofs Tree.Params Tree.Project Tree.ParamsProofs.
Import ListNotations.
Open Scope Z_scope.

(** * the entry point *)
Definition read_list (P : option params) (m : nmeta) (keys : list nat) (row : snode) (rows : list dnode)
  : pres (list dnode) :=
  match read_one P (SList m keys row) (DList rows) [] false 0 with
  | POk (_, DList r) => POk r
  | POk _ => PErr PUnshaped
  | PErr e => PErr e
  end.

Definition strip (r : pres (Z * list dnode)) : pres (list dnode) :=
  match r with POk (_, out) => POk out | PErr e => PErr e end.

(** the wrapper spelled out: window of the list-pre hook, then the rows one by one *)
Lemma read_list_unfold P m keys row rows :
  read_list P m keys row rows =
  match list_window P [] with
  | None => PErr PPanic
  | Some None =>
      strip (rows_loop (fun r cnt => read_one P row r [] true cnt) (fun _ => false) rows 0 true 0)
  | Some (Some (st, en)) =>
      if negb (en =? -1) && (st >=? en) then POk []
      else strip (rows_loop (fun r cnt => read_one P row r [] true cnt)
                            (fun idx => (idx >=? en) && negb (en =? -1)) (skipz rows st) st true 0)
  end.
Proof.
  unfold read_list. cbn [read_one]. destruct (list_window P []) as [[[st en]|]|]; try reflexivity.
  - destruct (negb (en =? -1) && (st >=? en)); [reflexivity|].
    match goal with |- context [rows_loop ?a ?b ?c ?d ?e ?f] => destruct (rows_loop a b c d e f) as [[c1 out]|e1] end; reflexivity.
  - match goal with |- context [rows_loop ?a ?b ?c ?d ?e ?f] => destruct (rows_loop a b c d e f) as [[c1 out]|e1] end; reflexivity.
Qed.

(** * what it must deliver *)
Definition full_rows (row : snode) (rows : list dnode) : list dnode := map (fill true row) rows.
Definition project_rows (V : view) (row : snode) (rows : list dnode) : list dnode :=
  map (project_view V [] row) (vw_rows V [] rows).
Definition count_rows (rows : list dnode) : Z := count_d (DList rows).

Definition spec_read_list (P : option params) (row : snode) (rows : list dnode) : pres (list dnode) :=
  match P with
  | None => POk (full_rows row rows)
  | Some p =>
      let t := project_rows (params_view p) row (full_rows row rows) in
      if count_rows t >? p_max_node p then PErr PConflict else POk t
  end.

Lemma project_list V fp m keys row rows :
  project_view V fp (SList m keys row) (DList rows) = DList (map (project_view V fp row) (vw_rows V fp rows)).
Proof. reflexivity. Qed.

Theorem read_list_is_projection : forall P m keys row rows,
  valid P -> wf_schema (SList m keys row) = true -> forallb (shaped row) rows = true ->
  read_list P m keys row rows = spec_read_list P row rows.
Proof.
  intros P m keys row rows Hv Hwf Hsh. unfold read_list, spec_read_list.
  assert (Hsh' : shaped (SList m keys row) (DList rows) = true) by exact Hsh.
  destruct P as [p|].
  - rewrite (read_one_spec (Some p) (params_view p)); auto.
    + cbv zeta. cbn [rev fill]. rewrite project_list. unfold outcome, over. rewrite Z.add_0_l.
      unfold project_rows, full_rows, count_rows.
      destruct (count_d (DList (map (project_view (params_view p) [] row)
                                    (vw_rows (params_view p) [] (map (fill true row) rows)))) >? p_max_node p);
        reflexivity.
    + apply H_cont_params; auto.
    + apply H_field_params; auto.
    + apply H_post_params.
    + apply H_window_params.
    + apply H_natural_params.
    + exact I.
    + unfold over. destruct Hv. lia.
  - rewrite (read_one_spec None view_all); auto.
    + cbv zeta. rewrite project_all_id by auto. cbn [fill]. unfold outcome, over. reflexivity.
    + intros dflt v. destruct v; reflexivity.
    + intros rp. exists None. split; reflexivity.
Qed.

(** views that agree project the rows alike *)
Lemma project_rows_ext V W row rows : view_equiv V W -> project_rows V row rows = project_rows W row rows.
Proof.
  intros H. unfold project_rows. destruct H as [Hl [Hn [Hr Ht]]]. rewrite Hr.
  apply map_ext. intros r. apply project_view_ext. repeat split; auto.
Qed.

Definition bounded_rows (n : Z) (t : list dnode) : pres (list dnode) :=
  if count_rows t >? n then PErr PConflict else POk t.

(** depth=n on a list: the rows, each cut n levels below the target (entries are at the target's
    own level, their children one level below) *)
Theorem read_list_depth : forall m keys row rows n,
  wf_schema (SList m keys row) = true -> forallb (shaped row) rows = true -> 1 <= n ->
  read_list (Some (mkParams n None None None 10000 None false)) m keys row rows
  = bounded_rows 10000 (map (project_view (view_depth n) [] row) (full_rows row rows)).
Proof.
  intros m keys row rows n Hwf Hsh Hn.
  rewrite read_list_is_projection; auto; [|split; simpl; lia].
  unfold spec_read_list, bounded_rows. cbn [p_max_node].
  rewrite (project_rows_ext _ (view_depth n)).
  - reflexivity.
  - repeat split; intros; simpl; unfold keep_all; now rewrite ?andb_true_r.
Qed.

(** * "at most n levels below the target" *)
(** the number of levels of nodes below a node: children of a container are one level below it,
    entries of a list are at the level of the list *)
Fixpoint levels (d : dnode) : Z :=
  match d with
  | DLeaf _ => 0
  | DCont c => fold_right (fun od acc => match od with None => acc | Some x => Z.max (1 + levels x) acc end) 0 c
  | DList rows => fold_right (fun r acc => Z.max (levels r) acc) 0 rows
  end.

Lemma levels_cont_cons od c :
  levels (DCont (od :: c)) = match od with None => levels (DCont c) | Some x => Z.max (1 + levels x) (levels (DCont c)) end.
Proof. destruct od; reflexivity. Qed.
Lemma levels_list_cons r rows : levels (DList (r :: rows)) = Z.max (levels r) (levels (DList rows)).
Proof. reflexivity. Qed.

Lemma levels_cont_le c b : 0 <= b -> (forall x, In (Some x) c -> 1 + levels x <= b) -> levels (DCont c) <= b.
Proof.
  intros Hb. induction c as [|od c IH]; intros H; [cbn; lia|].
  rewrite levels_cont_cons. assert (IH' : levels (DCont c) <= b) by (apply IH; intros; apply H; now right).
  destruct od as [x|]; auto. pose proof (H x (or_introl eq_refl)). lia.
Qed.
Lemma levels_list_le rows b : 0 <= b -> (forall r, In r rows -> levels r <= b) -> levels (DList rows) <= b.
Proof.
  intros Hb. induction rows as [|r rows IH]; intros H; [cbn; lia|].
  rewrite levels_list_cons. assert (IH' : levels (DList rows) <= b) by (apply IH; intros; apply H; now right).
  pose proof (H r (or_introl eq_refl)). lia.
Qed.
Lemma levels_cont_in c x : In (Some x) c -> 1 + levels x <= levels (DCont c).
Proof.
  induction c as [|od c IH]; intros H; [contradiction|]. rewrite levels_cont_cons.
  destruct H as [->|H]; [lia|]. specialize (IH H). destruct od; lia.
Qed.
Lemma levels_list_in rows r : In r rows -> levels r <= levels (DList rows).
Proof.
  induction rows as [|r0 rows IH]; intros H; [contradiction|]. rewrite levels_list_cons.
  destruct H as [->|H]; [lia|]. specialize (IH H). lia.
Qed.

Lemma map_kids_in f : forall ks dc y, In y (map_kids f ks dc) -> exists k dk, In (k, dk) (combine ks dc) /\ f k dk = y.
Proof.
  induction ks as [|k ks IH]; intros [|d dc] y H; cbn in *; try contradiction.
  destruct H as [H|H].
  - exists k, d. auto.
  - destruct (IH dc y H) as (k' & dk & A & E). exists k', dk. auto.
Qed.

(** the full read is shaped like the schema *)
Lemma fill_shaped : forall s d new, shaped s d = true -> shaped s (fill new s d) = true.
Proof.
  induction s as [m ty il dflt|m kids IHk|m keys row IHr] using snode_ind'; intros d new Hsh.
  - destruct d; try discriminate. reflexivity.
  - destruct d as [v|dc|rows]; try discriminate. rewrite fill_cont. rewrite shaped_cont in *.
    revert dc Hsh. induction IHk as [|k ks Hk _ IH]; intros [|d dc] Hsh; cbn in *; try discriminate; auto.
    apply andb_true_iff in Hsh as [H1 H2]. rewrite (IH dc H2), andb_true_r.
    destruct k as [mk ty il dflt|mk kk|mk keys row]; unfold fill_kid.
    + destruct d as [x|]; [exact H1|]. destruct new; [|reflexivity]. destruct dflt; reflexivity.
    + destruct d as [x|]; [|reflexivity]. cbn [option_map]. apply Hk. exact H1.
    + destruct d as [x|]; [|reflexivity]. cbn [option_map]. apply Hk. exact H1.
  - destruct d as [v|dc|rows]; try discriminate. cbn [fill shaped] in *.
    rewrite forallb_forall in *. intros r Hr. apply in_map_iff in Hr as (r0 & <- & Hr0). apply IHr. auto.
Qed.

Section Bounded.
  Variable V : view.
  Variable n : Z.
  Hypothesis Hleaf : forall fp m, vw_leaf V fp m = true -> lenZ fp <= n.
  Hypothesis Hnode : forall fp m, vw_node V fp m = true -> lenZ fp <= n.
  Hypothesis Hrows : forall fp rows r, In r (vw_rows V fp rows) -> In r rows.

  (** a view that keeps nothing deeper than n: the projection at [fp] has at most n - |fp| levels *)
  Theorem project_levels : forall s d fp, shaped s d = true ->
    levels (project_view V fp s d) <= Z.max 0 (n - lenZ fp).
  Proof.
    induction s as [m ty il dflt|m kids IHk|m keys row IHr] using snode_ind'; intros d fp Hsh.
    - destruct d; try discriminate. cbn. lia.
    - destruct d as [v|dc|rows]; try discriminate. rewrite shaped_cont in Hsh.
      cbn [project_view]. apply levels_cont_le; [lia|]. intros x Hx.
      apply map_kids_in in Hx as (k & dk & Hin & E).
      destruct (shaped_kids_in _ _ _ _ Hsh Hin) as [Hshk Hink].
      rewrite Forall_forall in IHk. pose proof (IHk k Hink) as IH.
      destruct k as [mk ty il dflt|mk kk|mk keys row].
      + destruct dk as [y|]; [|discriminate].
        destruct (vw_leaf V (fp ++ [nm_name mk]) mk) eqn:El; [|discriminate E].
        destruct (negb (vw_trim V && is_default dflt y)); [|discriminate E]. cbn in E. injection E as <-.
        apply Hleaf in El. rewrite lenZ_app1 in El.
        destruct y; try discriminate Hshk. cbn. lia.
      + destruct dk as [sd|]; [|discriminate].
        destruct (vw_node V (fp ++ [nm_name mk]) mk) eqn:En; [|discriminate E].
        apply Hnode in En. rewrite lenZ_app1 in En.
        pose proof (IH sd (fp ++ [nm_name mk]) Hshk) as B. rewrite lenZ_app1 in B.
        match type of E with Some ?t = _ => replace x with t by congruence end. lia.
      + destruct dk as [sd|]; [|discriminate].
        destruct (vw_node V (fp ++ [nm_name mk]) mk) eqn:En; [|discriminate E].
        apply Hnode in En. rewrite lenZ_app1 in En.
        pose proof (IH sd (fp ++ [nm_name mk]) Hshk) as B. rewrite lenZ_app1 in B.
        match type of E with Some ?t = _ => replace x with t by congruence end. lia.
    - destruct d as [v|dc|rows]; try discriminate. cbn [shaped] in Hsh. rewrite project_list.
      apply levels_list_le; [lia|]. intros r Hr. apply in_map_iff in Hr as (r0 & <- & Hr0).
      apply IHr. rewrite forallb_forall in Hsh. apply Hsh. eapply Hrows; eauto.
  Qed.
End Bounded.

(** the view of a parameter record keeps nothing deeper than its depth *)
Lemma params_view_leaf_depth p fp m : vw_leaf (params_view p) fp m = true -> lenZ fp <= p_depth p.
Proof.
  rewrite vw_leaf_params. intros H. repeat (apply andb_true_iff in H as [H _]). apply Z.leb_le. exact H.
Qed.
Lemma params_view_node_depth p fp m : vw_node (params_view p) fp m = true -> lenZ fp <= p_depth p.
Proof.
  rewrite vw_node_params. intros H. repeat (apply andb_true_iff in H as [H _]). apply Z.leb_le. exact H.
Qed.
Lemma In_window {A} (x : A) st en l : In x (window st en l) -> In x l.
Proof.
  unfold window. destruct (en =? -1); intros H.
  - eapply In_skipz; eauto.
  - eapply In_skipz. eapply In_takez; eauto.
Qed.
Lemma params_view_rows_in p fp rows r : In r (vw_rows (params_view p) fp rows) -> In r rows.
Proof.
  rewrite vw_rows_params. destruct (p_range p) as [[[ps st] en]|]; auto.
  destruct (selects_exactly ps fp); auto. apply In_window.
Qed.

(** THEOREM (list target): whatever the other parameters, every node of the result of a read
    with depth = n lies at most n levels below the list *)
Theorem read_list_depth_bound : forall p m keys row rows r,
  valid_params p -> wf_schema (SList m keys row) = true -> forallb (shaped row) rows = true ->
  read_list (Some p) m keys row rows = POk r -> levels (DList r) <= p_depth p.
Proof.
  intros p m keys row rows r Hv Hwf Hsh Hr.
  rewrite read_list_is_projection in Hr by auto. unfold spec_read_list in Hr.
  destruct (count_rows _ >? p_max_node p); [discriminate|]. injection Hr as <-.
  pose proof (project_levels (params_view p) (p_depth p)
                (params_view_leaf_depth p) (params_view_node_depth p) (params_view_rows_in p)
                (SList m keys row) (DList (full_rows row rows)) []) as B.
  rewrite project_list in B. unfold project_rows.
  assert (Hs : shaped (SList m keys row) (DList (full_rows row rows)) = true).
  { change (DList (full_rows row rows)) with (fill false (SList m keys row) (DList rows)).
    apply fill_shaped. exact Hsh. }
  specialize (B Hs). change (lenZ []) with 0 in B. destruct Hv. lia.
Qed.

(** ... and for a container-like target (module root, container, list entry) *)
Theorem read_content_depth_bound : forall p kids data c,
  valid_params p -> forallb wf_schema kids = true -> shaped (SCont root_meta kids) (DCont data) = true ->
  read_content (Some p) kids data = POk c -> levels (DCont c) <= p_depth p.
Proof.
  intros p kids data c Hv Hwf Hsh Hr.
  rewrite read_is_projection in Hr by auto. unfold spec_read in Hr.
  destruct (count_c _ >? p_max_node p); [discriminate|]. injection Hr as <-.
  pose proof (project_levels (params_view p) (p_depth p)
                (params_view_leaf_depth p) (params_view_node_depth p) (params_view_rows_in p)
                (SCont root_meta kids) (fill false (SCont root_meta kids) (DCont data)) []
                (fill_shaped _ _ false Hsh)) as B.
  unfold project, full_read. rewrite fill_cont in *. cbn [project_view] in *.
  change (lenZ []) with 0 in B. destruct Hv. lia.
Qed.

Lemma levels_nonneg d : 0 <= levels d.
Proof.
  destruct d as [v|c|rows]; [cbn; lia| |].
  - induction c as [|od c IH]; [cbn; lia|]. rewrite levels_cont_cons. destruct od; lia.
  - induction rows as [|r rs IH]; [cbn; lia|]. rewrite levels_list_cons. lia.
Qed.

(** conversely depth=n drops nothing that lies at most n levels below the target *)
Theorem project_depth_keeps : forall n s d fp, shaped s d = true ->
  levels d <= n - lenZ fp -> project_view (view_depth n) fp s d = d.
Proof.
  intros n. induction s as [m ty il dflt|m kids IHk|m keys row IHr] using snode_ind'; intros d fp Hsh Hl.
  - destruct d; reflexivity.
  - destruct d as [v|dc|rows]; try discriminate. rewrite shaped_cont in Hsh.
    cbn [project_view]. f_equal.
    assert (Hall : forall x, In (Some x) dc -> 1 + levels x <= n - lenZ fp).
    { intros x Hx. pose proof (levels_cont_in dc x Hx). lia. }
    clear Hl. revert dc Hsh Hall.
    induction IHk as [|k ks Hk _ IH]; intros [|d dc] Hsh Hall; cbn [map_kids shaped_kids] in *; try discriminate; auto.
    apply andb_true_iff in Hsh as [H1 H2].
    rewrite (IH dc H2) by (intros; apply Hall; now right).
    f_equal. destruct d as [x|]; [|destruct k; reflexivity].
    pose proof (Hall x (or_introl eq_refl)) as Hx. pose proof (levels_nonneg x) as Hx0.
    assert (Hle : (lenZ (fp ++ [nm_name (smeta k)]) <=? n) = true) by (rewrite lenZ_app1; apply Z.leb_le; lia).
    destruct k as [mk ty il dflt|mk kk|mk keys row]; cbn [smeta] in Hle;
      cbn [vw_leaf vw_node vw_trim view_depth andb negb]; rewrite Hle.
    + reflexivity.
    + f_equal. apply Hk; auto. rewrite lenZ_app1. lia.
    + f_equal. apply Hk; auto. rewrite lenZ_app1. lia.
  - destruct d as [v|dc|rows]; try discriminate. cbn [shaped] in Hsh. rewrite project_list.
    cbn [vw_rows view_depth]. unfold all_rows. f_equal.
    rewrite <- (map_id rows) at 2. apply map_ext_in. intros r Hr. apply IHr.
    + rewrite forallb_forall in Hsh. auto.
    + pose proof (levels_list_in rows r Hr). lia.
Qed.

(** * the hypotheses are satisfiable: list l { key k; container b { leaf y (default "e");
    container c { leaf z } } } with three entries *)
Definition mk (n : ident) : nmeta := mkMeta n [x6d] true [] None.
Definition ex_row : snode :=
  SCont (mk [x6c]) [SLeaf (mk [x6b]) TStr false None;
                    SCont (mk [x62]) [SLeaf (mk [x79]) TStr false (Some (LV (VStr [x65])));
                                      SCont (mk [x63]) [SLeaf (mk [x7a]) TStr false None]]].
Definition sv (s : list byte) : option dnode := Some (DLeaf (LV (VStr s))).
Definition ex_rows : list dnode :=
  [DCont [sv [x31]; Some (DCont [None; Some (DCont [sv [x39]])])];
   DCont [sv [x32]; None];
   DCont [sv [x33]; Some (DCont [sv [x38]; None])]].
Definition depth_only (n : Z) : option params := Some (mkParams n None None None 10000 None false).

Example read_list_example :
  wf_schema (SList (mk [x6c]) [0%nat] ex_row) = true /\ forallb (shaped ex_row) ex_rows = true /\
  (* depth=1: the entries with their leaves and (empty) containers *)
  read_list (depth_only 1) (mk [x6c]) [0%nat] ex_row ex_rows =
    POk [DCont [sv [x31]; Some (DCont [None; None])]; DCont [sv [x32]; None]; DCont [sv [x33]; Some (DCont [None; None])]] /\
  (* depth=2: b's leaves (y defaulted in the first entry) and c, empty *)
  read_list (depth_only 2) (mk [x6c]) [0%nat] ex_row ex_rows =
    POk [DCont [sv [x31]; Some (DCont [sv [x65]; Some (DCont [None])])]; DCont [sv [x32]; None];
         DCont [sv [x33]; Some (DCont [sv [x38]; None])]] /\
  (* depth=3 = no depth limit here *)
  read_list (depth_only 3) (mk [x6c]) [0%nat] ex_row ex_rows = read_list None (mk [x6c]) [0%nat] ex_row ex_rows /\
  (* fc.range on the target itself, two containers allowed, the second entry has none *)
  read_list (Some (mkParams 64 (Some ([[]], 1, 2)) None None 0 None false)) (mk [x6c]) [0%nat] ex_row ex_rows =
    POk [DCont [sv [x32]; None]] /\
  read_list (Some (mkParams 64 None None None 2 None false)) (mk [x6c]) [0%nat] ex_row ex_rows = PErr PConflict.
Proof. repeat split; vm_compute; reflexivity. Qed.
