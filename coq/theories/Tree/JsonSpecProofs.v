(** Facts about Tree/JsonSpec.v that do not depend on the writer: the canonical serialisation of
    every value tree is derivable in the RFC 8259 grammar, and the executable parser reads it back
    (exactly that value, nothing consumed beyond it). *)
From Coq Require Import ZArith List Bool Lia Strings.Byte.
From YV Require Import Val.Model Tree.JStr Tree.JsonSpec.
Import ListNotations.
Local Open Scope nat_scope.

(** induction principle for the nested type *)
Section JvalueInd.
  Variable P : jvalue -> Prop.
  Hypothesis Hnull : P JNull.
  Hypothesis Hbool : forall b, P (JBool b).
  Hypothesis Hnum : forall l, P (JNum l).
  Hypothesis Hstr : forall s, P (JStr s).
  Hypothesis Harr : forall l, Forall P l -> P (JArr l).
  Hypothesis Hobj : forall ms, Forall (fun kv => P (snd kv)) ms -> P (JObj ms).
  Fixpoint jvalue_ind2 (v : jvalue) : P v :=
    match v with
    | JNull => Hnull
    | JBool b => Hbool b
    | JNum l => Hnum l
    | JStr s => Hstr s
    | JArr l => Harr l ((fix go (l : list jvalue) : Forall P l :=
                           match l with
                           | [] => Forall_nil P
                           | x :: tl => Forall_cons x (jvalue_ind2 x) (go tl)
                           end) l)
    | JObj ms => Hobj ms ((fix go (l : list (list byte * jvalue)) : Forall (fun kv => P (snd kv)) l :=
                             match l with
                             | [] => Forall_nil _
                             | x :: tl => Forall_cons x (jvalue_ind2 (snd x)) (go tl)
                             end) ms)
    end.
End JvalueInd.

Fixpoint jsize (v : jvalue) : nat :=
  match v with
  | JArr l => S (fold_right (fun x a => S (jsize x) + a) 0 l)
  | JObj ms => S (fold_right (fun kv a => S (jsize (snd kv)) + a) 0 ms)
  | _ => 1
  end.

(** every number of the tree is a well-formed number lexeme *)
Fixpoint nums_ok (v : jvalue) : bool :=
  match v with
  | JNum l => number_lexeme l
  | JArr l => forallb nums_ok l
  | JObj ms => forallb (fun kv => nums_ok (snd kv)) ms
  | _ => true
  end.

Definition member_toks (kv : list byte * jvalue) : list jtok := KStr (fst kv) :: KColon :: toks_of (snd kv).

Lemma toks_of_obj ms : toks_of (JObj ms) = KLBrace :: join_comma (map member_toks ms) ++ [KRBrace].
Proof. reflexivity. Qed.
Lemma toks_of_arr l : toks_of (JArr l) = KLBrack :: join_comma (map toks_of l) ++ [KRBrack].
Proof. reflexivity. Qed.

Lemma join_comma_cons2 x y tl : join_comma (x :: y :: tl) = x ++ KComma :: join_comma (y :: tl).
Proof. reflexivity. Qed.

(** ** the serialisation is in the grammar *)
Lemma wf_toks_of : forall v, nums_ok v = true -> wf_value (toks_of v).
Proof.
  induction v using jvalue_ind2; intros Hn.
  - constructor.
  - destruct b; constructor.
  - constructor. exact Hn.
  - constructor.
  - rewrite toks_of_arr. destruct l as [|x tl]; [apply WArr0|]. apply WArr.
    cbn [nums_ok] in Hn. revert x H Hn. induction tl as [|y tl IH]; intros x H Hn.
    + cbn. apply WE1. inversion H; subst. apply H2. cbn in Hn. now rewrite andb_true_r in Hn.
    + cbn [map]. rewrite join_comma_cons2. inversion H; subst. cbn [forallb] in Hn.
      apply andb_true_iff in Hn as [Hx Hr]. apply WEc; [now apply H2|]. apply IH; assumption.
  - rewrite toks_of_obj. destruct ms as [|x tl]; [apply WObj0|]. apply WObj.
    cbn [nums_ok] in Hn. revert x H Hn. induction tl as [|y tl IH]; intros x H Hn.
    + cbn. apply WM1. inversion H; subst. apply H2. cbn in Hn. now rewrite andb_true_r in Hn.
    + cbn [map]. rewrite join_comma_cons2. inversion H; subst. cbn [forallb] in Hn.
      apply andb_true_iff in Hn as [Hx Hr]. unfold member_toks at 1.
      apply (WMc (fst x) (toks_of (snd x))); [now apply H2|]. apply IH; assumption.
Qed.

(** ** the parser reads the serialisation back *)
Definition val_start (t : jtok) : Prop := t <> KRBrack /\ t <> KRBrace.

Lemma toks_of_head v : exists t r, toks_of v = t :: r /\ val_start t.
Proof.
  destruct v as [| [|] | l | s | l | ms]; cbn [toks_of];
    eexists; eexists; (split; [reflexivity|]); split; discriminate.
Qed.

Lemma pval_arr f t r : t <> KRBrack ->
  pval (S f) (KLBrack :: t :: r) = match pelems f (t :: r) with Some (l, r') => Some (JArr l, r') | None => None end.
Proof. intros H. destruct t; try reflexivity. congruence. Qed.

Lemma pval_obj f t r : t <> KRBrace ->
  pval (S f) (KLBrace :: t :: r) = match pmems f (t :: r) with Some (l, r') => Some (JObj l, r') | None => None end.
Proof. intros H. destruct t; try reflexivity. congruence. Qed.

Definition elems_size (l : list jvalue) : nat := fold_right (fun x a => S (jsize x) + a) 0 l.
Definition mems_size (l : list (list byte * jvalue)) : nat := fold_right (fun kv a => S (jsize (snd kv)) + a) 0 l.

Definition pval_ok (v : jvalue) : Prop :=
  nums_ok v = true -> forall fuel rest, jsize v <= fuel -> pval fuel (toks_of v ++ rest) = Some (v, rest).

Lemma pelems_ok : forall l x, Forall pval_ok (x :: l) -> forallb nums_ok (x :: l) = true ->
  forall fuel rest, elems_size (x :: l) <= fuel ->
  pelems fuel (join_comma (map toks_of (x :: l)) ++ KRBrack :: rest) = Some (x :: l, rest).
Proof.
  induction l as [|y tl IH]; intros x HF Hn fuel rest Hf.
  - inversion HF; subst. cbn [forallb] in Hn. apply andb_true_iff in Hn as [Hx _].
    cbn [elems_size fold_right] in Hf. destruct fuel as [|f]; [lia|]. cbn [map join_comma pelems].
    rewrite (H1 Hx) by lia. reflexivity.
  - inversion HF; subst. cbn [forallb] in Hn. apply andb_true_iff in Hn as [Hx Hr].
    cbn [elems_size fold_right] in Hf.
    destruct fuel as [|f]; [lia|]. cbn [map]. rewrite join_comma_cons2. rewrite <- app_assoc. cbn [pelems app].
    rewrite (H1 Hx) by lia. change (map toks_of (y :: tl)) with (toks_of y :: map toks_of tl).
    specialize (IH y H2 Hr f rest). cbn [map] in IH. rewrite IH by (unfold elems_size; cbn [fold_right]; lia). reflexivity.
Qed.

Lemma pmems_ok : forall l x, Forall (fun kv => pval_ok (snd kv)) (x :: l) ->
  forallb (fun kv => nums_ok (snd kv)) (x :: l) = true ->
  forall fuel rest, mems_size (x :: l) <= fuel ->
  pmems fuel (join_comma (map member_toks (x :: l)) ++ KRBrace :: rest) = Some (x :: l, rest).
Proof.
  induction l as [|y tl IH]; intros x HF Hn fuel rest Hf.
  - inversion HF; subst. cbn [forallb] in Hn. apply andb_true_iff in Hn as [Hx _].
    cbn [mems_size fold_right] in Hf. destruct fuel as [|f]; [lia|].
    cbn [map join_comma]. unfold member_toks. cbn [pmems app].
    rewrite (H1 Hx) by lia. destruct x; reflexivity.
  - inversion HF; subst. cbn [forallb] in Hn. apply andb_true_iff in Hn as [Hx Hr].
    cbn [mems_size fold_right] in Hf.
    destruct fuel as [|f]; [lia|]. cbn [map]. rewrite join_comma_cons2. rewrite <- app_assoc.
    unfold member_toks at 1. cbn [pmems app].
    rewrite (H1 Hx) by lia.
    specialize (IH y H2 Hr f rest). cbn [map] in IH. rewrite IH by (unfold mems_size; cbn [fold_right]; lia). destruct x; reflexivity.
Qed.

Theorem pval_complete : forall v, pval_ok v.
Proof.
  induction v using jvalue_ind2; intros Hn fuel rest Hf; cbn [jsize] in Hf; (destruct fuel as [|f]; [lia|]).
  - reflexivity.
  - destruct b; reflexivity.
  - cbn in Hn. cbn. rewrite Hn. reflexivity.
  - reflexivity.
  - rewrite toks_of_arr. destruct l as [|x tl]; [reflexivity|].
    destruct (toks_of_head x) as (t & r & Ht & Hs & _).
    cbn [map]. assert (Hj : exists r', join_comma (toks_of x :: map toks_of tl) = t :: r').
    { destruct tl; cbn [map join_comma]; rewrite Ht; eexists; reflexivity. }
    destruct Hj as (r' & Hj). cbn [app]. rewrite <- app_assoc. cbn [app].
    pose proof (pelems_ok tl x H Hn f rest) as Hp. cbn [map] in Hp. rewrite Hj in *. cbn [app] in *.
    rewrite pval_arr by assumption. rewrite Hp; [reflexivity|]. unfold elems_size. lia.
  - rewrite toks_of_obj. destruct ms as [|x tl]; [reflexivity|].
    cbn [map]. assert (Hj : exists r', join_comma (member_toks x :: map member_toks tl) = KStr (fst x) :: r').
    { destruct tl; cbn [map join_comma]; unfold member_toks at 1; eexists; reflexivity. }
    destruct Hj as (r' & Hj). cbn [app]. rewrite <- app_assoc. cbn [app].
    pose proof (pmems_ok tl x H Hn f rest) as Hp. cbn [map] in Hp. rewrite Hj in *. cbn [app] in *.
    rewrite pval_obj by discriminate. rewrite Hp; [reflexivity|]. unfold mems_size. lia.
Qed.

Lemma jsize_le_toks v : jsize v <= length (toks_of v).
Proof.
  induction v using jvalue_ind2; cbn [jsize]; try (cbn; lia).
  - destruct b; cbn; lia.
  - rewrite toks_of_arr. cbn [length]. rewrite app_length. cbn [length].
    enough (fold_right (fun x a => S (jsize x) + a) 0 l <= S (length (join_comma (map toks_of l)))) by lia.
    induction l as [|x tl IH]; [cbn; lia|]. inversion H; subst. specialize (IH H3).
    cbn [fold_right]. destruct tl as [|y tl'].
    + cbn [map join_comma fold_right]. lia.
    + cbn [map]. rewrite join_comma_cons2. rewrite app_length. cbn [length]. cbn [map] in IH. lia.
  - rewrite toks_of_obj. cbn [length]. rewrite app_length. cbn [length].
    enough (fold_right (fun kv a => S (jsize (snd kv)) + a) 0 ms <= S (length (join_comma (map member_toks ms)))) by lia.
    induction ms as [|x tl IH]; [cbn; lia|]. inversion H; subst. specialize (IH H3).
    cbn [fold_right]. destruct tl as [|y tl'].
    + cbn [map join_comma fold_right]. unfold member_toks. cbn [length]. lia.
    + cbn [map]. rewrite join_comma_cons2. rewrite app_length. unfold member_toks at 1. cbn [length]. cbn [map] in IH. lia.
Qed.

(** the canonical token stream of a value parses as exactly that value, with nothing left over *)
Theorem parse_tokens_toks_of v : nums_ok v = true -> parse_tokens (toks_of v) = Some v.
Proof.
  intros Hn. unfold parse_tokens.
  pose proof (pval_complete v Hn (S (length (toks_of v))) [] ltac:(pose proof (jsize_le_toks v); lia)) as Hp.
  rewrite app_nil_r in Hp. rewrite Hp. reflexivity.
Qed.

Corollary serialisation_parses v : nums_ok v = true -> wf_value (toks_of v) /\ parse_tokens (toks_of v) = Some v.
Proof. intros H. split; [exact (wf_toks_of v H) | exact (parse_tokens_toks_of v H)]. Qed.
