(** C07's declarative reading of a query (spec side): which parameter values are valid and what
    they mean, stated as membership of each value in its grammar -
      depth               a decimal integer >= 1
      fc.max-node-count   a decimal integer >= 0
      content             config | nonconfig | all
      with-defaults       trim | report-all          (explicit, report-all-tagged: not supported)
      fields, fc.xfields  a path expression with balanced parentheses; its meaning is the
                          DENOTATION ([PathExpr.denote]) of the expression tree it is printed
                          from when the generator supplies one ([asts]), checked against the raw
                          value through [PathExpr.print]
      fc.range            selector '!' start [ '-' [ end ] ], unsigned rows
    [TBad] = some value is invalid (the property demands an error), [TUnk] = the case is
    inconsistent (expression tree and raw value differ): never produced by the harness.
    Independent of BuildConstraints' control flow; ReadingProofs.v proves both agree. *)
From Coq Require Import ZArith List Bool Strings.Byte Strings.String.
From YV Require Import Val.Model Tree.Schema Tree.PathExpr Tree.Params.
Import ListNotations.
Open Scope Z_scope.

Inductive tri (A : Type) := TOk (a : A) | TBad | TUnk.
Arguments TOk {A} a.
Arguments TBad {A}.
Arguments TUnk {A}.
Definition tbind {A C} (x : tri A) (f : A -> tri C) : tri C :=
  match x with TOk a => f a | TBad => TBad | TUnk => TUnk end.

Definition wf_identb (n : ident) : bool :=
  match n with [] => false | _ => forallb (fun b => match delim_token b with None => true | Some _ => false end) n end.
Fixpoint wf_exprb (e : pexpr) : bool :=
  match e with
  | XSeg n => wf_identb n
  | XSeq a b | XAlt a b => wf_exprb a && wf_exprb b
  end.

Definition ast_for (name : list byte) (asts : list (list byte * pexpr)) : option pexpr :=
  match find (fun a => bytes_eqb (fst a) name) asts with Some (_, e) => Some e | None => None end.

Definition read_expr (name v : list byte) (asts : list (list byte * pexpr)) : tri paths :=
  match ast_for name asts with
  | Some e => if bytes_eqb (print_top e) v && wf_exprb e then TOk (denote e) else TUnk
  | None =>
      if balanced v 0
      then match parse_path_expr v with POk ps => TOk ps | PErr _ => TUnk end
      else TBad
  end.

Definition r_depth (q : query) : tri Z :=
  match lookup (B "depth") q with
  | None => TOk 64
  | Some v => match atoi v with Some n => if 1 <=? n then TOk n else TBad | None => TBad end
  end.
Definition r_max_node (q : query) : tri Z :=
  match lookup (B "fc.max-node-count") q with
  | None => TOk 10000
  | Some v => match atoi v with Some n => if 0 <=? n then TOk n else TBad | None => TBad end
  end.
Definition r_content (q : query) : tri (option content_mode) :=
  match lookup (B "content") q with
  | None => TOk None
  | Some v => if bytes_eqb v (B "config") then TOk (Some CConfig)
              else if bytes_eqb v (B "nonconfig") then TOk (Some CNonconfig)
              else if bytes_eqb v (B "all") then TOk (Some CAll) else TBad
  end.
Definition r_trim (q : query) : tri bool :=
  match lookup (B "with-defaults") q with
  | None => TOk false
  | Some v => if bytes_eqb v (B "trim") then TOk true
              else if bytes_eqb v (B "report-all") then TOk false else TBad
  end.
Definition r_expr (name : list byte) (q : query) (asts : list (list byte * pexpr)) : tri (option paths) :=
  match lookup name q with
  | None => TOk None
  | Some v => tbind (read_expr name v asts) (fun ps => TOk (Some ps))
  end.
Definition r_range (q : query) (asts : list (list byte * pexpr)) : tri (option (paths * Z * Z)) :=
  match lookup (B "fc.range") q with
  | None => TOk None
  | Some v =>
      match cut_at x21 v [] with
      | None => TBad
      | Some (sel, rows) =>
          let rows_ok : option (Z * Z) :=
            match cut_at x2d rows [] with
            | None => match atoi rows with Some st => Some (st, -1) | None => None end
            | Some (st, en) =>
                match atoi st, en with
                | Some s, [] => Some (s, -1)
                | Some s, _ => match cut_at x2d en [], atoi en with
                               | None, Some e => Some (s, e)
                               | _, _ => None
                               end
                | None, _ => None
                end
            end in
          match rows_ok with
          | Some (st, en) => tbind (read_expr (B "fc.range") sel asts) (fun ps => TOk (Some (ps, st, en)))
          | None => TBad
          end
      end
  end.

Definition interpret (q : query) (asts : list (list byte * pexpr)) : tri (option params) :=
  match q with
  | [] => TOk None
  | _ =>
      tbind (r_depth q) (fun d =>
      tbind (r_range q asts) (fun r =>
      tbind (r_expr (B "fields") q asts) (fun f =>
      tbind (r_expr (B "fc.xfields") q asts) (fun x =>
      tbind (r_max_node q) (fun n =>
      tbind (r_content q) (fun c =>
      tbind (r_trim q) (fun t =>
      TOk (Some (mkParams d r f x n c t)))))))))
  end.
