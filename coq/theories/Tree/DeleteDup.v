(** C18, additions for (a) payloads that name one key twice and (b) struct-backed reflection
    targets holding zero-valued keys and all-zero entries.

    (a) node/edit.go editor.list looks every source row up in the target list AS IT IS AT THAT
        MOMENT (rows appended for earlier source rows included), also when the list node itself was
        created by this edit.  The model (Editor.row_loop) already does so; the specification side
        [spec_op] (Tree/Delete.v) left an insert whose payload repeats a key undefined (it described a
        merge).  [spec_op2] pins it: such an insert is a CONFLICT (the entry exists by the time
        it is mentioned again) - at a list, or at the container a replace re-creates.
    (b) a Go struct field cannot be unset: nodeutil.Node / nodeutil.Reflect over structs read the zero
        value back as a leaf.  Struct-backed targets are compared modulo zero-valued NON-KEY leaves
        ([znorm]); key leaves are never dropped, so an entry with key 0 or "" keeps its key, and the
        uniqueness and found-under-its-key oracles see exactly the stored keys (DeleteDupProofs.v). *)
From Coq Require Import ZArith List Bool Arith Strings.Byte.
From YV Require Import Val.Model Tree.Schema Tree.Editor Tree.Merge Tree.Delete.
Import ListNotations.

(** * (a) repeated keys in one insert payload *)
Definition dup_default : snode := SCont (mkMeta [] [] true [] None) [].

(** does the content [src] hold, at position [i] (a list), two rows with equal usable keys? *)
Definition src_list_repeats (kids : list snode) (i : nat) (src : content) : bool :=
  match nth i kids dup_default, nth i src None with
  | SList _ keys _, Some (DList srows) => negb (rows_unique keys srows)
  | _, _ => false
  end.

Definition spec_op2 (kids : list snode) (tgt : content) (o : op) : res content :=
  match o with
  | OpInsertRows i srows =>
      match nth i kids dup_default, nth i tgt None with
      | SList _ keys _, Some (DList _) =>
          if negb (rows_unique keys srows) then Err EConflict else spec_op kids tgt o
      | _, _ => spec_op kids tgt o
      end
  | OpReplaceKid i src => if src_list_repeats kids i src then Err EConflict else spec_op kids tgt o
  | _ => spec_op kids tgt o
  end.

(** * (b) projection for struct-backed targets *)
Definition zero_lval (v : lval) : bool :=
  match v with
  | LV (VInt _ z) => Z.eqb z 0
  | LV (VStr []) => true
  | _ => false
  end.

Definition is_key (keys : list nat) (i : nat) : bool := existsb (Nat.eqb i) keys.

Definition znorm_kids (rec : snode -> dnode -> dnode) (keys : list nat) : list snode -> nat -> content -> content :=
  fix go (ks : list snode) (i : nat) (c : content) {struct ks} : content :=
    match ks, c with
    | k :: ks', d :: c' =>
        (match d with
         | None => None
         | Some dn =>
             match k, dn with
             | SLeaf _ _ _ _, DLeaf v => if zero_lval v && negb (is_key keys i) then None else Some dn
             | SLeaf _ _ _ _, _ => Some dn
             | _, _ => Some (rec k dn)
             end
         end) :: go ks' (S i) c'
    | _, _ => c
    end.

(** [znorm s keys d]: [keys] = key positions when [d] is a list entry of a list with row schema [s] *)
Fixpoint znorm (s : snode) (keys : list nat) (d : dnode) {struct s} : dnode :=
  match s, d with
  | SCont _ kids, DCont c => DCont (znorm_kids (fun k dn => znorm k [] dn) keys kids O c)
  | SList _ ks row, DList rows => DList (map (znorm row ks) rows)
  | _, _ => d
  end.

Definition znorm_content (kids : list snode) (c : content) : content :=
  znorm_kids (fun k dn => znorm k [] dn) [] kids O c.

Definition znorm_res (kids : list snode) (r : res content) : res content :=
  match r with Ok c => Ok (znorm_content kids c) | Err e => Err e end.
