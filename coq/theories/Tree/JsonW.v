(** Executable model of nodeutil/json_wtr.go (JSONWtr) as driven by node/edit.go.

    JSONWtr.Node() is a write-only node: the editor (Selection.InsertInto / UpsertInto) walks the
    SOURCE in schema order (container_meta_list.go: chosen case only), and for everything it finds
    calls the writer's Child{New}/Next{New}/Field{Write}/EndEdit callbacks; lookups with New=false
    always answer "not there".  Two steps:
      [visit]  what the editor delivers to a write-only target: the source content restricted to
               the chosen cases, plus the schema default of every unset leaf of a node that is new
               at the target (everything below the start selection);  Editor.v's [edit_one] with an
               empty reference store as target yields the same tree (Tree/JsonRProofs.v, C04);
      [wnode]  the token stream the callbacks write for that sequence: one [container(lvl)] closure
               per node = one invocation of [wkids]/[wrows], its [first] variable = the threaded
               flag, [delim] = comma unless first, then line feed + 2*lvl spaces when Pretty.
    Model of the code AFTER the fixes "type empty is [null]" and "indent beyond the padding constant".
    The output is a token list; [render] (JsonSpec.v) gives the bytes written to Out. *)
From Coq Require Import ZArith List Bool Strings.Byte.
From YV Require Import Val.Model Tree.Schema Tree.Export Tree.JStr Tree.JsonSpec Tree.JsonExp.
Import ListNotations.
Open Scope Z_scope.

(** option-lifted append: an error (None) anywhere aborts the write *)
Definition oapp {A} (a b : option (list A)) : option (list A) :=
  match a, b with Some x, Some y => Some (x ++ y) | _, _ => None end.
Infix "+++" := oapp (at level 60, right associativity).

Section Writer.
  Variable cfg : wcfg.
  Variable fmt_float : Z -> Z -> list byte.   (* oracle: strconv.FormatFloat(m*2^e, 'f', -1, 64) *)
  Variable idmod : ident -> option ident.     (* meta.FindIdentity(bases, label) then meta.RootModule *)

  (** delim() of container(lvl) *)
  Definition delim (lvl : nat) (first : bool) : list jtok :=
    (if first then [] else [KComma]) ++ (if c_pretty cfg then [KWs lvl] else []).

  (** JSONWtr.ident *)
  Definition wname (top : bool) (pmod : ident) (m : nmeta) : list byte :=
    member_name (c_qualify cfg) top pmod m.

  (** the switch on item.Format() inside writeValue *)
  Definition witem (lmod : ident) (v : lval) : option (list jtok) :=
    match v with
    | LV (VIdRef l) =>
        match idmod l with
        | None => None                                                   (* "could not find ident" *)
        | Some im => Some [KStr (if ident_eqb im lmod then l else im ++ x3a :: l)]
        end
    | LV (VStr s) => Some [KStr s]
    | LV (VBin s) => Some [KStr s]
    | LBits names => Some [KStr (join_sp names)]
    | LV (VEnum id l) => Some (if c_enum_ids cfg then [KNum (z_dec id)] else [KStr l])
    | LV (VDec m e) => Some [KNum (fmt_float m e)]
    | LV (VInt _ z) => Some [KNum (z_dec z)]                              (* default: item.String() unquoted *)
    | LV (VBool b) => Some [if b then KTrue else KFalse]
    | LEmpty => Some [KLBrack; KNull; KRBrack]                            (* case val.FmtEmpty (fix) *)
    | LList _ => None
    end.

  (** val.Reduce over a list value: comma before every item but the first *)
  Fixpoint witems (lmod : ident) (items : list lval) (first : bool) : option (list jtok) :=
    match items with
    | [] => Some []
    | v :: tl => Some (if first then [] else [KComma]) +++ witem lmod v +++ witems lmod tl false
    end.

  (** writeValue *)
  Definition wvalue (lmod : ident) (v : lval) : option (list jtok) :=
    match v with
    | LList items => Some [KLBrack] +++ witems lmod items true +++ Some [KRBrack]
    | _ => witem lmod v
    end.
  Definition wleaf (top : bool) (pmod : ident) (m : nmeta) (v : lval) : option (list jtok) :=
    Some [KName (wname top pmod m); KColon] +++ wvalue (nm_mod m) v.

  (** container(lvl) of a container-like node: OnField / OnChild{New} per delivered kid *)
  Definition wkids (wkid : snode -> dnode -> option (list jtok)) (lvl : nat)
    : list snode -> content -> bool -> option (list jtok) :=
    fix go ks cs first :=
      match ks, cs with
      | k :: ks', Some dk :: cs' => Some (delim lvl first) +++ wkid k dk +++ go ks' cs' false
      | _ :: ks', None :: cs' => go ks' cs' first
      | [], [] => Some []
      | _, _ => None
      end.

  (** container(lvl) of a list: OnNext{New} per row - delim, beginObject, the row's own
      container(lvl+1), whose OnEndEdit (InsideList) closes the object *)
  Definition wrows (wrow : dnode -> option (list jtok)) (lvl : nat) : list dnode -> bool -> option (list jtok) :=
    fix go rs first :=
      match rs with
      | [] => Some []
      | r :: rs' => Some (delim lvl first ++ [KLBrace]) +++ wrow r +++ Some [KRBrace] +++ go rs' false
      end.

  (** what is written between the brackets of node [s] *)
  Fixpoint wnode (lvl : nat) (top : bool) (s : snode) (d : dnode) {struct s} : option (list jtok) :=
    match s, d with
    | SCont m kids, DCont c =>
        wkids (fun k dk =>
                 match k, dk with
                 | SLeaf km _ _ _, DLeaf v => wleaf top (nm_mod m) km v
                 | SCont km _, DCont _ =>
                     (* beginContainer ... child container(lvl+1) ... its OnEndEdit: endContainer *)
                     Some [KName (wname top (nm_mod m) km); KColon; KLBrace] +++ wnode (S lvl) false k dk +++ Some [KRBrace]
                 | SList km _ _, DList _ =>
                     (* beginList ... child container(lvl+1) ... its OnEndEdit: endList *)
                     Some [KName (wname top (nm_mod m) km); KColon; KLBrack] +++ wnode (S lvl) false k dk +++ Some [KRBrack]
                 | _, _ => None
                 end) lvl kids c true
    | SList _ _ row, DList rows => wrows (fun r => wnode (S lvl) false row r) lvl rows true
    | _, _ => None
    end.

  (** JSONWtr.Node(): the outermost Extend - OnBeginEdit: beginObject (+ beginList(ident) for a
      list); Base = container(0); OnEndEdit: (endList) endContainer Flush *)
  Definition wstart (st : start) : option (list jtok) :=
    match st with
    | StCont top s d =>
        match s with
        | SCont _ _ => Some [KLBrace] +++ wnode 0 top s (visit false s d) +++ Some [KRBrace]
        | _ => None
        end
    | StList top pmod s d =>
        match s with
        | SList _ _ _ =>
            Some [KLBrace; KName (wname top pmod (smeta s)); KColon; KLBrack] +++
            wnode 0 false s (visit true s d) +++ Some [KRBrack; KRBrace]
        | _ => None
        end
    | StLeaf m v =>
        match v with
        | None => Some [KLBrace; KRBrace]
        | Some v => Some (KLBrace :: delim 0 true) +++ wleaf false (nm_mod m) m v +++ Some [KRBrace]
        end
    end.

  (** the bytes handed to Out (when no error occurs) *)
  Definition write_bytes (st : start) : option (list byte) := option_map render (wstart st).
End Writer.

(** * the output stream: bufio.Writer over Out, sticky error, final Flush

    The writer issues a sequence of writes; some results are checked (the write is abandoned with
    that error), some are ignored (writeIdent inside writeValue, the pretty-print padding).  A
    bufio.Writer keeps the first error of the underlying stream and returns it from every later
    write and from Flush; JSONWtr's outermost OnEndEdit returns the result of Flush, and
    editor.enter returns the error of endEdit.  [sink_ok n k]: the stream accepts the first [n]
    bytes only. *)
Record bstate := mkB { b_buf : list byte; b_sent : nat; b_err : bool }.
Definition bufsize : nat := 4096.

(** hand [chunk] to the underlying stream that fails once more than [cap] bytes were offered *)
Definition sink_write (cap : option nat) (st : bstate) (chunk : list byte) : bstate :=
  if b_err st then st else
  match cap with
  | Some n => if Nat.ltb n (b_sent st + length chunk)
              then mkB [] (b_sent st) true
              else mkB [] (b_sent st + length chunk) false
  | None => mkB [] (b_sent st + length chunk) false
  end.

(** bufio.Writer.Write: flush when the buffer fills (modelled at the granularity that matters:
    whenever more than [bufsize] bytes are pending everything pending is handed on) *)
Definition buf_write (cap : option nat) (st : bstate) (p : list byte) : bstate :=
  if b_err st then st else
  let pend := b_buf st ++ p in
  if Nat.ltb bufsize (length pend) then sink_write cap (mkB [] (b_sent st) false) pend
  else mkB pend (b_sent st) false.
Definition buf_flush (cap : option nat) (st : bstate) : bstate :=
  if b_err st then st else sink_write cap (mkB [] (b_sent st) false) (b_buf st).

(** a write operation: bytes and whether its error result is looked at *)
Definition wop := (list byte * bool)%type.
(** run the operations; a checked failing write aborts the remaining ones (the editor unwinds);
    in every case the deferred endEdit flushes and its error is returned.  Result: error? *)
Fixpoint run_ops (cap : option nat) (st : bstate) (ops : list wop) : bstate :=
  match ops with
  | [] => st
  | (p, checked) :: tl =>
      let st' := buf_write cap st p in
      if checked && b_err st' then st' else run_ops cap st' tl
  end.
Definition stream_result (cap : option nat) (ops : list wop) : bool :=   (* true = an error is returned *)
  b_err (buf_flush cap (run_ops cap (mkB [] 0 false) ops)).

(** write operations of a token stream: whitespace (and names inside writeValue) are written without
    looking at the result; under the sticky error that cannot matter (JsonWProofs.stream_error_returned) *)
Definition ops_of (ts : list jtok) : list wop := map (fun t => (render_tok t, negb (is_ws t))) ts.
