(** What "the same tree" means for C19 (the spec oracle of Check/C19Check.v and the statement of
    Props/C19.v).  Two stores hold the same YANG data when they agree after
      (a) giving every unset leaf its schema default (RFC 7950 7.6.1: the default is in use),
      (b) forgetting lists without entries and leaf-lists without items (neither YANG data trees
          nor XML have such a thing).
    Plain positional recursion, independent of writers, reader and editor. *)
From Coq Require Import ZArith List Bool Strings.Byte.
From YV Require Import Val.Model Tree.Schema Tree.XmlEsc.
Import ListNotations.

Definition leaf_canon (dflt : option lval) (d : option dnode) : option dnode :=
  match d with
  | None | Some (DLeaf (LList [])) => option_map DLeaf dflt
  | Some x => Some x
  end.
Fixpoint canon (s : snode) (d : dnode) {struct s} : dnode :=
  match s, d with
  | SCont _ kids, DCont c =>
      DCont ((fix go (ks : list snode) (c : content) {struct ks} : content :=
                match ks, c with
                | k :: ks', od :: c' =>
                    (match k with
                     | SLeaf _ _ _ dflt => leaf_canon dflt od
                     | SCont _ _ => option_map (canon k) od
                     | SList _ _ _ =>
                         match od with
                         | Some (DList []) | None => None
                         | Some l => Some (canon k l)
                         end
                     end) :: go ks' c'
                | _, _ => []
                end) kids c)
  | SList _ _ row, DList rows => DList (map (canon row) rows)
  | _, _ => d
  end.
Definition same_tree (s : snode) (a b : dnode) : bool := dnode_eqb (canon s a) (canon s b).

(** every string is made of characters XML 1.0 can carry (RFC 7950 9.4: that is what a YANG string is) *)
Fixpoint lval_texts_ok (v : lval) : bool :=
  match v with
  | LV (VStr s) => xml_okb s
  | LList items => forallb lval_texts_ok items
  | _ => true
  end.
Fixpoint texts_ok (d : dnode) : bool :=
  match d with
  | DLeaf v => lval_texts_ok v
  | DCont c => forallb (fun o => match o with Some x => texts_ok x | None => true end) c
  | DList rows => forallb texts_ok rows
  end.
