(** C04, first half: reading a data tree out through the editor into an empty store delivers
    exactly [Export.visit] - every set leaf, leaf-list, container and list entry once, in schema
    order, entries in source order, the chosen case only, plus the schema default of every unset
    leaf of a node that is new at the target; nothing else.  Proved about Editor.v's [edit_one]
    (upsert and insert) for every schema and every well-formed data tree. *)
From Coq Require Import ZArith List Bool Lia Strings.Byte.
From YV Require Import Val.Model Tree.Schema Tree.Editor Tree.Export.
Import ListNotations.
Local Open Scope nat_scope.

(** ** well-formed data: shaped like the schema, and no list entry's key equals the key of an
    earlier exported entry (list keys are unique) *)
Definition all_kids (f : snode -> dnode -> bool) : list snode -> content -> bool :=
  fix go ks cs :=
    match ks, cs with
    | [], [] => true
    | k :: ks', d :: cs' => (match d with None => true | Some dn => f k dn end) && go ks' cs'
    | _, _ => false
    end.

Fixpoint rows_distinct (keys : list nat) (vis : dnode -> dnode) (done todo : list dnode) : bool :=
  match todo with
  | [] => true
  | sr :: tl =>
      (if key_usable (row_key keys sr)
       then match find_row keys (row_key keys sr) done O with Some _ => false | None => true end
       else true)
      && rows_distinct keys vis (done ++ [vis sr]) tl
  end.

Fixpoint wfd (s : snode) (d : dnode) {struct s} : bool :=
  match s, d with
  | SLeaf _ _ _ _, DLeaf _ => true
  | SCont _ kids, DCont c => all_kids (fun k dk => wfd k dk) kids c
  | SList _ keys row, DList rows =>
      match row with
      | SCont _ _ => forallb (fun r => wfd row r) rows && rows_distinct keys (fun r => visit true row r) [] rows
      | _ => false
      end
  | _, _ => false
  end.

(** ** named copies of the loops inside [edit_one] (checked to be the same terms by reflexivity) *)
Definition edit_kids (rec : snode -> dnode -> dnode -> bool -> strategy -> res dnode)
  (kids : list snode) (sc : content) (new : bool) (st : strategy) : list snode -> nat -> content -> res content :=
  fix go (ks : list snode) (i : nat) (tc : content) {struct ks} : res content :=
    match ks with
    | [] => Ok tc
    | k :: ks' =>
        if negb (guard_selected (sguard k) kids sc) then go ks' (S i) tc else
        match k with
        | SLeaf _ _ _ dflt =>
            let usedflt := (negb (strategy_eqb st Update) && new) || false in
            let v := match nth i sc None with
                     | Some d => Some d
                     | None => if usedflt then option_map DLeaf dflt else None
                     end in
            match v with
            | None => go ks' (S i) tc
            | Some d =>
                let tc1 := if strategy_eqb st Upsert then clear_other_case k kids tc else tc in
                go ks' (S i) (set_nth i (Some d) tc1)
            end
        | _ =>
            match nth i sc None with
            | None => go ks' (S i) tc
            | Some sd =>
                let old := nth i tc None in
                let step (tc1 : content) (td : dnode) (newc : bool) :=
                  match rec k sd td newc st with
                  | Ok td' => go ks' (S i) (set_nth i (Some td') tc1)
                  | Err e => Err e
                  end in
                match st with
                | Insert => match old with Some _ => Err EConflict | None => step tc (empty_node k) true end
                | Upsert =>
                    let tc1 := clear_other_case k kids tc in
                    match old with Some td => step tc1 td false | None => step tc1 (empty_node k) true end
                | Update => match old with Some td => step tc td false | None => Err ENotFound end
                end
            end
        end
    end.

Lemma edit_one_cont m kids sc tc new st :
  edit_one false (SCont m kids) (DCont sc) (DCont tc) new st =
  match edit_kids (edit_one false) kids sc new st kids O tc with Ok tc' => Ok (DCont tc') | Err e => Err e end.
Proof. reflexivity. Qed.

Definition edit_rows (rec : snode -> dnode -> dnode -> bool -> strategy -> res dnode)
  (keys : list nat) (row : snode) (st : strategy) : list dnode -> list dnode -> res (list dnode) :=
  fix rows (srs : list dnode) (trows : list dnode) {struct srs} : res (list dnode) :=
    match srs with
    | [] => Ok trows
    | sr :: srs' =>
        let key := row_key keys sr in
        let found := if key_usable key then find_row keys key trows O else None in
        match st, found with
        | Update, None => Err ENotFound
        | Insert, Some _ => Err EConflict
        | _, Some j =>
            match rec row sr (nth j trows (DCont [])) false (match st with Update => Update | _ => Upsert end) with
            | Ok tr' => rows srs' (set_nth j tr' trows)
            | Err e => Err e
            end
        | _, None =>
            match rec row sr (empty_node row) true Upsert with
            | Ok tr' => rows srs' (trows ++ [tr'])
            | Err e => Err e
            end
        end
    end.

Lemma edit_one_list m keys row srows trows new st :
  edit_one false (SList m keys row) (DList srows) (DList trows) new st =
  match edit_rows (edit_one false) keys row st srows trows with Ok r => Ok (DList r) | Err e => Err e end.
Proof. reflexivity. Qed.

(** ** list helpers *)
Lemma set_nth_length {A} (x : A) : forall l i, length (set_nth i x l) = length l.
Proof. induction l as [|h t IH]; intros [|i]; cbn; auto. Qed.

Lemma nth_set_nth_same {A} (x d : A) : forall l i, i < length l -> nth i (set_nth i x l) d = x.
Proof. induction l as [|h t IH]; intros [|i] H; cbn in *; try lia; auto; try (apply IH; lia). Qed.

Lemma nth_set_nth_other {A} (x d : A) : forall l i j, i <> j -> nth j (set_nth i x l) d = nth j l d.
Proof.
  induction l as [|h t IH]; intros [|i] [|j] H; cbn; auto; try lia; try (apply IH; lia).
Qed.

Lemma firstn_set_nth {A} (x : A) : forall l i, i < length l ->
  firstn (S i) (set_nth i x l) = firstn i l ++ [x].
Proof.
  induction l as [|h t IH]; intros [|i] H; cbn in *; try lia; auto; try (f_equal; apply IH; lia).
Qed.

Lemma firstn_S_nth {A} (d : A) : forall l i, i < length l -> firstn (S i) l = firstn i l ++ [nth i l d].
Proof.
  induction l as [|h t IH]; intros [|i] H; cbn in *; try lia; auto; try (f_equal; apply IH; lia).
Qed.

Lemma skipn_nth_error {A} : forall (l : list A) i k ks, skipn i l = k :: ks ->
  nth_error l i = Some k /\ skipn (S i) l = ks /\ i < length l.
Proof.
  induction l as [|h t IH]; intros [|i] k ks H; cbn in *; try discriminate.
  - injection H as -> ->. repeat split. lia.
  - destruct (IH i k ks H) as (HA & HB & HC). repeat split; auto. lia.
Qed.

(** ** the choice bookkeeping of upsert is a no-op when everything written so far and the node
    being written belong to the cases chosen in the source *)
Lemma guard_selected_in g kids sc : guard_selected g kids sc = true ->
  forall c k, In (c, k) g -> choose c kids sc = Some k.
Proof.
  induction g as [|[c0 k0] tl IH]; intros H c k Hin; [contradiction|].
  cbn [guard_selected] in H. destruct (choose c0 kids sc) as [k'|] eqn:E; [|discriminate].
  apply andb_true_iff in H as [H1 H2]. apply Nat.eqb_eq in H1. subst k'.
  destruct Hin as [Heq|Hin]; [injection Heq as <- <-; exact E | apply IH; assumption].
Qed.

Lemma guard_case_in c g k : guard_case c g = Some k -> In (c, k) g.
Proof.
  induction g as [|[c0 k0] tl IH]; cbn; [discriminate|].
  destruct (Nat.eqb c c0) eqn:E; intros H.
  - apply Nat.eqb_eq in E. subst. injection H as <-. left. reflexivity.
  - right. apply IH. exact H.
Qed.

Lemma innermost_in g c k : innermost g = Some (c, k) -> In (c, k) g.
Proof.
  unfold innermost. induction g as [|x tl IH]; cbn; [discriminate|].
  destruct tl as [|y tl']; cbn in *.
  - intros H. injection H as ->. left. reflexivity.
  - intros H. right. apply IH. exact H.
Qed.

Lemma cases_with_data_in c : forall kids tc y, In y (cases_with_data c kids tc) ->
  exists j kj, nth_error kids j = Some kj /\ guard_case c (sguard kj) = Some y /\ present (nth j tc None) = true.
Proof.
  induction kids as [|s kids IH]; intros tc y H; [contradiction|].
  destruct tc as [|d tc]; [contradiction|]. cbn [cases_with_data] in H.
  destruct (guard_case c (sguard s)) as [k|] eqn:Eg; [destruct (present d) eqn:Ep|].
  - destruct H as [<-|H].
    + exists 0, s. repeat split; auto.
    + destruct (IH tc y H) as (j & kj & A & B & C). exists (S j), kj. repeat split; auto.
  - destruct (IH tc y H) as (j & kj & A & B & C). exists (S j), kj. repeat split; auto.
  - destruct (IH tc y H) as (j & kj & A & B & C). exists (S j), kj. repeat split; auto.
Qed.

Lemma fold_min_const k : forall l, (forall y, In y l -> y = k) -> fold_left Nat.min l k = k.
Proof.
  induction l as [|x tl IH]; intros H; [reflexivity|]. cbn. rewrite (H x (or_introl eq_refl)), Nat.min_id.
  apply IH. intros y Hy. apply H. right. exact Hy.
Qed.

Definition written_visible (kids : list snode) (sc tc : content) : Prop :=
  forall j kj, nth_error kids j = Some kj -> present (nth j tc None) = true ->
               guard_selected (sguard kj) kids sc = true.

Lemma clear_noop kids sc tc k :
  guard_selected (sguard k) kids sc = true -> written_visible kids sc tc ->
  clear_other_case k kids tc = tc.
Proof.
  intros Hk Hw. unfold clear_other_case.
  assert (Hin : forall c kc, In (c, kc) (rev (sguard k)) -> In (c, kc) (sguard k)).
  { intros c kc H. apply in_rev. exact H. }
  induction (rev (sguard k)) as [|[c kc] l IH]; [reflexivity|].
  cbn [fold_left].
  assert (Hstep : match choose c kids tc with
                  | Some k' => if Nat.eqb kc k' then tc else clear_case c k' kids tc
                  | None => tc
                  end = tc).
  { pose proof (guard_selected_in _ _ _ Hk c kc (Hin c kc (or_introl eq_refl))) as Hc.
    destruct (choose c kids tc) as [k'|] eqn:Ech; [|reflexivity].
    assert (k' = kc); [|subst; now rewrite Nat.eqb_refl].
    unfold choose in Ech. destruct (cases_with_data c kids tc) as [|x tl] eqn:El; [discriminate|].
    injection Ech as <-.
    assert (Hall : forall y, In y (x :: tl) -> y = kc).
    { intros y Hy. rewrite <- El in Hy. destruct (cases_with_data_in c kids tc y Hy) as (j & kj & A & B & C).
      pose proof (guard_selected_in _ _ _ (Hw j kj A C) c y (guard_case_in _ _ _ B)) as Hy'. congruence. }
    rewrite (Hall x (or_introl eq_refl)). apply fold_min_const. intros y Hy. apply Hall. right. exact Hy. }
  rewrite Hstep. apply IH. intros c' kc' H. apply Hin. right. exact H.
Qed.

Lemma written_visible_set kids sc tc i k d :
  nth_error kids i = Some k -> guard_selected (sguard k) kids sc = true ->
  written_visible kids sc tc -> written_visible kids sc (set_nth i d tc).
Proof.
  intros Hk Hv Hw j kj Hj Hp. destruct (Nat.eq_dec i j) as [->|Hne].
  - congruence.
  - rewrite nth_set_nth_other in Hp by assumption. apply (Hw j kj Hj Hp).
Qed.

Lemma all_kids_nth f : forall kids sc i k sd, all_kids f kids sc = true ->
  nth_error kids i = Some k -> nth i sc None = Some sd -> f k sd = true.
Proof.
  induction kids as [|s kids IH]; intros sc i k sd H Hk Hd; [destruct i; discriminate|].
  destruct sc as [|d sc]; [discriminate|]. cbn [all_kids] in H. apply andb_true_iff in H as [H1 H2].
  destruct i as [|i]; cbn in *.
  - injection Hk as ->. subst d. exact H1.
  - apply (IH sc i k sd H2 Hk Hd).
Qed.

Lemma all_kids_length f : forall kids sc, all_kids f kids sc = true -> length sc = length kids.
Proof.
  induction kids as [|s kids IH]; intros [|d sc] H; cbn in *; try discriminate; auto.
  apply andb_true_iff in H as [_ H]. f_equal. apply IH. exact H.
Qed.

(** ** the container loop *)
Section Kids.
  Variable rec : snode -> dnode -> dnode -> bool -> strategy -> res dnode.
  Variable kids : list snode.
  Variable sc : content.
  Variable new : bool.
  Variable st : strategy.
  Hypothesis Hst : st <> Update.
  Hypothesis Hrec : forall i k sd, nth_error kids i = Some k -> nth i sc None = Some sd -> is_leaf k = false ->
                      rec k sd (empty_node k) true st = Ok (visit true k sd).

  Notation vk := (fun k sd => visit true k sd).

  Lemma edit_kids_export : forall ks i tc,
    skipn i kids = ks -> length tc = length kids ->
    (forall j, i <= j -> nth j tc None = None) ->
    written_visible kids sc tc ->
    edit_kids rec kids sc new st ks i tc = Ok (firstn i tc ++ visit_kids vk new kids sc ks i).
  Proof.
    induction ks as [|k ks IH]; intros i tc Hsk Hlen Hnone Hw.
    - cbn. f_equal. assert (length kids <= i).
      { destruct (Nat.le_gt_cases (length kids) i); auto. exfalso.
        assert (length (skipn i kids) = length kids - i) by apply skipn_length. rewrite Hsk in H0. cbn in H0. lia. }
      rewrite firstn_all2 by lia. now rewrite app_nil_r.
    - destruct (skipn_nth_error _ _ _ _ Hsk) as (Hk & Hsk' & Hi).
      assert (Hskip : edit_kids rec kids sc new st ks (S i) tc =
                      Ok (firstn i tc ++ None :: visit_kids vk new kids sc ks (S i))).
      { rewrite (IH (S i) tc Hsk' Hlen) by (auto; intros j Hj; apply Hnone; lia).
        rewrite (firstn_S_nth None) by lia. rewrite (Hnone i) by lia. now rewrite <- app_assoc. }
      assert (Hset : forall d, guard_selected (sguard k) kids sc = true ->
                edit_kids rec kids sc new st ks (S i) (set_nth i (Some d) tc) =
                Ok (firstn i tc ++ Some d :: visit_kids vk new kids sc ks (S i))).
      { intros d Hv. rewrite (IH (S i) (set_nth i (Some d) tc) Hsk').
        - rewrite firstn_set_nth by lia. now rewrite <- app_assoc.
        - now rewrite set_nth_length.
        - intros j Hj. rewrite nth_set_nth_other by lia. apply Hnone. lia.
        - apply (written_visible_set kids sc tc i k); assumption. }
      cbn [edit_kids visit_kids]. destruct (guard_selected (sguard k) kids sc) eqn:Hv; cbn [negb]; [|exact Hskip].
      assert (Hclear : (if strategy_eqb st Upsert then clear_other_case k kids tc else tc) = tc).
      { destruct (strategy_eqb st Upsert); [apply (clear_noop kids sc tc k Hv Hw)|reflexivity]. }
      destruct k as [km ty il dflt|km kk|km keys row].
      + (* leaf *)
        assert (Hud : ((negb (strategy_eqb st Update) && new) || false) = new).
        { destruct st; try congruence; cbn; now rewrite orb_false_r. }
        rewrite Hud. destruct (nth i sc None) as [d|] eqn:Ed.
        * rewrite Hclear. apply Hset. reflexivity.
        * destruct new; [destruct dflt as [dv|]|]; cbn [option_map]; try exact Hskip.
          rewrite Hclear. apply Hset. reflexivity.
      + destruct (nth i sc None) as [sd|] eqn:Ed; [|exact Hskip].
        rewrite (Hnone i) by lia. rewrite (Hrec i _ sd Hk Ed eq_refl).
        destruct st; try congruence.
        * rewrite (clear_noop kids sc tc _ Hv Hw). apply Hset. reflexivity.
        * apply Hset. reflexivity.
      + destruct (nth i sc None) as [sd|] eqn:Ed; [|exact Hskip].
        rewrite (Hnone i) by lia. rewrite (Hrec i _ sd Hk Ed eq_refl).
        destruct st; try congruence.
        * rewrite (clear_noop kids sc tc _ Hv Hw). apply Hset. reflexivity.
        * apply Hset. reflexivity.
  Qed.
End Kids.

(** ** the list loop *)
Lemma edit_rows_export rec keys row st : st <> Update ->
  forall srs done,
    (forall sr, In sr srs -> rec row sr (empty_node row) true Upsert = Ok (visit true row sr)) ->
    rows_distinct keys (fun r => visit true row r) done srs = true ->
    edit_rows rec keys row st srs done = Ok (done ++ map (fun r => visit true row r) srs).
Proof.
  intros Hst. induction srs as [|sr srs IH]; intros done Hrec Hd.
  - cbn. now rewrite app_nil_r.
  - cbn [rows_distinct] in Hd. apply andb_true_iff in Hd as [Hk Hd].
    cbn [edit_rows map].
    assert (Hf : (if key_usable (row_key keys sr) then find_row keys (row_key keys sr) done 0 else None) = None).
    { destruct (key_usable (row_key keys sr)); [|reflexivity].
      destruct (find_row keys (row_key keys sr) done 0); [discriminate|reflexivity]. }
    rewrite Hf. rewrite (Hrec sr (or_introl eq_refl)).
    destruct st; try congruence;
      (rewrite (IH (done ++ [visit true row sr])); [now rewrite <- app_assoc | intros x Hx; apply Hrec; right; exact Hx | exact Hd]).
Qed.

(** induction principle for the nested schema type *)
Section SnodeInd.
  Variable P : snode -> Prop.
  Hypothesis Hleaf : forall m ty il d, P (SLeaf m ty il d).
  Hypothesis Hcont : forall m kids, Forall P kids -> P (SCont m kids).
  Hypothesis Hlist : forall m keys row, P row -> P (SList m keys row).
  Fixpoint snode_ind3 (s : snode) : P s :=
    match s with
    | SLeaf m ty il d => Hleaf m ty il d
    | SCont m kids => Hcont m kids ((fix go (l : list snode) : Forall P l :=
                                       match l with
                                       | [] => Forall_nil P
                                       | k :: tl => Forall_cons k (snode_ind3 k) (go tl)
                                       end) kids)
    | SList m keys row => Hlist m keys row (snode_ind3 row)
    end.
End SnodeInd.

Lemma nth_empty_content kids j : nth j (empty_content kids) None = None.
Proof.
  unfold empty_content. revert j. induction kids as [|k kids IH]; intros [|j]; cbn; auto.
Qed.

(** THEOREM (export_exact): for every schema node and every well-formed data tree, reading it out
    into an empty store - with upsert or insert, whether or not the start node counts as new -
    succeeds and stores exactly [visit new s d] *)
Theorem export_exact : forall s d new st, st <> Update -> is_leaf s = false -> wfd s d = true ->
  edit_one false s d (empty_node s) new st = Ok (visit new s d).
Proof.
  apply (snode_ind3 (fun s => forall d new st, st <> Update -> is_leaf s = false -> wfd s d = true ->
                       edit_one false s d (empty_node s) new st = Ok (visit new s d)));
    [intros m ty il dflt | intros m kids IHk | intros m keys row IHr]; intros d new st Hst Hl Hw.
  - discriminate.
  - destruct d as [v|sc|rows]; try discriminate. cbn [wfd] in Hw. cbn [empty_node].
    rewrite edit_one_cont.
    rewrite (edit_kids_export (edit_one false) kids sc new st Hst) with (i := 0) (ks := kids).
    + reflexivity.
    + intros i k sd Hk Hd Hlk. rewrite Forall_forall in IHk.
      apply (IHk k (nth_error_In _ _ Hk) sd true st Hst Hlk).
      apply (all_kids_nth (fun k dk => wfd k dk) kids sc i k sd Hw Hk Hd).
    + reflexivity.
    + unfold empty_content. now rewrite map_length.
    + intros j _. apply nth_empty_content.
    + intros j kj _ Hp. rewrite nth_empty_content in Hp. discriminate.
  - destruct d as [v|sc|rows]; try discriminate. cbn [wfd] in Hw.
    destruct row as [|rm rkids|] eqn:Erow; try discriminate. rewrite <- Erow in *.
    apply andb_true_iff in Hw as [Hall Hd]. cbn [empty_node]. rewrite edit_one_list.
    rewrite (edit_rows_export (edit_one false) keys row st Hst rows []).
    + reflexivity.
    + intros sr Hin. apply IHr; [discriminate | subst row; reflexivity |].
      rewrite forallb_forall in Hall. apply Hall. exact Hin.
    + exact Hd.
Qed.

(** on the root content, as TREE.md states it *)
Corollary export_content_exact kids data st : st <> Update ->
  all_kids (fun k dk => wfd k dk) kids data = true ->
  edit_content false kids data (empty_content kids) st =
  Ok (visit_kids (fun k sd => visit true k sd) false kids data kids 0).
Proof.
  intros Hst Hw. unfold edit_content.
  pose proof (export_exact (SCont (mkMeta [] [] true [] None) kids) (DCont data) false st Hst eq_refl Hw) as H.
  cbn [empty_node] in H. rewrite H. reflexivity.
Qed.

(** ** idempotence *)
(** exporting an exported tree changes nothing (choice-free schemas: every kid is visible) *)
Lemma guard_nil_selected kids sc : guard_selected [] kids sc = true.
Proof. reflexivity. Qed.

Lemma visit_kids_nth vk new kids sc : forall ks i j d,
  nth j (visit_kids vk new kids sc ks i) d =
  match nth_error ks j with
  | None => d
  | Some k =>
      if negb (guard_selected (sguard k) kids sc) then None
      else match k with
           | SLeaf _ _ _ dflt => match nth (i + j) sc None with Some x => Some x | None => if new then option_map DLeaf dflt else None end
           | _ => match nth (i + j) sc None with Some sd => Some (vk k sd) | None => None end
           end
  end.
Proof.
  induction ks as [|k ks IH]; intros i j d.
  - destruct j; reflexivity.
  - destruct j as [|j]; cbn [visit_kids nth nth_error].
    + rewrite Nat.add_0_r. reflexivity.
    + rewrite IH. replace (S i + j) with (i + S j) by lia. reflexivity.
Qed.

Lemma visit_kids_ext vk new kids sc sc' : forall ks i,
  (forall j k, nth_error ks j = Some k ->
     guard_selected (sguard k) kids sc = guard_selected (sguard k) kids sc' /\ nth (i + j) sc None = nth (i + j) sc' None) ->
  visit_kids vk new kids sc ks i = visit_kids vk new kids sc' ks i.
Proof.
  induction ks as [|k ks IH]; intros i H; [reflexivity|]. cbn [visit_kids].
  destruct (H 0 k eq_refl) as [Hg Hn]. rewrite Nat.add_0_r in Hn. rewrite Hg, Hn. f_equal.
  apply IH. intros j k' Hk. specialize (H (S j) k' Hk). replace (S i + j) with (i + S j) by lia. exact H.
Qed.

Fixpoint cfree (s : snode) : bool :=
  match s with
  | SLeaf m _ _ _ => match nm_guard m with [] => true | _ => false end
  | SCont m kids => forallb (fun k => match sguard k with [] => cfree k | _ => false end) kids
  | SList m _ row => cfree row
  end.

Lemma visit_kids_length vk new kids sc : forall ks i, length (visit_kids vk new kids sc ks i) = length ks.
Proof. induction ks as [|k ks IH]; intros i; cbn; [reflexivity|now rewrite IH]. Qed.

(** THEOREM: on a schema without choices, exporting an exported tree gives the same tree *)
Theorem visit_idem : forall s, cfree s = true -> forall d n, visit n s (visit n s d) = visit n s d.
Proof.
  apply (snode_ind3 (fun s => cfree s = true -> forall d n, visit n s (visit n s d) = visit n s d));
    [intros m ty il dflt | intros m kids IHk | intros m keys row IHr]; intros Hc d n.
  - destruct d; reflexivity.
  - destruct d as [v|sc|rows]; try reflexivity. cbn [visit]. f_equal.
    set (vk := fun k sd => visit true k sd).
    set (sc' := visit_kids vk n kids sc kids 0).
    apply (nth_ext _ _ None None).
    + unfold sc'. now rewrite !visit_kids_length.
    + intros j Hj. rewrite visit_kids_length in Hj.
      destruct (nth_error kids j) as [k|] eqn:Ek; [|apply nth_error_None in Ek; lia].
      cbn [cfree] in Hc. rewrite forallb_forall in Hc. pose proof (Hc k (nth_error_In _ _ Ek)) as Hk.
      destruct (sguard k) eqn:Eg; [|discriminate].
      rewrite visit_kids_nth, Ek, Eg. cbn [guard_selected negb Nat.add].
      unfold sc' at 2. rewrite visit_kids_nth, Ek, Eg. cbn [guard_selected negb Nat.add].
      assert (Hsc' : nth j sc' None =
                match k with
                | SLeaf _ _ _ dflt => match nth j sc None with Some x => Some x | None => if n then option_map DLeaf dflt else None end
                | _ => match nth j sc None with Some sd => Some (vk k sd) | None => None end
                end).
      { unfold sc'. rewrite visit_kids_nth, Ek, Eg. reflexivity. }
      rewrite Forall_forall in IHk. pose proof (IHk k (nth_error_In _ _ Ek) Hk) as IH.
      destruct k as [km ty il dflt|km kk|km keys row]; rewrite Hsc'.
      * destruct (nth j sc None); [reflexivity|]. destruct n; [destruct dflt|]; reflexivity.
      * destruct (nth j sc None) as [sd|]; [|reflexivity]. unfold vk. now rewrite IH.
      * destruct (nth j sc None) as [sd|]; [|reflexivity]. unfold vk. now rewrite IH.
  - destruct d as [v|sc|rows]; try reflexivity. cbn [visit]. f_equal. rewrite map_map.
    apply map_ext. intros r. apply IHr. exact Hc.
Qed.
