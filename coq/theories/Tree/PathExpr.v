(** Field-path expressions of the query parameters fields / fc.xfields / fc.range
    (node/path_matcher.go, as repaired): lexer, recursive parser, and the match that walks a
    candidate path from its tail.

      lex.next            -> [lex]
      parsex              -> [parsex]      (recursion on '(' : explicit fuel, never exhausted:
                                            PathExprProofs.parse_never_out_of_fuel)
      addSegment / expandPaths / appendPaths -> [add_segment] / [expand_paths] / [++]
      match               -> [match_loop] / [match_seg]   (None = the Go panic
                                            "illegal call : base was not found ...")
      PathMatches / PathLeadsTo / PathMatchesExactly -> [path_matches] / [path_leads_to] /
                                            [path_matches_exactly]

    Paths: a *Path is a linked list from the node up to the module; only its part below the
    request's base matters to the matcher, so a candidate is given as the list of the idents
    below the base, TAIL FIRST ([rp], "reversed relative path").  A list and its entries share
    one position in that list (selection.go selectListItem: "Path.parent is lists parentPath").

    The behaviour before the repairs is kept as [.._old] (refuted in PathExprProofs). *)
From Coq Require Import ZArith List Bool Strings.Byte.
From YV Require Import Val.Model Tree.Schema.
Import ListNotations.
Open Scope Z_scope.

Definition paths := list (list ident).

(** * lexer: strings.IndexAny(rest, "(;)/") *)
Inductive token := TOpen | TSemi | TClose | TSlash | TIdent (s : ident).

Definition delim_token (b : byte) : option token :=
  match b with
  | x28 => Some TOpen | x3b => Some TSemi | x29 => Some TClose | x2f => Some TSlash
  | _ => None
  end.

Definition flush (acc : list byte) (rest : list token) : list token :=
  match acc with [] => rest | _ => TIdent (rev acc) :: rest end.

(** [acc]: the bytes of the current run of non-delimiters, reversed *)
Fixpoint lex_go (s : list byte) (acc : list byte) : list token :=
  match s with
  | [] => flush acc []
  | b :: tl =>
      match delim_token b with
      | Some t => flush acc (t :: lex_go tl [])
      | None => lex_go tl (b :: acc)
      end
  end.
Definition lex (s : list byte) : list token := lex_go s [].

(** * parser *)
Definition add_segment (ps : paths) (t : ident) : paths :=
  match ps with [] => [[t]] | _ => map (fun p => p ++ [t]) ps end.

Definition cross (ps sub : paths) : paths :=
  flat_map (fun d => map (fun s => d ++ s) sub) ps.

(** expandPaths after the repair: an empty group adds nothing, a group at the start of an
    expression stands for itself, every expanded path is a fresh copy *)
Definition expand_paths (ps sub : paths) : paths :=
  match sub, ps with
  | [], _ => ps
  | _, [] => sub
  | _, _ => cross ps sub
  end.
(** before: len(e.paths)*len(sub.paths) entries, so a leading or an empty group empties the
    expression (= "select everything").  (The overwriting of expanded paths that shared spare
    capacity is not reproduced here.) *)
Definition expand_paths_old (ps sub : paths) : paths := cross ps sub.

(** outcomes of parameter parsing and of a constrained read.  PPanic = a Go panic; PFuel = the
    model ran out of fuel (excluded by theorem wherever fuel is used) *)
Inductive perr := PBadRequest | PNotImplemented | PConflict | PDepthZero | PUnshaped | PPanic | PFuel.
Inductive pres (A : Type) := POk (a : A) | PErr (e : perr).
Arguments POk {A} a.
Arguments PErr {A} e.

Definition finish (E : paths) (split : option paths) : paths :=
  match split with Some sp => E ++ sp | None => E end.

(** one parsex activation.  State: [E] = e.paths; [split] = Some sp when s points to the
    PathMatchExpression created by the last ';' (then s.paths = sp), None when s == e.
    Result: (paths of e, stopped at ')' ?, remaining tokens). *)
Fixpoint parsex (fuel : nat) (toks : list token) (E : paths) (split : option paths)
  : pres (paths * bool * list token) :=
  match fuel with
  | O => PErr PFuel
  | S f =>
      match toks with
      | [] => POk (finish E split, false, [])
      | TOpen :: tl =>
          match parsex f tl [] None with
          | PErr e => PErr e
          | POk (nested, closed, rest) =>
              if negb closed then PErr PBadRequest        (* '(' without ')' *)
              else match split with
                   | Some sp => parsex f rest E (Some (expand_paths sp nested))
                   | None => parsex f rest (expand_paths E nested) None
                   end
          end
      | TSemi :: tl => parsex f tl (finish E split) (Some [])
      | TClose :: tl => POk (finish E split, true, tl)
      | TSlash :: tl => parsex f tl E split
      | TIdent t :: tl =>
          match split with
          | Some sp => parsex f tl E (Some (add_segment sp t))
          | None => parsex f tl (add_segment E t) None
          end
      end
  end.

(** ParsePathExpression *)
Definition parse_path_expr (s : list byte) : pres paths :=
  let toks := lex s in
  match parsex (S (length toks)) toks [] None with
  | PErr e => PErr e
  | POk (ps, closed, _) => if closed then PErr PBadRequest else POk ps        (* ')' without '(' *)
  end.

(** * match *)
Definition nthZ (i : Z) (l : list ident) : ident := nth (Z.to_nat i) l [].
Definition lenZ {A} (l : list A) : Z := Z.of_nat (length l).

(** the loop of match: [rp] = what is left of the candidate from p up to (excluding) the base;
    i, j as in the Go code.  When p has reached the base ([rp] = []) with segments still to
    compare, the Go loop walks on above the base without ever comparing again and ends in
    panic("illegal call ...") = None. *)
Fixpoint match_loop (segs : list ident) (rp : list ident) (i j : Z) : option bool :=
  if i <? 0 then Some (match rp with [] => true | _ => false end)   (* p.EqualNoKey(base): equal length *)
  else match rp with
       | [] => None
       | x :: tl =>
           if j =? i then
             if ident_eqb x (nthZ i segs) then match_loop segs tl (i - 1) (j - 1) else Some false
           else match_loop segs tl i (j - 1)
       end.

Definition match_seg (segs rp : list ident) : option bool :=
  let j := lenZ rp - 1 in
  let i := lenZ segs - 1 in
  let i := if i >? j then j else i in       (* the repair: compare only the common segments *)
  match_loop segs rp i j.
Definition match_seg_old (segs rp : list ident) : option bool :=
  match_loop segs rp (lenZ segs - 1) (lenZ rp - 1).

(** "for _, path := range e.paths { if cond && match {return true} } return false" with the
    panic propagated from where it happens *)
Fixpoint any_path (f : list ident -> option bool) (ps : paths) : option bool :=
  match ps with
  | [] => Some false
  | p :: tl =>
      match f p with
      | None => None
      | Some true => Some true
      | Some false => any_path f tl
      end
  end.

Definition path_matches (ps : paths) (rp : list ident) : option bool :=
  match ps with
  | [] => Some true                           (* empty selector means select everything *)
  | _ => any_path (fun p => match p with
                            | [] => Some true
                            | _ => if lenZ rp >=? lenZ p then match_seg p rp else Some false
                            end) ps
  end.

Definition path_leads_to (ps : paths) (rp : list ident) : option bool :=
  any_path (fun p => if lenZ rp <? lenZ p then match_seg p rp else Some false) ps.

Definition path_matches_exactly (ps : paths) (rp : list ident) : option bool :=
  match ps with
  | [] => Some true
  | _ => any_path (fun p => match p with
                            | [] => Some true
                            | _ => if lenZ rp =? lenZ p then match_seg p rp else Some false
                            end) ps
  end.

(** PathMatches before the repair *)
Definition path_matches_old (ps : paths) (rp : list ident) : option bool :=
  match ps with
  | [] => Some true
  | _ => any_path (fun p => match p with [] => Some true | _ => match_seg_old p rp end) ps
  end.

(** * the declarative reading (spec side): prefix order on forward paths *)
Fixpoint ident_list_eqb (a b : list ident) : bool :=
  match a, b with
  | [], [] => true
  | x :: a', y :: b' => ident_eqb x y && ident_list_eqb a' b'
  | _, _ => false
  end.
Fixpoint is_prefix (a b : list ident) : bool :=       (* a is a prefix of b *)
  match a, b with
  | [], _ => true
  | x :: a', y :: b' => ident_eqb x y && is_prefix a' b'
  | _ :: _, [] => false
  end.

(** the node at forward path [fp] (below the base) is a selected node or inside one *)
Definition selects (ps : paths) (fp : list ident) : bool :=
  match ps with [] => true | _ => existsb (fun p => is_prefix p fp) ps end.
(** ... is a proper ancestor of a selected node *)
Definition leads (ps : paths) (fp : list ident) : bool :=
  existsb (fun p => is_prefix fp p && negb (ident_list_eqb fp p)) ps.
(** ... is a selected node *)
Definition selects_exactly (ps : paths) (fp : list ident) : bool :=
  match ps with [] => true | _ => existsb (fun p => match p with [] => true | _ => ident_list_eqb p fp end) ps end.

(** * expressions as trees (what the harness generates and prints) and their denotation *)
Inductive pexpr :=
| XSeg (name : ident)                  (* a *)
| XSeq (a b : pexpr)                   (* a/b *)
| XAlt (a b : pexpr).                  (* a;b  - printed in parentheses when nested under XSeq *)

Fixpoint denote (e : pexpr) : paths :=
  match e with
  | XSeg n => [[n]]
  | XSeq a b => cross (denote a) (denote b)
  | XAlt a b => denote a ++ denote b
  end.

(** concrete syntax: alternatives are parenthesised except at the top level *)
Fixpoint print (nested : bool) (e : pexpr) : list byte :=
  match e with
  | XSeg n => n
  | XSeq a b => print true a ++ [x2f] ++ print true b
  | XAlt a b =>
      if nested then [x28] ++ print false a ++ [x3b] ++ print false b ++ [x29]
      else print false a ++ [x3b] ++ print false b
  end.
Definition print_top (e : pexpr) : list byte := print false e.

(** well-formedness of the concrete syntax, declaratively: parentheses balanced - never more ')'
    than '(' so far, none open at the end *)
Fixpoint balanced (s : list byte) (open : Z) : bool :=
  match s with
  | [] => open =? 0
  | x28 :: tl => balanced tl (open + 1)
  | x29 :: tl => if open <=? 0 then false else balanced tl (open - 1)
  | _ :: tl => balanced tl open
  end.
