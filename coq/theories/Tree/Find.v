(** Executable model of Selection.Find (C08) on reference-store data (harness/tree/store.go).

      node/find.go        Selection.Find (strip "../", cut "?query", parse, walk), findSlice
      node/path_slice.go  parseUrlPath
      meta/find.go        meta.Find (as far as a path segment can reach it, see [mfind])
      node/value.go       NewValuesByString            (Tree/KeyText.v)
      node/path.go        Path.String / StringNoModule ([path_string], [path_string_nomod])

    The code is modelled as it stands AFTER the four C08 repairs (KNOWN_FINDINGS.txt "fixed:" lines):
    "../" resolved against the ancestor selection, terminal leaf selections keep the full path,
    Path.String percent-encodes keys, members of nested choices are indexed by name.  The behaviour
    at the pinned commit is kept as [find_old] / [path_string_nomod_old].

    Locations.  A [loc] is the list of path segments from the module root over the positional
    schema of Tree/Schema.v: [SName i] = flat kid [i] of the current container-like node (a
    container, a leaf, or a list addressed WITHOUT a key = the list selection), [SKey i key] = the
    entry with that key of the list at flat kid [i].  In the selection chain an entry's parent is
    the list selection ([SName i]) and the list selection's parent is the holder, which is what
    one "../" step undoes ([strip_up]). *)
From Coq Require Import ZArith List Bool Strings.Byte.
From YV Require Import Val.Model Tree.Schema Tree.Editor Tree.Pct Tree.KeyText.
Import ListNotations.

Definition slash : byte := x2f.
Definition equals : byte := x3d.
Definition comma : byte := x2c.
Definition colon : byte := x3a.
Definition qmark : byte := x3f.
Definition dot : byte := x2e.

Inductive step := SName (i : nat) | SKey (i : nat) (key : list lval).
Definition loc := list step.

Inductive ferr := FNotFound | FOther.      (* errors.Is(err, fc.NotFoundError) / any other error *)
Inductive fres :=
| FOk (r : option loc)      (* nil error; [None] = nil selection *)
| FErr (e : ferr)
| FPanic                    (* a failed type assertion in parseUrlPath (C13's findings) *)
| FBadStart                 (* the start selection does not exist in the data: outside the model *)
| FUnmodelled.              (* an identifier that contains '/' after unescaping: meta.Find would
                               recurse through the schema; not modelled, never generated *)

(** ** text helpers *)

(** strings.Split(s, sep) for a one-byte separator (never returns the empty list) *)
Fixpoint split_on (sep : byte) (s : list byte) : list (list byte) :=
  match s with
  | [] => [[]]
  | c :: tl =>
      if Byte.eqb c sep then [] :: split_on sep tl
      else match split_on sep tl with
           | h :: r => (c :: h) :: r
           | [] => [[c]]
           end
  end.

(** s[:i], s[i+1:] for i = strings.Index(s, sep), if any *)
Fixpoint cut_at (sep : byte) (s : list byte) : list byte * option (list byte) :=
  match s with
  | [] => ([], None)
  | c :: tl =>
      if Byte.eqb c sep then ([], Some tl)
      else let (a, b) := cut_at sep tl in (c :: a, b)
  end.

Fixpoint join (sep : byte) (l : list (list byte)) : list byte :=
  match l with
  | [] => []
  | [a] => a
  | a :: tl => a ++ sep :: join sep tl
  end.

Definition has_byte (c : byte) (s : list byte) : bool := existsb (Byte.eqb c) s.

(** ** where a selection stands *)
Inductive cursor :=
| AtCont (kids : list snode) (data : content)     (* module root, container or list entry *)
| AtList (lst : snode) (rows : list dnode)        (* the list selection (InsideList = false) *)
| AtLeaf (s : snode) (v : option dnode).          (* leaf selection: the holder's node, the leaf's path *)

Definition key_dnodes (key : list lval) : list (option dnode) := map (fun v => Some (DLeaf v)) key.

Definition list_parts (lst : snode) : list nat * snode :=
  match lst with SList _ keys row => (keys, row) | _ => ([], lst) end.

(** the reference store's List.find + row access *)
Definition row_at (lst : snode) (rows : list dnode) (key : list (option dnode)) : option content :=
  let (keys, _) := list_parts lst in
  match find_row keys key rows O with
  | Some j => match nth_error rows j with Some (DCont c) => Some c | _ => None end
  | None => None
  end.

Definition step_into (cur : cursor) (st : step) : option cursor :=
  match cur with
  | AtCont kids data =>
      match st with
      | SName i =>
          match nth_error kids i with
          | Some (SLeaf _ _ _ _ as s) => Some (AtLeaf s (nth i data None))
          | Some (SCont _ kids') =>
              match nth i data None with Some (DCont c) => Some (AtCont kids' c) | _ => None end
          | Some (SList _ _ _ as lst) =>
              match nth i data None with Some (DList rows) => Some (AtList lst rows) | _ => None end
          | None => None
          end
      | SKey i key =>
          match nth_error kids i with
          | Some (SList _ _ row as lst) =>
              match nth i data None with
              | Some (DList rows) =>
                  match row_at lst rows (key_dnodes key) with
                  | Some c => Some (AtCont (skids row) c)
                  | None => None
                  end
              | _ => None
              end
          | _ => None
          end
      end
  | _ => None
  end.

Fixpoint resolve (cur : cursor) (l : loc) : option cursor :=
  match l with
  | [] => Some cur
  | st :: tl => match step_into cur st with Some c => resolve c tl | None => None end
  end.

(** ** Selection.Find: the leading "../" steps.
    [rl] is the start location reversed.  for strings.HasPrefix(p, "../"): no parent => NotFound
    error; else p = p[3:], s = s.Parent().  The parent of a list entry is the list selection. *)
Fixpoint strip_up (rl : list step) (p : list byte) {struct rl} : option (list step * list byte) :=
  match p with
  | c1 :: c2 :: c3 :: p' =>
      if Byte.eqb c1 dot && Byte.eqb c2 dot && Byte.eqb c3 slash then
        match rl with
        | [] => None
        | SName _ :: tl => strip_up tl p'
        | SKey i _ :: tl =>
            match p' with
            | d1 :: d2 :: d3 :: p'' =>
                if Byte.eqb d1 dot && Byte.eqb d2 dot && Byte.eqb d3 slash
                then strip_up tl p''
                else Some (SName i :: tl, p')
            | _ => Some (SName i :: tl, p')
            end
        end
      else Some (rl, p)
  | _ => Some (rl, p)
  end.

(** ** meta.Find / Definition(ident) over the flat kids (sibling names are unique; the members of
    all cases, at any choice depth, are indexed in the holder since fix 292a44d) *)
Fixpoint lookup_name (kids : list snode) (name : list byte) (i : nat) : option (nat * snode) :=
  match kids with
  | [] => None
  | k :: tl => if ident_eqb (sname k) name then Some (i, k) else lookup_name tl name (S i)
  end.

(** meta.Find(p, path) for a path without '/':
      if colon := strings.IndexRune(path, ':'); colon > 0 {
          if p is *Module { p = ModuleByPrefix(path[:colon]) or return nil }   (no imports modelled)
          return Find(p, path[colon+1:]) }
      return p.Definition(path)
    [cur] = the string being resolved since the last restart, [acc] = its bytes read so far
    (reversed), [s] = the unread rest. *)
Fixpoint mfind (is_mod : bool) (pfx : ident) (kids : list snode)
         (cur acc s : list byte) {struct s} : option (nat * snode) :=
  match s with
  | [] => lookup_name kids cur O
  | c :: tl =>
      if Byte.eqb c colon then
        match acc with
        | [] => lookup_name kids cur O
        | _ => if is_mod && negb (ident_eqb (rev acc) pfx) then None
               else mfind is_mod pfx kids tl [] tl
        end
      else mfind is_mod pfx kids cur (c :: acc) tl
  end.

(** ident[:colon], ident[colon+1:] when colon := strings.IndexRune(ident, ':') is > 0 *)
Definition first_colon (s : list byte) : option (list byte * list byte) :=
  match cut_at colon s with
  | ((_ :: _) as a, Some b) => Some (a, b)
  | _ => None
  end.

(** parseUrlPath: meta.Find, then the retry with a module-NAME qualified identifier *)
Definition seg_lookup (is_mod : bool) (pfx : ident) (kids : list snode) (ident : list byte)
  : option (nat * snode) :=
  match mfind is_mod pfx kids ident [] ident with
  | Some r => Some r
  | None =>
      match first_colon ident with
      | Some (module, rest) =>
          match mfind is_mod pfx kids rest [] rest with
          | Some (i, k) => if ident_eqb (nm_mod (smeta k)) module then Some (i, k) else None
          | None => None
          end
      | None => None
      end
  end.

(** ** parseUrlPath *)
Record seg := mkSeg { sg_idx : nat; sg_node : snode; sg_key : option (list (option lval)) }.

Inductive pres := POk (segs : list seg) | PErr (e : ferr) | PPanic | PUnmodelled.

Fixpoint unescape_all (l : list (list byte)) : option (list (list byte)) :=
  match l with
  | [] => Some []
  | a :: tl => match unescape a with
               | Some a' => option_map (cons a') (unescape_all tl)
               | None => None
               end
  end.

Definition key_types (lst : snode) : list ltype :=
  let (keys, row) := list_parts lst in
  map (fun j => match nth_error (skids row) j with Some (SLeaf _ ty _ _) => ty | _ => TEmpty end) keys.

(** node.NewValuesByString(keyMeta, strs...): len(keyMeta) values, the first min(len) converted,
    the rest nil; the first conversion error is returned *)
Fixpoint conv_keys (tys : list ltype) (strs : list (list byte)) : option (list (option lval)) :=
  match tys with
  | [] => Some []
  | ty :: tys' =>
      match strs with
      | [] => Some (map (fun _ => None) tys)
      | s :: strs' =>
          match conv_key ty s with
          | Some v => option_map (cons (Some v)) (conv_keys tys' strs')
          | None => None
          end
      end
  end.

(** the definitions a following segment is resolved in *)
Definition scope_of_node (k : snode) : option (list snode) :=
  match k with
  | SCont _ kids => Some kids
  | SList _ _ row => Some (skids row)
  | SLeaf _ _ _ _ => None
  end.

Definition pcons (s : seg) (r : pres) : pres :=
  match r with POk l => POk (s :: l) | _ => r end.

(** one segment of parseUrlPath's loop; [next]: the rest of the loop, given the definitions the
    following segment is resolved in *)
Definition parse_one (is_mod : bool) (pfx : ident) (kids : list snode) (sg : list byte)
           (next : option (list snode) -> pres) : pres :=
  let (raw_ident, raw_keys) := cut_at equals sg in
  match unescape raw_ident with
  | None => PErr FOther
  | Some ident =>
      match (match raw_keys with
             | None => Some None
             | Some rk => option_map Some (unescape_all (split_on comma rk))
             end) with
      | None => PErr FOther
      | Some keystrs =>
          if has_byte slash ident then PUnmodelled else
          match seg_lookup is_mod pfx kids ident with
          | None => PErr FNotFound
          | Some (i, k) =>
              match keystrs with
              | None => pcons (mkSeg i k None) (next (scope_of_node k))
              | Some ks =>
                  match k with
                  | SList _ _ _ =>
                      (* fewer key values than the list has keys: bad request (repo fix 110eb81) *)
                      if Nat.ltb (length ks) (length (key_types k)) then PErr FOther else
                      match conv_keys (key_types k) ks with
                      | None => PErr FOther
                      | Some vals => pcons (mkSeg i k (Some vals)) (next (scope_of_node k))
                      end
                  | _ => PPanic  (* seg.Meta.( *meta.List) on a container or leaf *)
                  end
              end
          end
      end
  end.

Fixpoint parse_segs (is_mod : bool) (pfx : ident) (scope : option (list snode))
         (segs : list (list byte)) : pres :=
  match segs with
  | [] => POk []
  | [] :: _ => POk []                    (* "a/b/c same as a/b/c/": stop at the first empty segment *)
  | sg :: tl =>
      match scope with
      | None => PPanic                   (* p.Meta.(meta.HasDefinitions) on a leaf *)
      | Some kids => parse_one is_mod pfx kids sg (fun sc => parse_segs false pfx sc tl)
      end
  end.

(** ** findSlice *)
Inductive wres := WOk (r : option loc) | WErr (e : ferr).

Definition wcons (st : step) (r : wres) : wres :=
  match r with WOk (Some l) => WOk (Some (st :: l)) | _ => r end.

Fixpoint all_some {A} (l : list (option A)) : option (list A) :=
  match l with
  | [] => Some []
  | Some a :: tl => option_map (cons a) (all_some tl)
  | None :: _ => None
  end.

(** Child request per container/list segment (New = false: the store answers nil for an absent
    node => nil selection), then a Next request with the key; a leaf ends the walk on the holder's
    node.  Navigation requests carry Target, so the read constraints (depth, fields, content,
    max-node-count, with-defaults, range) let every step pass: they do not appear here. *)
Fixpoint walk (cur : cursor) (segs : list seg) : wres :=
  match segs with
  | [] => WOk (Some [])
  | sg :: tl =>
      let i := sg_idx sg in
      match sg_node sg with
      | SLeaf _ _ _ _ =>
          match tl with
          | [] => WOk (Some [SName i])
          | _ => WErr FOther                (* "Cannot select inside action, leaf or notification" *)
          end
      | SCont _ kids' =>
          match cur with
          | AtCont _ data =>
              match nth i data None with
              | Some (DCont c) => wcons (SName i) (walk (AtCont kids' c) tl)
              | _ => WOk None
              end
          | _ => WErr FOther                (* Child request on a list node (nodeutil.Basic: no OnChild) *)
          end
      | SList _ _ row as lst =>
          match cur with
          | AtCont _ data =>
              match nth i data None with
              | Some (DList rows) =>
                  match sg_key sg with
                  | None =>
                      match tl with
                      | [] => WOk (Some [SName i])
                      | _ => WErr FOther    (* "Cannot select inside list with key" *)
                      end
                  | Some key =>
                      match row_at lst rows (map (option_map DLeaf) key) with
                      | Some c =>
                          match all_some key with
                          | Some vals => wcons (SKey i vals) (walk (AtCont (skids row) c) tl)
                          | None => WErr FOther   (* unreachable: a nil key value matches no entry *)
                          end
                      | None => WOk None
                      end
                  end
              | _ => WOk None
              end
          | _ => WErr FOther
          end
      end
  end.

Definition scope_of (cur : cursor) : option (list snode) :=
  match cur with
  | AtCont kids _ => Some kids
  | AtList lst _ => Some (skids (snd (list_parts lst)))
  | AtLeaf _ _ => None
  end.

Definition is_root (l : loc) : bool := match l with [] => true | _ => false end.

(** Selection.Find.  [pfx]: the module's prefix; [kids]/[data]: the module root; [start]: where the
    selection Find is called on stands; the "?query" part only adds constraints to the returned
    selection (well-formed queries assumed), it is cut off before parsing. *)
Definition find_from (pfx : ident) (kids : list snode) (data : content)
           (start' : loc) (scope_loc : loc) (p : list byte) : fres :=
  let p := fst (cut_at qmark p) in
  match resolve (AtCont kids data) start', resolve (AtCont kids data) scope_loc with
  | Some cur, Some scur =>
      match parse_segs (is_root scope_loc) pfx (scope_of scur) (split_on slash p) with
      | PErr e => FErr e
      | PPanic => FPanic
      | PUnmodelled => FUnmodelled
      | POk segs =>
          match walk cur segs with
          | WOk (Some steps) => FOk (Some (start' ++ steps))
          | WOk None => FOk None
          | WErr e => FErr e
          end
      end
  | _, _ => FBadStart
  end.

Definition find (pfx : ident) (kids : list snode) (data : content) (start : loc) (path : list byte) : fres :=
  match strip_up (rev start) path with
  | None => FErr FNotFound          (* "no parent path to resolve" *)
  | Some (rl, p) => find_from pfx kids data (rev rl) (rev rl) p
  end.

(** Selection.Find at the pinned commit: the "../" steps move the selection, but parseUrlPath is
    given the ORIGINAL path and the ORIGINAL selection's meta *)
Definition find_old (pfx : ident) (kids : list snode) (data : content) (start : loc) (path : list byte) : fres :=
  match strip_up (rev start) path with
  | None => FErr FNotFound
  | Some (rl, _) => find_from pfx kids data (rev rl) start path
  end.

(** ** Path.String() *)

Definition step_name (q : bool) (k : snode) : list byte :=
  if q then nm_mod (smeta k) ++ colon :: sname k else sname k.

Definition next_qual (quals : list bool) : bool * list bool :=
  match quals with [] => (false, []) | b :: r => (b, r) end.

(** the path segments of a location; [esc]: how a key value's text is written; [quals]: per
    segment, whether the name is written module-qualified ("mod:name") *)
Fixpoint render_segs (esc : list byte -> list byte) (quals : list bool) (kids : list snode) (l : loc)
  : list (list byte) :=
  match l with
  | [] => []
  | st :: tl =>
      let (q, quals') := next_qual quals in
      match st with
      | SName i =>
          match nth_error kids i with
          | Some k =>
              step_name q k :: match scope_of_node k with
                               | Some kids' => render_segs esc quals' kids' tl
                               | None => []
                               end
          | None => []
          end
      | SKey i key =>
          match nth_error kids i with
          | Some k =>
              (step_name q k ++ equals :: join comma (map (fun v => esc (key_text v)) key))
                :: match scope_of_node k with
                   | Some kids' => render_segs esc quals' kids' tl
                   | None => []
                   end
          | None => []
          end
      end
  end.

(** the RESTCONF-style path of the spec: percent-encoded comma-separated keys, optional module
    qualification per segment, optional trailing slash *)
Definition render_with (esc : list byte -> list byte) (quals : list bool) (trailing : bool)
           (kids : list snode) (l : loc) : list byte :=
  join slash (render_segs esc quals kids l) ++ (if trailing then [slash] else []).
(** ... with the reference encoder *)
Definition render := render_with escape.

(** Path.StringNoModule() / Path.String() of the selection at [l] (node/path.go str, toBuffer) *)
Definition path_string_nomod (kids : list snode) (l : loc) : list byte :=
  join slash (render_segs escape [] kids l).
Definition path_string (modname : ident) (kids : list snode) (l : loc) : list byte :=
  join slash (modname :: render_segs escape [] kids l).

(** at the pinned commit the key text was written verbatim *)
Definition path_string_nomod_old (kids : list snode) (l : loc) : list byte :=
  join slash (render_segs (fun s => s) [] kids l).

(** ** what a found selection delivers *)
Inductive ocontent :=
| OCont (c : res content)        (* container / entry / root exported into an empty capturing node *)
| ORows (r : res (list dnode))   (* list selection exported into an empty capturing list *)
| OLeaf (v : option lval)        (* Selection.Get(): the value or the default *)
| OSkip.                         (* not observed (query variants: constraints apply to the export) *)

Definition content_of (cur : cursor) : ocontent :=
  match cur with
  | AtCont kids c => OCont (edit_content false kids c (empty_content kids) Upsert)
  | AtList lst rows =>
      ORows (match edit_one false lst (DList rows) (DList []) false Upsert with
             | Ok (DList r) => Ok r
             | Ok _ => Err EOther
             | Err e => Err e
             end)
  | AtLeaf s v =>
      OLeaf (match v with
             | Some (DLeaf x) => Some x
             | _ => match s with SLeaf _ _ _ dflt => dflt | _ => None end
             end)
  end.
