(** Case detection of the Reflect map node: nodeutil/reflect.go, (Reflect).childMap, OnChoose
    (after fix f226b24).  The other models of the Tree cluster see a schema FLATTENED (Tree/Schema.v:
    every data definition reachable through choice/case nesting is a flat kid carrying its guard);
    the Go code walks the HIERARCHY: a choice has cases (tried in the order of their names), a case
    has definitions, a definition is either a data definition (leaf, leaf-list, container, list: it
    has an entry of its own in the Go map, looked up by its name) or a nested choice (it has none,
    the code looks through it).  This file models that walk on the hierarchy itself.

      [hdef]      a definition of a case (or of the container itself), zipped with what the map holds:
                  [HData s d]   data definition [s]; [d] = the map's entry under the name of [s]
                                (v.MapIndex(reflect.ValueOf(d.Ident())), [Some _] iff IsValid);
                  [HChoice id cases]  a choice; [id] = its number in the enclosing container (the
                                number the flat guards use), [cases] in the order of CaseIdents().
      [hheld]     the test the inner loop makes on ONE definition of a case;
      [rchoose]   the answer of OnChoose: the index (in name order) of the case handed back.

    Proofs are in Tree/ReflectChooseProofs.v. *)
From Coq Require Import List Bool Arith.
From YV Require Import Val.Model Tree.Schema.
Import ListNotations.

Inductive hdef :=
| HData (s : snode) (d : option dnode)
| HChoice (id : nat) (cases : list (list hdef)).

(** for _, d := range kase.DataDefinitions() { if <test d> { return kase } } *)
Definition any_def (f : hdef -> bool) : list hdef -> bool :=
  fix any (ds : list hdef) : bool :=
    match ds with
    | [] => false
    | d :: ds' => f d || any ds'
    end.

(** for _, ident := range c.CaseIdents() { kase := c.Cases()[ident]; ... }; return nil
    [k] = index of the first case of [cs] *)
Definition sel_from (f : hdef -> bool) : list (list hdef) -> nat -> option nat :=
  fix sel (cs : list (list hdef)) (k : nat) : option nat :=
    match cs with
    | [] => None
    | c :: cs' => if any_def f c then Some k else sel cs' (S k)
    end.

(** the test on one definition:
      nested choice:   if found := selected(nested); found != nil { return kase }; continue
      data definition: if v.MapIndex(mapKey).IsValid() { return kase } *)
Fixpoint hheld (h : hdef) : bool :=
  match h with
  | HData _ d => present d
  | HChoice _ cases => match sel_from hheld cases 0 with Some _ => true | None => false end
  end.

(** selected(choice): the case of THIS choice in which something was found *)
Definition rchoose (cases : list (list hdef)) : option nat := sel_from hheld cases 0.

(** ** the code before the fix: a nested choice was looked up in the map under its own name, where
    nothing is ever stored (the cases were ranged over in Go map order; on a target holding one case
    the order does not matter) *)
Definition hheld_old (h : hdef) : bool :=
  match h with
  | HData _ d => present d
  | HChoice _ _ => false
  end.
Definition rchoose_old (cases : list (list hdef)) : option nat := sel_from hheld_old cases 0.

(** ** a detection that hands back what the recursive call found (the case of the NESTED choice)
    instead of the case it was asked about: the answer is a (choice id, case index) pair *)
Definition sel_inner_from (id : nat) (f : hdef -> option (option (nat * nat)))
  : list (list hdef) -> nat -> option (nat * nat) :=
  fix sel (cs : list (list hdef)) (k : nat) : option (nat * nat) :=
    match cs with
    | [] => None
    | c :: cs' =>
        match (fix any (ds : list hdef) : option (nat * nat) :=
                 match ds with
                 | [] => None
                 | d :: ds' =>
                     match f d with
                     | Some (Some inner) => Some inner       (* return found *)
                     | Some None => Some (id, k)             (* return kase  *)
                     | None => any ds'
                     end
                 end) c with
        | Some a => Some a
        | None => sel cs' (S k)
        end
    end.
(** [None]: nothing found at this definition; [Some None]: a data definition that is held;
    [Some (Some a)]: a nested choice whose detection answered [a] *)
Fixpoint hheld_inner (h : hdef) : option (option (nat * nat)) :=
  match h with
  | HData _ d => if present d then Some None else None
  | HChoice id cases =>
      match sel_inner_from id hheld_inner cases 0 with Some a => Some (Some a) | None => None end
  end.
Definition rchoose_inner (id : nat) (cases : list (list hdef)) : option (nat * nat) :=
  sel_inner_from id hheld_inner cases 0.

(** * The flat view of a hierarchy (what harness/tree/schema.go flatten produces: definitions in
    schema order, cases in name order) zipped with the data *)
Definition flat_defs (f : hdef -> list (snode * option dnode)) : list hdef -> list (snode * option dnode) :=
  fix go (ds : list hdef) :=
    match ds with
    | [] => []
    | d :: ds' => f d ++ go ds'
    end.
Definition flat_cases (f : hdef -> list (snode * option dnode)) : list (list hdef) -> list (snode * option dnode) :=
  fix go (cs : list (list hdef)) :=
    match cs with
    | [] => []
    | c :: cs' => flat_defs f c ++ go cs'
    end.
Fixpoint hflat (h : hdef) : list (snode * option dnode) :=
  match h with
  | HData s d => [(s, d)]
  | HChoice _ cases => flat_cases hflat cases
  end.
Definition hflat_defs : list hdef -> list (snode * option dnode) := flat_defs hflat.
Definition hflat_cases : list (list hdef) -> list (snode * option dnode) := flat_cases hflat.

(** something is held among these flat kids *)
Definition any_present (l : list (snode * option dnode)) : bool := existsb (fun sd => present (snd sd)) l.

(** choice numbers used in a hierarchy *)
Fixpoint hids (h : hdef) : list nat :=
  match h with
  | HData _ _ => []
  | HChoice id cases =>
      id :: (fix gc (cs : list (list hdef)) :=
               match cs with
               | [] => []
               | c :: cs' => (fix gd (ds : list hdef) :=
                                match ds with [] => [] | d :: ds' => hids d ++ gd ds' end) c ++ gc cs'
               end) cases
  end.
Definition hids_defs : list hdef -> list nat :=
  fix gd (ds : list hdef) := match ds with [] => [] | d :: ds' => hids d ++ gd ds' end.
Definition hids_cases : list (list hdef) -> list nat :=
  fix gc (cs : list (list hdef)) := match cs with [] => [] | c :: cs' => hids_defs c ++ gc cs' end.

Definition guard_eqb (a b : guard) : bool :=
  (fix go (p q : guard) :=
     match p, q with
     | [], [] => true
     | (c, k) :: p', (c', k') :: q' => Nat.eqb c c' && Nat.eqb k k' && go p' q'
     | _, _ => false
     end) a b.

Definition mem_nat (x : nat) (l : list nat) : bool := existsb (Nat.eqb x) l.

(** the guards written on the flat kids are the paths of the hierarchy: a data definition under the
    path [g] carries the guard [g]; case [k] of choice [id] under [g] is the path [g ++ [(id, k)]];
    a choice is not nested in itself *)
Definition wf_defs (f : guard -> hdef -> bool) (g : guard) : list hdef -> bool :=
  fix wd (ds : list hdef) := match ds with [] => true | d :: ds' => f g d && wd ds' end.
Definition wf_cases (f : guard -> hdef -> bool) (g : guard) (id : nat) : list (list hdef) -> nat -> bool :=
  fix wc (cs : list (list hdef)) (k : nat) :=
    match cs with
    | [] => true
    | c :: cs' => wf_defs f (g ++ [(id, k)]) c && wc cs' (S k)
    end.
Fixpoint wfh (g : guard) (h : hdef) : bool :=
  match h with
  | HData s _ => guard_eqb (sguard s) g
  | HChoice id cases => negb (mem_nat id (map fst g)) && wf_cases wfh g id cases 0
  end.

Fixpoint nodup_nat (l : list nat) : bool :=
  match l with
  | [] => true
  | x :: tl => negb (mem_nat x tl) && nodup_nat tl
  end.

(** a container's definitions: guards are the paths, every choice has a number of its own *)
Definition wf_top (defs : list hdef) : bool := wf_defs wfh [] defs && nodup_nat (hids_defs defs).

(** does every choice of the hierarchy get, from [rchoose], the answer [Schema.choose] gives on the
    flat view [top]?  (executable; the theorem says: always, on a well-formed hierarchy) *)
Fixpoint agrees (top : list (snode * option dnode)) (h : hdef) : bool :=
  match h with
  | HData _ _ => true
  | HChoice id cases =>
      (match rchoose cases, choose id (map fst top) (map snd top) with
       | Some a, Some b => Nat.eqb a b
       | None, None => true
       | _, _ => false
       end)
      && (fix ac (cs : list (list hdef)) :=
            match cs with
            | [] => true
            | c :: cs' => (fix ad (ds : list hdef) :=
                             match ds with [] => true | d :: ds' => agrees top d && ad ds' end) c && ac cs'
            end) cases
  end.
Definition agrees_defs (top : list (snode * option dnode)) : list hdef -> bool :=
  fix ad (ds : list hdef) := match ds with [] => true | d :: ds' => agrees top d && ad ds' end.
Definition agrees_cases (top : list (snode * option dnode)) : list (list hdef) -> bool :=
  fix ac (cs : list (list hdef)) := match cs with [] => true | c :: cs' => agrees_defs top c && ac cs' end.

(** the choice with number [id] in a hierarchy *)
Fixpoint find_choice (id : nat) (h : hdef) : option (list (list hdef)) :=
  match h with
  | HData _ _ => None
  | HChoice id' cases =>
      if Nat.eqb id id' then Some cases else
      (fix fc (cs : list (list hdef)) :=
         match cs with
         | [] => None
         | c :: cs' =>
             match (fix fd (ds : list hdef) :=
                      match ds with
                      | [] => None
                      | d :: ds' => match find_choice id d with Some r => Some r | None => fd ds' end
                      end) c with
             | Some r => Some r
             | None => fc cs'
             end
         end) cases
  end.
Definition find_choice_defs (id : nat) : list hdef -> option (list (list hdef)) :=
  fix fd (ds : list hdef) :=
    match ds with
    | [] => None
    | d :: ds' => match find_choice id d with Some r => Some r | None => fd ds' end
    end.

(** * The hierarchy as the harness dumps it: schema only, data definitions named by their position
    among the flat kids (harness/props/c09r.go hierTerm); [hzip] puts the flat kids and the data of
    a store at those positions *)
Inductive cdef :=
| CD (pos : nat)
| CC (id : nat) (cases : list (list cdef)).

Definition no_snode : snode := SCont (mkMeta [] [] true [] None) [].

Fixpoint hzip (kids : list snode) (data : content) (c : cdef) : hdef :=
  match c with
  | CD p => HData (nth p kids no_snode) (nth p data None)
  | CC id cases => HChoice id (map (map (hzip kids data)) cases)
  end.
Definition hzip_defs (kids : list snode) (data : content) (defs : list cdef) : list hdef :=
  map (hzip kids data) defs.

(** positions in the order of the walk *)
Fixpoint cpos (c : cdef) : list nat :=
  match c with
  | CD p => [p]
  | CC _ cases =>
      (fix gc (cs : list (list cdef)) :=
         match cs with
         | [] => []
         | c :: cs' => (fix gd (ds : list cdef) :=
                          match ds with [] => [] | d :: ds' => cpos d ++ gd ds' end) c ++ gc cs'
         end) cases
  end.
Definition cpos_defs : list cdef -> list nat :=
  fix gd (ds : list cdef) := match ds with [] => [] | d :: ds' => cpos d ++ gd ds' end.
Definition cpos_cases : list (list cdef) -> list nat :=
  fix gc (cs : list (list cdef)) := match cs with [] => [] | c :: cs' => cpos_defs c ++ gc cs' end.

Definition nats_eqb (a b : list nat) : bool :=
  (fix go (p q : list nat) :=
     match p, q with
     | [], [] => true
     | x :: p', y :: q' => Nat.eqb x y && go p' q'
     | _, _ => false
     end) a b.

(** the dump covers the flat kids exactly, in their order, and its guards are its paths *)
Definition dump_ok (defs : list cdef) (kids : list snode) : bool :=
  nats_eqb (cpos_defs defs) (seq 0 (length kids)) && wf_top (hzip_defs kids (empty_content kids) defs).
