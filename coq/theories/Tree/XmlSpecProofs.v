(** The normal form the round trip returns holds the same data as the tree that was written:
      canon_norm : canon s (norm s d) = canon s d          (every schema, every data tree) *)
From Coq Require Import ZArith List Bool Strings.Byte.
From YV Require Import Val.Model Tree.Schema Tree.Editor Tree.XmlEsc Tree.XmlSpec Tree.XmlW Tree.XmlR
  Tree.XmlViewProofs Tree.XmlRoundProofs.
Import ListNotations.

Definition canon_kid (k : snode) (od : option dnode) : option dnode :=
  match k with
  | SLeaf _ _ _ dflt => leaf_canon dflt od
  | SCont _ _ => option_map (canon k) od
  | SList _ _ _ =>
      match od with
      | Some (DList []) | None => None
      | Some l => Some (canon k l)
      end
  end.
Fixpoint canon_go (ks : list snode) (c : content) {struct ks} : content :=
  match ks, c with
  | k :: ks', od :: c' => canon_kid k od :: canon_go ks' c'
  | _, _ => []
  end.
Lemma canon_cont_eq : forall m kids c, canon (SCont m kids) (DCont c) = DCont (canon_go kids c).
Proof.
  intros m kids c. cbn [canon]. f_equal.
  all: revert c; induction kids as [|k ks IH]; intros c; [reflexivity|]; destruct c as [|od c]; [reflexivity|];
    cbn [canon_go]; rewrite <- IH; destruct k; reflexivity.
Qed.
Lemma canon_list_eq : forall m keys row rows, canon (SList m keys row) (DList rows) = DList (map (canon row) rows).
Proof. reflexivity. Qed.

(** defaults filled by the editor are defaults anyway *)
Theorem canon_fill : forall s new d, canon s (fill new s d) = canon s d.
Proof.
  induction s as [m ty il dflt | m kids IHk | m keys row IHrow] using snode_ind2; intros new d.
  - destruct d; reflexivity.
  - destruct d as [|c|]; try reflexivity.
    rewrite fill_cont_eq, !canon_cont_eq. f_equal. revert c.
    induction kids as [|k ks IH]; intros c; [reflexivity|]. destruct c as [|od c]; [reflexivity|].
    cbn [fill_go canon_go]. rewrite (IH (Forall_inv_tail IHk)). f_equal.
    pose proof (Forall_inv IHk) as Pk. cbv beta in Pk.
    destruct k as [mk tyk ilk dfk | mk kk | mk keysk rowk]; cbn [fill_kid canon_kid].
    + destruct od as [x|]; [reflexivity|]. destruct new; [|reflexivity].
      destruct dfk as [[| | |[|v0 items]]|]; reflexivity.
    + destruct od as [x|]; [|reflexivity]. cbn [option_map]. rewrite Pk. reflexivity.
    + destruct od as [x|]; [|reflexivity].
      destruct x as [| |[|r rows]]; try reflexivity.
      pose proof (Pk true (DList (r :: rows))) as E. rewrite fill_list_eq in E |- *.
      cbn [map] in E |- *. rewrite E. reflexivity.
  - destruct d as [| |rows]; try reflexivity.
    rewrite fill_list_eq, !canon_list_eq. f_equal. rewrite map_map. apply map_ext. intros r. apply IHrow.
Qed.

(** what [prune] forgets, [canon] forgets too *)
Theorem canon_prune : forall s d, match prune s d with Some p => canon s p = canon s d | None => True end.
Proof.
  induction s as [m ty il dflt | m kids IHk | m keys row IHrow] using snode_ind2; intros d.
  - destruct d as [v| |]; destruct il; try reflexivity. all: destruct v as [| | |[|v0 items]]; try reflexivity; try exact I.
  - destruct d as [|c|]; try reflexivity.
    rewrite prune_go_eq, !canon_cont_eq. f_equal. revert c.
    induction kids as [|k ks IH]; intros c; [reflexivity|]. destruct c as [|od c]; [reflexivity|].
    cbn [prune_go canon_go]. rewrite (IH (Forall_inv_tail IHk)). f_equal.
    pose proof (Forall_inv IHk) as Pk. cbv beta in Pk.
    destruct od as [dk|]; [|reflexivity]. specialize (Pk dk).
    destruct k as [mk tyk ilk dfk | mk kk | mk keysk rowk].
    + destruct dk as [v| |]; destruct ilk; try reflexivity. destruct v as [| | |[|v0 items]]; reflexivity.
    + destruct (prune (SCont mk kk) dk) eqn:EP.
      * cbn [canon_kid option_map]. rewrite Pk. reflexivity.
      * destruct dk; discriminate EP.
    + destruct dk as [| |[|r rows]]; try reflexivity.
      rewrite prune_list_eq in Pk |- *. cbn [canon_kid]. rewrite Pk. reflexivity.
  - destruct d as [| |[|r rows]]; try reflexivity; try exact I.
    rewrite prune_list_eq, !canon_list_eq. f_equal. rewrite map_map. apply map_ext. intros r0.
    specialize (IHrow r0). destruct (prune row r0); [exact IHrow | reflexivity].
Qed.

Theorem canon_pruned : forall s d, is_leaf s = false -> canon s (pruned s d) = canon s d.
Proof.
  intros s d Hl. pose proof (canon_prune s d) as H. unfold pruned.
  destruct (prune s d) eqn:EP; [exact H|].
  destruct s as [| m kids | m keys row]; [discriminate Hl | |].
  - destruct d; discriminate EP.
  - destruct d as [| |[|r rows]]; try discriminate EP. reflexivity.
Qed.

Theorem canon_norm : forall s d, is_leaf s = false -> canon s (norm s d) = canon s d.
Proof.
  intros s d Hl. unfold norm. rewrite canon_fill, canon_pruned by exact Hl. apply canon_fill.
Qed.

(** ** [dnode_eqb] is reflexive, so equal canonical forms pass the oracle's comparison *)
From Coq Require Import Lia.
From YV Require Import Base.Wrap Val.Proofs.

Lemma value_eqb_refl : forall v, value_eqb v v = true.
Proof.
  intros v. unfold value_eqb, equal_impl. rewrite fmt_eqb_refl.
  destruct v; cbn [cmp_impl].
  - rewrite fmt_eqb_refl. unfold cmp3. rewrite Z.ltb_irrefl. reflexivity.
  - unfold dec_cmp, cmp3. rewrite Z.ltb_irrefl. reflexivity.
  - replace (lex_cmp s s) with 0%Z by (symmetry; apply lex_cmp_eq; reflexivity). reflexivity.
  - replace (lex_cmp s s) with 0%Z by (symmetry; apply lex_cmp_eq; reflexivity). reflexivity.
  - rewrite Bool.eqb_reflx. reflexivity.
  - rewrite Z.sub_diag. reflexivity.
  - replace (lex_cmp label label) with 0%Z by (symmetry; apply lex_cmp_eq; reflexivity). reflexivity.
Qed.

Lemma ident_eqb_refl : forall a, ident_eqb a a = true.
Proof. intros a. unfold ident_eqb, bytes_eqb. replace (lex_cmp a a) with 0%Z by (symmetry; apply lex_cmp_eq; reflexivity). reflexivity. Qed.

Fixpoint lval_eqb_refl (v : lval) : lval_eqb v v = true.
Proof.
  destruct v as [x| |names|items]; cbn [lval_eqb].
  - apply value_eqb_refl.
  - reflexivity.
  - induction names as [|n names IH]; [reflexivity|]. rewrite ident_eqb_refl. exact IH.
  - induction items as [|i items IH]; [reflexivity|]. rewrite (lval_eqb_refl i). exact IH.
Qed.

Fixpoint dnode_eqb_refl (d : dnode) : dnode_eqb d d = true.
Proof.
  destruct d as [v|c|rows]; cbn [dnode_eqb].
  - apply lval_eqb_refl.
  - induction c as [|[x|] c IH]; [reflexivity | |exact IH]. rewrite (dnode_eqb_refl x). exact IH.
  - induction rows as [|r rows IH]; [reflexivity|]. rewrite (dnode_eqb_refl r). exact IH.
Qed.

Theorem norm_same_tree : forall s d, is_leaf s = false -> same_tree s (norm s d) d = true.
Proof. intros s d Hl. unfold same_tree. rewrite (canon_norm s d Hl). apply dnode_eqb_refl. Qed.
