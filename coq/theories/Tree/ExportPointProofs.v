(** Proofs for Tree/ExportPoint.v: the export, position by position (C04). *)
From Coq Require Import ZArith List Bool Arith Lia Strings.Byte.
From YV Require Import Val.Model Tree.Schema Tree.Editor Tree.Export Tree.ExportProofs Tree.ExportPoint.
Import ListNotations.

Lemma visit_kids_reported vk new kids sc :
  (forall k sd, vk k sd = visit true k sd) ->
  forall i k, nth_error kids i = Some k ->
  nth i (visit_kids vk new kids sc kids 0) None = reported new kids sc i k.
Proof.
  intros Hvk i k Hk. rewrite visit_kids_nth, Hk. cbn [Nat.add]. unfold reported.
  destruct (negb (guard_selected (sguard k) kids sc)); [reflexivity|].
  destruct k; destruct (nth i sc None); try rewrite Hvk; reflexivity.
Qed.

(** THEOREM: reading a container-like node out into an empty store succeeds, yields one position
    per schema definition, and every position holds exactly what [reported] says *)
Theorem export_pointwise : forall m kids sc new st, st <> Update ->
  wfd (SCont m kids) (DCont sc) = true ->
  exists out,
    edit_one false (SCont m kids) (DCont sc) (empty_node (SCont m kids)) new st = Ok (DCont out) /\
    length out = length kids /\
    forall i k, nth_error kids i = Some k -> nth i out None = reported new kids sc i k.
Proof.
  intros m kids sc new st Hst Hwf.
  exists (visit_kids (fun k sd => visit true k sd) new kids sc kids 0).
  split; [|split].
  - rewrite (export_exact (SCont m kids) (DCont sc) new st Hst eq_refl Hwf). reflexivity.
  - apply visit_kids_length.
  - intros i k Hk. apply visit_kids_reported; [reflexivity|exact Hk].
Qed.

(** an unset leaf reports its own default (below the start selection), a set leaf its value *)
Corollary unset_leaf_own_default : forall m kids sc st i lm ty il dflt out, st <> Update ->
  wfd (SCont m kids) (DCont sc) = true ->
  nth_error kids i = Some (SLeaf lm ty il dflt) -> nth i sc None = None ->
  guard_selected (nm_guard lm) kids sc = true ->
  edit_one false (SCont m kids) (DCont sc) (empty_node (SCont m kids)) true st = Ok (DCont out) ->
  nth i out None = option_map DLeaf dflt.
Proof.
  intros m kids sc st i lm ty il dflt out Hst Hwf Hk Hn Hg He.
  destruct (export_pointwise m kids sc true st Hst Hwf) as [out' [He' [_ Hp]]].
  rewrite He in He'. injection He' as <-. rewrite (Hp i _ Hk). unfold reported. change (sguard (SLeaf lm ty il dflt)) with (nm_guard lm).
  rewrite Hg, Hn. reflexivity.
Qed.

Corollary set_leaf_reported : forall m kids sc new st i lm ty il dflt v out, st <> Update ->
  wfd (SCont m kids) (DCont sc) = true ->
  nth_error kids i = Some (SLeaf lm ty il dflt) -> nth i sc None = Some v ->
  guard_selected (nm_guard lm) kids sc = true ->
  edit_one false (SCont m kids) (DCont sc) (empty_node (SCont m kids)) new st = Ok (DCont out) ->
  nth i out None = Some v.
Proof.
  intros m kids sc new st i lm ty il dflt v out Hst Hwf Hk Hn Hg He.
  destruct (export_pointwise m kids sc new st Hst Hwf) as [out' [He' [_ Hp]]].
  rewrite He in He'. injection He' as <-. rewrite (Hp i _ Hk). unfold reported. change (sguard (SLeaf lm ty il dflt)) with (nm_guard lm).
  rewrite Hg, Hn. reflexivity.
Qed.

(** ** the other definitions matter through their guards only *)
Lemma cases_with_data_guards c : forall kids kids' sc, map sguard kids = map sguard kids' ->
  cases_with_data c kids sc = cases_with_data c kids' sc.
Proof.
  induction kids as [|k ks IH]; intros [|k' ks'] sc H; try discriminate; [reflexivity|].
  cbn [map] in H. injection H as Hg Ht. destruct sc as [|d sc]; [reflexivity|].
  cbn [cases_with_data]. rewrite Hg, (IH ks' sc Ht). reflexivity.
Qed.

Lemma guard_selected_guards kids kids' sc : map sguard kids = map sguard kids' ->
  forall g, guard_selected g kids sc = guard_selected g kids' sc.
Proof.
  intros H. induction g as [|[c k] tl IH]; [reflexivity|]. cbn [guard_selected]. unfold choose.
  rewrite (cases_with_data_guards c kids kids' sc H), IH. reflexivity.
Qed.

(** THEOREM: two schemas whose definitions sit under the same choices/cases report the same at a
    position where they have the same definition - whatever types and defaults the OTHER
    definitions have *)
Theorem reported_ignores_other_definitions : forall new kids kids' sc i k,
  map sguard kids = map sguard kids' -> reported new kids sc i k = reported new kids' sc i k.
Proof.
  intros new kids kids' sc i k H. unfold reported. rewrite (guard_selected_guards kids kids' sc H). reflexivity.
Qed.

(** ... hence so do the exports of the two schemas *)
Theorem export_ignores_other_definitions : forall m kids kids' sc new st i k out out', st <> Update ->
  wfd (SCont m kids) (DCont sc) = true -> wfd (SCont m kids') (DCont sc) = true ->
  map sguard kids = map sguard kids' ->
  nth_error kids i = Some k -> nth_error kids' i = Some k ->
  edit_one false (SCont m kids) (DCont sc) (empty_node (SCont m kids)) new st = Ok (DCont out) ->
  edit_one false (SCont m kids') (DCont sc) (empty_node (SCont m kids')) new st = Ok (DCont out') ->
  nth i out None = nth i out' None.
Proof.
  intros m kids kids' sc new st i k out out' Hst Hw Hw' Hg Hk Hk' He He'.
  destruct (export_pointwise m kids sc new st Hst Hw) as [o [E [_ P]]].
  destruct (export_pointwise m kids' sc new st Hst Hw') as [o' [E' [_ P']]].
  rewrite He in E. injection E as <-. rewrite He' in E'. injection E' as <-.
  rewrite (P i k Hk), (P' i k Hk'). apply reported_ignores_other_definitions. exact Hg.
Qed.

(** list entries: each once, in source order *)
Theorem export_list_entries : forall m keys row rows new st, st <> Update ->
  wfd (SList m keys row) (DList rows) = true ->
  edit_one false (SList m keys row) (DList rows) (DList []) new st = Ok (DList (map (fun r => visit true row r) rows)).
Proof.
  intros m keys row rows new st Hst Hwf.
  exact (export_exact (SList m keys row) (DList rows) new st Hst eq_refl Hwf).
Qed.
