(** Export: what node/edit.go delivers to a write-only target node (JSONWtr, XML writer, a
    capturing node that starts empty) when a selection is read out with InsertInto / UpsertInto:
    the source content in schema order (container_meta_list.go), restricted to the chosen case of
    every choice, plus the schema default of every unset leaf of a node that is new at the target
    (everything below the start selection).  Tree/JsonRProofs.v (C04) proves that Editor.v's
    [edit_one] into an empty reference store yields exactly this tree.
    Also the kinds of start selection a read-out can begin at. *)
From Coq Require Import ZArith List Bool Strings.Byte.
From YV Require Import Val.Model Tree.Schema.
Import ListNotations.

Definition visit_kids (vkid : snode -> dnode -> dnode) (new : bool) (kids : list snode) (sc : content)
  : list snode -> nat -> content :=
  fix go ks i :=
    match ks with
    | [] => []
    | k :: ks' =>
        (if negb (guard_selected (sguard k) kids sc) then None
         else match k with
              | SLeaf _ _ _ dflt =>
                  (* editor.leaf: Selection.get with useDefault = new (strategy is never update here) *)
                  match nth i sc None with
                  | Some d => Some d
                  | None => if new then option_map DLeaf dflt else None
                  end
              | _ =>
                  (* editor.node: the child is created at the target, so everything below is new *)
                  match nth i sc None with
                  | Some sd => Some (vkid k sd)
                  | None => None
                  end
              end) :: go ks' (S i)
    end.

Fixpoint visit (new : bool) (s : snode) (d : dnode) {struct s} : dnode :=
  match s, d with
  | SCont _ kids, DCont sc => DCont (visit_kids (fun k sd => visit true k sd) new kids sc kids O)
  | SList _ _ row, DList rows => DList (map (fun r => visit true row r) rows)   (* editor.list: every row is a new item *)
  | _, _ => d
  end.


(** the start selection of the write *)
Inductive start :=
| StCont (top : bool) (s : snode) (d : dnode)
    (* module root (top = true), container or list entry: [s] = SCont meta kids, [d] its content *)
| StList (top : bool) (pmod : ident) (s : snode) (d : dnode)
    (* a list (not an entry): [top] = it sits directly below the module, [pmod] = module of its parent *)
| StLeaf (m : nmeta) (v : option lval).
    (* a leaf or leaf-list selected by Find: read from the parent's node without defaults *)


