(** The theorems instantiated for the executable model that Check/C19Check.v evaluates
    (dec_text / parse_dec_exact as FormatFloat / ParseFloat, the repaired reader and writer), with
    every hypothesis a boolean the check can compute; and what was wrong at the pinned commit. *)
From Coq Require Import ZArith List Bool Strings.Byte.
From YV Require Import Val.Model Tree.Schema Tree.Editor Tree.XmlEsc Tree.XmlSpec Tree.XmlW Tree.XmlR
  Tree.XmlViewProofs Tree.XmlRoundProofs Tree.XmlSpecProofs.
Import ListNotations.
Open Scope Z_scope.

Lemma dec_contract_exec : forall m e, dec_okb m e = true ->
  parse_dec_exact (trim_space (sanitize (dec_text m e))) = Some (m, e).
Proof.
  intros m e H. unfold dec_okb in H.
  destruct (parse_dec_exact (trim_space (sanitize (dec_text m e)))) as [[m' e']|]; [|discriminate H].
  apply andb_true_iff in H. destruct H as (A & B). apply Z.eqb_eq in A. apply Z.eqb_eq in B. subst. reflexivity.
Qed.

(** the domain of the round-trip theorem, computable per case *)
Definition theorem_domain (nss : list (ident * text)) (ids : bool) (s : snode) (d : dnode) : bool :=
  wfs nss s && dflt_ok ids dec_okb s && negb (is_leaf s) && wfd ids dec_okb s d && keys_distinct s d.

Theorem roundtrip_exec : forall nss ids stream s d, theorem_domain nss ids s d = true ->
  exists x back,
    write_doc nss ids dec_text false stream s d = Some x /\ doc_wf x = true /\
    read_doc nss parse_dec_exact false false s x = Ok back /\ same_tree s back d = true.
Proof.
  intros nss ids stream s d H. unfold theorem_domain in H.
  repeat (apply andb_true_iff in H; destruct H as (H & ?)).
  apply negb_true_iff in H2.
  destruct (xml_roundtrip nss ids dec_text parse_dec_exact dec_okb dec_contract_exec stream s d H H3 H2 H1 H0)
    as (x & Ew & Hwf & Er).
  exists x, (norm s d). repeat split; try assumption. apply norm_same_tree. exact H2.
Qed.

(** ** a concrete instance: the hypotheses are met, and the round trip is the identity on it *)
Definition ex_nss : list (ident * text) := [([x6d], [x75; x3a; x6d]); ([x61], [x75; x3a; x61])].
Definition ex_meta (n : ident) (mo : ident) : nmeta := mkMeta n mo true [] None.
Definition ex_schema : snode :=
  SCont (ex_meta [x6d] [x6d])
    [ SLeaf (ex_meta [x73] [x6d]) TStr false None;
      SCont (ex_meta [x63] [x61])                               (* a node of another module *)
        [ SLeaf (ex_meta [x64] [x61]) (TDec 2) false None;
          SLeaf (ex_meta [x65] [x61]) (TEnum [([x6f; x6e; x65], 0); ([x74; x77; x6f], 7)]) false None ];
      SList (ex_meta [x71] [x6d]) [0%nat]
        (SCont (ex_meta [x71] [x6d])
           [ SLeaf (ex_meta [x6b] [x6d]) (TInt FInt8) false None;
             SLeaf (ex_meta [x77] [x6d]) TStr true None ]) ].
(** s = " <a> &amp; ]]> \t", c = { d = -2.25, e = two }, q = [ {k=-128, w=["&", ""]}, {k=127} ] *)
Definition ex_data : dnode :=
  DCont
    [ Some (DLeaf (LV (VStr [x20; x3c; x61; x3e; x20; x26; x61; x6d; x70; x3b; x20; x5d; x5d; x3e; x20; x09])));
      Some (DCont [ Some (DLeaf (LV (VDec (-9) (-2)))); Some (DLeaf (LV (VEnum 7 [x74; x77; x6f]))) ]);
      Some (DList [ DCont [ Some (DLeaf (LV (VInt FInt8 (-128)))); Some (DLeaf (LList [LV (VStr [x26]); LV (VStr [])])) ];
                    DCont [ Some (DLeaf (LV (VInt FInt8 127))); None ] ]) ].

Example hyps_met : theorem_domain ex_nss false ex_schema ex_data = true /\
                   theorem_domain ex_nss true ex_schema ex_data = true.
Proof. split; vm_compute; reflexivity. Qed.

Example roundtrip_instance :
  (match write_doc ex_nss false dec_text false true ex_schema ex_data with
   | Some x => read_doc ex_nss parse_dec_exact false false ex_schema x
   | None => Err EOther
   end) = Ok ex_data.
Proof. vm_compute. reflexivity. Qed.

(** ** the pinned commit: string values lost their edge white space on input (ContentTrim) *)
Example pinned_reader_refuted :
  exists back,
    (match write_doc ex_nss false dec_text false false ex_schema ex_data with
     | Some x => read_doc ex_nss parse_dec_exact true false ex_schema x
     | None => Err EOther
     end) = Ok back /\ same_tree ex_schema back ex_data = false.
Proof. eexists. split; [vm_compute; reflexivity | vm_compute; reflexivity]. Qed.

(** ** the pinned commit: the streaming writer declared a namespace on the first element only, so
    nodes defined by another module were not found on input *)
Example pinned_stream_writer_refuted :
  exists back,
    (match write_doc ex_nss false dec_text true true ex_schema ex_data with
     | Some x => read_doc ex_nss parse_dec_exact false false ex_schema x
     | None => Err EOther
     end) = Ok back /\ same_tree ex_schema back ex_data = false.
Proof. eexists. split; [vm_compute; reflexivity | vm_compute; reflexivity]. Qed.

(** ** the pinned commit: XmlNode.Choose looked only at a case's own definitions, so a node below a
    choice nested in a case without nodes of its own was never read ( choice h { case a { choice g {
    case b { leaf x } } } } ) *)
Definition ex_choice_schema : snode :=
  SCont (ex_meta [x6d] [x6d])
    [ SLeaf (mkMeta [x78] [x6d] true [(0%nat, 0%nat); (1%nat, 0%nat)] None) TStr false None ].
Definition ex_choice_data : dnode := DCont [ Some (DLeaf (LV (VStr [x76]))) ].

Example pinned_choose_refuted :
  (match write_doc ex_nss false dec_text false false ex_choice_schema ex_choice_data with
   | Some x => read_doc ex_nss parse_dec_exact false false ex_choice_schema x
   | None => Err EOther
   end) = Ok ex_choice_data /\
  exists back,
    (match write_doc ex_nss false dec_text false false ex_choice_schema ex_choice_data with
     | Some x => read_doc ex_nss parse_dec_exact false true ex_choice_schema x
     | None => Err EOther
     end) = Ok back /\ same_tree ex_choice_schema back ex_choice_data = false.
Proof. split; [vm_compute; reflexivity|]. eexists. split; [vm_compute; reflexivity | vm_compute; reflexivity]. Qed.
