(** Executable model of the XPath predicate evaluation and of the three places that consult it
      node/xpath.go        Selection.XFind / XPredicate
      node/xpath_impl.go   xpathImpl.resolvePath (container -> Find; list -> iterate the entries until one
                           matches; leaf -> operator), resolveExpression, resolveOperator
      node/value.go        NewValue / toEnum   +  val/conv.go toInt64 toUInt64 toInt8.. toDecimal64 toBool
                           toString (only for the three literal types the parser produces: int64, float64, string)
      node/check_when.go   CheckWhen: container post-constraint (context = the container itself),
                           field pre-constraint (context = the container holding the leaf); its
                           CheckListPostConstraints has the wrong result type and is never registered, so a
                           'when' on a list is evaluated as a container post-constraint on the LIST node
      node/where.go        Where.CheckListPostConstraints (entries of the base list only)
      node/filter.go       xpathFilter.CheckNotifyFilterConstraints; node/selection.go checkStreamConstraints
      node/edit.go         editor.leaf / node / list as far as they consult the constraints
                           (reader side: from.get, from.selekt, selectVisibleListItem; writer side: to.set, to.selekt)
    as the code stands after the three repairs in xpath.go / xpath_impl.go (unset operand => false;
    paths deeper than container/leaf; predicates evaluated without the request's own constraints).

    Domain of the model (anything else is [XUnsup], which the harness never generates):
    expressions of the shape name(/name)* op literal; the nodes on the path and the operand leaf
    carry no 'when' of their own (an operand leaf with a 'when' is modelled: it panics); operand types
    integer, decimal64, string, boolean, enumeration; integer literals for int32/enum within int32
    (val/conv.go narrows silently there: another property's concern). *)
From Coq Require Import ZArith List Bool Lia Strings.Byte.
From YV Require Import Base.Wrap Val.Model Tree.Schema Tree.Editor Tree.XPathLex.
Import ListNotations.
Open Scope Z_scope.

Inductive xres (A : Type) := XOk (a : A) | XErr | XPanic | XUnsup.
Arguments XOk {A} a.
Arguments XErr {A}.
Arguments XPanic {A}.
Arguments XUnsup {A}.

Definition xbind {A B} (x : xres A) (f : A -> xres B) : xres B :=
  match x with XOk a => f a | XErr => XErr | XPanic => XPanic | XUnsup => XUnsup end.

(** * Literal -> typed value (NewValue on int64 / float64 / string) *)

Definition nonempty_digits (l : list byte) : option Z :=
  match l with [] => None | _ => digits_val 0 l end.

(** strconv.ParseInt(s, 10, _) before the range check: [+-]? digit+ *)
Definition parse_sint (s : list byte) : option Z :=
  match s with
  | b :: t =>
      if bz b =? 43 then nonempty_digits t
      else if bz b =? 45 then option_map Z.opp (nonempty_digits t)
      else nonempty_digits s
  | [] => None
  end.
(** strconv.ParseUint(s, 10, 64) before the range check *)
Definition parse_uint (s : list byte) : option Z := nonempty_digits s.

(** int64(x) / uint64(x) of a non-negative finite float m*2^e: truncation *)
Definition f64_trunc (m e : Z) : Z := if 0 <=? e then m * 2 ^ e else m / 2 ^ (- e).

(** float64 the parser's num() produced for a number with a dot *)
Definition lit_float (n k : Z) : option (Z * Z) := f64_round n (10 ^ k).

(** fractional literals on integer leaves are only modelled below 2^31 (beyond, Go's conversion of an
    out-of-range float is implementation specific) *)
Definition f64_integral (m e : Z) : bool := (0 <=? e) || (m mod 2 ^ (- e) =? 0).
(** after fix "float to integer conversion requires an integral value in range" (val/conv.go) a
    literal with a fractional part is an error on an integer leaf; an integral one converts *)
Definition dec_as_int (n k : Z) : xres Z :=
  match lit_float n k with
  | Some (m, e) =>
      if f64_integral m e
      then let t := f64_trunc m e in if t <? 2 ^ 31 then XOk t else XUnsup
      else XErr
  | None => XUnsup
  end.

(** toInt64 *)
Definition to_int64 (l : literal) : xres Z :=
  match l with
  | LInt z => XOk z
  | LStr s => match parse_sint s with
              | Some z => if in_sb 64 z then XOk z else XErr
              | None => XErr
              end
  | LDec n k => dec_as_int n k
  end.
(** toUInt64 (an int64 literal is never negative: the lexer has no sign) *)
Definition to_uint64 (l : literal) : xres Z :=
  match l with
  | LInt z => XOk z
  | LStr s => match parse_uint s with
              | Some z => if in_ub 64 z then XOk z else XErr
              | None => XErr
              end
  | LDec n k => dec_as_int n k
  end.

Definition conv_int (f : fmt) (l : literal) : xres value :=
  match f with
  | FInt8 | FInt16 =>
      xbind (to_int64 l) (fun z => if in_rangeb f z then XOk (VInt f z) else XErr)
  | FInt32 =>
      match l with
      | LInt z => if z <? 2 ^ 31 then XOk (VInt f z) else XUnsup     (* int32(x) wraps: conv narrowing *)
      | LStr s => match parse_sint s with
                  | Some z => if in_sb 32 z then XOk (VInt f z) else XErr
                  | None => XErr
                  end
      | LDec n k => xbind (dec_as_int n k) (fun z => XOk (VInt f z))
      end
  | FInt64 => xbind (to_int64 l) (fun z => XOk (VInt f z))
  | FUInt8 | FUInt16 | FUInt32 =>
      xbind (to_uint64 l) (fun z => if in_rangeb f z then XOk (VInt f z) else XErr)
  | FUInt64 => xbind (to_uint64 l) (fun z => XOk (VInt f z))
  | _ => XUnsup
  end.

(** text accepted for a decimal given in quotes: [+-]? digits [. digits] with at least one digit.
    strconv.ParseFloat also knows exponents, hexadecimal floats, inf / infinity / nan (any case):
    text with an 'e' or an 'x' or spelling one of the special values is outside the model; every other
    text is a syntax error. *)
Definition lower (b : byte) : Z := if (65 <=? bz b) && (bz b <=? 90) then bz b + 32 else bz b.
Fixpoint zs_eq (a b : list Z) : bool :=
  match a, b with
  | [], [] => true
  | x :: a', y :: b' => (x =? y) && zs_eq a' b'
  | _, _ => false
  end.
Definition maybe_float_syntax (body : list byte) : bool :=
  let lo := map lower body in
  existsb (fun z => (z =? 101) || (z =? 120)) lo
  || zs_eq lo [105;110;102] || zs_eq lo [110;97;110] || zs_eq lo [105;110;102;105;110;105;116;121].

Definition parse_decimal_text (s : list byte) : xres (bool * Z * Z) :=   (* negative, n, k *)
  let neg := match s with b :: _ => bz b =? 45 | [] => false end in
  let body := match s with b :: t => if (bz b =? 43) || (bz b =? 45) then t else s | [] => [] end in
  let (ip, rest) := span is_digit body in
  let ok_shape :=
    match rest with
    | [] => negb (Nat.eqb (length ip) 0)
    | d :: fp => is_dot d && forallb is_digit fp && negb (Nat.eqb (length ip + length fp) 0)
    end in
  if ok_shape then
    let fp := tl rest in
    match digits_val 0 (ip ++ fp) with
    | Some n => XOk (neg, n, Z.of_nat (length fp))
    | None => XErr
    end
  else if maybe_float_syntax body then XUnsup else XErr.

Definition conv_dec (l : literal) : xres value :=
  match l with
  | LInt z => match f64_round z 1 with Some (m, e) => XOk (VDec m e) | None => XUnsup end
  | LDec n k => match lit_float n k with Some (m, e) => XOk (VDec m e) | None => XUnsup end
  | LStr s =>
      xbind (parse_decimal_text s) (fun nk =>
        let '(neg, n, k) := nk in
        match f64_round n (10 ^ k) with
        | Some (m, e) => XOk (VDec (if neg then - m else m) e)
        | None => XErr             (* ParseFloat: value out of range *)
        end)
  end.

(** fmt.Sprintf("%v", int64) *)
Fixpoint dec_digits (fuel : nat) (z : Z) (acc : list byte) : list byte :=
  match fuel with
  | O => acc
  | S f =>
      let d := match Byte.of_N (Z.to_N (48 + z mod 10)) with Some b => b | None => x30 end in
      if z <? 10 then d :: acc else dec_digits f (z / 10) (d :: acc)
  end.
Definition dec_text (z : Z) : list byte := dec_digits 20 z [].

Definition bytes_of_ascii (l : list Z) : list byte :=
  map (fun z => match Byte.of_N (Z.to_N z) with Some b => b | None => x00 end) l.
Definition s_true := bytes_of_ascii [116;114;117;101].
Definition s_false := bytes_of_ascii [102;97;108;115;101].
Definition s_yes := bytes_of_ascii [121;101;115].
Definition s_np := bytes_of_ascii [110;111].
Definition s_1 := bytes_of_ascii [49].
Definition s_0 := bytes_of_ascii [48].

(** toBool *)
Definition conv_bool (l : literal) : xres value :=
  match l with
  | LStr s =>
      if bytes_eqb s s_1 || bytes_eqb s s_true || bytes_eqb s s_yes then XOk (VBool true)
      else if bytes_eqb s s_0 || bytes_eqb s s_false || bytes_eqb s s_np then XOk (VBool false)
      else XErr
  | _ => XErr
  end.

(** EnumList.ById / ByLabel: first match *)
Fixpoint by_id (labels : list (ident * Z)) (id : Z) : option (ident * Z) :=
  match labels with
  | [] => None
  | (l, i) :: tl => if i =? id then Some (l, i) else by_id tl id
  end.
Fixpoint by_label (labels : list (ident * Z)) (s : ident) : option (ident * Z) :=
  match labels with
  | [] => None
  | (l, i) :: tl => if bytes_eqb l s then Some (l, i) else by_label tl s
  end.
Definition enum_of (o : option (ident * Z)) : xres value :=
  match o with Some (l, i) => XOk (VEnum i l) | None => XErr end.

(** node/value.go toEnum: by id when the literal converts to an int32 (then to a uint32), else by label *)
Definition conv_enum (labels : list (ident * Z)) (l : literal) : xres value :=
  match l with
  | LInt z => if z <? 2 ^ 31 then enum_of (by_id labels z) else XUnsup
  | LDec n k => xbind (dec_as_int n k) (fun z => enum_of (by_id labels z))
  | LStr s =>
      match parse_sint s with
      | Some z =>
          if in_sb 32 z then enum_of (by_id labels z)
          else match parse_uint s with
               | Some u => if u <? 2 ^ 32 then enum_of (by_id labels u) else enum_of (by_label labels s)
               | None => enum_of (by_label labels s)
               end
      | None => enum_of (by_label labels s)
      end
  end.

Definition conv_lit (ty : ltype) (l : literal) : xres value :=
  match ty with
  | TInt f => conv_int f l
  | TDec _ => conv_dec l
  | TStr => match l with
            | LStr s => XOk (VStr s)
            | LInt z => XOk (VStr (dec_text z))
            | LDec _ _ => XUnsup          (* strconv.FormatFloat(x, 'f', 0, 64) *)
            end
  | TBool => conv_bool l
  | TEnum labels => conv_enum labels l
  | _ => XUnsup
  end.

(** * The comparison (resolveOperator after the operand has been read) *)
Definition cmp_holds (o : xop) (a b : value) : xres bool :=
  match o with
  | OEq => match equal_impl a b with Some r => XOk r | None => XPanic end
  | ONe => match equal_impl a b with Some r => XOk (negb r) | None => XPanic end
  | _ =>
      match cmp_impl a b with
      | None => XPanic
      | Some c => XOk (match o with
                       | OLt => c <? 0 | OGt => 0 <? c | OGe => 0 <=? c | OLe => c <=? 0
                       | _ => false end)
      end
  end.

(** meta.Find by identifier among the definitions of a container / list / module *)
Fixpoint find_kid (n : ident) (kids : list snode) (i : nat) : option (nat * snode) :=
  match kids with
  | [] => None
  | k :: tl => if ident_eqb (sname k) n then Some (i, k) else find_kid n tl (S i)
  end.

Definition has_when (s : snode) : bool :=
  match nm_when (smeta s) with Some _ => true | None => false end.

(** Selection.Get on the operand: the stored value, else the leaf's default *)
Definition read_operand (dflt : option lval) (d : option dnode) : xres (option value) :=
  match d with
  | Some (DLeaf (LV v)) => XOk (Some v)
  | Some _ => XUnsup
  | None => match dflt with
            | Some (LV v) => XOk (Some v)
            | Some _ => XUnsup
            | None => XOk None
            end
  end.

(** resolveOperator in the container-like selection (kids, c) *)
Definition resolve_operator (kids : list snode) (c : content) (lf : ident) (o : xop) (l : literal) : xres bool :=
  match find_kid lf kids O with
  | None => XErr                                   (* 'x' not found in xpath *)
  | Some (i, SLeaf m ty il dflt) =>
      if il then XUnsup else
      xbind (conv_lit ty l) (fun b =>
        match nm_when m with
        | Some w =>
            (* Get -> CheckFieldPreConstraints -> CheckWhen with the leaf's own selection as context:
               s.Meta().(meta.HasDefinitions) fails on a leaf *)
            match xparse w with POk _ => XPanic | PErr => XErr | PPanic => XPanic end
        | None =>
            xbind (read_operand dflt (nth i c None)) (fun a =>
              match a with
              | None => XOk false                  (* unset: no comparison holds *)
              | Some a => cmp_holds o a b
              end)
        end)
  | Some (i, SCont m _) =>
      (* a container as last segment: resolvePath(seg.Next = nil, ...) dereferences nil *)
      if has_when (SCont m []) then XUnsup else
      match nth i c None with None => XOk false | Some _ => XPanic end
  | Some (i, SList m _ _) =>
      if has_when (SCont m []) then XUnsup else
      match nth i c None with
      | None | Some (DList []) => XOk false
      | Some _ => XPanic
      end
  end.

(** XFind for name(/name)* op literal, from the container-like selection (kids, c) *)
Fixpoint xeval (kids : list snode) (c : content) (p : list ident) (lf : ident) (o : xop) (l : literal)
  {struct p} : xres bool :=
  match p with
  | [] => resolve_operator kids c lf o l
  | n :: p' =>
      match find_kid n kids O with
      | None => XErr
      | Some (i, SCont m kids') =>
          if has_when (SCont m []) then XUnsup else
          match nth i c None with
          | None => XOk false
          | Some (DCont c') => xeval kids' c' p' lf o l
          | Some _ => XUnsup
          end
      | Some (i, SList m _ row) =>
          if has_when (SCont m []) then XUnsup else
          match nth i c None with
          | None => XOk false
          | Some (DList rows) =>
              (fix each (rs : list dnode) : xres bool :=
                 match rs with
                 | [] => XOk false
                 | r :: rs' =>
                     match r with
                     | DCont rc =>
                         match xeval (skids row) rc p' lf o l with
                         | XOk false => each rs'
                         | res => res
                         end
                     | _ => XUnsup
                     end
                 end) rows
          | Some _ => XUnsup
          end
      | Some (_, SLeaf _ _ _ _) => XUnsup          (* a comparison in the middle of the path *)
      end
  end.

Definition eval_cmp (kids : list snode) (c : content) (e : cmp_expr) : xres bool :=
  xeval kids c (ce_path e) (ce_leaf e) (ce_op e) (ce_lit e).

(** xpath.Parse + XPredicate on the raw expression text *)
Definition xpredicate (kids : list snode) (c : content) (w : list byte) : xres bool :=
  match xparse w with
  | PErr => XErr
  | PPanic => XPanic
  | POk p => match as_cmp p with Some e => eval_cmp kids c e | None => XUnsup end
  end.

(** * The reader consulting a 'when' oracle.
    The traversal is the reader side of editor.enter into a fresh target (what
    Selection.UpsertInto(capturing node) delivers); the three decisions are parameters so that the
    same traversal serves the model (CheckWhen on the compiled 'when' texts), the "as if there were no
    when" variant and the specification oracle of the check (intended placements, mathematical truth).
    [pth]: schema positions from the entry point down to the node (list rows add nothing). *)
Definition xcons {A} (x : xres A) (r : xres (list A)) : xres (list A) :=
  xbind x (fun a => xbind r (fun l => XOk (a :: l))).

Section Export.
  (** leaf at [pth] among [kids] with the holder's content *)
  Variable wfield : list nat -> list snode -> content -> snode -> xres bool.
  (** container at [pth]: the holder's kids and content, the container's schema and own content *)
  Variable wcont : list nat -> list snode -> content -> snode -> content -> xres bool.
  (** list at [pth], present in the data *)
  Variable wlist : list nat -> list snode -> content -> snode -> xres bool.

  (** one definition of a container-like node: skipped when its choice case is not the selected one,
      else editor.leaf / editor.node on the reader side *)
  Definition wexp_kid (rec : list nat -> snode -> dnode -> xres dnode) (pth : list nat) (usedflt : bool)
             (kids : list snode) (sc : content) (i : nat) (k : snode) : xres (option dnode) :=
    if negb (guard_selected (sguard k) kids sc) then XOk None else
    match k with
    | SLeaf _ _ _ dflt =>
        xbind (wfield (pth ++ [i]) kids sc k) (fun ok =>
          if ok then
            XOk (match nth i sc None with
                 | Some v => Some v
                 | None => if usedflt then option_map DLeaf dflt else None
                 end)
          else XOk None)
    | SCont _ _ =>
        match nth i sc None with
        | None => XOk None
        | Some (DCont cc as sd) =>
            xbind (wcont (pth ++ [i]) kids sc k cc) (fun ok =>
              if ok then xbind (rec (pth ++ [i]) k sd) (fun r => XOk (Some r)) else XOk None)
        | Some _ => XUnsup
        end
    | SList _ _ _ =>
        match nth i sc None with
        | None => XOk None
        | Some sd =>
            xbind (wlist (pth ++ [i]) kids sc k) (fun ok =>
              if ok then xbind (rec (pth ++ [i]) k sd) (fun r => XOk (Some r)) else XOk None)
        end
    end.

  Fixpoint wexp (pth : list nat) (usedflt : bool) (s : snode) (d : dnode) {struct s} : xres dnode :=
    match s, d with
    | SCont _ kids, DCont sc =>
        xbind
          ((fix go (ks : list snode) (i : nat) {struct ks} : xres content :=
              match ks with
              | [] => XOk []
              | k :: ks' =>
                  xcons (wexp_kid (fun p k' sd => wexp p true k' sd) pth usedflt kids sc i k) (go ks' (S i))
              end) kids O)
          (fun c' => XOk (DCont c'))
    | SList _ _ row, DList rows =>
        xbind
          ((fix each (rs : list dnode) : xres (list dnode) :=
              match rs with
              | [] => XOk []
              | r :: rs' => xcons (wexp pth true row r) (each rs')
              end) rows)
          (fun rows' => XOk (DList rows'))
    | _, _ => XUnsup
    end.

  Definition root_cont (kids : list snode) : snode := SCont (mkMeta [] [] true [] None) kids.

  (** export from a container-like entry point (module root, container, list entry) *)
  Definition wexport_at (pth : list nat) (usedflt : bool) (kids : list snode) (c : content) : xres content :=
    match wexp pth usedflt (root_cont kids) (DCont c) with
    | XOk (DCont c') => XOk c'
    | XOk _ => XUnsup
    | XErr => XErr | XPanic => XPanic | XUnsup => XUnsup
    end.
End Export.

(** * CheckWhen as registered on every browser ("~when") *)
Section Model.
  Variable use_when : bool.   (* false: the same traversal ignoring every 'when' ("as if it had none") *)

  Definition when_of (s : snode) : option (list byte) :=
    if use_when then nm_when (smeta s) else None.

  (** field pre-constraint: context = the container holding the leaf *)
  Definition when_field (_ : list nat) (kids : list snode) (c : content) (k : snode) : xres bool :=
    match when_of k with None => XOk true | Some w => xpredicate kids c w end.

  (** container post-constraint: context = the selected child itself *)
  Definition when_cont (_ : list nat) (_ : list snode) (_ : content) (k : snode) (cc : content) : xres bool :=
    match when_of k with None => XOk true | Some w => xpredicate (skids k) cc w end.

  (** a list that carries a 'when' and is present: the expression is evaluated with the LIST node as
      context; whatever its first segment is, the node answers Child / Field with an error *)
  Definition when_list (_ : list nat) (_ : list snode) (_ : content) (k : snode) : xres bool :=
    match when_of k with None => XOk true | Some w => XErr end.

  Definition wexp_m := wexp when_field when_cont when_list.
  Definition wexport (kids : list snode) (c : content) : xres content :=
    wexport_at when_field when_cont when_list [] false kids c.
End Model.

(** * ?where= on the base list: the entries for which the predicate holds, in order, then exported *)
Fixpoint where_rows (rkids : list snode) (e : list byte) (rows : list dnode) : xres (list dnode) :=
  match rows with
  | [] => XOk []
  | r :: rs =>
      match r with
      | DCont rc =>
          xbind (xpredicate rkids rc e) (fun keep =>
            xbind (if keep then xbind (wexp_m true [] true (root_cont rkids) r) (fun x => XOk [x])
                   else XOk [])
                  (fun me => xbind (where_rows rkids e rs) (fun rest => XOk (me ++ rest))))
      | _ => XUnsup
      end
  end.

(** * ?filter= on a notification stream: per event keep / drop / deliver the error *)
Inductive fdecision := FKeep | FDrop | FError | FPanic | FUnsup.
Definition filter_event (kids : list snode) (e : list byte) (ev : content) : fdecision :=
  match xpredicate kids ev e with
  | XOk true => FKeep | XOk false => FDrop | XErr => FError | XPanic => FPanic | XUnsup => FUnsup
  end.

(** * Writer side: Selection.UpsertFrom(source node) on a browser whose data is [tgt].
    The source selection is a Split: no constraints there.  The 'when' of a leaf is evaluated on the
    TARGET as it is when the leaf is reached (earlier definitions already written); the 'when' of a
    container on the target's existing child, or on the freshly created (replacing) one. *)
Inductive wres := WOk (c : content) | WErr | WPanic | WUnsup.

(** one definition of the source container: editor.leaf / editor.node on the writer side; the result is
    the target's content after it *)
Definition wedit_kid (rec : snode -> dnode -> dnode -> bool -> xres dnode) (new : bool)
           (kids : list snode) (sc : content) (i : nat) (k : snode) (tc : content) : xres content :=
  if negb (Nat.eqb (length (sguard k)) 0) then XUnsup else
  match k with
  | SLeaf _ _ _ dflt =>
      let v := match nth i sc None with
               | Some d => Some d
               | None => if new then option_map DLeaf dflt else None
               end in
      match v with
      | None => XOk tc
      | Some d =>
          xbind (when_field true [] kids tc k) (fun ok => XOk (if ok then set_nth i (Some d) tc else tc))
      end
  | SCont _ kk =>
      match nth i sc None with
      | None => XOk tc
      | Some sd =>
          (* to.selekt(New=false): existing child if its when holds *)
          let existing : xres (option dnode) :=
            match nth i tc None with
            | Some (DCont cc as td) => xbind (when_cont true [] [] [] k cc) (fun ok => XOk (if ok then Some td else None))
            | Some _ => XUnsup
            | None => XOk None
            end in
          xbind existing (fun ex =>
            match ex with
            | Some td => xbind (rec k sd td false) (fun td' => XOk (set_nth i (Some td') tc))
            | None =>
                (* to.selekt(New=true): the store puts a fresh container there, then the post-constraint *)
                xbind (when_cont true [] [] [] k (empty_content kk)) (fun ok =>
                  if ok then xbind (rec k sd (empty_node k) true) (fun td' => XOk (set_nth i (Some td') tc))
                  else XErr)       (* "could not create ... container node" *)
            end)
      end
  | SList _ _ _ =>
      match nth i sc None with
      | None => XOk tc
      | Some sd =>
          if has_when k then XErr else
          let td := match nth i tc None with Some td => td | None => empty_node k end in
          xbind (rec k sd td (negb (present (nth i tc None)))) (fun td' => XOk (set_nth i (Some td') tc))
      end
  end.

Fixpoint wedit (s : snode) (src tgt : dnode) (new : bool) {struct s} : xres dnode :=
  match s, src, tgt with
  | SCont _ kids, DCont sc, DCont tc =>
      xbind
        ((fix go (ks : list snode) (i : nat) (tc : content) {struct ks} : xres content :=
            match ks with
            | [] => XOk tc
            | k :: ks' =>
                xbind (wedit_kid (fun k' a b n => wedit k' a b n) new kids sc i k tc) (fun tc' => go ks' (S i) tc')
            end) kids O tc)
        (fun tc' => XOk (DCont tc'))
  | SList _ keys row, DList srows, DList trows =>
      xbind
        ((fix rows (srs : list dnode) (trows : list dnode) {struct srs} : xres (list dnode) :=
            match srs with
            | [] => XOk trows
            | sr :: srs' =>
                let key := row_key keys sr in
                match (if key_usable key then find_row keys key trows O else None) with
                | Some j => xbind (wedit row sr (nth j trows (DCont [])) false) (fun tr' => rows srs' (set_nth j tr' trows))
                | None => xbind (wedit row sr (empty_node row) true) (fun tr' => rows srs' (trows ++ [tr']))
                end
            end) srows trows)
        (fun trows' => XOk (DList trows'))
  | _, _, _ => XUnsup
  end.

Definition wupsert (kids : list snode) (src tgt : content) : xres content :=
  match wedit (SCont (mkMeta [] [] true [] None) kids) (DCont src) (DCont tgt) false with
  | XOk (DCont c') => XOk c'
  | XOk _ => XUnsup
  | XErr => XErr | XPanic => XPanic | XUnsup => XUnsup
  end.

(** * "every condition on the reader's way holds": the traversal of [wexp], asking CheckWhen at every
    definition it reaches (used to state that conditions that hold are transparent) *)
Definition whens_true_kid (rec : snode -> dnode -> bool) (kids : list snode) (sc : content) (i : nat) (k : snode) : bool :=
  if negb (guard_selected (sguard k) kids sc) then true else
  match k with
  | SLeaf _ _ _ _ => match when_field true [] kids sc k with XOk true => true | _ => false end
  | SCont _ _ =>
      match nth i sc None with
      | Some (DCont cc as sd) => match when_cont true [] kids sc k cc with XOk true => rec k sd | _ => false end
      | _ => true
      end
  | SList _ _ _ =>
      match nth i sc None with
      | Some sd => match when_list true [] kids sc k with XOk true => rec k sd | _ => false end
      | None => true
      end
  end.

Fixpoint whens_true (s : snode) (d : dnode) {struct s} : bool :=
  match s, d with
  | SCont _ kids, DCont sc =>
      (fix go (ks : list snode) (i : nat) {struct ks} : bool :=
         match ks with
         | [] => true
         | k :: ks' => whens_true_kid (fun k' sd => whens_true k' sd) kids sc i k && go ks' (S i)
         end) kids O
  | SList _ _ row, DList rows =>
      (fix each (rs : list dnode) : bool :=
         match rs with [] => true | r :: rs' => whens_true row r && each rs' end) rows
  | _, _ => true
  end.

(** what CheckWhen answers for the definition at position [i] of a container-like node *)
Definition kid_when (kids : list snode) (sc : content) (i : nat) (k : snode) : xres bool :=
  match k with
  | SLeaf _ _ _ _ => when_field true [] kids sc k
  | SCont _ _ =>
      match nth i sc None with
      | Some (DCont cc) => when_cont true [] kids sc k cc
      | _ => XOk true
      end
  | SList _ _ _ => XOk true
  end.
