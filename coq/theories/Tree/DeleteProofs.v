(** Proofs for C18 (Tree/Delete.v). *)
From Coq Require Import List Bool Arith Lia Strings.Byte.
From YV Require Import Val.Model Tree.Schema Tree.Editor Tree.Merge Tree.EditorProofs Tree.Delete.
Import ListNotations.
Open Scope nat_scope.

Lemma nth_set_nth_eq {A} i (x d : A) l : i < length l -> nth i (set_nth i x l) d = x.
Proof. revert i; induction l as [|a l IH]; intros [|i] H; simpl in *; try lia; auto. apply IH; lia. Qed.

Lemma nth_set_nth_neq {A} i j (x d : A) l : i <> j -> nth j (set_nth i x l) d = nth j l d.
Proof.
  revert i j; induction l as [|a l IH]; intros [|i] [|j] H; simpl; try reflexivity; try lia.
  apply IH; lia.
Qed.

(** Delete of a container or whole list removes exactly that position *)
Theorem delete_kid_exact kids tgt i r :
  apply_op kids tgt (OpDeleteKid i) = Ok r -> i < length tgt ->
  nth i r None = None /\ (forall j, j <> i -> nth j r None = nth j tgt None) /\ length r = length tgt.
Proof.
  simpl. intros H Hi. inversion H; subst. repeat split.
  - apply nth_set_nth_eq; assumption.
  - intros j Hj. apply nth_set_nth_neq; auto.
  - apply set_nth_length.
Qed.

(** removing an entry: when keys are pairwise distinct the result is exactly the other entries, in
    order, and the removed key is no longer found *)
Lemma remove_row_filter keys key rows :
  rows_unique keys rows = true -> key_usable key = true ->
  (forall a b, key_eqb a key = true -> key_eqb b key = true -> key_eqb b a = true) ->
  (forall r, In r rows -> key_eqb (row_key keys r) key = true -> key_usable (row_key keys r) = true) ->
  remove_row keys key rows = filter (fun r => negb (key_eqb (row_key keys r) key)) rows.
Proof.
  intros Hu Hk Htr Hus. induction rows as [|r rows IH]; simpl; [reflexivity|].
  simpl in Hu. apply andb_true_iff in Hu as [Hr Hu].
  destruct (key_eqb (row_key keys r) key) eqn:E; simpl.
  - (* no later row has this key *)
    assert (Hn : forallb (fun r' => negb (key_eqb (row_key keys r') key)) rows = true).
    { apply forallb_forall. intros r' Hin. apply negb_true_iff.
      destruct (key_eqb (row_key keys r') key) eqn:E'; [|reflexivity].
      apply negb_true_iff in Hr. rewrite (Hus r (or_introl eq_refl) E) in Hr. simpl in Hr.
      assert (existsb (fun x => key_eqb (row_key keys x) (row_key keys r)) rows = true).
      { apply existsb_exists. exists r'. split; [assumption|]. apply Htr; assumption. }
      congruence. }
    clear - Hn. induction rows as [|x rows IH]; simpl in *; [reflexivity|].
    apply andb_true_iff in Hn as [Hx Hn]. rewrite Hx. f_equal. auto.
  - f_equal. apply IH; auto. intros r' Hin. apply Hus. right; assumption.
Qed.

Lemma find_row_none_after_filter keys key rows i :
  find_row keys key (filter (fun r => negb (key_eqb (row_key keys r) key)) rows) i = None.
Proof.
  revert i; induction rows as [|r rows IH]; intros i; simpl; [reflexivity|].
  destruct (key_eqb (row_key keys r) key) eqn:E; simpl; [apply IH|]. rewrite E. apply IH.
Qed.

(** Replace of a container: the content at that position is built from the supplied content only *)
Theorem replace_kid_exact kids src tgt i k sd r :
  forallb wf_schema kids = true -> forallb choice_free kids = true ->
  shaped_kids shaped kids src = true -> shaped_kids shaped kids tgt = true ->
  nth_error kids i = Some k -> is_leaf k = false -> nth i src None = Some sd ->
  apply_op kids tgt (OpReplaceKid i src) = Ok r ->
  nth i r None = Some (merge_one k sd (empty_node k) true).
Proof.
  intros Hwf Hcf Hs Ht Hk Hl Hsd Hrun. simpl in Hrun.
  assert (Hlen : length tgt = length kids) by (eapply shaped_kids_length; eauto).
  assert (Hi : i < length kids) by (apply nth_error_Some; congruence).
  assert (Ht' : shaped_kids shaped kids (set_nth i None tgt) = true).
  { clear - Ht. revert tgt i Ht. induction kids as [|k0 kids IH]; intros [|d tgt] [|i] Ht; simpl in *; auto; try discriminate.
    - apply andb_true_iff in Ht as [_ Ht]. assumption.
    - apply andb_true_iff in Ht as [Hd Ht]. apply andb_true_iff; split; auto. }
  apply edit_content_ok_is_merge in Hrun; auto. subst r. unfold merge_content.
  rewrite (merge_node_law merge_one false kids src (set_nth i None tgt) i k sd); auto.
  - rewrite nth_set_nth_eq by lia. reflexivity.
  - eapply shaped_kids_length; eauto.
  - rewrite set_nth_length. assumption.
Qed.
