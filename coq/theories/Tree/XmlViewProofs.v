(** The XML core of the round trip: the tree an XmlNode presents for a written document is the tree
    that was written.

      xml_view_inverse : wfs s -> wfd s e -> wtr2_doc s e = Some x /\ x2d_doc s x = Ok (prune s e)

    [prune] only forgets lists without entries and leaf-lists without items (no element is written
    for them).  Unbounded: every schema of the model's node kinds (choice-free, sibling names
    distinct, namespaces non-empty), every data tree of it. *)
From Coq Require Import ZArith NArith List Bool Lia Strings.Byte.
From YV Require Import Base.Wrap Val.Model Tree.Schema Tree.Editor Tree.XmlEsc Tree.XmlEscProofs
  Tree.XmlW Tree.XmlR Tree.XmlLeafProofs.
Import ListNotations.

(** induction over schema nodes with the hypothesis for every kid *)
Section SnodeInd.
  Variable P : snode -> Prop.
  Hypothesis Hleaf : forall m ty il d, P (SLeaf m ty il d).
  Hypothesis Hcont : forall m kids, Forall P kids -> P (SCont m kids).
  Hypothesis Hlist : forall m keys row, P row -> P (SList m keys row).
  Fixpoint snode_ind2 (s : snode) : P s :=
    match s with
    | SLeaf m ty il d => Hleaf m ty il d
    | SCont m kids =>
        Hcont m kids ((fix go (l : list snode) : Forall P l :=
                         match l with
                         | [] => Forall_nil P
                         | k :: l' => Forall_cons k (snode_ind2 k) (go l')
                         end) kids)
    | SList m keys row => Hlist m keys row (snode_ind2 row)
    end.
End SnodeInd.

Definition is_scalar (v : lval) : bool := match v with LList _ => false | _ => true end.

Fixpoint distinct_names (l : list ident) : bool :=
  match l with
  | [] => true
  | a :: tl => negb (existsb (text_eqb a) tl) && distinct_names tl
  end.

(** no element is written for a list without entries or a leaf-list without items *)
Fixpoint prune (s : snode) (d : dnode) {struct s} : option dnode :=
  match s, d with
  | SLeaf _ _ true _, DLeaf (LList []) => None
  | SLeaf _ _ _ _, DLeaf v => Some (DLeaf v)
  | SCont _ kids, DCont c =>
      Some (DCont ((fix go (ks : list snode) (c : content) {struct ks} : content :=
                      match ks, c with
                      | k :: ks', od :: c' =>
                          (match od with Some dk => prune k dk | None => None end) :: go ks' c'
                      | _, _ => []
                      end) kids c))
  | SList _ _ _, DList [] => None
  | SList _ _ row, DList rows =>
      Some (DList (map (fun r => match prune row r with Some r' => r' | None => r end) rows))
  | _, _ => Some d
  end.

Section View.
  Variable nss : list (ident * text).
  Variable enum_ids : bool.
  Variable fmt_dec : Z -> Z -> text.
  Variable parse_dec : text -> option (Z * Z).
  Variable dec_ok : Z -> Z -> bool.
  Hypothesis dec_contract : forall m e, dec_ok m e = true ->
    parse_dec (trim_space (sanitize (fmt_dec m e))) = Some (m, e).

  Notation ns_of := (ns_of nss).
  Notation wtr2_node := (wtr2_node nss enum_ids fmt_dec).
  Notation x2d_node := (x2d_node nss parse_dec false false).
  Notation matches := (matches nss).
  Notation candidates := (candidates nss).
  Notation value_okb := (value_okb enum_ids dec_ok).

  (** ** the schemas and data the theorems are about *)
  Definition meta_ok (m : nmeta) : bool :=
    negb (Nat.eqb (length (nm_name m)) 0) && negb (Nat.eqb (length (ns_of (nm_mod m))) 0)
    && match nm_guard m with [] => true | _ => false end.
  Definition same_nm (m m' : nmeta) : bool :=
    text_eqb (nm_name m) (nm_name m') && text_eqb (nm_mod m) (nm_mod m').
  Definition key_leaf (kids : list snode) (k : nat) : bool :=
    match nth_error kids k with Some (SLeaf _ _ false _) => true | _ => false end.

  (** schema: choice-free, names non-empty, every module has a namespace, sibling names distinct,
      a list's entry node carries the list's name and module, keys are scalar leaves *)
  Fixpoint wfs (s : snode) : bool :=
    match s with
    | SLeaf m _ _ _ => meta_ok m
    | SCont m kids =>
        meta_ok m && distinct_names (map sname kids) &&
        (fix all (l : list snode) : bool := match l with [] => true | k :: l' => wfs k && all l' end) kids
    | SList m keys row =>
        meta_ok m && wfs row &&
        match row with
        | SCont m' kids => same_nm m m' && forallb (key_leaf kids) keys
        | _ => false
        end
    end.

  (** data: shaped like the schema, leaf values of the leaf's type that XML can carry, list entries
      hold their key leaves *)
  Fixpoint wfd (s : snode) (d : dnode) {struct s} : bool :=
    match s, d with
    | SLeaf _ ty false _, DLeaf v => is_scalar v && value_okb ty v
    | SLeaf _ ty true _, DLeaf (LList items) => forallb (fun v => is_scalar v && value_okb ty v) items
    | SCont _ kids, DCont c =>
        (fix go (ks : list snode) (c : content) {struct ks} : bool :=
           match ks, c with
           | [], [] => true
           | k :: ks', od :: c' => (match od with Some dk => wfd k dk | None => true end) && go ks' c'
           | _, _ => false
           end) kids c
    | SList _ keys row, DList rows =>
        forallb (fun r => wfd row r && forallb present (row_key keys r)) rows
    | _, _ => false
    end.

  (** ** small facts *)
  Lemma wfs_all_Forall : forall kids,
    (fix all (l : list snode) : bool := match l with [] => true | k :: l' => wfs k && all l' end) kids = true ->
    Forall (fun k => wfs k = true) kids.
  Proof.
    induction kids as [|k l IH]; intros H; [constructor|].
    apply andb_true_iff in H. destruct H as (A & B). constructor; [exact A | apply IH; exact B].
  Qed.

  Lemma length_zero_nil : forall (A : Type) (l : list A), negb (Nat.eqb (length l) 0) = true -> l <> [].
  Proof. intros A l H E. subst. discriminate H. Qed.

  Definition emit (ns : text) (p : snode * option dnode) : list xelem :=
    match snd p with Some d => wtr2_node ns (fst p) d | None => [] end.

  Lemma wtr2_go_flat : forall ns ks c,
    (fix go (ks : list snode) (c : content) {struct ks} : list xelem :=
       match ks, c with
       | k :: ks', Some dk :: c' => wtr2_node ns k dk ++ go ks' c'
       | _ :: ks', None :: c' => go ks' c'
       | _, _ => []
       end) ks c = flat_map (emit ns) (combine ks c).
  Proof.
    intros ns. induction ks as [|k ks IH]; intros c; [reflexivity|].
    destruct c as [|[dk|] c']; [reflexivity | |]; simpl; rewrite IH; reflexivity.
  Qed.

  (** the namespace an element written for node [m] resolves to is its module's *)
  Lemma eff_ns_written : forall inh m n kids, meta_ok m = true ->
    eff_ns inh (XE n (nsattr2 nss inh m) kids) = ns_of (nm_mod m) \/
    (nsattr2 nss inh m = None /\ inh = ns_of (nm_mod m)).
  Proof.
    intros inh m n kids Hm. unfold nsattr2.
    destruct (text_eqb (ns_of (nm_mod m)) inh) eqn:E.
    - right. split; [reflexivity|]. symmetry. apply text_eqb_eq. exact E.
    - left. destruct (ns_of (nm_mod m)) eqn:En; [|reflexivity].
      unfold meta_ok in Hm. rewrite En in Hm. simpl in Hm. rewrite andb_false_r in Hm. discriminate Hm.
  Qed.
  Lemma eff_ns_written' : forall inh m n kids, meta_ok m = true ->
    eff_ns inh (XE n (nsattr2 nss inh m) kids) = ns_of (nm_mod m).
  Proof.
    intros inh m n kids Hm. destruct (eff_ns_written inh m n kids Hm) as [E | (E1 & E2)]; [exact E|].
    rewrite E1. simpl. exact E2.
  Qed.

  (** every element written for node [k] carries k's name and declaration *)
  Definition top_of (pns : text) (m : nmeta) (x : xelem) : Prop :=
    exists kids, x = XE (nm_name m) (nsattr2 nss pns m) kids.

  Lemma nsattr2_same : forall pns m m', nm_mod m = nm_mod m' -> nsattr2 nss pns m = nsattr2 nss pns m'.
  Proof. intros pns m m' H. unfold nsattr2. rewrite H. reflexivity. Qed.

  Lemma top_written : forall k pns d, wfs k = true ->
    Forall (top_of pns (smeta k)) (wtr2_node pns k d).
  Proof.
    intros k pns d Hk. destruct k as [m ty il dflt | m kids | m keys row]; simpl.
    - destruct d; try constructor. apply Forall_forall. intros x Hx. apply in_map_iff in Hx.
      destruct Hx as (t & E & _). subst. eexists. reflexivity.
    - destruct d; try constructor; [|constructor]. eexists. reflexivity.
    - destruct d as [| |rows]; try constructor.
      simpl in Hk. apply andb_true_iff in Hk. destruct Hk as (Hk & Hrow).
      destruct row as [| m' kids' |]; try discriminate Hrow.
      apply andb_true_iff in Hrow. destruct Hrow as (Hsame & _).
      unfold same_nm in Hsame. apply andb_true_iff in Hsame. destruct Hsame as (Hn & Hmod).
      apply text_eqb_eq in Hn. apply text_eqb_eq in Hmod.
      apply Forall_forall. intros x Hx. apply in_flat_map in Hx. destruct Hx as (r & _ & Hx).
      simpl in Hx. destruct r; try contradiction. destruct Hx as [Hx|[]]. subst x.
      unfold top_of. simpl smeta. rewrite Hn, (nsattr2_same pns m m' Hmod). eexists. reflexivity.
  Qed.

  Lemma matches_top : forall pns m x, meta_ok m = true -> top_of pns m x -> matches pns m x = true.
  Proof.
    intros pns m x Hm (kids & E). subst x. unfold XmlR.matches.
    rewrite text_eqb_refl, andb_true_l.
    rewrite (eff_ns_written' pns m (nm_name m) kids Hm).
    unfold rns_of, XmlW.ns_of. destruct (lookup_ns nss (nm_mod m)); [reflexivity | apply text_eqb_refl].
  Qed.
  Lemma matches_other : forall pns inh m m' x, top_of pns m' x -> text_eqb (nm_name m') (nm_name m) = false ->
    matches inh m x = false.
  Proof. intros pns inh m m' x (kids & E) H. subst x. unfold XmlR.matches. rewrite H. reflexivity. Qed.

  Lemma filter_all : forall (A : Type) (f : A -> bool) l, Forall (fun x => f x = true) l -> filter f l = l.
  Proof. intros A f l H. induction H as [|x l Hx _ IH]; [reflexivity|]. simpl. rewrite Hx, IH. reflexivity. Qed.
  Lemma filter_none : forall (A : Type) (f : A -> bool) l, Forall (fun x => f x = false) l -> filter f l = [].
  Proof. intros A f l H. induction H as [|x l Hx _ IH]; [reflexivity|]. simpl. rewrite Hx, IH. reflexivity. Qed.

  Lemma smeta_ok : forall k, wfs k = true -> meta_ok (smeta k) = true.
  Proof.
    intros k H. destruct k as [m ? ? ?|m kids|m keys row]; cbn [wfs smeta] in *.
    - exact H.
    - apply andb_true_iff in H. destruct H as (H & _). apply andb_true_iff in H. destruct H as (H & _). exact H.
    - apply andb_true_iff in H. destruct H as (H & _). apply andb_true_iff in H. destruct H as (H & _). exact H.
  Qed.

  (** choice-free: nothing is hidden by the reader's Choose *)
  Lemma wfs_guard_nil : forall k, wfs k = true -> sguard k = [].
  Proof.
    intros k H. pose proof (smeta_ok k H) as Hm. unfold meta_ok in Hm.
    apply andb_true_iff in Hm. destruct Hm as (_ & Hg). unfold sguard.
    destruct (nm_guard (smeta k)); [reflexivity | discriminate Hg].
  Qed.
  Lemma hide_id : forall kids c, Forall (fun k => wfs k = true) kids -> (length c <= length kids)%nat ->
    hide kids c = c.
  Proof.
    intros kids c Hall Hlen. unfold hide.
    assert (E : forall ks cs, Forall (fun k => wfs k = true) ks -> (length cs <= length ks)%nat ->
              map (fun ko : snode * option dnode => if guard_visible kids c [] (sguard (fst ko)) then snd ko else None)
                  (combine ks cs) = cs).
    { induction ks as [|k ks IH]; intros cs Hw Hl.
      - destruct cs; [reflexivity | cbn in Hl; lia].
      - destruct cs as [|od cs]; [reflexivity|]. cbn [combine map fst snd].
        rewrite (wfs_guard_nil k (Forall_inv Hw)). cbn [guard_visible].
        rewrite (IH cs (Forall_inv_tail Hw)); [reflexivity | cbn in Hl; lia]. }
    apply E; assumption.
  Qed.

  Lemma filter_emit_self : forall ns k od, wfs k = true ->
    filter (matches ns (smeta k)) (emit ns (k, od)) = emit ns (k, od).
  Proof.
    intros ns k od Hk. unfold emit. simpl. destruct od as [d|]; [|reflexivity].
    apply filter_all. eapply Forall_impl; [|apply top_written; exact Hk].
    intros x Hx. apply matches_top; [apply smeta_ok; exact Hk | exact Hx].
  Qed.
  Lemma filter_emit_other : forall ns m k od, wfs k = true -> text_eqb (sname k) (nm_name m) = false ->
    filter (matches ns m) (emit ns (k, od)) = [].
  Proof.
    intros ns m k od Hk Hne. unfold emit. simpl. destruct od as [d|]; [|reflexivity].
    apply filter_none. eapply Forall_impl; [|apply top_written; exact Hk].
    intros x Hx. eapply matches_other; [exact Hx | exact Hne].
  Qed.

  Lemma text_eqb_sym : forall a b, text_eqb a b = text_eqb b a.
  Proof.
    intros a b. destruct (text_eqb a b) eqn:E.
    - apply text_eqb_eq in E. subst. symmetry. apply text_eqb_refl.
    - destruct (text_eqb b a) eqn:E'; [|reflexivity].
      apply text_eqb_eq in E'. subst. rewrite text_eqb_refl in E. discriminate E.
  Qed.

  (** among the elements written for a container's kids, the ones found for kid k are exactly the
      ones written for k *)
  Lemma cands_of_sibs : forall ns l,
    distinct_names (map (fun p : snode * option dnode => sname (fst p)) l) = true ->
    Forall (fun p => wfs (fst p) = true) l ->
    forall k od, In (k, od) l ->
    filter (matches ns (smeta k)) (flat_map (emit ns) l) = emit ns (k, od).
  Proof.
    intros ns. induction l as [|p0 l IH]; intros Hd Hw k od Hin; [contradiction|].
    simpl in Hd. apply andb_true_iff in Hd. destruct Hd as (Hnot & Hd).
    inversion Hw as [|? ? Hw0 Hwl]; subst.
    simpl flat_map. rewrite filter_app.
    assert (REST : forall m, existsb (text_eqb (nm_name m)) (map (fun p : snode * option dnode => sname (fst p)) l) = false ->
                   filter (matches ns m) (flat_map (emit ns) l) = []).
    { intros m. clear IH Hin Hd Hnot Hw. induction l as [|q l IHl]; intros Hex; [reflexivity|].
      simpl in Hex. apply orb_false_iff in Hex. destruct Hex as (Hq & Hex).
      inversion Hwl; subst. simpl flat_map. rewrite filter_app.
      destruct q as [kq oq]. rewrite (filter_emit_other ns m kq oq); [|assumption|].
      - simpl. apply IHl; assumption.
      - simpl in Hq. rewrite text_eqb_sym. exact Hq. }
    destruct Hin as [E | Hin].
    - subst p0. simpl in Hnot. rewrite (filter_emit_self ns k od Hw0).
      rewrite REST; [apply app_nil_r|].
      apply negb_true_iff in Hnot. destruct k; exact Hnot.
    - destruct p0 as [k0 o0].
      assert (Hne : text_eqb (sname k0) (nm_name (smeta k)) = false).
      { simpl in Hnot. apply negb_true_iff in Hnot.
        destruct (text_eqb (sname k0) (nm_name (smeta k))) eqn:E; [|reflexivity].
        apply text_eqb_eq in E. exfalso.
        assert (X : existsb (text_eqb (sname k0)) (map (fun p : snode * option dnode => sname (fst p)) l) = true).
        { apply existsb_exists. exists (sname k). split.
          - apply in_map_iff. exists (k, od). split; [reflexivity | exact Hin].
          - rewrite E. destruct k; apply text_eqb_refl. }
        rewrite X in Hnot. discriminate Hnot. }
      rewrite (filter_emit_other ns (smeta k) k0 o0 Hw0 Hne). simpl.
      apply IH; assumption.
  Qed.

  Lemma x2d_nothing : forall k any inh sibs, candidates any inh (smeta k) sibs = [] ->
    x2d_node k any inh sibs = Ok None.
  Proof.
    intros k any inh sibs H. destruct k as [m ty il dflt | m kids | m keys row]; simpl in *.
    - destruct il; rewrite H; reflexivity.
    - rewrite H. reflexivity.
    - rewrite H. reflexivity.
  Qed.

  Lemma conv_all_written : forall ty n a items,
    forallb (fun v => is_scalar v && value_okb ty v) items = true ->
    conv_all parse_dec ty
      (map (leaf_text false ty) (map (fun t => XE n a (text_kids t)) (map (render_scalar enum_ids fmt_dec) items)))
    = Some items.
  Proof.
    intros ty n a. induction items as [|v items IH]; intros H; [reflexivity|].
    simpl in H. apply andb_true_iff in H. destruct H as (Hv & Hi).
    apply andb_true_iff in Hv. destruct Hv as (_ & Hv).
    simpl. rewrite leaf_text_written.
    rewrite (scalar_roundtrip enum_ids fmt_dec parse_dec dec_ok dec_contract ty v Hv).
    rewrite (IH Hi). reflexivity.
  Qed.

  Lemma render_single : forall v, is_scalar v = true ->
    render enum_ids fmt_dec v = [render_scalar enum_ids fmt_dec v].
  Proof. intros v H. destruct v; try discriminate H; reflexivity. Qed.

  Lemma candidates_single : forall any inh m x, is_elem x = true -> matches inh m x = true ->
    candidates any inh m [x] = [x].
  Proof.
    intros any inh m x He Hm. unfold XmlR.candidates, find_all. destruct any; simpl; [rewrite He | rewrite Hm]; reflexivity.
  Qed.

  Definition rows_loop (row : snode) (keys : list nat) (inh : text) : list xelem -> res (list dnode) :=
    fix rows (l : list xelem) {struct l} : res (list dnode) :=
      match l with
      | [] => Ok []
      | x :: l' =>
          match x2d_node row true inh [x] with
          | Ok (Some r) =>
              if forallb present (row_key keys r)
              then match rows l' with Ok rs => Ok (r :: rs) | Err e => Err e end
              else Err EOther
          | Ok None => Err EOther
          | Err e => Err e
          end
      end.
  Lemma wtr2_cont_single : forall pns m kids c, exists x, wtr2_node pns (SCont m kids) (DCont c) = [x].
  Proof. intros. eexists. reflexivity. Qed.
  Lemma rows_loop_cons : forall row keys inh x l,
    rows_loop row keys inh (x :: l) =
    match x2d_node row true inh [x] with
    | Ok (Some r) =>
        if forallb present (row_key keys r)
        then match rows_loop row keys inh l with Ok rs => Ok (r :: rs) | Err e => Err e end
        else Err EOther
    | Ok None => Err EOther
    | Err e => Err e
    end.
  Proof. reflexivity. Qed.
  Lemma wtr2_list_eq : forall pns m keys row rows,
    wtr2_node pns (SList m keys row) (DList rows) = flat_map (fun r => wtr2_node pns row r) rows.
  Proof. reflexivity. Qed.
  Lemma x2d_list_eq : forall m keys row any inh sibs,
    x2d_node (SList m keys row) any inh sibs =
    match candidates any inh m sibs with
    | [] => Ok None
    | x0 :: xs0 =>
        match rows_loop row keys inh (x0 :: xs0) with
        | Ok rs => Ok (Some (DList rs))
        | Err e => Err e
        end
    end.
  Proof. reflexivity. Qed.

  (** ** the view of what was written for a node *)
  Theorem view_node : forall k, wfs k = true -> forall any inh sibs d, wfd k d = true ->
    candidates any inh (smeta k) sibs = wtr2_node inh k d ->
    x2d_node k any inh sibs = Ok (prune k d).
  Proof.
    induction k as [m ty il dflt | m kids IHk | m keys row IHrow] using snode_ind2;
      intros Hs any inh sibs d Hd Hc.
    - (* leaf, leaf-list *)
      destruct d as [v| |]; try (destruct il; discriminate Hd).
      simpl in Hc. simpl x2d_node. rewrite Hc.
      destruct il.
      + destruct v as [| | |items]; try discriminate Hd.
        simpl in Hd. destruct items as [|v0 items]; [reflexivity|].
        change (match conv_all parse_dec ty
                        (map (leaf_text false ty)
                             (map (fun t => XE (nm_name m) (nsattr2 nss inh m) (text_kids t))
                                  (map (render_scalar enum_ids fmt_dec) (v0 :: items)))) with
                | Some vs => Ok (Some (DLeaf (LList vs)))
                | None => Err EOther
                end = Ok (Some (DLeaf (LList (v0 :: items))))).
        rewrite conv_all_written by exact Hd. reflexivity.
      + simpl in Hd. apply andb_true_iff in Hd. destruct Hd as (Hsc & Hv).
        rewrite (render_single v Hsc). cbn [map]. cbv iota.
        rewrite leaf_text_written.
        rewrite (scalar_roundtrip enum_ids fmt_dec parse_dec dec_ok dec_contract ty _ Hv).
        destruct v; try discriminate Hsc; reflexivity.
    - (* container *)
      destruct d as [|c|]; try discriminate Hd.
      simpl in Hs. apply andb_true_iff in Hs. destruct Hs as (Hs & Hall).
      apply andb_true_iff in Hs. destruct Hs as (Hm & Hdist).
      apply wfs_all_Forall in Hall.
      simpl in Hc. simpl x2d_node. rewrite Hc. cbv iota.
      rewrite wtr2_go_flat. rewrite (eff_ns_written' inh m (nm_name m) _ Hm). simpl xkids.
      set (ns := ns_of (nm_mod m)).
      set (sibs' := flat_map (emit ns) (combine kids c)).
      (* every kid finds exactly its own elements *)
      assert (LEN : length kids = length c).
      { clear -Hd. simpl in Hd. revert c Hd. induction kids as [|k ks IH]; intros [|od c] H; try discriminate H; [reflexivity|].
        apply andb_true_iff in H. destruct H as (_ & H). simpl. f_equal. apply IH. exact H. }
      assert (CS : forall k od, In (k, od) (combine kids c) ->
                   filter (matches ns (smeta k)) sibs' = emit ns (k, od)).
      { apply cands_of_sibs.
        - replace (map (fun p : snode * option dnode => sname (fst p)) (combine kids c)) with (map sname kids); [exact Hdist|].
          clear -LEN. revert c LEN. induction kids as [|k ks IH]; intros [|od c] H; try discriminate H; [reflexivity|].
          simpl. f_equal. apply IH. simpl in H. lia.
        - apply Forall_forall. intros [k od] Hin. apply in_combine_l in Hin. simpl.
          rewrite Forall_forall in Hall. apply Hall. exact Hin. }
      clearbody sibs'. clear Hc.
      (* the loop over the kids *)
      assert (GO : forall ks cs, length ks = length cs ->
                (forall k od, In (k, od) (combine ks cs) -> filter (matches ns (smeta k)) sibs' = emit ns (k, od)) ->
                Forall (fun k => wfs k = true -> forall any inh sibs d, wfd k d = true ->
                          candidates any inh (smeta k) sibs = wtr2_node inh k d ->
                          x2d_node k any inh sibs = Ok (prune k d)) ks ->
                Forall (fun k => wfs k = true) ks ->
                (fix go (ks : list snode) (c : content) {struct ks} : bool :=
                   match ks, c with
                   | [], [] => true
                   | k :: ks', od :: c' => (match od with Some dk => wfd k dk | None => true end) && go ks' c'
                   | _, _ => false
                   end) ks cs = true ->
                (fix go (ks : list snode) {struct ks} : res content :=
                   match ks with
                   | [] => Ok []
                   | k :: ks' =>
                       match x2d_node k false ns sibs' with
                       | Err e => Err e
                       | Ok d => match go ks' with Err e => Err e | Ok c => Ok (d :: c) end
                       end
                   end) ks
                = Ok ((fix go (ks : list snode) (c : content) {struct ks} : content :=
                         match ks, c with
                         | k :: ks', od :: c' =>
                             (match od with Some dk => prune k dk | None => None end) :: go ks' c'
                         | _, _ => []
                         end) ks cs)).
      { induction ks as [|k ks IH]; intros cs Hlen Hcs HP Hw Hwd; [reflexivity|].
        destruct cs as [|od cs]; [discriminate Hlen|].
        inversion HP as [|? ? HPk HPks]; subst. inversion Hw as [|? ? Hwk Hwks]; subst.
        apply andb_true_iff in Hwd. destruct Hwd as (Hdk & Hwd).
        assert (Hk : x2d_node k false ns sibs' = Ok (match od with Some dk => prune k dk | None => None end)).
        { destruct od as [dk|].
          - apply HPk; [exact Hwk | exact Hdk|].
            unfold XmlR.candidates, find_all. rewrite (Hcs k (Some dk)) by (left; reflexivity). reflexivity.
          - apply x2d_nothing. unfold XmlR.candidates, find_all. rewrite (Hcs k None) by (left; reflexivity). reflexivity. }
        rewrite Hk. rewrite (IH cs); try assumption; [reflexivity | simpl in Hlen; lia |].
        intros k' od' Hin. apply Hcs. right. exact Hin. }
      cbn [xkids]. rewrite (GO kids c LEN CS IHk Hall Hd). reflexivity.
    - (* list *)
      destruct d as [| |rows]; try discriminate Hd.
      simpl in Hs. apply andb_true_iff in Hs. destruct Hs as (Hs & Hrow).
      apply andb_true_iff in Hs. destruct Hs as (Hm & Hwrow).
      destruct row as [| m' kids' |]; try discriminate Hrow.
      apply andb_true_iff in Hrow. destruct Hrow as (Hsame & Hkeys).
      cbn [smeta] in Hc. rewrite wtr2_list_eq in Hc. rewrite x2d_list_eq, Hc. simpl in Hd.
      destruct rows as [|r0 rows']; [reflexivity|].
      remember (r0 :: rows') as rows.
      assert (NE : flat_map (fun r => wtr2_node inh (SCont m' kids') r) rows <> []).
      { subst rows. cbn [flat_map]. destruct r0 as [|c0|]; simpl in Hd; try discriminate Hd.
        destruct (wtr2_cont_single inh m' kids' c0) as (x & Ex). rewrite Ex. discriminate. }
      assert (PR : prune (SList m keys (SCont m' kids')) (DList rows)
                   = Some (DList (map (fun r => match prune (SCont m' kids') r with Some r' => r' | None => r end) rows))).
      { subst rows. reflexivity. }
      rewrite PR. clear PR Heqrows Hc.
      destruct (flat_map (fun r => wtr2_node inh (SCont m' kids') r) rows) eqn:EF; [contradiction|].
      rewrite <- EF. clear EF NE.
      assert (ROWS : forall rs, forallb (fun r => wfd (SCont m' kids') r && forallb present (row_key keys r)) rs = true ->
                rows_loop (SCont m' kids') keys inh (flat_map (fun r => wtr2_node inh (SCont m' kids') r) rs)
                = Ok (map (fun r => match prune (SCont m' kids') r with Some r' => r' | None => r end) rs)).
      { induction rs as [|r rs IH]; intros H; [reflexivity|].
        simpl in H. apply andb_true_iff in H. destruct H as (Hr & Hrs).
        apply andb_true_iff in Hr. destruct Hr as (Hwr & Hpr).
        destruct r as [|cr|]; try discriminate Hwr.
        cbn [flat_map].
        destruct (wtr2_cont_single inh m' kids' cr) as (xr & Ex).
        rewrite Ex. cbn [app]. rewrite rows_loop_cons.
        assert (V : x2d_node (SCont m' kids') true inh [xr] = Ok (prune (SCont m' kids') (DCont cr))).
        { apply IHrow; [exact Hwrow | exact Hwr|]. rewrite Ex. destruct xr; [reflexivity|].
          exfalso. cbn in Ex. discriminate Ex. }
        rewrite V.
        assert (EP : exists pc, prune (SCont m' kids') (DCont cr) = Some (DCont pc) /\
                                forallb present (row_key keys (DCont pc)) = true).
        { eexists. split; [reflexivity|].
          clear -Hkeys Hpr Hwr. unfold row_key in *. simpl row_content in *.
          rewrite forallb_forall in *. intros o Ho. apply in_map_iff in Ho. destruct Ho as (kpos & Eo & Hk). subst o.
          specialize (Hkeys kpos Hk). specialize (Hpr (nth kpos cr None) (in_map _ _ _ Hk)).
          simpl in Hwr. clear Hk. revert kpos cr Hkeys Hpr Hwr.
          induction kids' as [|k0 ks IH]; intros kpos cr Hkeys Hpr Hwr.
          - destruct kpos; discriminate Hkeys.
          - destruct cr as [|od cr]; [discriminate Hwr|].
            apply andb_true_iff in Hwr. destruct Hwr as (Hd0 & Hwr).
            destruct kpos as [|kpos].
            + simpl in *. unfold key_leaf in Hkeys. simpl in Hkeys.
              destruct k0 as [m0 ty0 [|] df0| |]; try discriminate Hkeys.
              destruct od as [[v| |]|]; try discriminate Hpr; try discriminate Hd0. reflexivity.
            + simpl. apply IH; assumption. }
        destruct EP as (pc & EP & KP). rewrite EP, KP. rewrite (IH Hrs).
        cbn [map]. rewrite EP. reflexivity. }
      rewrite (ROWS rows Hd). reflexivity.
  Qed.
  (** ** what is written is a well-formed element tree *)
  Lemma xelem_wf_XE : forall n a k, xelem_wf (XE n a k) = negb (Nat.eqb (length n) 0) && forallb xelem_wf k.
  Proof.
    intros n a k. cbn [xelem_wf]. f_equal.
    all: induction k as [|y k IH]; [reflexivity|]; cbn [forallb]; rewrite <- IH; reflexivity.
  Qed.

  Lemma wf_written : forall k, wfs k = true -> forall pns d, forallb xelem_wf (wtr2_node pns k d) = true.
  Proof.
    induction k as [m ty il dflt | m kids IHk | m keys row IHrow] using snode_ind2; intros Hs pns d.
    - destruct d as [v| |]; try reflexivity. cbn [wtr2_node].
      apply forallb_forall. intros x Hx. apply in_map_iff in Hx. destruct Hx as (t & E & _). subst x.
      rewrite xelem_wf_XE. cbn [wfs] in Hs. unfold meta_ok in Hs.
      apply andb_true_iff in Hs. destruct Hs as (Hs & _). apply andb_true_iff in Hs. destruct Hs as (Hn & _).
      rewrite Hn. unfold text_kids. destruct (sanitize t); reflexivity.
    - destruct d as [|c|]; try reflexivity.
      pose proof (smeta_ok _ Hs) as Hm. cbn [smeta] in Hm.
      cbn [wfs] in Hs. apply andb_true_iff in Hs. destruct Hs as (_ & Hall). apply wfs_all_Forall in Hall.
      cbn [wtr2_node]. rewrite wtr2_go_flat. cbn [forallb]. rewrite andb_true_r. rewrite xelem_wf_XE.
      unfold meta_ok in Hm. apply andb_true_iff in Hm. destruct Hm as (Hm & _). apply andb_true_iff in Hm. destruct Hm as (Hn & _).
      rewrite Hn. cbn [andb].
      generalize (ns_of (nm_mod m)) as ns. intros ns.
      revert c. induction kids as [|k kids IH]; intros c; [reflexivity|].
      destruct c as [|od c]; [reflexivity|].
      inversion IHk as [|? ? Pk Pks]; subst. inversion Hall as [|? ? Wk Wks]; subst.
      cbn [combine flat_map]. rewrite forallb_app. rewrite (IH Pks Wks c), andb_true_r.
      unfold emit. cbn [fst snd]. destruct od as [dk|]; [|reflexivity]. apply Pk. exact Wk.
    - destruct d as [| |rows]; try reflexivity.
      cbn [wfs] in Hs. apply andb_true_iff in Hs. destruct Hs as (Hs & _). apply andb_true_iff in Hs. destruct Hs as (_ & Hrow).
      rewrite wtr2_list_eq. induction rows as [|r rows IH]; [reflexivity|].
      cbn [flat_map]. rewrite forallb_app, IH, andb_true_r. apply IHrow. exact Hrow.
  Qed.

  (** ** documents *)
  Definition pruned (s : snode) (d : dnode) : dnode :=
    match prune s d with Some p => p | None => DList [] end.

  Lemma root_attr_eq : forall m, meta_ok m = true -> root_attr2 nss m = nsattr2 nss [] m.
  Proof.
    intros m Hm. unfold root_attr2, nsattr2. unfold meta_ok in Hm.
    destruct (ns_of (nm_mod m)) eqn:E; [|reflexivity].
    simpl in Hm. rewrite andb_false_r in Hm. discriminate Hm.
  Qed.

  Lemma filter_elems_written : forall k pns d, wfs k = true ->
    filter is_elem (wtr2_node pns k d) = wtr2_node pns k d.
  Proof.
    intros k pns d Hk. apply filter_all. eapply Forall_impl; [|apply top_written; exact Hk].
    intros x (kids & E). subst x. reflexivity.
  Qed.

  Theorem xml_view_inverse : forall s e, wfs s = true -> wfd s e = true -> is_leaf s = false ->
    exists x, wtr2_doc nss enum_ids fmt_dec s e = Some x /\ doc_wf x = true /\
              x2d_doc nss parse_dec false false s x = Ok (pruned s e).
  Proof.
    intros s e Hs He Hl. destruct s as [| m kids | m keys row]; [discriminate Hl | |].
    - destruct e as [|c|]; try discriminate He.
      pose proof (smeta_ok _ Hs) as Hm. cbn [smeta] in Hm.
      destruct (wtr2_cont_single (ns_of (nm_mod m)) m kids c) as (x0 & E0).
      assert (E1 := E0). cbn in E1. injection E1 as E1.
      assert (EX : wtr2_node [] (SCont m kids) (DCont c) =
                   [XE (nm_name m) (root_attr2 nss m) (xkids x0)]).
      { rewrite root_attr_eq by exact Hm. subst x0. reflexivity. }
      exists (XE (nm_name m) (root_attr2 nss m) (xkids x0)). split; [|split].
      + unfold wtr2_doc. rewrite E0. subst x0. reflexivity.
      + unfold doc_wf. cbn [is_elem andb].
        pose proof (wf_written (SCont m kids) Hs (ns_of (nm_mod m)) (DCont c)) as W.
        rewrite E0 in W. cbn [forallb] in W. rewrite andb_true_r in W. subst x0.
        rewrite xelem_wf_XE in W |- *. exact W.
      + unfold x2d_doc.
        rewrite (view_node (SCont m kids) Hs true [] _ (DCont c) He).
        * unfold pruned. destruct (prune (SCont m kids) (DCont c)) eqn:EP; [reflexivity|]. discriminate EP.
        * rewrite EX. reflexivity.
    - destruct e as [| |rows]; try discriminate He.
      pose proof (smeta_ok _ Hs) as Hm. cbn [smeta] in Hm.
      eexists. split; [reflexivity|]. split.
      + unfold doc_wf. cbn [is_elem andb]. rewrite xelem_wf_XE.
        rewrite (wf_written (SList m keys row) Hs). rewrite andb_true_r.
        unfold meta_ok in Hm. apply andb_true_iff in Hm. destruct Hm as (Hm' & _).
        apply andb_true_iff in Hm'. destruct Hm' as (Hn & _). exact Hn.
      + unfold x2d_doc.
        assert (EN : eff_ns [] (XE (nm_name m) (root_attr2 nss m)
                       (wtr2_node (ns_of (nm_mod m)) (SList m keys row) (DList rows))) = ns_of (nm_mod m)).
        { rewrite root_attr_eq by exact Hm. apply eff_ns_written'. exact Hm. }
        rewrite EN.
        rewrite (view_node (SList m keys row) Hs true (ns_of (nm_mod m)) _ (DList rows) He).
        * unfold pruned. destruct (prune (SList m keys row) (DList rows)); reflexivity.
        * unfold XmlR.candidates. apply filter_elems_written. exact Hs.
  Qed.
End View.
