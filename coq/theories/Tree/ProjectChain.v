(** C07's declarative side for parameters given in several steps and for a list as the target
    (continues Tree/Project.v: views on forward paths, no requests, no constraint table, no hook
    order, no counters, no row cursor).

    "Combining parameters gives the intersection": a node is kept when EVERY step's parameters
    keep it; a row of a list is kept when its index lies in the window of EVERY step that names
    the list; a leaf equal to its default is dropped when SOME step asks for with-defaults=trim;
    the answer holds at most N containers for EVERY fc.max-node-count N that was given. *)
From Coq Require Import ZArith List Bool Strings.Byte.
From YV Require Import Val.Model Tree.Schema Tree.PathExpr Tree.Params Tree.Project Tree.Reading.
Import ListNotations.
Open Scope Z_scope.

(** row [i] of the list at [fp] lies in the window p's fc.range defines for it *)
Definition in_window (p : params) (fp : list ident) (i : Z) : bool :=
  match p_range p with
  | Some (ps, st, en) =>
      if selects_exactly ps fp then (st <=? i) && ((en =? -1) || (i <? en)) else true
  | None => true
  end.

Fixpoint keep_idx {A} (f : Z -> bool) (i : Z) (l : list A) : list A :=
  match l with
  | [] => []
  | x :: tl => if f i then x :: keep_idx f (i + 1) tl else keep_idx f (i + 1) tl
  end.

Definition chain_view (Ps : list params) : view :=
  mkView (fun fp m => forallb (fun p => vw_leaf (params_view p) fp m) Ps)
         (fun fp m => forallb (fun p => vw_node (params_view p) fp m) Ps)
         (fun fp rows => keep_idx (fun i => forallb (fun p => in_window p fp i) Ps) 0 rows)
         (existsb p_trim Ps).

Definition over_some (Ps : list params) (c : Z) : bool := existsb (fun p => c >? p_max_node p) Ps.

(** what a read of a container-like target must deliver after the steps' parameters [Ps] *)
Definition spec_chain (Ps : list params) (kids : list snode) (data : content) : pres content :=
  let t := project (chain_view Ps) kids (full_read kids data) in
  if over_some Ps (count_c t) then PErr PConflict else POk t.

(** ... and of a list target: the entries of the list (all of them new in the capture, hence
    with their defaults), projected; the list itself is not counted *)
Definition spec_chain_rows (Ps : list params) (l : snode) (rows : list dnode) : pres (list dnode) :=
  match l with
  | SList _ _ _ =>
      match project_view (chain_view Ps) [] l (fill false l (DList rows)) with
      | DList out => if over_some Ps (count_d (DList out)) then PErr PConflict else POk out
      | _ => PErr PUnshaped
      end
  | _ => PErr PUnshaped
  end.

(** steps that carry fc.range (two of them in one chain: known finding 1 of C07, the windows do
    not intersect in the implementation) *)
Definition has_range (p : params) : bool := match p_range p with Some _ => true | None => false end.
Definition range_steps (Ps : list params) : nat := length (filter has_range Ps).

(** the declarative reading of the steps' queries ([Reading.interpret] per step): TBad when some
    step holds an invalid value (the property demands an error from that step), TUnk when some
    step is inconsistent (never produced by the harness) *)
Fixpoint interpret_chain (steps : list query) (asts : list (list (list byte * pexpr))) : tri (list params) :=
  match steps with
  | [] => TOk []
  | q :: tl =>
      match interpret q (hd [] asts), interpret_chain tl (List.tl asts) with
      | TUnk, _ | _, TUnk => TUnk
      | TBad, _ | _, TBad => TBad
      | TOk P, TOk rest => TOk (match P with Some p => p :: rest | None => rest end)
      end
  end.
