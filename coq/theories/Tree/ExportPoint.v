(** Export, position by position.  [Export.visit] says what a read-out delivers as a whole tree;
    [reported] says it for ONE position of a container-like node (module root, container, list
    entry) in terms of that position's own schema node and own data only:
      - a definition outside the chosen case of one of its choices: nothing;
      - a leaf or leaf-list that is set: its value;
      - a leaf or leaf-list that is unset: the default of THAT leaf (if the enclosing node is new
        at the destination, i.e. everywhere below the start selection), else nothing;
      - a container or list that exists: its own export; one that does not: nothing.
    The other definitions of the node matter only through their guards (which case is chosen):
    their types and defaults - which compiled schemas may share between the copies a `uses` makes
    (meta: Leaf.clone is shallow, the *meta.Type is shared; `refine` gives each copy its own
    default) - cannot influence what is reported here.  Proofs: Tree/ExportPointProofs.v. *)
From Coq Require Import ZArith List Bool Strings.Byte.
From YV Require Import Val.Model Tree.Schema Tree.Export.
Import ListNotations.

Definition reported (new : bool) (kids : list snode) (sc : content) (i : nat) (k : snode) : option dnode :=
  if negb (guard_selected (sguard k) kids sc) then None
  else match k, nth i sc None with
       | SLeaf _ _ _ _, Some v => Some v
       | SLeaf _ _ _ dflt, None => if new then option_map DLeaf dflt else None
       | _, Some sd => Some (visit true k sd)
       | _, None => None
       end.
