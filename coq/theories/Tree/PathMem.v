(** The field-path expression parser at the level of Go SLICES (node/path_matcher.go addSegment /
    expandPaths / parsex): a path is a `segments` value = (backing array, length), the backing
    array has a capacity, and `append(s, xs...)` writes INTO the backing array of s when
    len(s)+len(xs) <= cap(s) - visible through every other slice of that array - and allocates a
    new array otherwise.  Tree/PathExpr.v models paths as immutable lists; this file models what
    that abstraction hides, because the defect repaired in e401f2d (and every regression of it)
    lives exactly there: expandPaths built `append(dest, src...)` for every alternative src of a
    group, so that all alternatives were written into the spare capacity of the SAME array and the
    last one won (a/b/c/(d;e) -> [a,b,c,e],[a,b,c,e]).

      heap                 the backing arrays allocated so far, by index: (cells written, capacity)
      slice = (id, len)    all path slices start at offset 0 of their array
      [append]             Go append for a slice of strings under a growth policy
                           [grow old_cap needed] (Section variable: theorems hold for EVERY policy)
      [go_grow]            runtime.growslice for 16-byte elements (doubling below 256 elements,
                           size classes: exact up to 16 elements, even up to 32) - used by the check
      [add_segment_mem]    addSegment:  e.paths[i] = append(path, ident)
      [expand_one]         the repaired  append(append(segments{}, dest...), src...)
      [expand_one_old]     the defective append(dest, src...)
      [parsex_mem]         parsex over these (same control structure as PathExpr.parsex)

    The OUTER slices (e.paths itself, appendPaths) are kept as lists: each PathMatchExpression
    owns its e.paths and no two expressions are alive with the same outer array.
    Proofs: Tree/PathMemProofs.v. *)
From Coq Require Import ZArith List Bool Arith Strings.Byte.
From YV Require Import Val.Model Tree.Schema Tree.PathExpr.
Import ListNotations.

Definition arr := (list ident * nat)%type.
Definition heap := list arr.
Definition slice := (nat * nat)%type.

Definition arr_at (h : heap) (i : nat) : arr := nth i h ([], O).
(** what a reader of the slice sees *)
Definition rd (h : heap) (s : slice) : list ident := firstn (snd s) (fst (arr_at h (fst s))).

Fixpoint upd (h : heap) (i : nat) (a : arr) : heap :=
  match h, i with
  | [], _ => []
  | _ :: tl, O => a :: tl
  | x :: tl, S i' => x :: upd tl i' a
  end.

(** runtime.growslice + roundupsize for a []string (16-byte elements); exact for results up to 32 *)
Definition go_grow (old needed : nat) : nat :=
  let c := if (2 * old <? needed)%nat then needed else (2 * old)%nat in
  if (c <=? 16)%nat then c else if Nat.even c then c else S c.

Section Grow.
Variable grow : nat -> nat -> nat.

(** a new array holding xs; never smaller than what it has to hold *)
Definition alloc (h : heap) (xs : list ident) (oldcap : nat) : heap * slice :=
  (h ++ [(xs, Nat.max (grow oldcap (length xs)) (length xs))], (length h, length xs)).

(** append(s, xs...) *)
Definition append (h : heap) (s : slice) (xs : list ident) : heap * slice :=
  let '(cells, cap) := arr_at h (fst s) in
  let cur := firstn (snd s) cells in
  let n := (snd s + length xs)%nat in
  if (n <=? cap)%nat
  then (upd h (fst s) (cur ++ xs ++ skipn n cells, cap), (fst s, n))     (* in place *)
  else alloc h (cur ++ xs) cap.

(** addSegment, paths present: for i, path := range e.paths { e.paths[i] = append(path, ident) } *)
Fixpoint add_segment_go (h : heap) (ps : list slice) (t : ident) : heap * list slice :=
  match ps with
  | [] => (h, [])
  | p :: tl =>
      let '(h1, p') := append h p [t] in
      let '(h2, tl') := add_segment_go h1 tl t in
      (h2, p' :: tl')
  end.
(** addSegment; no path yet: []segments{[]string{ident}} (a literal: capacity 1) *)
Definition add_segment_mem (h : heap) (ps : list slice) (t : ident) : heap * list slice :=
  match ps with
  | [] => (h ++ [([t], 1%nat)], [(length h, 1%nat)])
  | _ => add_segment_go h ps t
  end.

(** expandPaths, one entry.  Repaired: append(append(segments{}, dest...), src...) *)
Definition expand_one (h : heap) (dest src : slice) : heap * slice :=
  let '(h1, t) := alloc h (rd h dest) O in
  append h1 t (rd h1 src).
(** before e401f2d: append(dest, src...) *)
Definition expand_one_old (h : heap) (dest src : slice) : heap * slice :=
  append h dest (rd h src).

Section Expand.
Variable one : heap -> slice -> slice -> heap * slice.

(** for j, src := range sub.paths *)
Fixpoint expand_row (h : heap) (dest : slice) (subs : list slice) : heap * list slice :=
  match subs with
  | [] => (h, [])
  | s :: tl =>
      let '(h1, x) := one h dest s in
      let '(h2, xs) := expand_row h1 dest tl in
      (h2, x :: xs)
  end.
(** for i, dest := range e.paths *)
Fixpoint expand_all (h : heap) (dests subs : list slice) : heap * list slice :=
  match dests with
  | [] => (h, [])
  | d :: tl =>
      let '(h1, xs) := expand_row h d subs in
      let '(h2, ys) := expand_all h1 tl subs in
      (h2, xs ++ ys)
  end.
(** group at the start of an expression: e.paths[j] = append(segments{}, src...) *)
Fixpoint copy_all (h : heap) (subs : list slice) : heap * list slice :=
  match subs with
  | [] => (h, [])
  | s :: tl =>
      let '(h1, x) := alloc h (rd h s) O in
      let '(h2, xs) := copy_all h1 tl in
      (h2, x :: xs)
  end.
Definition expand_paths_gen (h : heap) (ps sub : list slice) : heap * list slice :=
  match sub, ps with
  | [], _ => (h, ps)
  | _, [] => copy_all h sub
  | _, _ => expand_all h ps sub
  end.
End Expand.

Definition expand_paths_mem := expand_paths_gen expand_one.
Definition expand_paths_mem_old := expand_paths_gen expand_one_old.

(** parsex (PathExpr.parsex with the heap threaded through) *)
Section Parse.
Variable expand : heap -> list slice -> list slice -> heap * list slice.

Definition finish_mem (E : list slice) (split : option (list slice)) : list slice :=
  match split with Some sp => E ++ sp | None => E end.

Fixpoint parsex_mem (fuel : nat) (toks : list token) (h : heap) (E : list slice) (split : option (list slice))
  : pres (heap * list slice * bool * list token) :=
  match fuel with
  | O => PErr PFuel
  | S f =>
      match toks with
      | [] => POk (h, finish_mem E split, false, [])
      | TOpen :: tl =>
          match parsex_mem f tl h [] None with
          | PErr e => PErr e
          | POk (h1, nested, closed, rest) =>
              if negb closed then PErr PBadRequest
              else match split with
                   | Some sp => let '(h2, sp') := expand h1 sp nested in parsex_mem f rest h2 E (Some sp')
                   | None => let '(h2, E') := expand h1 E nested in parsex_mem f rest h2 E' None
                   end
          end
      | TSemi :: tl => parsex_mem f tl h (finish_mem E split) (Some [])
      | TClose :: tl => POk (h, finish_mem E split, true, tl)
      | TSlash :: tl => parsex_mem f tl h E split
      | TIdent t :: tl =>
          match split with
          | Some sp => let '(h1, sp') := add_segment_mem h sp t in parsex_mem f tl h1 E (Some sp')
          | None => let '(h1, E') := add_segment_mem h E t in parsex_mem f tl h1 E' None
          end
      end
  end.

(** ParsePathExpression, read out through the final heap (what String() / the matcher see) *)
Definition parse_gen (s : list byte) : pres paths :=
  let toks := lex s in
  match parsex_mem (S (length toks)) toks [] [] None with
  | PErr e => PErr e
  | POk (h, ps, closed, _) => if closed then PErr PBadRequest else POk (map (rd h) ps)
  end.
End Parse.
End Grow.

Definition parse_mem (s : list byte) : pres paths := parse_gen go_grow (expand_paths_mem go_grow) s.
Definition parse_mem_old (s : list byte) : pres paths := parse_gen go_grow (expand_paths_mem_old go_grow) s.
