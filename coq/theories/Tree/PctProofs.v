(** Proofs about Tree/Pct.v: decoding inverts the reference encoder on every byte string.
    The per-byte facts are finite sweeps over the 256 bytes ([forallb ... all_bytes = true] by
    vm_compute, lifted with forallb_forall). *)
From Coq Require Import List Bool NArith Strings.Byte Lia.
From YV Require Import Tree.Pct.
Import ListNotations.
Open Scope N_scope.

Definition all_bytes : list byte := map (fun n => byte_of (N.of_nat n)) (seq 0 256).

Lemma all_bytes_complete : forall b, In b all_bytes.
Proof.
  intros b. unfold all_bytes. apply in_map_iff. exists (N.to_nat (Byte.to_N b)). split.
  - unfold byte_of. rewrite N2Nat.id, Byte.of_to_N. reflexivity.
  - apply in_seq. pose proof (Byte.to_N_bounded b). lia.
Qed.

Lemma sweep (P : byte -> bool) : forallb P all_bytes = true -> forall b, P b = true.
Proof. intros H b. apply (proj1 (forallb_forall P all_bytes) H b (all_bytes_complete b)). Qed.

(** what decoding one encoded byte must look like, as a boolean fact about the byte alone *)
Definition byte_ok (b : byte) : bool :=
  if unreserved b
  then negb (Byte.eqb b pct) && negb (Byte.eqb b plus)
  else is_hex (hex_digit (bN b / 16)) && is_hex (hex_digit (bN b mod 16))
       && Byte.eqb (byte_of (16 * unhex (hex_digit (bN b / 16)) + unhex (hex_digit (bN b mod 16)))) b.

Lemma byte_ok_all : forall b, byte_ok b = true.
Proof. apply sweep. vm_compute. reflexivity. Qed.

Lemma byte_eqb_eq a b : Byte.eqb a b = true -> a = b.
Proof. intros H. apply Byte.byte_dec_bl. exact H. Qed.

Lemma unescape_escape_byte b r :
  unescape (escape_byte b ++ r) = option_map (cons b) (unescape r).
Proof.
  pose proof (byte_ok_all b) as H. unfold byte_ok in H. unfold escape_byte.
  destruct (unreserved b).
  - apply andb_true_iff in H. destruct H as [H1 H2].
    apply negb_true_iff in H1. apply negb_true_iff in H2.
    simpl. rewrite H1, H2. reflexivity.
  - apply andb_true_iff in H. destruct H as [H H3].
    apply andb_true_iff in H. destruct H as [H1 H2].
    apply byte_eqb_eq in H3.
    change (unescape ([pct; hex_digit (bN b / 16); hex_digit (bN b mod 16)] ++ r))
      with (if is_hex (hex_digit (bN b / 16)) && is_hex (hex_digit (bN b mod 16))
            then option_map (cons (byte_of (16 * unhex (hex_digit (bN b / 16)) + unhex (hex_digit (bN b mod 16))))) (unescape r)
            else None).
    rewrite H1, H2, H3. reflexivity.
Qed.

(** C08: decoding inverts encoding, for every byte string *)
Theorem pct_roundtrip_app : forall s r,
  unescape (escape s ++ r) = option_map (app s) (unescape r).
Proof.
  induction s as [|b s IH]; intros r; simpl.
  - destruct (unescape r); reflexivity.
  - rewrite <- app_assoc, unescape_escape_byte, IH. destruct (unescape r); reflexivity.
Qed.

Theorem pct_roundtrip : forall s, unescape (escape s) = Some s.
Proof.
  intros s. pose proof (pct_roundtrip_app s []) as H. rewrite app_nil_r in H.
  rewrite H. simpl. rewrite app_nil_r. reflexivity.
Qed.

(** the encoder's output alphabet: unreserved characters and '%' *)
Lemma escape_byte_chars : forall b, forallb esc_char (escape_byte b) = true.
Proof. apply sweep. vm_compute. reflexivity. Qed.

Lemma escape_chars : forall s, forallb esc_char (escape s) = true.
Proof.
  induction s as [|b s IH]; simpl; [reflexivity|].
  rewrite forallb_app, escape_byte_chars, IH. reflexivity.
Qed.

(** an unreserved-only string is its own encoding (identifiers) *)
Lemma escape_unreserved : forall s, forallb unreserved s = true -> escape s = s.
Proof.
  induction s as [|b s IH]; simpl; intros H; [reflexivity|].
  apply andb_true_iff in H. destruct H as [H1 H2]. unfold escape_byte. rewrite H1. simpl.
  f_equal. apply IH, H2.
Qed.

(** ** the all-bytes lower-case encoder decodes back too *)
Definition byte_ok_all_enc (b : byte) : bool :=
  is_hex (hex_digit_lower (bN b / 16)) && is_hex (hex_digit_lower (bN b mod 16))
  && Byte.eqb (byte_of (16 * unhex (hex_digit_lower (bN b / 16)) + unhex (hex_digit_lower (bN b mod 16)))) b.

Lemma byte_ok_all_enc_all : forall b, byte_ok_all_enc b = true.
Proof. apply sweep. vm_compute. reflexivity. Qed.

Lemma unescape_escape_all_byte b r :
  unescape (escape_all_byte b ++ r) = option_map (cons b) (unescape r).
Proof.
  pose proof (byte_ok_all_enc_all b) as H. unfold byte_ok_all_enc in H.
  apply andb_true_iff in H. destruct H as [H H3].
  apply andb_true_iff in H. destruct H as [H1 H2].
  apply byte_eqb_eq in H3.
  change (unescape (escape_all_byte b ++ r))
    with (if is_hex (hex_digit_lower (bN b / 16)) && is_hex (hex_digit_lower (bN b mod 16))
          then option_map (cons (byte_of (16 * unhex (hex_digit_lower (bN b / 16)) + unhex (hex_digit_lower (bN b mod 16))))) (unescape r)
          else None).
  rewrite H1, H2, H3. reflexivity.
Qed.

Theorem escape_all_roundtrip : forall s, unescape (escape_all s) = Some s.
Proof.
  induction s as [|b s IH]; [reflexivity|].
  change (escape_all (b :: s)) with (escape_all_byte b ++ escape_all s).
  rewrite unescape_escape_all_byte, IH. reflexivity.
Qed.

Lemma escape_all_byte_chars : forall b, forallb esc_char (escape_all_byte b) = true.
Proof. apply sweep. vm_compute. reflexivity. Qed.

Lemma escape_all_chars : forall s, forallb esc_char (escape_all s) = true.
Proof.
  induction s as [|b s IH]; [reflexivity|].
  change (escape_all (b :: s)) with (escape_all_byte b ++ escape_all s).
  rewrite forallb_app, escape_all_byte_chars, IH. reflexivity.
Qed.
