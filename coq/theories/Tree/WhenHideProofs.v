(** C16, reader side: [when_hides] beyond choice-free siblings.
    A definition whose condition is false is exported as if its data were absent PROVIDED hiding it does not
    change which cases are selected: a node hidden by its 'when' still counts as data of its case for Choose
    (the reference store / nodeutil Choose look at the data, not at the constraints), so the rest of its case
    stays visible - defaults included - while with the data really absent the case would not be selected
    ([hidden_node_still_selects_its_case]). *)
From Coq Require Import ZArith List Bool Lia Strings.Byte.
From YV Require Import Base.Wrap Val.Model Val.Proofs Tree.Schema Tree.Editor Tree.XPathLex Tree.When Tree.WhenSpec
  Tree.WhenProofs.
Import ListNotations.
Open Scope nat_scope.

Definition wexport_m (pth : list nat) (u : bool) (kids : list snode) (c : content) : xres content :=
  wexport_at (when_field true) (when_cont true) (when_list true) pth u kids c.

Lemma wexport_is_wexport_m kids c : wexport true kids c = wexport_m [] false kids c.
Proof. reflexivity. Qed.

(** hiding position [i] leaves every case selection as it is *)
Definition same_selection (kids : list snode) (c : content) (i : nat) : Prop :=
  forall ch, choose ch kids (set_nth i None c) = choose ch kids c.

Lemma guard_selected_same kids c c' :
  (forall ch, choose ch kids c' = choose ch kids c) ->
  forall g, guard_selected g kids c' = guard_selected g kids c.
Proof.
  intros H. induction g as [|[ch k] g IH]; [reflexivity|]. simpl. rewrite H, IH. reflexivity.
Qed.

Theorem when_hides_sel pth u kids c i k :
  nth_error kids i = Some k -> has_when k = true ->
  same_selection kids c i ->
  kid_when kids c i k = XOk false ->
  wexport_m pth u kids c = wexport_m pth u kids (set_nth i None c).
Proof.
  intros Hk Hw Hsel Hfalse.
  unfold wexport_m, wexport_at, root_cont. rewrite !wexp_cont.
  match goal with |- match xbind ?a _ with _ => _ end = match xbind ?b _ with _ => _ end => assert (Heq : a = b) end;
    [|now rewrite Heq].
  apply kid_loop_ext. intros idx k' Hn. simpl.
  unfold wexp_kid.
  rewrite (guard_selected_same kids c (set_nth i None c) Hsel (sguard k')).
  destruct (negb (guard_selected (sguard k') kids c)); [reflexivity|].
  destruct (Nat.eq_dec i idx) as [<-|Hne].
  - rewrite Hk in Hn. inversion Hn; subst k'. rewrite nth_set_nth_none.
    destruct k as [m ty il d|m kk|m keys row]; simpl in Hfalse.
    + unfold when_field in *. destruct (when_of true (SLeaf m ty il d)) as [w|]; [|discriminate].
      rewrite <- (xpredicate_inv i _ kids c w Hk Hw). rewrite Hfalse. reflexivity.
    + destruct (nth i c None) as [[|cc|]|]; try discriminate.
      unfold when_cont in *. destruct (when_of true (SCont m kk)) as [w|]; [|discriminate].
      now rewrite Hfalse.
    + discriminate.
  - rewrite (nth_set_nth_neq None None c i idx Hne).
    destruct k' as [m ty il d|m kk|m keys row]; try reflexivity.
    unfold when_field. destruct (when_of true (SLeaf m ty il d)) as [w|]; [|reflexivity].
    now rewrite <- (xpredicate_inv i _ kids c w Hk Hw).
Qed.

(** ** when is the selection unchanged?  (a) the conditional definition itself is not inside a choice
    (its siblings may be) *)
Lemma cases_with_data_unguarded ch : forall kids c i k,
  nth_error kids i = Some k -> guard_case ch (sguard k) = None ->
  cases_with_data ch kids (set_nth i None c) = cases_with_data ch kids c.
Proof.
  induction kids as [|s kids IH]; intros c i k Hk Hg.
  - destruct i; discriminate.
  - destruct c as [|d c]; [destruct i; reflexivity|].
    destruct i as [|i]; simpl in Hk |- *.
    + inversion Hk; subst s. rewrite Hg. reflexivity.
    + rewrite (IH c i k Hk Hg). reflexivity.
Qed.

Lemma same_selection_unguarded kids c i k :
  nth_error kids i = Some k -> sguard k = [] -> same_selection kids c i.
Proof.
  intros Hk Hg ch. unfold choose.
  rewrite (cases_with_data_unguarded ch kids c i k Hk); [reflexivity|]. now rewrite Hg.
Qed.

(** (b) for every choice the definition sits under, another definition of the same case has data *)
Lemma fold_min_le l : forall a, fold_left Nat.min l a <= a.
Proof. induction l as [|x l IH]; intros a; simpl; [lia|]. specialize (IH (Nat.min a x)). lia. Qed.

(** the minimum of a non-empty list, as a predicate *)
Definition is_min (l : list nat) (m : nat) : Prop := In m l /\ forall x, In x l -> m <= x.

Lemma fold_min_is_min l : forall a, is_min (a :: l) (fold_left Nat.min l a).
Proof.
  induction l as [|x l IH]; intros a; simpl.
  - split; [now left|]. intros y [->|[]]. lia.
  - destruct (IH (Nat.min a x)) as [Hin Hle]. split.
    + destruct Hin as [Heq|Hin].
      * rewrite <- Heq. destruct (Nat.min_spec a x) as [[_ E]|[_ E]]; rewrite E; [left|right; left]; reflexivity.
      * right; right; exact Hin.
    + intros y [->|[->|Hy]].
      * etransitivity; [apply fold_min_le|]. lia.
      * etransitivity; [apply fold_min_le|]. lia.
      * apply Hle. right. exact Hy.
Qed.

Lemma is_min_unique l m m' : is_min l m -> is_min l m' -> m = m'.
Proof. intros [H1 H2] [H3 H4]. apply H2 in H3. apply H4 in H1. lia. Qed.

Lemma choose_spec ch kids c :
  match choose ch kids c with
  | None => cases_with_data ch kids c = []
  | Some m => is_min (cases_with_data ch kids c) m
  end.
Proof.
  unfold choose. destruct (cases_with_data ch kids c) as [|a l]; [reflexivity|]. apply fold_min_is_min.
Qed.

Lemma choose_ext ch kids c c' :
  (forall x, In x (cases_with_data ch kids c') <-> In x (cases_with_data ch kids c)) ->
  choose ch kids c' = choose ch kids c.
Proof.
  intros H. pose proof (choose_spec ch kids c) as S. pose proof (choose_spec ch kids c') as S'.
  destruct (choose ch kids c) as [m|], (choose ch kids c') as [m'|].
  - f_equal. destruct S as [S1 S2], S' as [S1' S2'].
    apply H in S1'. apply S2 in S1'. apply H in S1. apply S2' in S1. lia.
  - destruct S as [S1 _]. apply H in S1. rewrite S' in S1. destruct S1.
  - destruct S' as [S1 _]. apply H in S1. rewrite S in S1. destruct S1.
  - reflexivity.
Qed.

Lemma in_cases_with_data ch x : forall kids c,
  In x (cases_with_data ch kids c) <->
  exists j s, nth_error kids j = Some s /\ guard_case ch (sguard s) = Some x /\ present (nth j c None) = true.
Proof.
  induction kids as [|s kids IH]; intros c.
  - simpl. split; [intros []|]. intros [j [s [Hn _]]]. destruct j; discriminate.
  - destruct c as [|d c].
    + simpl. split; [intros []|]. intros [j [s0 [_ [_ Hp]]]]. destruct j; discriminate.
    + simpl. split.
      * intros Hin.
        destruct (guard_case ch (sguard s)) as [kc|] eqn:Eg; [destruct (present d) eqn:Ep|].
        -- destruct Hin as [<-|Hin].
           ++ exists 0, s. auto.
           ++ apply IH in Hin. destruct Hin as [j [s0 [H1 [H2 H3]]]]. exists (S j), s0. auto.
        -- apply IH in Hin. destruct Hin as [j [s0 [H1 [H2 H3]]]]. exists (S j), s0. auto.
        -- apply IH in Hin. destruct Hin as [j [s0 [H1 [H2 H3]]]]. exists (S j), s0. auto.
      * intros [j [s0 [H1 [H2 H3]]]]. destruct j as [|j]; simpl in H1, H3.
        -- inversion H1; subst s0. rewrite H2, H3. now left.
        -- assert (Hin : In x (cases_with_data ch kids c)) by (apply IH; eauto).
           destruct (guard_case ch (sguard s)); [destruct (present d)|]; auto. now right.
Qed.

(** every (choice, case) on the guard of [k] has another definition with data *)
Definition case_has_other (kids : list snode) (c : content) (i : nat) (k : snode) : Prop :=
  forall ch kc, guard_case ch (sguard k) = Some kc ->
    exists j s, j <> i /\ nth_error kids j = Some s /\ guard_case ch (sguard s) = Some kc /\
                present (nth j c None) = true.

Lemma same_selection_other kids c i k :
  nth_error kids i = Some k -> case_has_other kids c i k -> same_selection kids c i.
Proof.
  intros Hk Hother ch. apply choose_ext. intros x. rewrite !in_cases_with_data. split.
  - intros [j [s [H1 [H2 H3]]]]. exists j, s. split; [exact H1|]. split; [exact H2|].
    destruct (Nat.eq_dec i j) as [<-|Hne].
    + rewrite nth_set_nth_none in H3. discriminate.
    + now rewrite (nth_set_nth_neq None None c i j Hne) in H3.
  - intros [j [s [H1 [H2 H3]]]].
    destruct (Nat.eq_dec i j) as [<-|Hne].
    + rewrite Hk in H1. inversion H1; subst s.
      destruct (Hother ch x H2) as [j' [s' [Hne [G1 [G2 G3]]]]].
      exists j', s'. split; [exact G1|]. split; [exact G2|].
      rewrite (nth_set_nth_neq None None c i j'); auto.
    + exists j, s. split; [exact H1|]. split; [exact H2|].
      now rewrite (nth_set_nth_neq None None c i j Hne).
Qed.

(** the conditional definition is outside every choice; its siblings may sit in choices *)
Theorem when_hides_unguarded pth u kids c i k :
  nth_error kids i = Some k -> has_when k = true -> sguard k = [] ->
  kid_when kids c i k = XOk false ->
  wexport_m pth u kids c = wexport_m pth u kids (set_nth i None c).
Proof.
  intros Hk Hw Hg Hf. apply (when_hides_sel pth u kids c i k Hk Hw); [|exact Hf].
  eapply same_selection_unguarded; eauto.
Qed.

(** the conditional definition sits in a case that has other data *)
Theorem when_hides_in_case pth u kids c i k :
  nth_error kids i = Some k -> has_when k = true -> case_has_other kids c i k ->
  kid_when kids c i k = XOk false ->
  wexport_m pth u kids c = wexport_m pth u kids (set_nth i None c).
Proof.
  intros Hk Hw Ho Hf. apply (when_hides_sel pth u kids c i k Hk Hw); [|exact Hf].
  eapply same_selection_other; eauto.
Qed.
