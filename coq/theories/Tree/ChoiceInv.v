(** C09: "at most one case of a choice ever holds data" as an executable invariant on positional
    data, recursively through containers and list rows. *)
From Coq Require Import List Bool Arith.
From YV Require Import Val.Model Tree.Schema Tree.Editor Tree.Merge.
Import ListNotations.

(** the (choice, case) pairs that hold data in [data]; a kid nested in several choices contributes
    one pair per guard entry *)
Fixpoint occupied (kids : list snode) (data : content) : list (nat * nat) :=
  match kids, data with
  | s :: kids', Some _ :: data' => sguard s ++ occupied kids' data'
  | _ :: kids', None :: data' => occupied kids' data'
  | _, _ => []
  end.

Definition pair_conflict (p q : nat * nat) : bool :=
  Nat.eqb (fst p) (fst q) && negb (Nat.eqb (snd p) (snd q)).

Fixpoint no_conflict (l : list (nat * nat)) : bool :=
  match l with
  | [] => true
  | p :: tl => negb (existsb (pair_conflict p) tl) && no_conflict tl
  end.

(** at this level: no choice has data in two different cases *)
Definition one_case_here (kids : list snode) (data : content) : bool := no_conflict (occupied kids data).

Definition inv_kids (rec : snode -> dnode -> bool) : list snode -> content -> bool :=
  fix go (ks : list snode) (c : content) {struct ks} : bool :=
    match ks, c with
    | k :: ks', d :: c' => (match d with None => true | Some dn => rec k dn end) && go ks' c'
    | _, _ => true
    end.

Fixpoint inv (s : snode) (d : dnode) {struct s} : bool :=
  match s, d with
  | SCont _ kids, DCont c => one_case_here kids c && inv_kids inv kids c
  | SList _ _ row, DList rows => forallb (inv row) rows
  | _, _ => true
  end.

Definition inv_content (kids : list snode) (c : content) : bool :=
  one_case_here kids c && inv_kids inv kids c.
