(** The supported shape parses to itself:  n1/n2/.../leaf op literal  (names of name characters, a
    digit string / a decimal / a quoted text without quotes as literal) is lexed and parsed by the model of
    xpath.Parse into exactly that path, for paths of any length below the parser's stack size. *)
From Coq Require Import ZArith List Bool Lia Strings.Byte.
From YV Require Import Val.Model Tree.XPathLex.
Import ListNotations.
Open Scope Z_scope.

Definition b_slash : byte := x2f.
Definition b_quote : byte := x27.
Definition b_dot : byte := x2e.

Definition op_text (o : xop) : list byte :=
  match o with
  | OEq => [x3d] | ONe => [x21; x3d] | OLt => [x3c] | OLe => [x3c; x3d] | OGt => [x3e] | OGe => [x3e; x3d]
  end.

(** the written forms of a literal *)
Inductive lit_text :=
| WInt (ds : list byte)                 (* digits *)
| WDec (ip fp : list byte)              (* digits '.' digits *)
| WQuoted (body : list byte).           (* 'body' *)

Definition lit_bytes (w : lit_text) : list byte :=
  match w with
  | WInt ds => ds
  | WDec ip fp => ip ++ b_dot :: fp
  | WQuoted body => b_quote :: body ++ [b_quote]
  end.

Definition name_ok (n : list byte) : Prop := n <> [] /\ forallb is_namech n = true.

(** the literal is well formed and denotes [l] *)
Definition lit_ok (w : lit_text) (l : literal) : Prop :=
  match w with
  | WInt ds => ds <> [] /\ forallb is_digit ds = true /\
               exists z, digits_val 0 ds = Some z /\ z <= max_int64 /\ l = LInt z
  | WDec ip fp => ip <> [] /\ forallb is_digit ip = true /\ forallb is_digit fp = true /\
                  exists n, digits_val 0 (ip ++ fp) = Some n /\
                            f64_round n (10 ^ Z.of_nat (length fp)) <> None /\
                            l = LDec n (Z.of_nat (length fp))
  | WQuoted body => forallb (fun c => negb (is_quote c)) body = true /\ l = LStr body
  end.

Fixpoint render_path (p : list (list byte)) (rest : list byte) : list byte :=
  match p with
  | [] => rest
  | n :: p' => n ++ b_slash :: render_path p' rest
  end.

Definition render (p : list (list byte)) (lf : list byte) (o : xop) (w : lit_text) : list byte :=
  render_path p (lf ++ op_text o ++ lit_bytes w).

Definition lit_token (w : lit_text) : token :=
  match w with
  | WInt ds => TNum ds
  | WDec ip fp => TNum (ip ++ b_dot :: fp)
  | WQuoted body => TLit (b_quote :: body ++ [b_quote])
  end.

Fixpoint path_tokens (p : list (list byte)) (rest : list token) : list token :=
  match p with
  | [] => rest
  | n :: p' => TName n :: TSlash :: path_tokens p' rest
  end.

(** ** spans *)
Lemma span_app p : forall a rest,
  forallb p a = true -> (match rest with [] => True | c :: _ => p c = false end) ->
  span p (a ++ rest) = (a, rest).
Proof.
  induction a as [|b a IH]; intros rest Ha Hr; simpl.
  - destruct rest as [|c r]; [reflexivity|]. simpl. now rewrite Hr.
  - simpl in Ha. apply andb_true_iff in Ha. destruct Ha as [Hb Ha]. rewrite Hb, (IH rest Ha Hr). reflexivity.
Qed.

Lemma namech_not_special b : is_namech b = true ->
  (bz b =? 47) = false /\ (bz b =? 58) = false /\ (bz b =? 61) = false /\ (bz b =? 33) = false /\
  (bz b =? 60) = false /\ (bz b =? 62) = false /\ is_space b = false.
Proof.
  unfold is_namech, is_digit, is_letter, is_space. intros H.
  repeat match goal with |- _ /\ _ => split end;
  repeat match goal with
         | |- context [?x =? ?y] => destruct (Z.eqb_spec x y)
         | |- context [?x <=? ?y] => destruct (Z.leb_spec x y)
         | H : context [?x =? ?y] |- _ => destruct (Z.eqb_spec x y)
         | H : context [?x <=? ?y] |- _ => destruct (Z.leb_spec x y)
         end; simpl in *; try reflexivity; try discriminate; lia.
Qed.

Lemma lex_op_none_namech b t : is_namech b = true -> lex_op (b :: t) = None.
Proof.
  intros H. destruct (namech_not_special b H) as (_ & _ & H61 & H33 & H60 & H62 & _).
  unfold lex_op. now rewrite H61, H33, H60, H62.
Qed.

(** one name, followed by something that is not a name character *)
Lemma lex_name_step f n rest :
  name_ok n -> (match rest with [] => True | c :: _ => is_namech c = false end) ->
  lex_loop (S f) (n ++ rest) = TName n :: lex_loop f (skip_ws rest).
Proof.
  intros [Hne Hall] Hrest.
  destruct n as [|b n']; [congruence|].
  simpl in Hall. apply andb_true_iff in Hall. destruct Hall as [Hb Hn'].
  destruct (namech_not_special b Hb) as (H47 & H58 & _ & H33 & _).
  cbn [lex_loop app]. rewrite H47, H58.
  rewrite (lex_op_none_namech b (n' ++ rest) Hb). rewrite H33.
  change (b :: n' ++ rest) with ((b :: n') ++ rest).
  unfold lex_name. rewrite (span_app is_namech (b :: n') rest); [reflexivity| |exact Hrest].
  simpl. now rewrite Hb.
Qed.

Lemma skip_ws_id l : (match l with [] => True | c :: _ => is_space c = false end) -> skip_ws l = l.
Proof. destruct l as [|c l]; intros H; simpl; [reflexivity|now rewrite H]. Qed.

Lemma lex_slash_step f rest : lex_loop (S f) (b_slash :: rest) = TSlash :: lex_loop f (skip_ws rest).
Proof. reflexivity. Qed.

Lemma op_text_lex o rest :
  (match rest with [] => True | c :: _ => (bz c =? 61) = false end) ->
  lex_op (op_text o ++ rest) = Some (o, rest).
Proof.
  intros H. destruct o; simpl; try reflexivity; destruct rest as [|c r]; try reflexivity; now rewrite H.
Qed.

Lemma op_head_not_special o rest : exists b t, op_text o ++ rest = b :: t /\ (bz b =? 47) = false /\ (bz b =? 58) = false.
Proof. destruct o; simpl; eexists; eexists; (split; [reflexivity|split; reflexivity]). Qed.

Lemma digit_is_namech c : is_digit c = true -> is_namech c = true.
Proof. unfold is_namech. intros ->. reflexivity. Qed.

Lemma digit_props c : is_digit c = true -> (bz c =? 61) = false /\ is_space c = false /\ is_quote c = false.
Proof.
  unfold is_digit, is_space, is_quote. intros H.
  repeat match goal with |- _ /\ _ => split end;
  repeat match goal with
         | |- context [?x =? ?y] => destruct (Z.eqb_spec x y)
         | |- context [?x <=? ?y] => destruct (Z.leb_spec x y)
         | H : context [?x <=? ?y] |- _ => destruct (Z.leb_spec x y)
         end; simpl in *; try reflexivity; try discriminate; lia.
Qed.

(** the operator and the literal, at the end of the text *)
Lemma lex_tail f o w l : lit_ok w l ->
  lex_loop (S (S f)) (op_text o ++ lit_bytes w) = [TOp o; lit_token w].
Proof.
  intros Hok.
  destruct (op_head_not_special o (lit_bytes w)) as [b [t [Heq [H47 H58]]]].
  assert (Hstep : lex_loop (S (S f)) (op_text o ++ lit_bytes w) =
                  match lex_op (op_text o ++ lit_bytes w) with
                  | Some (o', r0) =>
                      let r := skip_ws r0 in
                      match lex_num r with
                      | Some (n, r') => TOp o' :: TNum n :: lex_loop (S f) (skip_ws r')
                      | None =>
                          match lex_lit r with
                          | LitOk raw r' => TOp o' :: TLit raw :: lex_loop (S f) (skip_ws r')
                          | LitUnterminated => [TOp o']
                          | LitNo =>
                              match lex_name r with
                              | Some (n, r') => TOp o' :: TName n :: lex_loop (S f) (skip_ws r')
                              | None => [TOp o']
                              end
                          end
                      end
                  | None => []
                  end).
  { rewrite Heq. cbn [lex_loop]. rewrite H47, H58. rewrite <- Heq.
    destruct (lex_op (op_text o ++ lit_bytes w)) as [[o' r0]|] eqn:E; [reflexivity|].
    exfalso. destruct w; simpl in Hok.
    - destruct Hok as (Hne & Hd & _). destruct ds as [|c ds]; [congruence|]. simpl in Hd.
      apply andb_true_iff in Hd. destruct Hd as [Hc _].
      rewrite op_text_lex in E; [discriminate|]. simpl. apply (digit_props c Hc).
    - destruct Hok as (Hne & Hd & _). destruct ip as [|c ip]; [congruence|]. simpl in Hd.
      apply andb_true_iff in Hd. destruct Hd as [Hc _].
      rewrite op_text_lex in E; [discriminate|]. simpl. apply (digit_props c Hc).
    - rewrite op_text_lex in E; [discriminate|]. reflexivity. }
  rewrite Hstep. clear Hstep.
  destruct w as [ds|ip fp|body]; simpl in Hok.
  - destruct Hok as (Hne & Hd & _). destruct ds as [|c ds]; [congruence|].
    pose proof Hd as Hd'. simpl in Hd'. apply andb_true_iff in Hd'. destruct Hd' as [Hc Hds].
    destruct (digit_props c Hc) as (H61 & Hsp & _).
    rewrite op_text_lex by (simpl; exact H61).
    cbn [lit_bytes]. cbv zeta. rewrite skip_ws_id by (simpl; exact Hsp).
    unfold lex_num. rewrite Hc.
    replace ds with (ds ++ []) at 1 by apply app_nil_r.
    rewrite (span_app (fun c0 => is_digit c0 || is_dot c0) ds []); [|
      rewrite forallb_forall in Hds |- *; intros x Hx; now rewrite (Hds x Hx) | exact I].
    simpl. reflexivity.
  - destruct Hok as (Hne & Hd & Hf & _). destruct ip as [|c ip]; [congruence|].
    pose proof Hd as Hd'. simpl in Hd'. apply andb_true_iff in Hd'. destruct Hd' as [Hc Hds].
    destruct (digit_props c Hc) as (H61 & Hsp & _).
    rewrite op_text_lex by (simpl; exact H61).
    cbn [lit_bytes]. cbv zeta. rewrite skip_ws_id by (simpl; exact Hsp).
    unfold lex_num. cbn [app]. rewrite Hc.
    replace (ip ++ b_dot :: fp) with ((ip ++ b_dot :: fp) ++ []) at 1 by apply app_nil_r.
    rewrite (span_app (fun c0 => is_digit c0 || is_dot c0) (ip ++ b_dot :: fp) []); [| | exact I].
    + simpl. reflexivity.
    + rewrite forallb_app. apply andb_true_iff. split.
      * rewrite forallb_forall in Hds |- *; intros x Hx; now rewrite (Hds x Hx).
      * simpl. rewrite forallb_forall in Hf |- *; intros x Hx; now rewrite (Hf x Hx), orb_true_l.
  - destruct Hok as (Hq & _).
    rewrite op_text_lex by reflexivity.
    cbn [lit_bytes]. cbv zeta. rewrite skip_ws_id by reflexivity.
    unfold lex_num. cbn [is_digit b_quote].
    change (is_digit b_quote) with false. cbv iota.
    unfold lex_lit. change (is_quote b_quote) with true. cbv iota.
    rewrite (span_app (fun c => negb (is_quote c)) body [b_quote]); [| exact Hq | reflexivity].
    simpl. reflexivity.
Qed.

(** ** the whole text *)
Definition tail_tokens (lf : list byte) (o : xop) (w : lit_text) : list token :=
  [TName lf; TOp o; lit_token w].

Lemma op_head_not_namech o rest : match op_text o ++ rest with [] => True | c :: _ => is_namech c = false end.
Proof. destruct o; reflexivity. Qed.

Lemma op_head_not_space o rest : match op_text o ++ rest with [] => True | c :: _ => is_space c = false end.
Proof. destruct o; reflexivity. Qed.

Lemma name_head n rest : name_ok n ->
  match n ++ rest with [] => True | c :: _ => is_space c = false end.
Proof.
  intros [Hne Hall]. destruct n as [|b n]; [congruence|]. simpl in Hall |- *.
  apply andb_true_iff in Hall. destruct Hall as [Hb _]. apply (namech_not_special b Hb).
Qed.

Lemma render_path_head p rest : Forall name_ok p ->
  (match rest with [] => True | c :: _ => is_space c = false end) ->
  match render_path p rest with [] => True | c :: _ => is_space c = false end.
Proof.
  intros Hp Hr. destruct p as [|n p]; simpl; [exact Hr|].
  inversion Hp; subst. now apply name_head.
Qed.

Lemma lex_loop_render : forall p f lf o w l,
  Forall name_ok p -> name_ok lf -> lit_ok w l ->
  (2 * length p + 3 <= f)%nat ->
  lex_loop f (render p lf o w) = path_tokens p (tail_tokens lf o w).
Proof.
  induction p as [|n p IH]; intros f lf o w l Hp Hlf Hw Hf.
  - unfold render. simpl.
    destruct f as [|[|[|f]]]; try (simpl in Hf; lia).
    rewrite lex_name_step; [|exact Hlf|apply op_head_not_namech].
    rewrite skip_ws_id by apply op_head_not_space.
    rewrite (lex_tail _ _ _ _ Hw). reflexivity.
  - inversion Hp; subst.
    unfold render. simpl.
    destruct f as [|[|f]]; try (simpl in Hf; lia).
    rewrite lex_name_step; [|assumption|reflexivity].
    rewrite skip_ws_id by reflexivity.
    rewrite lex_slash_step.
    rewrite skip_ws_id.
    + f_equal. f_equal. apply (IH f lf o w l); auto. simpl in Hf. lia.
    + apply render_path_head; [assumption|]. now apply name_head.
Qed.

Lemma render_length p lf o w : (2 * length p + 3 <= S (length (render p lf o w)))%nat ->
  True.
Proof. trivial. Qed.

Lemma render_path_length p rest : Forall name_ok p ->
  (2 * length p + length rest <= length (render_path p rest))%nat.
Proof.
  induction 1 as [|n p [Hne _] _ IH]; simpl; [lia|]. rewrite app_length. simpl.
  destruct n; [congruence|]. simpl. lia.
Qed.

Lemma lit_bytes_length w l : lit_ok w l -> (1 <= length (lit_bytes w))%nat.
Proof.
  destruct w; simpl.
  - intros [Hne _]. destruct ds; [congruence|simpl; lia].
  - intros [Hne _]. destruct ip; [congruence|simpl; lia].
  - intros _. lia.
Qed.

Theorem lex_render p lf o w l :
  Forall name_ok p -> name_ok lf -> lit_ok w l ->
  lex (render p lf o w) = path_tokens p (tail_tokens lf o w).
Proof.
  intros Hp Hlf Hw. unfold lex.
  rewrite skip_ws_id.
  - apply (lex_loop_render p _ lf o w l); auto.
    unfold render. pose proof (render_path_length p (lf ++ op_text o ++ lit_bytes w) Hp) as H.
    rewrite !app_length in H. pose proof (lit_bytes_length w l Hw).
    assert (1 <= length lf)%nat by (destruct Hlf as [Hne _]; destruct lf; [congruence|simpl; lia]).
    assert (1 <= length (op_text o))%nat by (destruct o; simpl; lia).
    lia.
  - unfold render. apply render_path_head; [assumption|]. now apply name_head.
Qed.

(** ** the parse of those tokens *)
Lemma trim_left_id l : (match l with [] => True | c :: _ => is_quote c = false end) -> trim_left l = l.
Proof. destruct l as [|c l]; intros H; simpl; [reflexivity|now rewrite H]. Qed.

Lemma trim_quotes_body body :
  forallb (fun c => negb (is_quote c)) body = true ->
  trim_quotes (b_quote :: body ++ [b_quote]) = body.
Proof.
  intros H. unfold trim_quotes.
  assert (Hq : forall c, In c body -> is_quote c = false).
  { intros c Hc. rewrite forallb_forall in H. specialize (H c Hc). now destruct (is_quote c). }
  destruct body as [|c b]; [reflexivity|].
  cbn [trim_left]. change (is_quote b_quote) with true. cbv iota.
  rewrite (trim_left_id ((c :: b) ++ [b_quote])) by (simpl; apply Hq; now left).
  rewrite rev_app_distr. cbn [rev app trim_left]. change (is_quote b_quote) with true. cbv iota.
  rewrite trim_left_id.
  - change (rev b ++ [c]) with (rev (c :: b)). apply rev_involutive.
  - destruct (rev b ++ [c]) as [|d r] eqn:E; [exact I|].
    apply Hq. apply in_rev. simpl. rewrite E. now left.
Qed.

Lemma num_of w l : lit_ok w l ->
  match w with
  | WInt ds => num ds = Some l
  | WDec ip fp => num (ip ++ b_dot :: fp) = Some l
  | WQuoted _ => True
  end.
Proof.
  destruct w as [ds|ip fp|body]; simpl; [| |trivial].
  - intros (Hne & Hd & z & Hz & Hmax & ->). unfold num.
    assert (count_dots ds = 0) as ->.
    { unfold count_dots. replace (filter is_dot ds) with (@nil byte); [reflexivity|].
      symmetry. clear -Hd. induction ds as [|c ds IH]; [reflexivity|]. simpl in Hd |- *.
      apply andb_true_iff in Hd. destruct Hd as [Hc Hds].
      assert (is_dot c = false) as ->.
      { unfold is_dot, is_digit in *.
        repeat match goal with
               | |- context [?x =? ?y] => destruct (Z.eqb_spec x y)
               | H : context [?x <=? ?y] |- _ => destruct (Z.leb_spec x y)
               end; simpl in *; try reflexivity; try discriminate; lia. }
      auto. }
    simpl. rewrite Hz. apply Z.leb_le in Hmax. now rewrite Hmax.
  - intros (Hne & Hd & Hf & n & Hn & Hround & ->). unfold num.
    assert (Hnodot : forall l0, forallb is_digit l0 = true -> filter is_dot l0 = []).
    { induction l0 as [|c l0 IH]; [reflexivity|]. simpl. intros H0.
      apply andb_true_iff in H0. destruct H0 as [Hc Hl0].
      assert (is_dot c = false) as ->.
      { unfold is_dot, is_digit in *.
        repeat match goal with
               | |- context [?x =? ?y] => destruct (Z.eqb_spec x y)
               | H : context [?x <=? ?y] |- _ => destruct (Z.leb_spec x y)
               end; simpl in *; try reflexivity; try discriminate; lia. }
      auto. }
    assert (count_dots (ip ++ b_dot :: fp) = 1) as ->.
    { unfold count_dots. rewrite filter_app. simpl. change (is_dot b_dot) with true. cbv iota.
      rewrite (Hnodot ip Hd), (Hnodot fp Hf). reflexivity. }
    simpl.
    rewrite (span_app is_digit ip (b_dot :: fp) Hd); [|reflexivity].
    cbn [tl]. rewrite Hn.
    destruct (f64_round n (10 ^ Z.of_nat (length fp))); [reflexivity|congruence].
Qed.

Local Opaque Nat.leb.
Lemma parse_path_tokens lf o w l : lit_ok w l ->
  forall p acc st, (st = QStart \/ st = QAfterSlash) ->
  (length acc + length p < stack_size)%nat ->
  parse_segs st acc (path_tokens p (tail_tokens lf o w)) =
  POk (rev acc ++ map (fun n => (n, None)) p ++ [(lf, Some (o, l))]).
Proof.
  intros Hw. induction p as [|n p IH]; intros acc st Hst Hlen.
  - simpl. unfold tail_tokens.
    assert (Hpush : Nat.leb stack_size (length acc) = false) by (apply Nat.leb_gt; simpl in Hlen; lia).
    pose proof (num_of w l Hw) as Hnum.
    destruct Hst as [-> | ->]; destruct w as [ds|ip fp|body];
      try (destruct Hw as [Hq ->]; rewrite <- (trim_quotes_body body Hq) at 2);
      do 4 (cbn [parse_segs lit_token rev map app]; rewrite ?Hnum, ?Hpush); reflexivity.
  - assert (Hpush : Nat.leb stack_size (length acc) = false) by (apply Nat.leb_gt; simpl in Hlen; lia).
    cbn [path_tokens].
    assert (Hgo : parse_segs st acc (TName n :: TSlash :: path_tokens p (tail_tokens lf o w)) =
                  parse_segs QAfterSlash ((n, None) :: acc) (path_tokens p (tail_tokens lf o w))).
    { destruct Hst as [-> | ->]; cbn [parse_segs]; rewrite Hpush; reflexivity. }
    rewrite Hgo. rewrite IH; [|now right|simpl in Hlen |- *; lia].
    cbn [rev map]. rewrite <- app_assoc. reflexivity.
Qed.

Local Transparent Nat.leb.

(** the text of a comparison parses to the comparison *)
Theorem xparse_render p lf o w l :
  Forall name_ok p -> name_ok lf -> lit_ok w l -> (length p < stack_size)%nat ->
  xparse (render p lf o w) = POk (map (fun n => (n, None)) p ++ [(lf, Some (o, l))]).
Proof.
  intros Hp Hlf Hw Hlen. unfold xparse. rewrite (lex_render p lf o w l Hp Hlf Hw).
  rewrite (parse_path_tokens lf o w l Hw p [] QStart); [reflexivity|now left|simpl; lia].
Qed.

Theorem as_cmp_path p lf o l :
  as_cmp (map (fun n => (n, None)) p ++ [(lf, Some (o, l))]) = Some (mkCmp p lf o l).
Proof.
  induction p as [|n p IH]; [reflexivity|].
  cbn [map app]. cbn [as_cmp]. rewrite IH.
  destruct (map (fun n0 : list byte => (n0, None)) p ++ [(lf, Some (o, l))]) eqn:E.
  - destruct p; discriminate.
  - reflexivity.
Qed.
