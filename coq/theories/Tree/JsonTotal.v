(** Totality of the JSON writer model: no error on a tree shaped like its schema whose identities are known. *)
From Coq Require Import ZArith List Bool Lia Strings.Byte.
From YV Require Import Val.Model Tree.Schema Tree.Export Tree.ExportProofs Tree.JStr Tree.JsonSpec Tree.JsonExp Tree.JsonW Tree.JsonWProofs.
Import ListNotations.

(** ** the writer never fails on a tree shaped like its schema whose identities are known *)
Section Total.
  Variable fmt_float : Z -> Z -> list byte.
  Variable idmod : ident -> option ident.
  Variable cfg : wcfg.

  Definition scalar_ok (v : lval) : bool :=
    match v with
    | LV (VIdRef l) => match idmod l with Some _ => true | None => false end
    | LList _ => false
    | _ => true
    end.
  Definition lval_ok (v : lval) : bool :=
    match v with LList items => forallb scalar_ok items | _ => scalar_ok v end.

  Fixpoint jsonable (s : snode) (d : dnode) {struct s} : bool :=
    match s, d with
    | SLeaf _ _ _ _, DLeaf v => lval_ok v
    | SCont _ kids, DCont c => all_kids (fun k dk => jsonable k dk) kids c
    | SList _ _ row, DList rows => match row with SCont _ _ => forallb (fun r => jsonable row r) rows | _ => false end
    | _, _ => false
    end.

  Lemma eitem_total lmod v : scalar_ok v = true -> exists e, eitem cfg idmod lmod v = Some e.
  Proof.
    destruct v as [[f z|m x|s|s|b|id l|l]| |names|items]; cbn; intros H; try discriminate; eauto.
    destruct (idmod l); [eauto|discriminate].
  Qed.

  Lemma eitems_total lmod : forall items, forallb scalar_ok items = true -> exists es, eitems cfg idmod lmod items = Some es.
  Proof.
    induction items as [|v tl IH]; intros H; [eexists; reflexivity|]. cbn [forallb] in H.
    apply andb_true_iff in H as [Hv Ht]. destruct (eitem_total lmod v Hv) as (e & He). destruct (IH Ht) as (es & Hes).
    cbn [JsonExp.eitems]. rewrite He, Hes. eauto.
  Qed.

  Lemma evalue_total lmod v : lval_ok v = true -> exists e, evalue cfg idmod lmod v = Some e.
  Proof.
    destruct v as [sv| |names|items]; intros H; try (apply (eitem_total lmod _ H)).
    cbn in H. destruct (eitems_total lmod items H) as (es & Hes). cbn [JsonExp.evalue]. rewrite Hes. cbn. eauto.
  Qed.

  Lemma ekids_total ekid top pmod : forall ks cs,
    all_kids (fun k dk => match ekid k dk with Some _ => true | None => false end) ks cs = true ->
    exists ms, ekids cfg ekid top pmod ks cs = Some ms.
  Proof.
    induction ks as [|k ks IH]; intros [|d cs] H; try discriminate; [eexists; reflexivity|].
    cbn [all_kids] in H. apply andb_true_iff in H as [Hd Hr]. destruct (IH cs Hr) as (ms & Hms).
    destruct d as [dk|]; cbn [ekids].
    - destruct (ekid k dk); [|discriminate]. rewrite Hms. eauto.
    - eauto.
  Qed.

  Lemma all_kids_impl (f g : snode -> dnode -> bool) : forall ks cs,
    (forall k dk, In k ks -> f k dk = true -> g k dk = true) -> all_kids f ks cs = true -> all_kids g ks cs = true.
  Proof.
    induction ks as [|k ks IH]; intros [|d cs] Hfg H; try discriminate; [reflexivity|].
    cbn [all_kids] in *. apply andb_true_iff in H as [Hd Hr]. rewrite (IH cs); [|intros k0 dk0 Hin; apply Hfg; right; exact Hin | exact Hr].
    destruct d as [dk|]; [|reflexivity]. rewrite (Hfg k dk (or_introl eq_refl) Hd). reflexivity.
  Qed.

  Theorem enode_total : forall s top d, jsonable s d = true -> exists e, enode cfg idmod top s d = Some e.
  Proof.
    apply (snode_ind3 (fun s => forall top d, jsonable s d = true -> exists e, enode cfg idmod top s d = Some e));
      [intros m ty il dflt | intros m kids IHk | intros m keys row IHr]; intros top d H.
    - destruct d as [v| |]; try discriminate. cbn in *. apply evalue_total. exact H.
    - destruct d as [|cs|]; try discriminate. cbn [jsonable] in H. cbn [JsonExp.enode].
      destruct (ekids_total (fun k dk => enode cfg idmod false k dk) top (nm_mod m) kids cs) as (ms & Hms).
      + apply (all_kids_impl (fun k dk => jsonable k dk)); [|exact H]. intros k dk Hin Hj.
        rewrite Forall_forall in IHk. destruct (IHk k Hin false dk Hj) as (e & ->). reflexivity.
      + rewrite Hms. cbn. eauto.
    - destruct d as [| |rows]; try discriminate. cbn [jsonable] in H. destruct row as [|rm rk|] eqn:Er; try discriminate.
      rewrite <- Er in *. cbn [JsonExp.enode]. rewrite Er. rewrite <- Er.
      assert (Hr : exists es, erows (fun r => enode cfg idmod false row r) rows = Some es).
      { clear - H IHr fmt_float idmod cfg. induction rows as [|r rows IH]; [eexists; reflexivity|]. cbn [forallb] in H.
        apply andb_true_iff in H as [Hr Ht]. destruct (IHr false r Hr) as (e & He). destruct (IH Ht) as (es & Hes).
        cbn [erows]. rewrite He, Hes. eauto. }
      destruct Hr as (es & ->). cbn. eauto.
  Qed.

  (** a start selection the writer can be asked to write *)
  Definition start_ok (st : start) : bool :=
    match st with
    | StCont _ s d => match s with SCont _ _ => jsonable s (visit false s d) | _ => false end
    | StList _ _ s d => match s with SList _ _ _ => jsonable s (visit true s d) | _ => false end
    | StLeaf _ v => match v with Some v => lval_ok v | None => true end
    end.

  Theorem estart_total st : start_ok st = true -> exists e, estart cfg idmod st = Some e.
  Proof.
    destruct st as [top s d|top pmod s d|m v]; cbn [start_ok JsonExp.estart].
    - destruct s; try discriminate. apply enode_total.
    - destruct s; try discriminate. intros H. destruct (enode_total _ false _ H) as (e & ->). cbn. eauto.
    - destruct v as [v|]; [|eauto]. intros H. destruct (evalue_total (nm_mod m) v H) as (e & ->). cbn. eauto.
  Qed.

  (** THEOREM: whatever the schema, configuration and start selection, for every exported tree that is
      shaped like the schema and mentions only known identities the writer returns without error *)
  Theorem writer_total st : start_ok st = true -> exists ts, wstart cfg fmt_float idmod st = Some ts.
  Proof.
    intros H. destruct (estart_total st H) as (e & He).
    destruct (writer_raw fmt_float idmod cfg st e He) as (ts & Hw & _). eauto.
  Qed.
  Corollary writer_total_both st : start_ok st = true ->
    (exists e, estart cfg idmod st = Some e) /\ (exists ts, wstart cfg fmt_float idmod st = Some ts).
  Proof. intros H. split; [apply estart_total; exact H | apply writer_total; exact H]. Qed.
End Total.
