(** C18: concrete instances.  (1) The hypotheses of the uniqueness and model = spec theorems are
    satisfiable together on a history using all seven operations.  (2) Counter-examples showing
    that each added hypothesis / side condition is needed.  Everything here is closed by
    vm_compute. *)
From Coq Require Import ZArith List Bool Arith Strings.Byte.
From YV Require Import Val.Model Tree.Schema Tree.Editor Tree.Merge Tree.EditorProofs Tree.InsertUpdateProofs
  Tree.KeyEquiv Tree.Delete Tree.DeleteProofs Tree.KeysUniqueProofs Tree.DeleteSpecProofs.
Import ListNotations.
Open Scope nat_scope.

Definition xm (n : byte) : nmeta := mkMeta [n] [] true [] None.
Definition xleaf (n : byte) (d : option lval) : snode := SLeaf (xm n) (TInt FInt32) false d.
Definition xi (z : Z) : option dnode := Some (DLeaf (LV (VInt FInt32 z))).
Definition xe (k v : Z) : dnode := DCont [xi k; xi v].
Definition xkey (k : Z) : list (option dnode) := [xi k].
Definition xrun (kids : list snode) (ops : list op) (tgt : content) : res content :=
  fold_left (fun acc o => match acc with Ok t => apply_op kids t o | Err e => Err e end) ops (Ok tgt).

(** * a satisfiable instance: list q {key k; leaf k; leaf v}, container c {leaf a; list p {key k; ...}} *)
Definition xrow : snode := SCont (xm x72) [xleaf x6b None; xleaf x76 None].
Definition xkids : list snode :=
  [SList (xm x71) [0] xrow; SCont (xm x63) [xleaf x61 None; SList (xm x70) [0] xrow]].
Definition xtgt : content :=
  [Some (DList [xe 1 10; xe 2 20; xe 3 30]%Z); Some (DCont [xi 5%Z; Some (DList [xe 1 1]%Z)])].
Definition xops : list op :=
  [OpUpsert [Some (DList [xe 2 21; xe 4 40]%Z); None];
   OpDeleteRow 0 (xkey 1%Z);
   OpReplaceRow 0 (xkey 2%Z) (xe 2 22)%Z;
   OpInsertRows 0 [xe 5 50; xe 6 60]%Z;
   OpDeleteRows 0 [xkey 3; xkey 5]%Z;
   OpReplaceKid 1 [None; Some (DCont [xi 7%Z; Some (DList [xe 9 9; xe 8 8]%Z)])];
   OpInsertRows 0 [xe 7 70]%Z;
   OpDeleteKid 1].

Example hypotheses_satisfiable :
  forallb wf_schema xkids = true /\ forallb choice_free xkids = true /\ forallb (keys_ok true) xkids = true /\
  shaped_kids shaped xkids xtgt = true /\ keys_unique_content xkids xtgt = true /\
  forallb (op_src_ok xkids) xops = true /\ forallb (op_spec_ok xkids) xops = true /\
  xrun xkids xops xtgt
  = Ok [Some (DList [xe 4 40; xe 2 22; xe 6 60; xe 7 70]%Z); None] /\
  (* the state before the last two operations: the replaced container holds the supplied data only *)
  xrun xkids (firstn 6 xops) xtgt
  = Ok [Some (DList [xe 4 40; xe 2 22; xe 6 60]%Z); Some (DCont [xi 7%Z; Some (DList [xe 9 9; xe 8 8]%Z)])].
Proof. vm_compute. repeat split; reflexivity. Qed.

(** every step of that history is what the specification says *)
Example history_steps_are_spec :
  (fix go (ops : list op) (t : content) : bool :=
     match ops with
     | [] => true
     | o :: ops' =>
         match apply_op xkids t o, spec_op xkids t o with
         | Ok a, Ok b => content_eqb a b && go ops' a
         | _, _ => false
         end
     end) xops xtgt = true.
Proof. vm_compute. reflexivity. Qed.

(** a usable key is found at its own position *)
Example found_instance :
  find_row [0] (row_key [0] (xe 3 30)%Z) [xe 1 10; xe 2 20; xe 3 30]%Z 0 = Some 2.
Proof. vm_compute. reflexivity. Qed.

(** the hypotheses of [entry_found_under_its_key] hold together *)
Example entry_found_hypotheses_satisfiable :
  let l := SList (xm x71) [0] xrow in
  let rows := [xe 1 10; xe 2 20; xe 3 30]%Z in
  keys_ok false l = true /\ shaped l (DList rows) = true /\ keys_unique l (DList rows) = true /\
  nth_error rows 2 = Some (xe 3 30)%Z /\ key_usable (row_key [0] (xe 3 30)%Z) = true /\
  key_eqb (row_key [0] (xe 3 30)%Z) (row_key [0] (xe 3 30)%Z) = true.
Proof. vm_compute. repeat split; reflexivity. Qed.

(** * counter-example to the original full statement: a key leaf with a schema default.
      Upserting two rows that do not set the key creates two rows, both with the default as key. *)
Definition drow : snode := SCont (xm x72) [xleaf x6b (Some (LV (VInt FInt32 7%Z))); xleaf x76 None].
Definition dkids : list snode := [SList (xm x71) [0] drow].
Definition dops : list op := [OpUpsert [Some (DList [DCont [None; xi 1%Z]; DCont [None; xi 2%Z]])]].
Definition dres : content := [Some (DList [xe 7 1; xe 7 2]%Z)].

Example default_key_breaks_uniqueness :
  forallb wf_schema dkids = true /\ forallb choice_free dkids = true /\
  shaped_kids shaped dkids [Some (DList [])] = true /\ keys_unique_content dkids [Some (DList [])] = true /\
  forallb (op_src_ok dkids) dops = true /\
  xrun dkids dops [Some (DList [])] = Ok dres /\
  keys_unique_content dkids dres = false /\
  forallb (keys_ok true) dkids = false.
Proof. vm_compute. repeat split; reflexivity. Qed.

(** hence the uniqueness statement without a hypothesis on key defaults is false *)
Theorem unique_history_needs_no_key_default :
  ~ (forall kids ops tgt r,
       forallb wf_schema kids = true -> forallb choice_free kids = true ->
       shaped_kids shaped kids tgt = true -> keys_unique_content kids tgt = true ->
       fold_left (fun acc o => match acc with Ok t => apply_op kids t o | Err e => Err e end) ops (Ok tgt) = Ok r ->
       keys_unique_content kids r = true).
Proof.
  intros H. specialize (H dkids dops [Some (DList [])] dres eq_refl eq_refl eq_refl eq_refl eq_refl).
  vm_compute in H. discriminate H.
Qed.

(** * counter-examples for the side conditions of model = spec (model on the left) *)

(** delete by an unusable key on a key-less list: the model removes the first row, the filter all *)
Definition nkids : list snode := [SList (xm x71) [] xrow].
Example keyless_delete_differs :
  apply_op nkids [Some (DList [xe 1 1; xe 2 2]%Z)] (OpDeleteRow 0 []) = Ok [Some (DList [xe 2 2]%Z)] /\
  spec_op nkids [Some (DList [xe 1 1; xe 2 2]%Z)] (OpDeleteRow 0 []) = Ok [Some (DList [])] /\
  keys_unique_content nkids [Some (DList [xe 1 1; xe 2 2]%Z)] = true.
Proof. vm_compute. repeat split; reflexivity. Qed.

(** replacement row carrying another, present key: the model reports a conflict, the
    specification would leave two rows with key 2 *)
Example replace_row_other_key_differs :
  apply_op xkids xtgt (OpReplaceRow 0 (xkey 1%Z) (xe 2 8)%Z) = Err EConflict /\
  spec_op xkids xtgt (OpReplaceRow 0 (xkey 1%Z) (xe 2 8)%Z)
  = Ok [Some (DList [xe 2 20; xe 3 30; xe 2 8]%Z); Some (DCont [xi 5%Z; Some (DList [xe 1 1]%Z)])].
Proof. vm_compute. split; reflexivity. Qed.

(** inserted rows with equal keys: the model reports a conflict, the merge would fold them *)
Example insert_duplicate_rows_differs :
  apply_op xkids xtgt (OpInsertRows 0 [xe 8 1; xe 8 2]%Z) = Err EConflict /\
  spec_op xkids xtgt (OpInsertRows 0 [xe 8 1; xe 8 2]%Z)
  = Ok [Some (DList [xe 1 10; xe 2 20; xe 3 30; xe 8 2]%Z); Some (DCont [xi 5%Z; Some (DList [xe 1 1]%Z)])].
Proof. vm_compute. split; reflexivity. Qed.

(** replace of a container with a content that also mentions a sibling leaf: the model writes the
    sibling too *)
Definition sibkids : list snode := [SCont (xm x63) [xleaf x61 None]; xleaf x62 None].
Example replace_kid_sibling_differs :
  apply_op sibkids [Some (DCont [xi 1%Z]); xi 2%Z] (OpReplaceKid 0 [Some (DCont [xi 3%Z]); xi 4%Z])
  = Ok [Some (DCont [xi 3%Z]); xi 4%Z] /\
  spec_op sibkids [Some (DCont [xi 1%Z]); xi 2%Z] (OpReplaceKid 0 [Some (DCont [xi 3%Z]); xi 4%Z])
  = Ok [Some (DCont [xi 3%Z]); xi 2%Z].
Proof. vm_compute. split; reflexivity. Qed.

(** replace of a container whose supplied list repeats a key: conflict in the model *)
Example replace_kid_duplicate_rows_differs :
  apply_op xkids xtgt (OpReplaceKid 1 [None; Some (DCont [None; Some (DList [xe 9 1; xe 9 2]%Z)])]) = Err EConflict /\
  spec_op xkids xtgt (OpReplaceKid 1 [None; Some (DCont [None; Some (DList [xe 9 1; xe 9 2]%Z)])])
  = Ok [Some (DList [xe 1 10; xe 2 20; xe 3 30]%Z); Some (DCont [None; Some (DList [xe 9 2]%Z)])].
Proof. vm_compute. split; reflexivity. Qed.

(** val.Equal on enum values compares ids modulo 2^64 (Enum.Compare subtracts 64-bit ints): key
    equality is still an equivalence, but not the identity of denotations on ill-formed ids *)
Example enum_equal_mod_2_64 : value_eqb (VEnum 0 []) (VEnum (2 ^ 64) []) = true.
Proof. vm_compute. reflexivity. Qed.
