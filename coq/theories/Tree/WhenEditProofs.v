From Coq Require Import ZArith List Bool Lia Strings.Byte.
From YV Require Import Base.Wrap Val.Model Tree.Schema Tree.Editor Tree.XPathLex Tree.When.
Import ListNotations.

(** * the writer: an edit that brings one conditional leaf writes it iff its condition holds on the target *)
Section EditLoop.
  Variable f : nat -> snode -> content -> xres content.
  Fixpoint edit_loop (ks : list snode) (i : nat) (tc : content) : xres content :=
    match ks with
    | [] => XOk tc
    | k :: ks' => xbind (f i k tc) (fun tc' => edit_loop ks' (S i) tc')
    end.
End EditLoop.

Lemma wedit_cont m kids sc tc new :
  wedit (SCont m kids) (DCont sc) (DCont tc) new =
  xbind (edit_loop (wedit_kid (fun k' a b n => wedit k' a b n) new kids sc) kids O tc)
        (fun tc' => XOk (DCont tc')).
Proof. reflexivity. Qed.

Lemma edit_loop_skip f : forall ks j tc,
  (forall off k tc', nth_error ks off = Some k -> f (j + off)%nat k tc' = XOk tc') ->
  edit_loop f ks j tc = XOk tc.
Proof.
  induction ks as [|k ks IH]; intros j tc H; [reflexivity|]. simpl.
  pose proof (H O k tc eq_refl) as H0. rewrite Nat.add_0_r in H0. rewrite H0. simpl.
  apply IH. intros off k' tc' Hn. specialize (H (S off) k' tc' Hn).
  now replace (S j + off)%nat with (j + S off)%nat by lia.
Qed.

Lemma edit_loop_app f : forall pre post j tc,
  edit_loop f (pre ++ post) j tc =
  xbind (edit_loop f pre j tc) (fun tc' => edit_loop f post (j + length pre)%nat tc').
Proof.
  induction pre as [|k pre IH]; intros post j tc; simpl.
  - now rewrite Nat.add_0_r.
  - destruct (f j k tc) as [tc1| | |]; simpl; try reflexivity.
    rewrite IH. now replace (S j + length pre)%nat with (j + S (length pre))%nat by lia.
Qed.

(** a definition for which the source brings nothing leaves the target alone (entry point: no defaults) *)
Lemma wedit_kid_nothing rec kids sc i k tc :
  sguard k = [] -> nth i sc None = None ->
  wedit_kid rec false kids sc i k tc = XOk tc.
Proof.
  intros Hg Hn. unfold wedit_kid. rewrite Hg, Hn. simpl. destruct k; reflexivity.
Qed.

Theorem edit_conditional_leaf kids src tgt i m ty il dflt w d :
  nth_error kids i = Some (SLeaf m ty il dflt) -> nm_when m = Some w ->
  Forall (fun k => sguard k = []) kids ->
  nth i src None = Some d -> (forall j, j <> i -> nth j src None = None) ->
  forall holds, xpredicate kids tgt w = XOk holds ->
  wupsert kids src tgt = XOk (if holds then set_nth i (Some d) tgt else tgt).
Proof.
  intros Hk Hw Hg Hd Hothers holds Hp.
  unfold wupsert. rewrite wedit_cont.
  destruct (nth_error_split kids i Hk) as [pre [post [Hkids Hlen]]].
  set (F := wedit_kid (fun k' a b n => wedit k' a b n) false kids src).
  assert (Hskip : forall j k tc', nth_error kids j = Some k -> j <> i -> F j k tc' = XOk tc').
  { intros j k tc' Hn Hne. apply wedit_kid_nothing.
    - rewrite Forall_forall in Hg. apply Hg. eapply nth_error_In; eauto.
    - now apply Hothers. }
  replace (edit_loop F kids 0 tgt) with (edit_loop F (pre ++ SLeaf m ty il dflt :: post) 0 tgt)
    by (now rewrite <- Hkids).
  rewrite edit_loop_app.
  rewrite edit_loop_skip.
  - simpl. rewrite Hlen.
    assert (Hstep : F i (SLeaf m ty il dflt) tgt = XOk (if holds then set_nth i (Some d) tgt else tgt)).
    { unfold F, wedit_kid.
      assert (Hgk : sguard (SLeaf m ty il dflt) = []).
      { rewrite Forall_forall in Hg. apply Hg. eapply nth_error_In; eauto. }
      rewrite Hgk, Hd. simpl. unfold when_field, when_of. simpl. rewrite Hw, Hp. reflexivity. }
    rewrite Hstep. simpl.
    rewrite edit_loop_skip; [reflexivity|].
    intros off k tc' Hn. apply Hskip; [|lia].
    rewrite Hkids. rewrite nth_error_app2 by lia.
    replace (S i + off - length pre)%nat with (S off) by lia. exact Hn.
  - intros off k tc' Hn. simpl.
    assert (off < length pre)%nat by (apply nth_error_Some; congruence).
    apply Hskip; [|lia]. rewrite Hkids. now rewrite nth_error_app1 by lia.
Qed.
