(** Proofs about Tree/Trace.v (C12). *)
From Coq Require Import List Bool Arith Lia Strings.Byte.
From YV Require Import Tree.Trace.
Import ListNotations.

(** well-formedness of a frame tree for an edit root: every begin/end path lies on the root's
    path or below it, and a frame's chain is disjoint from every chain opened inside its body *)
Fixpoint chains (t : etree) : list (bool * path) :=
  match t with
  | Ev _ => []
  | Frame chain tg body => map (fun p => (tg, p)) chain ++ flat_map chains body
  end.

Definition tp_eqb (a b : bool * path) : bool := Bool.eqb (fst a) (fst b) && path_eqb (snd a) (snd b).

Fixpoint nodup_tp (l : list (bool * path)) : bool :=
  match l with
  | [] => true
  | x :: tl => negb (existsb (tp_eqb x) tl) && nodup_tp tl
  end.

Fixpoint no_marks (t : etree) : bool :=       (* bodies' plain events are reads and writes, all succeeding *)
  match t with
  | Ev e => match ev_kind e with KBegin | KEnd => false | _ => ev_ok e end
  | Frame _ _ body => forallb no_marks body
  end.

Fixpoint frame_scoped (root : path) (t : etree) : bool :=
  match t with
  | Ev _ => true
  | Frame chain _ body =>
      forallb (fun p => is_prefix p root || is_prefix root p) chain && forallb (frame_scoped root) body
  end.

(** nested frames never reopen a node that an enclosing (still open) frame holds open *)
Fixpoint disjoint_nesting (t : etree) : bool :=
  match t with
  | Ev _ => true
  | Frame chain tg body =>
      nodup_tp (map (fun p => (tg, p)) chain)
      && forallb (fun q => negb (existsb (tp_eqb q) (flat_map chains body))) (map (fun p => (tg, p)) chain)
      && forallb disjoint_nesting body
  end.

Definition wf_tree (root : path) (t : etree) : bool :=
  no_marks t && frame_scoped root t && disjoint_nesting t.
