(** Proofs about Tree/Trace.v (C12).
    Main results: [c12_all_plans] / [c12_all_faults] (every well-formed frame tree, every fault
    position: well bracketed, no write after the failure, in scope), [c12_clean_run] (the fault-free
    run, and no callback fails in it), [run_flag_iff_any_failed] (a subtree reports failure exactly
    when one of its callbacks failed).
    Route: [marks_in] (which begin/end events a trace can contain: only those of [chains t]),
    [bp_skip] / [bp_closed] (composition of [bracket_path] over concatenation), the three chain
    lemmas [bp_begins_open], [bp_run_begins_fail] (rollback), [bp_run_ends_close], then induction over
    the frame tree ([etree_ind2]) with [run_list] naming the body loop of [run]. *)
From Coq Require Import List Bool Arith Lia Strings.Byte.
From YV Require Import Tree.Trace.
Import ListNotations.

(** well-formedness of a frame tree for an edit root: every begin/end path lies on the root's
    path or below it, and a frame's chain is disjoint from every chain opened inside its body *)
Fixpoint chains (t : etree) : list (bool * path) :=
  match t with
  | Ev _ => []
  | Frame chain tg body => map (fun p => (tg, p)) chain ++ flat_map chains body
  end.

Definition tp_eqb (a b : bool * path) : bool := Bool.eqb (fst a) (fst b) && path_eqb (snd a) (snd b).

Fixpoint nodup_tp (l : list (bool * path)) : bool :=
  match l with
  | [] => true
  | x :: tl => negb (existsb (tp_eqb x) tl) && nodup_tp tl
  end.

Fixpoint no_marks (t : etree) : bool :=       (* bodies' plain events are reads and writes, all succeeding *)
  match t with
  | Ev e => match ev_kind e with KBegin | KEnd => false | _ => ev_ok e end
  | Frame _ _ body => forallb no_marks body
  end.

Fixpoint frame_scoped (root : path) (t : etree) : bool :=
  match t with
  | Ev _ => true
  | Frame chain _ body =>
      forallb (fun p => is_prefix p root || is_prefix root p) chain && forallb (frame_scoped root) body
  end.

(** nested frames never reopen a node that an enclosing (still open) frame holds open *)
Fixpoint disjoint_nesting (t : etree) : bool :=
  match t with
  | Ev _ => true
  | Frame chain tg body =>
      nodup_tp (map (fun p => (tg, p)) chain)
      && forallb (fun q => negb (existsb (tp_eqb q) (flat_map chains body))) (map (fun p => (tg, p)) chain)
      && forallb disjoint_nesting body
  end.

Definition wf_tree (root : path) (t : etree) : bool :=
  no_marks t && frame_scoped root t && disjoint_nesting t.

(** * reflection of the boolean tests *)
Lemma path_eqb_eq : forall a b, path_eqb a b = true <-> a = b.
Proof.
  induction a as [|x a IH]; destruct b as [|y b]; simpl; split; intros H; try reflexivity; try discriminate.
  - apply andb_true_iff in H. destruct H as [H1 H2]. apply byte_dec_bl in H1. apply IH in H2. congruence.
  - inversion H; subst. apply andb_true_iff. split. apply byte_dec_lb; reflexivity. apply IH; reflexivity.
Qed.

Lemma path_eqb_refl : forall a, path_eqb a a = true.
Proof. intros. apply path_eqb_eq. reflexivity. Qed.

Lemma path_eqb_neq : forall a b, a <> b -> path_eqb a b = false.
Proof. intros a b H. destruct (path_eqb a b) eqn:E; auto. apply path_eqb_eq in E. contradiction. Qed.

Definition path_eq_dec : forall a b : path, {a = b} + {a <> b} := list_eq_dec byte_eq_dec.
Definition tp_eq_dec : forall a b : bool * path, {a = b} + {a <> b}.
Proof. decide equality; [apply path_eq_dec | apply bool_dec]. Defined.

Lemma tp_eqb_eq : forall a b, tp_eqb a b = true <-> a = b.
Proof.
  intros [t1 p1] [t2 p2]. unfold tp_eqb. simpl. rewrite andb_true_iff, path_eqb_eq, eqb_true_iff.
  split. intros [-> ->]; reflexivity. intros H; inversion H; auto.
Qed.

Lemma existsb_tp_In : forall q l, existsb (tp_eqb q) l = true <-> In q l.
Proof.
  intros q l. rewrite existsb_exists. split.
  - intros [x [Hin Heq]]. apply tp_eqb_eq in Heq. subst. assumption.
  - intros Hin. exists q. split. assumption. apply tp_eqb_eq. reflexivity.
Qed.

Lemma nodup_tp_NoDup : forall l, nodup_tp l = true -> NoDup l.
Proof.
  induction l as [|x l IH]; simpl; intros H. constructor.
  apply andb_true_iff in H. destruct H as [H1 H2]. constructor.
  - intros Hin. apply existsb_tp_In in Hin. rewrite Hin in H1. discriminate.
  - apply IH. assumption.
Qed.

Definition memb (p : path) (l : list path) : bool := if in_dec path_eq_dec p l then true else false.
Lemma memb_in : forall p l, In p l -> memb p l = true.
Proof. intros. unfold memb. destruct (in_dec path_eq_dec p l); auto; contradiction. Qed.
Lemma memb_notin : forall p l, ~ In p l -> memb p l = false.
Proof. intros. unfold memb. destruct (in_dec path_eq_dec p l); auto; contradiction. Qed.

Lemma NoDup_app_l : forall (A : Type) (a b : list A), NoDup (a ++ b) -> NoDup a.
Proof.
  intros A a b. induction b as [|x b IH]; intros H. rewrite app_nil_r in H. assumption.
  apply IH. eapply NoDup_remove_1. eassumption.
Qed.

(** * induction over frame trees *)
Section etree_ind2.
  Variable P : etree -> Prop.
  Hypothesis HEv : forall e, P (Ev e).
  Hypothesis HFrame : forall c tg body, Forall P body -> P (Frame c tg body).
  Fixpoint etree_ind2 (t : etree) : P t :=
    match t with
    | Ev e => HEv e
    | Frame c tg body =>
        HFrame c tg body
          ((fix f (l : list etree) : Forall P l :=
              match l with [] => Forall_nil P | x :: l' => Forall_cons x (etree_ind2 x) (f l') end) body)
    end.
End etree_ind2.

(** * unfolding [run] *)
Definition run_list : list etree -> plan -> list event * plan * bool :=
  fix go (ts : list etree) (pl : plan) {struct ts} : list event * plan * bool :=
    match ts with
    | [] => ([], pl, false)
    | t' :: ts' =>
        let '(es1, pl', f1) := run t' pl in
        if f1 then (es1, pl', true)
        else let '(es2, pl'', f2) := go ts' pl' in (es1 ++ es2, pl'', f2)
    end.

Lemma run_frame_eq : forall c tg body pl,
  run (Frame c tg body) pl =
  let '(bs, pl1, bfail) := run_begins tg c [] pl in
  if bfail then (bs, pl1, true) else
  let '(es, pl2, bodyfail) := run_list body pl1 in
  let '(ends, pl3, efail) := run_ends tg c pl2 in
  (bs ++ es ++ ends, pl3, bodyfail || efail).
Proof. reflexivity. Qed.

Lemma run_list_cons : forall t ts pl,
  run_list (t :: ts) pl =
  let '(es1, pl', f1) := run t pl in
  if f1 then (es1, pl', true)
  else let '(es2, pl'', f2) := run_list ts pl' in (es1 ++ es2, pl'', f2).
Proof. reflexivity. Qed.

Lemma run_ev_eq : forall e pl,
  run (Ev e) pl = let '(e', pl', failed) := step e pl in ([e'], pl', failed).
Proof. reflexivity. Qed.

Lemma run_begins_cons : forall tg p todo begun pl,
  run_begins tg (p :: todo) begun pl =
  let '(e, pl', failed) := step (begin_ev tg p) pl in
  if failed then (e :: map (end_ev tg) begun, pl', true)
  else let '(es, pl'', f) := run_begins tg todo (begun ++ [p]) pl' in (e :: es, pl'', f).
Proof. reflexivity. Qed.

Lemma run_ends_cons : forall tg p todo pl,
  run_ends tg (p :: todo) pl =
  let '(e, pl', failed) := step (end_ev tg p) pl in
  let '(es, pl'', f) := run_ends tg todo pl' in
  (e :: es, pl'', failed || f).
Proof. reflexivity. Qed.

(** * one callback *)
Lemma step_spec : forall e pl e' pl' f,
  step e pl = (e', pl', f) -> (f = false /\ e' = e) \/ (f = true /\ e' = fail e /\ pl' = None).
Proof. intros e [[|n]|] e' pl' f H; simpl in H; inversion H; auto. Qed.

Lemma step_none : forall e e' pl' f, step e None = (e', pl', f) -> e' = e /\ pl' = None /\ f = false.
Proof. intros. simpl in H. inversion H. auto. Qed.

(** * which begin/end events a trace contains *)
Definition is_mark (k : ekind) : bool := match k with KBegin | KEnd => true | _ => false end.

Definition marks_in (tr : list event) (l : list (bool * path)) : Prop :=
  forall e, In e tr -> is_mark (ev_kind e) = true -> In (ev_target e, ev_path e) l.

Lemma marks_in_nil : forall l, marks_in [] l.
Proof. intros l e []. Qed.

Lemma marks_in_cons : forall e tr l,
  (is_mark (ev_kind e) = true -> In (ev_target e, ev_path e) l) -> marks_in tr l -> marks_in (e :: tr) l.
Proof. intros e tr l H1 H2 x [<-|Hin] Hm; auto. Qed.

Lemma marks_in_app : forall a b l, marks_in a l -> marks_in b l -> marks_in (a ++ b) l.
Proof. intros a b l Ha Hb e Hin Hm. apply in_app_or in Hin. destruct Hin; auto. Qed.

Lemma marks_in_incl : forall a l l', marks_in a l -> incl l l' -> marks_in a l'.
Proof. intros a l l' Ha Hi e Hin Hm. apply Hi. apply Ha; assumption. Qed.

Lemma marks_in_begins : forall tg c, marks_in (map (begin_ev tg) c) (map (fun p => (tg, p)) c).
Proof.
  intros tg c e Hin _. apply in_map_iff in Hin. destruct Hin as [p [<- Hp]]. simpl.
  apply in_map_iff. exists p. auto.
Qed.

Lemma marks_in_ends : forall tg c, marks_in (map (end_ev tg) c) (map (fun p => (tg, p)) c).
Proof.
  intros tg c e Hin _. apply in_map_iff in Hin. destruct Hin as [p [<- Hp]]. simpl.
  apply in_map_iff. exists p. auto.
Qed.

Lemma marks_in_run_begins : forall tg todo begun pl es pl' f,
  run_begins tg todo begun pl = (es, pl', f) -> marks_in es (map (fun p => (tg, p)) (begun ++ todo)).
Proof.
  intros tg todo. induction todo as [|q todo IH]; intros begun pl es pl' f H.
  - simpl in H. inversion H. apply marks_in_nil.
  - rewrite run_begins_cons in H. destruct (step (begin_ev tg q) pl) as [[e pl1] f1] eqn:S.
    assert (He : ev_target e = tg /\ ev_path e = q).
    { apply step_spec in S. destruct S as [[_ ->]|[_ [-> _]]]; auto. }
    destruct He as [He1 He2].
    destruct f1.
    + inversion H; subst. apply marks_in_cons.
      * intros _. apply in_map_iff. exists (ev_path e). split. reflexivity. apply in_or_app. right. left. reflexivity.
      * eapply marks_in_incl. apply marks_in_ends. intros x Hx. apply in_map_iff in Hx.
        destruct Hx as [p [<- Hp]]. apply in_map_iff. exists p. split. reflexivity. apply in_or_app. left. assumption.
    + destruct (run_begins tg todo (begun ++ [q]) pl1) as [[es' pl''] f'] eqn:R. inversion H; subst.
      apply IH in R. rewrite <- app_assoc in R. simpl in R. apply marks_in_cons; auto.
      intros _. apply in_map_iff. exists (ev_path e). split. reflexivity. apply in_or_app. right. left. reflexivity.
Qed.

Lemma marks_in_run_ends : forall tg todo pl es pl' f,
  run_ends tg todo pl = (es, pl', f) -> marks_in es (map (fun p => (tg, p)) todo).
Proof.
  intros tg todo. induction todo as [|q todo IH]; intros pl es pl' f H.
  - simpl in H. inversion H. apply marks_in_nil.
  - rewrite run_ends_cons in H. destruct (step (end_ev tg q) pl) as [[e pl1] f1] eqn:S.
    destruct (run_ends tg todo pl1) as [[es' pl''] f'] eqn:R. inversion H; subst.
    assert (He : ev_target e = tg /\ ev_path e = q).
    { apply step_spec in S. destruct S as [[_ ->]|[_ [-> _]]]; auto. }
    destruct He as [He1 He2]. apply marks_in_cons.
    + intros _. rewrite He1, He2. left. reflexivity.
    + eapply marks_in_incl. eapply IH; eauto. intros x Hx. right. assumption.
Qed.

(** * bracket_path: composition lemmas *)
Lemma bp_skip : forall tg p a l, marks_in a l -> ~ In (tg, p) l ->
  forall o b, bracket_path tg p o (a ++ b) = bracket_path tg p o b.
Proof.
  intros tg p a l. induction a as [|e a IH]; intros Hm Hn o b. reflexivity.
  assert (Hm' : marks_in a l). { intros x Hx. apply Hm. right. assumption. }
  simpl. destruct (Bool.eqb (ev_target e) tg && path_eqb (ev_path e) p) eqn:T.
  - apply andb_true_iff in T. destruct T as [T1 T2]. apply eqb_prop in T1. apply path_eqb_eq in T2.
    assert (Hk : is_mark (ev_kind e) = false).
    { destruct (is_mark (ev_kind e)) eqn:K; auto. exfalso. apply Hn. rewrite <- T1, <- T2. apply Hm. left; reflexivity. assumption. }
    destruct (ev_kind e); simpl in Hk; try discriminate; apply IH; assumption.
  - apply IH; assumption.
Qed.

Lemma bp_skip_nil : forall tg p a l, marks_in a l -> ~ In (tg, p) l ->
  forall o, bracket_path tg p o a = negb o.
Proof. intros. rewrite <- (app_nil_r a). erewrite bp_skip; eauto. Qed.

Lemma bp_closed : forall tg p a o b,
  bracket_path tg p o a = true -> bracket_path tg p o (a ++ b) = bracket_path tg p false b.
Proof.
  intros tg p a. induction a as [|e a IH]; intros o b H; simpl in *.
  - destruct o; simpl in H; try discriminate. reflexivity.
  - destruct (Bool.eqb (ev_target e) tg && path_eqb (ev_path e) p).
    + destruct (ev_kind e).
      * destruct (ev_ok e).
        -- apply andb_true_iff in H. destruct H as [H1 H2]. rewrite H1. simpl. apply IH. assumption.
        -- apply IH. assumption.
      * apply andb_true_iff in H. destruct H as [H1 H2]. rewrite H1. simpl. apply IH. assumption.
      * apply IH. assumption.
      * apply IH. assumption.
    + apply IH. assumption.
Qed.

(** the begin chain of a frame, all succeeding, opens each of its nodes *)
Lemma bp_begins_open : forall tg p c r, NoDup c -> In p c ->
  bracket_path tg p false (map (begin_ev tg) c ++ r) = bracket_path tg p true r.
Proof.
  intros tg p c r. induction c as [|q c IH]; intros Hnd Hin. destruct Hin.
  inversion Hnd; subst. simpl. rewrite eqb_reflx. simpl.
  destruct (path_eq_dec q p) as [->|Hne].
  - rewrite path_eqb_refl. simpl. eapply bp_skip. apply marks_in_begins.
    intros Hx. apply in_map_iff in Hx. destruct Hx as [p' [Hx1 Hx2]]. inversion Hx1; subst. contradiction.
  - rewrite path_eqb_neq by assumption. apply IH. assumption. destruct Hin; [contradiction|assumption].
Qed.

(** rollback of a failed begin chain: exactly the nodes already begun are ended *)
Lemma bp_rollback : forall tg p l, NoDup l -> bracket_path tg p (memb p l) (map (end_ev tg) l) = true.
Proof.
  intros tg p l. induction l as [|q l IH]; intros Hnd. reflexivity.
  inversion Hnd; subst. simpl. rewrite eqb_reflx. simpl.
  destruct (path_eq_dec q p) as [->|Hne].
  - rewrite path_eqb_refl. rewrite memb_in by (left; reflexivity). simpl.
    rewrite <- (memb_notin p l) by assumption. apply IH. assumption.
  - rewrite path_eqb_neq by assumption.
    assert (E : memb p (q :: l) = memb p l).
    { destruct (in_dec path_eq_dec p l) as [Hi|Hi].
      - rewrite (memb_in p l) by assumption. apply memb_in. right. assumption.
      - rewrite (memb_notin p l) by assumption. apply memb_notin. intros [Hx|Hx]; [congruence|contradiction]. }
    rewrite E. apply IH. assumption.
Qed.

Lemma bp_run_begins_fail : forall tg p todo begun pl es pl',
  NoDup (begun ++ todo) -> run_begins tg todo begun pl = (es, pl', true) ->
  bracket_path tg p (memb p begun) es = true.
Proof.
  intros tg p todo. induction todo as [|q todo IH]; intros begun pl es pl' Hnd H.
  - simpl in H. inversion H.
  - rewrite run_begins_cons in H. destruct (step (begin_ev tg q) pl) as [[e pl1] f1] eqn:S.
    apply step_spec in S. destruct f1.
    + destruct S as [[S _]|[_ [-> _]]]; try discriminate. inversion H; subst.
      simpl. rewrite eqb_reflx. simpl. destruct (path_eqb q p); apply bp_rollback;
        apply NoDup_app_l in Hnd; assumption.
    + destruct S as [[_ ->]|[S _]]; try discriminate.
      destruct (run_begins tg todo (begun ++ [q]) pl1) as [[es' pl''] f'] eqn:R. inversion H; subst.
      assert (Hnd' : NoDup ((begun ++ [q]) ++ todo)). { rewrite <- app_assoc. simpl. assumption. }
      specialize (IH _ _ _ _ Hnd' R). simpl. rewrite eqb_reflx. simpl.
      destruct (path_eq_dec q p) as [->|Hne].
      * rewrite path_eqb_refl. simpl.
        rewrite (memb_in p (begun ++ [p])) in IH by (apply in_or_app; right; left; reflexivity).
        rewrite memb_notin. simpl. assumption.
        apply NoDup_remove_2 in Hnd. intros Hx. apply Hnd. apply in_or_app. left. assumption.
      * rewrite path_eqb_neq by assumption.
        assert (E : memb p (begun ++ [q]) = memb p begun).
        { destruct (in_dec path_eq_dec p begun) as [Hi|Hi].
          - rewrite (memb_in p begun) by assumption. apply memb_in. apply in_or_app. left. assumption.
          - rewrite (memb_notin p begun) by assumption. apply memb_notin. intros Hx. apply in_app_or in Hx.
            destruct Hx as [Hx|[Hx|[]]]; [contradiction|congruence]. }
        rewrite <- E. assumption.
Qed.

Lemma run_begins_ok : forall tg todo begun pl es pl',
  run_begins tg todo begun pl = (es, pl', false) -> es = map (begin_ev tg) todo.
Proof.
  intros tg todo. induction todo as [|q todo IH]; intros begun pl es pl' H.
  - simpl in H. inversion H. reflexivity.
  - rewrite run_begins_cons in H. destruct (step (begin_ev tg q) pl) as [[e pl1] f1] eqn:S.
    apply step_spec in S. destruct f1. discriminate.
    destruct S as [[_ ->]|[S _]]; try discriminate.
    destruct (run_begins tg todo (begun ++ [q]) pl1) as [[es' pl''] f'] eqn:R. inversion H; subst.
    simpl. f_equal. eapply IH. eassumption.
Qed.

(** the end chain closes each of its nodes, whatever the callbacks return *)
Lemma bp_run_ends_close : forall tg p todo pl es pl' f, NoDup todo -> In p todo ->
  run_ends tg todo pl = (es, pl', f) -> bracket_path tg p true es = true.
Proof.
  intros tg p todo. induction todo as [|q todo IH]; intros pl es pl' f Hnd Hin H. destruct Hin.
  rewrite run_ends_cons in H. destruct (step (end_ev tg q) pl) as [[e pl1] f1] eqn:S.
  destruct (run_ends tg todo pl1) as [[es' pl''] f'] eqn:R. inversion H; subst. inversion Hnd; subst.
  assert (He : ev_target e = tg /\ ev_path e = q /\ ev_kind e = KEnd).
  { apply step_spec in S. destruct S as [[_ ->]|[_ [-> _]]]; auto. }
  destruct He as [He1 [He2 He3]]. simpl. rewrite He1, He2, He3, eqb_reflx. simpl.
  destruct (path_eq_dec q p) as [->|Hne].
  - rewrite path_eqb_refl. simpl. erewrite bp_skip_nil. reflexivity.
    eapply marks_in_run_ends; eauto.
    intros Hx. apply in_map_iff in Hx. destruct Hx as [p' [Hx1 Hx2]]. inversion Hx1; subst. contradiction.
  - rewrite path_eqb_neq by assumption. eapply IH; eauto. destruct Hin; [contradiction|assumption].
Qed.

(** * no write after the failure, and success means every callback succeeded *)
Definition all_ok (tr : list event) : bool := forallb ev_ok tr.
Definition only_ends (tr : list event) : bool := forallb (fun e => ekind_eqb (ev_kind e) KEnd) tr.

Lemma nwaf_only_ends : forall tr f, only_ends tr = true -> no_write_after_failure f tr = true.
Proof.
  induction tr as [|e tr IH]; intros f H. reflexivity.
  simpl in *. apply andb_true_iff in H. destruct H as [H1 H2]. rewrite IH by assumption.
  destruct (ev_kind e); simpl in H1; try discriminate. destruct f; reflexivity.
Qed.

Lemma nwaf_all_ok_app : forall a b, all_ok a = true ->
  no_write_after_failure false (a ++ b) = no_write_after_failure false b.
Proof.
  induction a as [|e a IH]; intros b H. reflexivity.
  simpl in *. apply andb_true_iff in H. destruct H as [H1 H2]. rewrite H1. simpl. apply IH. assumption.
Qed.

Lemma nwaf_app_ends : forall a b f, no_write_after_failure f a = true -> only_ends b = true ->
  no_write_after_failure f (a ++ b) = true.
Proof.
  induction a as [|e a IH]; intros b f Ha Hb. simpl. apply nwaf_only_ends. assumption.
  simpl in *. apply andb_true_iff in Ha. destruct Ha as [H1 H2]. rewrite H1. simpl. apply IH; assumption.
Qed.

Lemma all_ok_app : forall a b, all_ok (a ++ b) = all_ok a && all_ok b.
Proof. intros. unfold all_ok. apply forallb_app. Qed.

Lemma all_ok_begins : forall tg c, all_ok (map (begin_ev tg) c) = true.
Proof. intros. induction c; simpl; auto. Qed.

Lemma only_ends_map : forall tg c, only_ends (map (end_ev tg) c) = true.
Proof. intros. induction c; simpl; auto. Qed.

Lemma nwaf_run_begins : forall tg todo begun pl es pl' f,
  run_begins tg todo begun pl = (es, pl', f) -> no_write_after_failure false es = true.
Proof.
  intros tg todo. induction todo as [|q todo IH]; intros begun pl es pl' f H.
  - simpl in H. inversion H. reflexivity.
  - rewrite run_begins_cons in H. destruct (step (begin_ev tg q) pl) as [[e pl1] f1] eqn:S.
    apply step_spec in S. destruct f1.
    + inversion H; subst. simpl. apply nwaf_only_ends. apply only_ends_map.
    + destruct S as [[_ ->]|[S _]]; try discriminate.
      destruct (run_begins tg todo (begun ++ [q]) pl1) as [[es' pl''] f'] eqn:R. inversion H; subst.
      simpl. eapply IH. eassumption.
Qed.

Lemma run_ends_inv : forall tg todo pl es pl' f,
  run_ends tg todo pl = (es, pl', f) -> only_ends es = true /\ (f = false -> all_ok es = true).
Proof.
  intros tg todo. induction todo as [|q todo IH]; intros pl es pl' f H.
  - simpl in H. inversion H. auto.
  - rewrite run_ends_cons in H. destruct (step (end_ev tg q) pl) as [[e pl1] f1] eqn:S.
    destruct (run_ends tg todo pl1) as [[es' pl''] f'] eqn:R. inversion H; subst.
    apply IH in R. destruct R as [R1 R2]. apply step_spec in S. split.
    + simpl. rewrite R1. destruct S as [[_ ->]|[_ [-> _]]]; reflexivity.
    + intros Hf. apply orb_false_iff in Hf. destruct Hf as [-> ->].
      destruct S as [[_ ->]|[S _]]; try discriminate. simpl. auto.
Qed.

(** * the invariant of [run] that does not depend on nesting *)
Definition run_inv_at (t : etree) : Prop :=
  no_marks t = true -> forall pl tr pl' f, run t pl = (tr, pl', f) ->
  marks_in tr (chains t) /\ no_write_after_failure false tr = true /\ (f = false -> all_ok tr = true).

Lemma run_list_inv : forall body, Forall run_inv_at body -> forallb no_marks body = true ->
  forall pl tr pl' f, run_list body pl = (tr, pl', f) ->
  marks_in tr (flat_map chains body) /\ no_write_after_failure false tr = true /\ (f = false -> all_ok tr = true).
Proof.
  intros body HF. induction HF as [|t ts Ht HF IH]; intros Hnm pl tr pl' f H.
  - simpl in H. inversion H. split. apply marks_in_nil. auto.
  - simpl in Hnm. apply andb_true_iff in Hnm. destruct Hnm as [Hn1 Hn2].
    rewrite run_list_cons in H. destruct (run t pl) as [[es1 pl1] f1] eqn:R1.
    destruct (Ht Hn1 _ _ _ _ R1) as [A1 [A2 A3]]. simpl.
    destruct f1.
    + inversion H; subst. split; [|split].
      * eapply marks_in_incl. eassumption. apply incl_appl. apply incl_refl.
      * assumption.
      * discriminate.
    + destruct (run_list ts pl1) as [[es2 pl2] f2] eqn:R2. inversion H; subst.
      destruct (IH Hn2 _ _ _ _ R2) as [B1 [B2 B3]]. split; [|split].
      * apply marks_in_app.
        -- eapply marks_in_incl. eassumption. apply incl_appl. apply incl_refl.
        -- eapply marks_in_incl. eassumption. apply incl_appr. apply incl_refl.
      * rewrite nwaf_all_ok_app; auto.
      * intros Hf. rewrite all_ok_app, A3, B3; auto.
Qed.

Lemma run_inv : forall t, run_inv_at t.
Proof.
  induction t as [e|c tg body HF] using etree_ind2; intros Hnm pl tr pl' f H.
  - rewrite run_ev_eq in H. destruct (step e pl) as [[e' pl1] f1] eqn:S. inversion H; subst.
    simpl in Hnm. apply step_spec in S. split; [|split].
    + apply marks_in_cons. 2: apply marks_in_nil.
      assert (K : ev_kind e' = ev_kind e) by (destruct S as [[_ ->]|[_ [-> _]]]; reflexivity).
      rewrite K. destruct (ev_kind e); simpl; discriminate.
    + simpl. rewrite ?andb_true_r. reflexivity.
    + intros ->. destruct S as [[_ ->]|[S _]]; try discriminate. simpl. rewrite ?andb_true_r.
      destruct (ev_kind e); try discriminate; assumption.
  - simpl in Hnm. rewrite run_frame_eq in H.
    destruct (run_begins tg c [] pl) as [[bs pl1] bfail] eqn:RB.
    pose proof (marks_in_run_begins _ _ _ _ _ _ _ RB) as MB. simpl in MB.
    pose proof (nwaf_run_begins _ _ _ _ _ _ _ RB) as NB.
    destruct bfail.
    + inversion H; subst. split; [|split].
      * simpl. eapply marks_in_incl. eassumption. apply incl_appl. apply incl_refl.
      * assumption.
      * discriminate.
    + apply run_begins_ok in RB. subst bs.
      destruct (run_list body pl1) as [[es pl2] bodyfail] eqn:RL.
      destruct (run_ends tg c pl2) as [[ends pl3] efail] eqn:RE. inversion H; subst.
      destruct (run_list_inv body HF Hnm _ _ _ _ RL) as [L1 [L2 L3]].
      pose proof (marks_in_run_ends _ _ _ _ _ _ RE) as ME.
      destruct (run_ends_inv _ _ _ _ _ _ RE) as [E1 E2]. split; [|split].
      * simpl. apply marks_in_app. eapply marks_in_incl. eassumption. apply incl_appl. apply incl_refl.
        apply marks_in_app. eapply marks_in_incl. eassumption. apply incl_appr. apply incl_refl.
        eapply marks_in_incl. eassumption. apply incl_appl. apply incl_refl.
      * rewrite nwaf_all_ok_app by apply all_ok_begins. apply nwaf_app_ends; assumption.
      * intros Hf. apply orb_false_iff in Hf. destruct Hf as [-> ->].
        rewrite !all_ok_app, all_ok_begins, L3, E2; auto.
Qed.

(** * bracketing *)
Definition bracket_at (t : etree) : Prop :=
  no_marks t = true -> disjoint_nesting t = true ->
  forall pl tg p, bracket_path tg p false (fst (fst (run t pl))) = true.

Lemma bracket_run_list : forall body, Forall bracket_at body ->
  forallb no_marks body = true -> forallb disjoint_nesting body = true ->
  forall pl tg p, bracket_path tg p false (fst (fst (run_list body pl))) = true.
Proof.
  intros body HF. induction HF as [|t ts Ht HF IH]; intros Hnm Hdj pl tg p. reflexivity.
  simpl in Hnm, Hdj. apply andb_true_iff in Hnm. destruct Hnm as [Hn1 Hn2].
  apply andb_true_iff in Hdj. destruct Hdj as [Hd1 Hd2].
  rewrite run_list_cons. specialize (Ht Hn1 Hd1 pl tg p).
  destruct (run t pl) as [[es1 pl1] f1] eqn:R1. simpl in Ht. destruct f1. assumption.
  specialize (IH Hn2 Hd2 pl1 tg p). destruct (run_list ts pl1) as [[es2 pl2] f2] eqn:R2. simpl in *.
  rewrite (bp_closed _ _ _ _ _ Ht). assumption.
Qed.

Lemma bracket_run : forall t, bracket_at t.
Proof.
  induction t as [e|c tg' body HF] using etree_ind2; intros Hnm Hdj pl tg p.
  - rewrite run_ev_eq. destruct (step e pl) as [[e' pl1] f1] eqn:S. simpl.
    apply step_spec in S.
    assert (K : ev_kind e' = ev_kind e) by (destruct S as [[_ ->]|[_ [-> _]]]; reflexivity).
    rewrite K. simpl in Hnm. destruct (ev_kind e); try discriminate;
      destruct (Bool.eqb (ev_target e') tg && path_eqb (ev_path e') p); reflexivity.
  - simpl in Hnm, Hdj. apply andb_true_iff in Hdj. destruct Hdj as [Hdj Hd3].
    apply andb_true_iff in Hdj. destruct Hdj as [Hd1 Hd2].
    apply nodup_tp_NoDup in Hd1.
    assert (Hnd : NoDup c) by (eapply NoDup_map_inv; eassumption).
    assert (Hdis : forall q, In q (map (fun p => (tg', p)) c) -> ~ In q (flat_map chains body)).
    { intros q Hq Hx. rewrite forallb_forall in Hd2. specialize (Hd2 q Hq).
      apply existsb_tp_In in Hx. rewrite Hx in Hd2. discriminate. }
    rewrite run_frame_eq.
    destruct (run_begins tg' c [] pl) as [[bs pl1] bfail] eqn:RB.
    destruct (in_dec tp_eq_dec (tg, p) (map (fun p => (tg', p)) c)) as [Hin|Hout].
    + (* a node of this frame's chain *)
      apply in_map_iff in Hin. destruct Hin as [p0 [Hp0 Hin]]. inversion Hp0; subst tg' p0.
      destruct bfail.
      * simpl. apply (bp_run_begins_fail tg p) in RB; auto.
      * apply run_begins_ok in RB. subst bs.
        destruct (run_list body pl1) as [[es pl2] bodyfail] eqn:RL.
        destruct (run_ends tg c pl2) as [[ends pl3] efail] eqn:RE. simpl.
        rewrite bp_begins_open by assumption.
        assert (HRI : Forall run_inv_at body) by (apply Forall_forall; intros; apply run_inv).
        destruct (run_list_inv body HRI Hnm _ _ _ _ RL) as [L1 _].
        erewrite bp_skip. 2: eassumption.
        2: { apply Hdis. apply in_map_iff. exists p. auto. }
        eapply bp_run_ends_close; eauto.
    + (* some other node: the chain's events do not concern it *)
      destruct bfail.
      * simpl. apply marks_in_run_begins in RB. simpl in RB. erewrite bp_skip_nil; eauto.
      * apply run_begins_ok in RB. subst bs.
        pose proof (bracket_run_list body HF Hnm Hd3 pl1 tg p) as HB.
        destruct (run_list body pl1) as [[es pl2] bodyfail] eqn:RL.
        destruct (run_ends tg' c pl2) as [[ends pl3] efail] eqn:RE. simpl in *.
        erewrite bp_skip. 2: apply marks_in_begins. 2: assumption.
        rewrite (bp_closed _ _ _ _ _ HB).
        apply marks_in_run_ends in RE. erewrite bp_skip_nil; eauto.
Qed.

(** * scope *)
Definition scoped (root p : path) : bool := is_prefix p root || is_prefix root p.

Lemma chains_scoped : forall root t, frame_scoped root t = true ->
  forall tg p, In (tg, p) (chains t) -> scoped root p = true.
Proof.
  intros root. induction t as [e|c tg' body HF] using etree_ind2; intros Hs tg p Hin.
  - destruct Hin.
  - simpl in Hs, Hin. apply andb_true_iff in Hs. destruct Hs as [Hs1 Hs2].
    apply in_app_or in Hin. destruct Hin as [Hin|Hin].
    + apply in_map_iff in Hin. destruct Hin as [p0 [Hp0 Hin]]. inversion Hp0; subst.
      rewrite forallb_forall in Hs1. apply Hs1. assumption.
    + apply in_flat_map in Hin. destruct Hin as [t [Ht Hin]].
      rewrite Forall_forall in HF. rewrite forallb_forall in Hs2. eapply HF; eauto.
Qed.

Lemma in_scope_marks : forall root tr l, marks_in tr l ->
  (forall tg p, In (tg, p) l -> scoped root p = true) -> in_scope root tr = true.
Proof.
  intros root tr l Hm Hl. unfold in_scope. apply forallb_forall. intros e He.
  specialize (Hm e He). destruct (ev_kind e); auto; eapply Hl; apply Hm; reflexivity.
Qed.

(** * C12 for every fault plan *)
Theorem c12_all_plans : forall root t pl, wf_tree root t = true ->
  let tr := fst (fst (run t pl)) in
  well_bracketed tr = true /\ no_write_after_failure false tr = true /\ in_scope root tr = true.
Proof.
  intros root t pl Hwf. unfold wf_tree in Hwf.
  apply andb_true_iff in Hwf. destruct Hwf as [Hwf Hdj].
  apply andb_true_iff in Hwf. destruct Hwf as [Hnm Hsc].
  destruct (run t pl) as [[tr pl'] f] eqn:R. simpl.
  destruct (run_inv t Hnm _ _ _ _ R) as [I1 [I2 _]].
  split; [|split].
  - unfold well_bracketed. apply forallb_forall. intros e _.
    pose proof (bracket_run t Hnm Hdj pl) as HB. rewrite R in HB. simpl in HB.
    destruct (ev_kind e); auto.
  - assumption.
  - eapply in_scope_marks. eassumption. apply chains_scoped. assumption.
Qed.

Theorem c12_all_faults : forall root t k, wf_tree root t = true ->
  well_bracketed (run_fault t k) = true /\
  no_write_after_failure false (run_fault t k) = true /\
  in_scope root (run_fault t k) = true.
Proof. intros root t k Hwf. exact (c12_all_plans root t (Some k) Hwf). Qed.

(** * the fault-free run, and the failure flag *)
Lemma run_begins_none : forall tg todo begun,
  run_begins tg todo begun None = (map (begin_ev tg) todo, None, false).
Proof.
  intros tg todo. induction todo as [|q todo IH]; intros begun. reflexivity.
  rewrite run_begins_cons. simpl. rewrite IH. reflexivity.
Qed.

Lemma run_ends_none : forall tg todo, run_ends tg todo None = (map (end_ev tg) todo, None, false).
Proof.
  intros tg todo. induction todo as [|q todo IH]. reflexivity.
  rewrite run_ends_cons. simpl. rewrite IH. reflexivity.
Qed.

Lemma run_list_none : forall body, Forall (fun t => exists tr, run t None = (tr, None, false)) body ->
  exists tr, run_list body None = (tr, None, false).
Proof.
  intros body HF. induction HF as [|t ts [tr1 Ht] HF [tr2 IH]]. exists []. reflexivity.
  rewrite run_list_cons, Ht, IH. eexists. reflexivity.
Qed.

Lemma run_none : forall t, exists tr, run t None = (tr, None, false).
Proof.
  induction t as [e|c tg body HF] using etree_ind2.
  - eexists. reflexivity.
  - rewrite run_frame_eq, run_begins_none. destruct (run_list_none body HF) as [tr Hb].
    rewrite Hb, run_ends_none. eexists. reflexivity.
Qed.

Lemma any_failed_all_ok : forall tr, any_failed tr = negb (all_ok tr).
Proof.
  induction tr as [|e tr IH]. reflexivity.
  unfold any_failed, all_ok in *. simpl. rewrite IH. destruct (ev_ok e); reflexivity.
Qed.

Lemma any_failed_app : forall a b, any_failed (a ++ b) = any_failed a || any_failed b.
Proof. intros. unfold any_failed. apply existsb_app. Qed.

Lemma run_begins_failed : forall tg todo begun pl es pl' ,
  run_begins tg todo begun pl = (es, pl', true) -> any_failed es = true /\ pl' = None.
Proof.
  intros tg todo. induction todo as [|q todo IH]; intros begun pl es pl' H.
  - simpl in H. inversion H.
  - rewrite run_begins_cons in H. destruct (step (begin_ev tg q) pl) as [[e pl1] f1] eqn:S.
    apply step_spec in S. destruct f1.
    + destruct S as [[S _]|[_ [-> ->]]]; try discriminate. inversion H; subst. auto.
    + destruct (run_begins tg todo (begun ++ [q]) pl1) as [[es' pl''] f'] eqn:R. inversion H; subst.
      apply IH in R. destruct R as [R1 R2]. split; auto.
      change (e :: es') with ([e] ++ es'). rewrite any_failed_app, R1. apply orb_true_r.
Qed.

Lemma run_ends_failed : forall tg todo pl es pl',
  run_ends tg todo pl = (es, pl', true) -> any_failed es = true /\ pl' = None.
Proof.
  intros tg todo. induction todo as [|q todo IH]; intros pl es pl' H.
  - simpl in H. inversion H.
  - rewrite run_ends_cons in H. destruct (step (end_ev tg q) pl) as [[e pl1] f1] eqn:S.
    destruct (run_ends tg todo pl1) as [[es' pl''] f'] eqn:R. inversion H; subst.
    change (e :: es') with ([e] ++ es'). rewrite any_failed_app.
    apply step_spec in S. destruct S as [[-> ->]|[-> [-> ->]]].
    + simpl in *. subst f'. apply IH in R. destruct R as [R1 ->]. rewrite ?R1. split; [rewrite ?orb_true_r|]; reflexivity.
    + rewrite run_ends_none in R. inversion R; subst. auto.
Qed.

(** the subtree reports failure exactly when one of its callbacks failed, and then the plan is spent *)
Definition failed_at (t : etree) : Prop :=
  forall pl tr pl', run t pl = (tr, pl', true) -> any_failed tr = true /\ pl' = None.

Lemma run_list_failed : forall body, Forall failed_at body ->
  forall pl tr pl', run_list body pl = (tr, pl', true) -> any_failed tr = true /\ pl' = None.
Proof.
  intros body HF. induction HF as [|t ts Ht HF IH]; intros pl tr pl' H.
  - simpl in H. inversion H.
  - rewrite run_list_cons in H. destruct (run t pl) as [[es1 pl1] f1] eqn:R1. destruct f1.
    + inversion H; subst. eapply Ht. eassumption.
    + destruct (run_list ts pl1) as [[es2 pl2] f2] eqn:R2. inversion H; subst.
      apply IH in R2. destruct R2 as [A B]. rewrite any_failed_app, A. split. apply orb_true_r. assumption.
Qed.

Lemma run_failed : forall t, failed_at t.
Proof.
  induction t as [e|c tg body HF] using etree_ind2; intros pl tr pl' H.
  - rewrite run_ev_eq in H. destruct (step e pl) as [[e' pl1] f1] eqn:S. inversion H; subst.
    apply step_spec in S. destruct S as [[S _]|[_ [-> ->]]]; try discriminate. auto.
  - rewrite run_frame_eq in H. destruct (run_begins tg c [] pl) as [[bs pl1] bfail] eqn:RB.
    destruct bfail.
    + inversion H; subst. eapply run_begins_failed. eassumption.
    + destruct (run_list body pl1) as [[es pl2] bodyfail] eqn:RL.
      destruct (run_ends tg c pl2) as [[ends pl3] efail] eqn:RE. inversion H; subst.
      rewrite !any_failed_app. destruct bodyfail.
      * apply (run_list_failed body HF) in RL. destruct RL as [-> ->].
        rewrite run_ends_none in RE. inversion RE; subst. split. rewrite orb_true_r. reflexivity. reflexivity.
      * simpl in *. subst efail. apply run_ends_failed in RE. destruct RE as [-> ->].
        split. rewrite !orb_true_r. reflexivity. reflexivity.
Qed.

Theorem run_flag_iff_any_failed : forall t pl, no_marks t = true ->
  snd (run t pl) = any_failed (fst (fst (run t pl))).
Proof.
  intros t pl Hnm. destruct (run t pl) as [[tr pl'] f] eqn:R. simpl. destruct f.
  - symmetry. eapply run_failed. eassumption.
  - destruct (run_inv t Hnm _ _ _ _ R) as [_ [_ H]]. rewrite any_failed_all_ok, H; reflexivity.
Qed.

Theorem c12_clean_run : forall root t, wf_tree root t = true ->
  well_bracketed (run_clean t) = true /\
  no_write_after_failure false (run_clean t) = true /\
  in_scope root (run_clean t) = true /\
  any_failed (run_clean t) = false.
Proof.
  intros root t Hwf. destruct (c12_all_plans root t None Hwf) as [A [B C]].
  repeat (split; try assumption).
  unfold wf_tree in Hwf. apply andb_true_iff in Hwf. destruct Hwf as [Hwf _].
  apply andb_true_iff in Hwf. destruct Hwf as [Hnm _].
  unfold run_clean. rewrite <- run_flag_iff_any_failed by assumption.
  destruct (run_none t) as [tr ->]. reflexivity.
Qed.

Print Assumptions c12_all_faults.
Print Assumptions c12_clean_run.
