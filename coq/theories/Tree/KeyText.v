(** List keys as text (C08): what node/path_slice.go parseUrlPath does with the text of a key
    (node.NewValuesByString -> node.NewValue(type, string) -> val.Conv / toEnum) and what
    node/path.go toBuffer prints for a key value (val.Value.String()).

    Key leaf types covered: the eight integer formats, string, boolean, enumeration.  Every other
    type is outside this model ([conv_key] answers [None] = error for it; the theorems and the
    generators are restricted to the covered types).

    Decimal text uses the standard library's [Decimal.uint] (most significant digit first):
    strconv.FormatInt/FormatUint = the digits of [Z.to_int]; strconv.ParseInt/ParseUint(s, 10, _) =
    optional sign (ParseInt only), one or more ASCII digits, value by [Z.of_uint], then the range
    check of the bit size (ErrRange is an error like ErrSyntax here). *)
From Coq Require Import ZArith List Bool Strings.Byte Decimal.
From YV Require Import Base.Wrap Val.Model Tree.Schema.
Import ListNotations.
Open Scope Z_scope.

Fixpoint bytes_of_uint (u : uint) : list byte :=
  match u with
  | Nil => []
  | D0 u => x30 :: bytes_of_uint u | D1 u => x31 :: bytes_of_uint u | D2 u => x32 :: bytes_of_uint u
  | D3 u => x33 :: bytes_of_uint u | D4 u => x34 :: bytes_of_uint u | D5 u => x35 :: bytes_of_uint u
  | D6 u => x36 :: bytes_of_uint u | D7 u => x37 :: bytes_of_uint u | D8 u => x38 :: bytes_of_uint u
  | D9 u => x39 :: bytes_of_uint u
  end.

Fixpoint uint_of_bytes (s : list byte) : option uint :=
  match s with
  | [] => Some Nil
  | c :: tl =>
      match uint_of_bytes tl with
      | None => None
      | Some u =>
          match c with
          | x30 => Some (D0 u) | x31 => Some (D1 u) | x32 => Some (D2 u) | x33 => Some (D3 u)
          | x34 => Some (D4 u) | x35 => Some (D5 u) | x36 => Some (D6 u) | x37 => Some (D7 u)
          | x38 => Some (D8 u) | x39 => Some (D9 u)
          | _ => None
          end
      end
  end.

(** strconv.ParseUint(s, 10, 64) before the range check: no sign, at least one digit *)
Definition parse_uint (s : list byte) : option Z :=
  match s with
  | [] => None
  | _ => option_map Z.of_uint (uint_of_bytes s)
  end.

(** strconv.ParseInt(s, 10, _) before the range check *)
Definition parse_int (s : list byte) : option Z :=
  match s with
  | x2b :: r => parse_uint r                      (* '+' *)
  | x2d :: r => option_map Z.opp (parse_uint r)   (* '-' *)
  | _ => parse_uint s
  end.

(** strconv.FormatInt(z, 10) / FormatUint *)
Definition print_Z (z : Z) : list byte :=
  match Z.to_int z with
  | Pos u => bytes_of_uint u
  | Neg u => x2d :: bytes_of_uint u
  end.

(** val.Conv(FmtIntN/UIntN, string): int32 ParseInt(x,10,32); int64 ParseInt(x,10,64); int8/16 go
    through toInt64 and a range test; uint64 ParseUint(x,10,64); uint8/16/32 through toUInt64 and
    a range test.  All of them: parse, then the value must fit the format. *)
Definition conv_int (f : fmt) (s : list byte) : option Z :=
  match (if is_signed f then parse_int s else parse_uint s) with
  | Some z => if in_rangeb f z then Some z else None
  | None => None
  end.

Definition str_true : list byte := [x74; x72; x75; x65].
Definition str_false : list byte := [x66; x61; x6c; x73; x65].

(** val/conv.go toBool on a string *)
Definition conv_bool (s : list byte) : option bool :=
  if bytes_eqb s [x31] || bytes_eqb s str_true || bytes_eqb s [x79; x65; x73] then Some true
  else if bytes_eqb s [x30] || bytes_eqb s str_false || bytes_eqb s [x6e; x6f] then Some false
  else None.

Fixpoint enum_by_id (labels : list (ident * Z)) (id : Z) : option (ident * Z) :=
  match labels with
  | [] => None
  | (l, i) :: tl => if i =? id then Some (l, i) else enum_by_id tl id
  end.
Fixpoint enum_by_label (labels : list (ident * Z)) (lab : list byte) : option (ident * Z) :=
  match labels with
  | [] => None
  | (l, i) :: tl => if bytes_eqb l lab then Some (l, i) else enum_by_label tl lab
  end.

Definition enum_val (e : option (ident * Z)) : option lval :=
  match e with Some (l, i) => Some (LV (VEnum i l)) | None => None end.

(** node/value.go toEnum on a string: a text that parses as int32 is an id (and nothing else);
    otherwise one that parses as uint32 is an id; otherwise it is a label *)
Definition conv_enum (labels : list (ident * Z)) (s : list byte) : option lval :=
  match conv_int FInt32 s with
  | Some id => enum_val (enum_by_id labels id)
  | None =>
      match conv_int FUInt32 s with
      | Some id => enum_val (enum_by_id labels id)
      | None => enum_val (enum_by_label labels s)
      end
  end.

(** node.NewValue(type, string) for a key leaf of type [ty]; [None] = error *)
Definition conv_key (ty : ltype) (s : list byte) : option lval :=
  match ty with
  | TInt f => option_map (fun z => LV (VInt f z)) (conv_int f s)
  | TStr => Some (LV (VStr s))
  | TBool => option_map (fun b => LV (VBool b)) (conv_bool s)
  | TEnum labels => conv_enum labels s
  | _ => None
  end.

(** val.Value.String() of a key value *)
Definition key_text (v : lval) : list byte :=
  match v with
  | LV (VInt _ z) => print_Z z
  | LV (VStr s) => s
  | LV (VBool b) => if b then str_true else str_false
  | LV (VEnum _ l) => l
  | _ => []
  end.

(** a key value that conforms to its leaf type (what a conforming data tree holds) *)
Definition key_val_ok (ty : ltype) (v : lval) : Prop :=
  match ty, v with
  | TInt f, LV (VInt g z) => f = g /\ (is_signed f = true \/ is_unsigned f = true) /\ in_rangeb f z = true
  | TStr, LV (VStr _) => True
  | TBool, LV (VBool _) => True
  | TEnum labels, LV (VEnum i l) =>
      enum_by_label labels l = Some (l, i) /\ parse_int l = None /\ parse_uint l = None
  | _, _ => False
  end.

Definition key_val_okb (ty : ltype) (v : lval) : bool :=
  match ty, v with
  | TInt f, LV (VInt g z) => fmt_eqb f g && (is_signed f || is_unsigned f) && in_rangeb f z
  | TStr, LV (VStr _) => true
  | TBool, LV (VBool _) => true
  | TEnum labels, LV (VEnum i l) =>
      match enum_by_label labels l with
      | Some (l', i') => bytes_eqb l l' && (i =? i')
      | None => false
      end
      && match parse_int l with None => true | Some _ => false end
      && match parse_uint l with None => true | Some _ => false end
  | _, _ => false
  end.
