(** Compiled-schema view and data trees shared by the Tree-cluster properties
    (C03 C04 C07 C08 C09 C12 C15 C16 C18 C19).

    The schema is an INPUT of these models: the harness dumps it from the real *meta.Module through
    public accessors (harness/tree/dump.go), flattening choices: the children of a container or list
    are the "flat kids" - every data definition reachable through choice/case nesting, in schema
    order - each carrying its [guard], the path of (choice id, case index) it sits under
    (outermost first; [] = not inside a choice).  Data is aligned POSITIONALLY with the flat kids,
    so sibling names never have to be looked up in proofs and every function is structurally
    recursive on the schema. Sibling-name uniqueness (enforced by the YANG compiler) makes this a
    faithful view of a name-keyed store; the harness converts at the boundary. *)
From Coq Require Import ZArith List Bool Strings.Byte.
From YV Require Import Val.Model.
Import ListNotations.
Open Scope Z_scope.

Definition ident := list byte.
Definition ident_eqb (a b : ident) : bool := bytes_eqb a b.

(** leaf types as far as the Tree cluster needs them *)
Inductive ltype :=
| TInt (f : fmt)                          (* the eight integer formats *)
| TDec (fraction_digits : Z)
| TStr | TBool | TBin | TEmpty
| TEnum (labels : list (ident * Z))
| TBits (names : list (ident * Z))
| TIdRef (accepted : list ident)
| TUnion (members : list ltype)
| TLeafRef (target : ltype).

(** leaf values: a scalar, the value of an empty leaf, a set of bit names, or a leaf-list *)
Inductive lval :=
| LV (v : value)
| LEmpty
| LBits (names : list ident)
| LList (items : list lval).

Definition guard := list (nat * nat).

Record nmeta := mkMeta {
  nm_name : ident;
  nm_mod : ident;          (* name of the module that defines the node (augments differ from the root's) *)
  nm_config : bool;
  nm_guard : guard;
  nm_when : option (list byte)   (* raw text of the node's when expression, if any *)
}.

Inductive snode :=
| SLeaf (m : nmeta) (ty : ltype) (is_list : bool) (dflt : option lval)
| SCont (m : nmeta) (kids : list snode)
| SList (m : nmeta) (keys : list nat) (row : snode).
   (* [row] is an SCont carrying the list's flat kids (a list entry is a container over them);
      keys: positions of the key leaves among those kids *)

Definition smeta (s : snode) : nmeta :=
  match s with SLeaf m _ _ _ => m | SCont m _ => m | SList m _ _ => m end.
Definition sname (s : snode) : ident := nm_name (smeta s).
Definition sguard (s : snode) : guard := nm_guard (smeta s).
Definition is_leaf (s : snode) : bool := match s with SLeaf _ _ _ _ => true | _ => false end.

(** data, aligned with the flat kids of the schema node it belongs to *)
Inductive dnode :=
| DLeaf (v : lval)
| DCont (kids : list (option dnode))
| DList (rows : list dnode).                    (* each row a DCont aligned with the row schema *)

Definition content := list (option dnode).      (* of a container, a list row, or the module root *)

(** equality of leaf values as val.Equal sees it (lists by deep equality) *)
Definition value_eqb (x y : value) : bool :=
  match equal_impl x y with Some b => b | None => false end.
Fixpoint lval_eqb (a b : lval) : bool :=
  match a, b with
  | LV x, LV y => value_eqb x y
  | LEmpty, LEmpty => true
  | LBits x, LBits y =>
      (fix go (p q : list ident) := match p, q with
        | [], [] => true | i :: p', j :: q' => ident_eqb i j && go p' q' | _, _ => false end) x y
  | LList x, LList y =>
      (fix go (p q : list lval) := match p, q with
        | [], [] => true | i :: p', j :: q' => lval_eqb i j && go p' q' | _, _ => false end) x y
  | _, _ => false
  end.

(** structural equality of data trees (used by the checks to compare exported trees) *)
Fixpoint dnode_eqb (a b : dnode) {struct a} : bool :=
  match a, b with
  | DLeaf x, DLeaf y => lval_eqb x y
  | DCont x, DCont y =>
      (fix go (p q : list (option dnode)) := match p, q with
        | [], [] => true
        | None :: p', None :: q' => go p' q'
        | Some i :: p', Some j :: q' => dnode_eqb i j && go p' q'
        | _, _ => false end) x y
  | DList x, DList y =>
      (fix rows (p q : list dnode) := match p, q with
        | [], [] => true
        | r :: p', s :: q' => dnode_eqb r s && rows p' q'
        | _, _ => false end) x y
  | _, _ => false
  end.
Fixpoint content_eqb (p q : content) : bool :=
  match p, q with
  | [], [] => true
  | None :: p', None :: q' => content_eqb p' q'
  | Some i :: p', Some j :: q' => dnode_eqb i j && content_eqb p' q'
  | _, _ => false
  end.

(** key of a list row: the values at the key positions *)
Definition row_content (row : dnode) : content := match row with DCont c => c | _ => [] end.
Definition row_key (keys : list nat) (row : dnode) : list (option dnode) :=
  map (fun i => nth i (row_content row) None) keys.
Definition skids (s : snode) : list snode := match s with SCont _ kids => kids | _ => [] end.
Definition okey_eqb (a b : option dnode) : bool :=
  match a, b with
  | Some (DLeaf x), Some (DLeaf y) => lval_eqb x y
  | _, _ => false
  end.
Fixpoint key_eqb (a b : list (option dnode)) : bool :=
  match a, b with
  | [], [] => true
  | x :: a', y :: b' => okey_eqb x y && key_eqb a' b'
  | _, _ => false
  end.

(** "has data": what makes a flat kid count for case detection *)
Definition present (d : option dnode) : bool := match d with Some _ => true | None => false end.

(** Choose on the reference store: the first case (lowest index) of choice [c] that has a flat kid
    with data.  [kids] and [data] are aligned. *)
Fixpoint guard_case (c : nat) (g : guard) : option nat :=
  match g with
  | [] => None
  | (c', k) :: tl => if Nat.eqb c c' then Some k else guard_case c tl
  end.
Fixpoint cases_with_data (c : nat) (kids : list snode) (data : content) : list nat :=
  match kids, data with
  | s :: kids', d :: data' =>
      match guard_case c (sguard s), present d with
      | Some k, true => k :: cases_with_data c kids' data'
      | _, _ => cases_with_data c kids' data'
      end
  | _, _ => []
  end.
Definition choose (c : nat) (kids : list snode) (data : content) : option nat :=
  match cases_with_data c kids data with
  | [] => None
  | k :: tl => Some (fold_left Nat.min tl k)
  end.

(** a flat kid is visible to a reader of [data] iff every (choice, case) on its guard is the chosen one *)
Fixpoint guard_selected (g : guard) (kids : list snode) (data : content) : bool :=
  match g with
  | [] => true
  | (c, k) :: tl =>
      match choose c kids data with
      | Some k' => Nat.eqb k k' && guard_selected tl kids data
      | None => false
      end
  end.

Definition empty_content (kids : list snode) : content := map (fun _ => None) kids.
