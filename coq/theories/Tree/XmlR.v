(** Model of reading an element tree against the schema.

      nodeutil/xml_rdr.go   XmlNode.Find / Child / Next / Field / leafText / ContentTrim
      patch/xml/xml.go      Decoder.translate: an element without a declaration inherits the default
                            namespace of its parent                       -> [eff_ns]
      node/value.go         NewValue, toEnum ; val/conv.go Conv on a string -> [conv_scalar]
      strconv               ParseInt / ParseUint base 10, ParseFloat        -> [parse_int], [parse_uint],
                                                                             section variable [parse_dec]

    [x2d_node] is the data tree an XmlNode PRESENTS to the editor (every Child / Field / Next answer
    collected); reading a document is the editor's upsert of that view into an empty store
    ([read_doc] = Editor.edit_one on the view). *)
From Coq Require Import ZArith NArith List Bool Strings.Byte Decimal DecimalPos.
From YV Require Import Base.Wrap Val.Model Tree.Schema Tree.Editor Tree.XmlEsc Tree.XmlW.
Import ListNotations.
Open Scope Z_scope.

(** ** lexical forms -> values *)
Fixpoint bytes_uint (s : text) : option Decimal.uint :=
  match s with
  | [] => Some Nil
  | b :: tl =>
      match bytes_uint tl with
      | None => None
      | Some u =>
          match b with
          | x30 => Some (D0 u) | x31 => Some (D1 u) | x32 => Some (D2 u) | x33 => Some (D3 u)
          | x34 => Some (D4 u) | x35 => Some (D5 u) | x36 => Some (D6 u) | x37 => Some (D7 u)
          | x38 => Some (D8 u) | x39 => Some (D9 u)
          | _ => None
          end
      end
  end.
(** strconv.ParseUint(s, 10, 64) before the range check: at least one digit, digits only *)
Definition parse_nat (s : text) : option Z :=
  match s with
  | [] => None
  | _ => match bytes_uint s with Some u => Some (Z.of_N (Pos.of_uint u)) | None => None end
  end.
Definition parse_uint (bits : Z) (s : text) : option Z :=
  match parse_nat s with
  | Some z => if z <? 2 ^ bits then Some z else None
  | None => None
  end.
(** strconv.ParseInt(s, 10, bits): optional sign, then ParseUint, then the range check *)
Definition signed_nat (s : text) : option Z :=
  match s with
  | x2d :: r => option_map Z.opp (parse_nat r)
  | x2b :: r => parse_nat r
  | _ => parse_nat s
  end.
Definition parse_int (bits : Z) (s : text) : option Z :=
  match signed_nat s with
  | Some z => if (- 2 ^ (bits - 1) <=? z) && (z <? 2 ^ (bits - 1)) then Some z else None
  | None => None
  end.

(** executable representative of strconv.ParseFloat on the plain decimal syntax
    [+-]digits[.digits] for values that are exactly representable (a dyadic rational with a
    mantissa below 2^53); anything else is outside the model (None) *)
Fixpoint split_dot (s : text) : text * option text :=
  match s with
  | [] => ([], None)
  | x2e :: r => ([], Some r)
  | b :: r => let (i, f) := split_dot r in (b :: i, f)
  end.
Definition parse_dec_exact (s : text) : option (Z * Z) :=
  let (neg, body) := match s with x2d :: r => (true, r) | x2b :: r => (false, r) | _ => (false, s) end in
  let (ip, fo) := split_dot body in
  let fp := match fo with Some f => f | None => [] end in
  match ip ++ fp with
  | [] => None
  | ds =>
      match bytes_uint ds with
      | None => None
      | Some u =>
          let n := Z.of_N (Pos.of_uint u) in
          let k := Z.of_nat (length fp) in
          if negb (n mod 5 ^ k =? 0) then None
          else let (m, e) := norm_dec (n / 5 ^ k) (- k) in
               if m <? 2 ^ 53 then Some (if neg then - m else m, e) else None
      end
  end.

Section Reader.
  Variable nss : list (ident * text).
  Variable parse_dec : text -> option (Z * Z).     (* strconv.ParseFloat, as (m, e) with m odd or 0 *)

  Definition rns_of (m : ident) : text := lookup_ns nss m.     (* Module.Namespace() *)

  (** toBool on a string *)
  Definition parse_bool (s : text) : option bool :=
    if text_eqb s [x31] || text_eqb s [x74; x72; x75; x65] || text_eqb s [x79; x65; x73] then Some true
    else if text_eqb s [x30] || text_eqb s [x66; x61; x6c; x73; x65] || text_eqb s [x6e; x70] then Some false
    else None.

  Fixpoint enum_by_id (labels : list (ident * Z)) (id : Z) : option lval :=
    match labels with
    | [] => None
    | (l, i) :: tl => if i =? id then Some (LV (VEnum i l)) else enum_by_id tl id
    end.
  Fixpoint enum_by_label (labels : list (ident * Z)) (s : text) : option lval :=
    match labels with
    | [] => None
    | (l, i) :: tl => if text_eqb l s then Some (LV (VEnum i l)) else enum_by_label tl s
    end.
  (** node.toEnum: a string that parses as int32 is an id (and nothing else); one that only parses
      as uint32 likewise; otherwise it is a label *)
  Definition conv_enum (labels : list (ident * Z)) (s : text) : option lval :=
    match parse_int 32 s with
    | Some id => enum_by_id labels id
    | None =>
        match parse_uint 32 s with
        | Some id => enum_by_id labels id
        | None => enum_by_label labels s
        end
    end.

  Definition int_bits (f : fmt) : Z := width f.

  (** node.NewValue(type, string) for the types of the model; None = conversion error.
      Types outside the model (bits, identityref, union) are errors here and excluded by
      [ty_modelled] in every theorem and by the generators. *)
  Fixpoint conv_scalar (ty : ltype) (s : text) {struct ty} : option lval :=
    match ty with
    | TInt f =>
        if is_signed f
        then option_map (fun z => LV (VInt f z)) (parse_int (int_bits f) s)
        else option_map (fun z => LV (VInt f z)) (parse_uint (int_bits f) s)
    | TDec _ => option_map (fun me => LV (VDec (fst me) (snd me))) (parse_dec s)
    | TStr => Some (LV (VStr s))
    | TBool => option_map (fun b => LV (VBool b)) (parse_bool s)
    | TBin => Some (LV (VBin s))
    | TEmpty => Some LEmpty
    | TEnum labels => conv_enum labels s
    | TLeafRef t => conv_scalar t s
    | TBits _ | TIdRef _ | TUnion _ => None
    end.

  (** XmlNode.leafText: the character data as it stands for strings (after "fix: XML reader keeps
      white space of string leaves"), strings.TrimSpace of it for every other type.
      [trim_strings] = true is the pinned behaviour (ContentTrim for every type). *)
  Variable trim_strings : bool.
  Fixpoint is_string_ty (ty : ltype) : bool :=
    match ty with TStr => true | TLeafRef t => is_string_ty t | _ => false end.
  (** Content: all character data directly inside the element, concatenated *)
  Fixpoint chardata (k : list xelem) : text :=
    match k with
    | [] => []
    | XText t :: tl => t ++ chardata tl
    | XE _ _ _ :: tl => chardata tl
    end.
  Definition leaf_text (ty : ltype) (x : xelem) : text :=
    let c := chardata (xkids x) in
    if is_string_ty ty && negb trim_strings then c else trim_space c.

  (** Decoder.translate *)
  Definition eff_ns (inh : text) (x : xelem) : text :=
    match x with XE _ (Some n) _ => n | _ => inh end.

  (** the test inside XmlNode.Find: local name equal, and the namespace - only when the element
      has one - equal to the defining module's *)
  Definition matches (inh : text) (m : nmeta) (x : xelem) : bool :=
    match x with
    | XE n _ _ =>
        text_eqb n (nm_name m) &&
        (match eff_ns inh x with [] => true | sp => text_eqb sp (rns_of (nm_mod m)) end)
    | XText _ => false
    end.
  (** Find(0, m), Find(ndx+1, m), ... : every match, in document order *)
  Definition find_all (inh : text) (m : nmeta) (sibs : list xelem) : list xelem :=
    filter (matches inh m) sibs.

  Fixpoint conv_all (ty : ltype) (l : list text) : option (list lval) :=
    match l with
    | [] => Some []
    | t :: tl =>
        match conv_scalar ty t, conv_all ty tl with
        | Some v, Some vs => Some (v :: vs)
        | _, _ => None
        end
    end.

  (** XmlNode.Choose: a case is chosen when an element of one of its nodes is found, looking
      through choices nested in the case (after "fix: XmlNode.Choose looks through choices nested in
      a case"); it ranges over the map of cases, and with conforming data - at most one case
      populated - the answer does not depend on the order: it is the reference store's Choose, so
      nothing of the view is hidden from the editor.
      [choose_own_only] = true is the pinned behaviour: only a case's OWN definitions were looked at,
      so a node below a nested choice was read only if every enclosing case also had a node of its
      own with data.  On the positional view: a flat kid is visible iff for every non-empty prefix
      of its guard some kid whose guard is exactly that prefix is present ([hide]). *)
  Variable choose_own_only : bool.
  Fixpoint guard_eqb (a b : guard) : bool :=
    match a, b with
    | [], [] => true
    | (c, k) :: a', (c', k') :: b' => Nat.eqb c c' && Nat.eqb k k' && guard_eqb a' b'
    | _, _ => false
    end.
  Definition case_has_own (kids : list snode) (c : content) (p : guard) : bool :=
    existsb (fun ko : snode * option dnode => guard_eqb (sguard (fst ko)) p && present (snd ko)) (combine kids c).
  (** [pre] is the part of the guard already checked (reversed growth: [pre ++ [e]] is the next prefix) *)
  Fixpoint guard_visible (kids : list snode) (c : content) (pre : guard) (rest : guard) : bool :=
    match rest with
    | [] => true
    | e :: rest' => case_has_own kids c (pre ++ [e]) && guard_visible kids c (pre ++ [e]) rest'
    end.
  Definition hide (kids : list snode) (c : content) : content :=
    map (fun ko : snode * option dnode => if guard_visible kids c [] (sguard (fst ko)) then snd ko else None)
        (combine kids c).

  (** the view of schema node [s] among the child elements [sibs] of an element whose resolved
      namespace is [inh].  [any] = true only at the document element (ReadXMLDoc: "root node is
      assumed to be the correct element") and for the entries of a list selection (Next by row does
      not look at names): every element is then a candidate. *)
  Definition candidates (any : bool) (inh : text) (m : nmeta) (sibs : list xelem) : list xelem :=
    if any then filter is_elem sibs else find_all inh m sibs.

  Fixpoint x2d_node (s : snode) (any : bool) (inh : text) (sibs : list xelem) {struct s} : res (option dnode) :=
    match s with
    | SLeaf m ty false _ =>                                   (* Field, leaf *)
        match candidates any inh m sibs with
        | [] => Ok None
        | x :: _ =>
            match conv_scalar ty (leaf_text ty x) with
            | Some v => Ok (Some (DLeaf v))
            | None => Err EOther
            end
        end
    | SLeaf m ty true _ =>                                    (* Field, leaf-list: every same-named sibling *)
        match candidates any inh m sibs with
        | [] => Ok None
        | xs =>
            match conv_all ty (map (leaf_text ty) xs) with
            | Some vs => Ok (Some (DLeaf (LList vs)))
            | None => Err EOther
            end
        end
    | SCont m kids =>                                         (* Child, container: the first match *)
        match candidates any inh m sibs with
        | [] => Ok None
        | x :: _ =>
            let ns := eff_ns inh x in
            match
              (fix go (ks : list snode) {struct ks} : res content :=
                 match ks with
                 | [] => Ok []
                 | k :: ks' =>
                     match x2d_node k false ns (xkids x) with
                     | Err e => Err e
                     | Ok d => match go ks' with Err e => Err e | Ok c => Ok (d :: c) end
                     end
                 end) kids
            with
            | Ok c => Ok (Some (DCont (if choose_own_only then hide kids c else c)))
            | Err e => Err e
            end
        end
    | SList m keys row =>                                     (* Child, list: all same-named siblings; Next by row *)
        match candidates any inh m sibs with
        | [] => Ok None
        | xs =>
            match
              (fix rows (l : list xelem) {struct l} : res (list dnode) :=
                 match l with
                 | [] => Ok []
                 | x :: l' =>
                     match x2d_node row true inh [x] with
                     | Ok (Some r) =>
                         (* Next: "key missing" unless every key leaf is found *)
                         if forallb present (row_key keys r)
                         then match rows l' with Ok rs => Ok (r :: rs) | Err e => Err e end
                         else Err EOther
                     | Ok None => Err EOther
                     | Err e => Err e
                     end
                 end) xs
            with
            | Ok rs => Ok (Some (DList rs))
            | Err e => Err e
            end
        end
    end.

  (** ReadXMLDoc + the selection it is read into: a container-like selection (module, container,
      list entry) reads the document element's children; a list selection takes every child
      element of the document element as an entry. *)
  Definition x2d_doc (s : snode) (x : xelem) : res dnode :=
    match s, x with
    | SCont _ _, XE _ _ _ =>
        match x2d_node s true [] [x] with
        | Ok (Some d) => Ok d
        | Ok None => Err EOther
        | Err e => Err e
        end
    | SList _ _ _, XE _ _ k =>
        match x2d_node s true (eff_ns [] x) k with
        | Ok (Some d) => Ok d
        | Ok None => Ok (DList [])
        | Err e => Err e
        end
    | _, _ => Err EOther
    end.

  (** Selection.UpsertFrom(xmlNode) on a selection of an empty store *)
  Definition read_doc (s : snode) (x : xelem) : res dnode :=
    match x2d_doc s x with
    | Ok view => edit_one false s view (empty_node s) false Upsert
    | Err e => Err e
    end.
End Reader.

(** the decimal values on which the executable representatives of FormatFloat / ParseFloat are
    inverse (decided by running them): every dyadic value with a short expansion, in particular
    every value the harness generates *)
Definition dec_okb (m e : Z) : bool :=
  match parse_dec_exact (trim_space (sanitize (dec_text m e))) with
  | Some (m', e') => (m =? m') && (e =? e')
  | None => false
  end.
