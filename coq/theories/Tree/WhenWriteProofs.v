(** C16, writer side, general theorems (all schemas, all shaped sources and targets, unboundedly):
      [wedit_is_merge_of_restricted]  the conditional editor computes the unconditional merge of the source
                                      restricted to the definitions whose condition holds (WhenWrite.wrestrict);
      [when_true_everywhere]          if every condition met holds it is the plain editor / merge. *)
From Coq Require Import ZArith List Bool Lia Strings.Byte.
From YV Require Import Base.Wrap Val.Model Tree.Schema Tree.Editor Tree.Merge Tree.EditorProofs Tree.XPathLex
  Tree.When Tree.WhenEditProofs Tree.WhenWrite.
Import ListNotations.
Open Scope nat_scope.

(** [l] (the editor) follows [r] (the specification): same success value up to [Q], same failure class;
    where the specification is silent (XUnsup) nothing is claimed *)
Definition follows {A B} (r : xres A) (l : xres B) (Q : A -> xres B -> Prop) : Prop :=
  match r with
  | XOk a => Q a l
  | XErr => l = XErr
  | XPanic => l = XPanic
  | XUnsup => True
  end.

Lemma when_field_nowhen p kids c k : nm_when (smeta k) = None -> when_field true p kids c k = XOk true.
Proof. intros H. unfold when_field, when_of. now rewrite H. Qed.

Lemma when_schema_leaf m ty il dflt kids c p :
  when_schema_ok (SLeaf m ty il dflt) = true ->
  when_field true p kids c (SLeaf m ty il dflt) <> XOk true -> dflt = None.
Proof.
  simpl. intros Hok Hw. destruct (nm_when m) eqn:E.
  - destruct dflt; [discriminate|reflexivity].
  - exfalso. apply Hw. apply when_field_nowhen. exact E.
Qed.

(** the head of merge_kids *)
Definition mhead (created : bool) (k : snode) (sd td : option dnode) : option dnode :=
  match k with
  | SLeaf _ _ _ dflt =>
      match sd with
      | Some d => Some d
      | None => if created then match dflt with Some v => Some (DLeaf v) | None => td end else td
      end
  | _ =>
      match sd with
      | None => td
      | Some sdn => Some (merge_one k sdn (match td with Some t => t | None => empty_node k end) (negb (present td)))
      end
  end.

Lemma merge_kids_cons created k ks sd sc td tc :
  merge_kids merge_one created (k :: ks) (sd :: sc) (td :: tc) =
  mhead created k sd td :: merge_kids merge_one created ks sc tc.
Proof. reflexivity. Qed.

(** positions of unconditional leaves are kept by the restriction *)
Definition keeps (ks : list snode) (sc sc' : content) : Prop :=
  forall j m ty il d, nth_error ks j = Some (SLeaf m ty il d) -> nm_when m = None ->
                      nth j sc' None = nth j sc None.

Definition wrows_loop (rec : snode -> dnode -> dnode -> bool -> xres dnode) (keys : list nat) (row : snode)
  : list dnode -> list dnode -> xres (list dnode) :=
  fix rows (srs : list dnode) (trows : list dnode) {struct srs} : xres (list dnode) :=
    match srs with
    | [] => XOk trows
    | sr :: srs' =>
        match lookup_row keys sr trows with
        | Some j => xbind (rec row sr (nth j trows (DCont [])) false) (fun tr' => rows srs' (set_nth j tr' trows))
        | None => xbind (rec row sr (empty_node row) true) (fun tr' => rows srs' (trows ++ [tr']))
        end
    end.

Lemma wedit_list m keys row srows trows new :
  wedit (SList m keys row) (DList srows) (DList trows) new =
  xbind (wrows_loop (fun k' a b n => wedit k' a b n) keys row srows trows) (fun t => XOk (DList t)).
Proof. reflexivity. Qed.

Lemma wrestrict_cont m kids sc tc new :
  wrestrict (SCont m kids) (DCont sc) (DCont tc) new =
  xbind (wr_kids wrestrict new kids kids sc [] tc) (fun c => XOk (DCont c)).
Proof. reflexivity. Qed.

Lemma wrestrict_list m keys row srows trows new :
  wrestrict (SList m keys row) (DList srows) (DList trows) new =
  xbind (wr_rows wrestrict keys row srows trows) (fun r => XOk (DList r)).
Proof. reflexivity. Qed.

Local Opaque when_field when_cont merge_one.

Section Restricted.
  Variable wrec rrec : snode -> dnode -> dnode -> bool -> xres dnode.

  Definition kid_ok (k : snode) : Prop :=
    sguard k = [] /\ when_schema_ok k = true /\
    (is_leaf k = false ->
     forall sd td c, shaped k sd = true -> shaped k td = true ->
       follows (rrec k sd td c) (wrec k sd td c)
               (fun sd' l => l = XOk (merge_one k sd' td c) /\ shaped k sd' = true)).

  Lemma wedit_loop_restricted kids sc new ks :
    Forall kid_ok ks ->
    forall spre srest pre rest,
      sc = spre ++ srest -> length spre = length pre ->
      shaped_kids shaped ks srest = true -> shaped_kids shaped ks rest = true ->
      follows (wr_kids rrec new kids ks srest pre rest)
              (edit_loop (wedit_kid wrec new kids sc) ks (length pre) (pre ++ rest))
              (fun sc' l => l = XOk (pre ++ merge_kids merge_one new ks sc' rest) /\
                            shaped_kids shaped ks sc' = true /\ keeps ks srest sc').
  Proof.
    induction 1 as [|k ks [Hg [Hok Hk]] _ IH]; intros spre srest pre rest Hsc Hlen Hs Ht.
    - destruct srest, rest; simpl in *; try discriminate.
      rewrite app_nil_r. split; [reflexivity|split; [reflexivity|]].
      intros j m ty il d Hn. destruct j; discriminate.
    - destruct srest as [|sd srest], rest as [|td rest]; simpl in Hs, Ht; try discriminate.
      apply andb_true_iff in Hs as [Hsd Hs]. apply andb_true_iff in Ht as [Htd Ht].
      set (F := wedit_kid wrec new kids sc).
      assert (Hnext : forall x y,
                 mhead new k y td = x ->
                 (match y with None => true | Some dn => shaped k dn end) = true ->
                 (forall m ty il d, k = SLeaf m ty il d -> nm_when m = None -> y = sd) ->
                 follows (xbind (wr_kids rrec new kids ks srest (pre ++ [x]) rest) (fun r => XOk (y :: r)))
                         (edit_loop F ks (S (length pre)) (pre ++ x :: rest))
                         (fun sc' l => l = XOk (pre ++ merge_kids merge_one new (k :: ks) sc' (td :: rest)) /\
                                       shaped_kids shaped (k :: ks) sc' = true /\
                                       keeps (k :: ks) (sd :: srest) sc')).
      { intros x y Hx Hy Hkeep.
        specialize (IH (spre ++ [sd]) srest (pre ++ [x]) rest).
        rewrite !app_length in IH. simpl in IH. rewrite !Nat.add_1_r in IH.
        rewrite <- !app_assoc in IH. simpl in IH.
        specialize (IH Hsc (f_equal S Hlen) Hs Ht). fold F in IH.
        destruct (wr_kids rrec new kids ks srest (pre ++ [x]) rest) as [r| | |]; cbn [xbind follows] in *; try exact IH; [].
        destruct IH as [IH1 [IH2 IH3]]. split; [|split].
        - rewrite IH1, merge_kids_cons, Hx, <- app_assoc. reflexivity.
        - simpl. rewrite Hy, IH2. reflexivity.
        - intros j m ty il d Hn Hw. destruct j as [|j]; simpl in *.
          + inversion Hn; subst k. eapply Hkeep; eauto.
          + eapply IH3; eauto. }
      assert (Hsrc : nth (length pre) sc None = sd).
      { subst sc. rewrite <- Hlen. apply nth_middle'. }
      cbn [edit_loop]. fold F.
      destruct k as [m ty il dflt|m kk|m keys row].
      + (* leaf *)
        unfold F at 1, wedit_kid. rewrite Hg. cbn [length Nat.eqb negb]. rewrite Hsrc.
        cbn [wr_kids]. fold (wr_kids rrec new kids).
        destruct sd as [d|].
        * destruct (when_field true [] kids (pre ++ td :: rest) (SLeaf m ty il dflt)) as [[|]| | |] eqn:Ew;
            cbn [xbind follows]; try reflexivity; try exact I.
          -- rewrite set_nth_middle. apply Hnext; auto.
          -- apply Hnext; auto.
             ++ simpl. assert (dflt = None) as ->
                  by (eapply when_schema_leaf; [exact Hok|rewrite Ew; discriminate]).
                destruct new; reflexivity.
             ++ intros m0 ty0 il0 d0 Heq Hw. inversion Heq; subst.
                rewrite when_field_nowhen in Ew by exact Hw. discriminate.
        * destruct (if new then option_map DLeaf dflt else None) as [d|] eqn:Ev.
          -- destruct new; [|discriminate]. destruct dflt as [v|]; [|discriminate].
             simpl in Ev. inversion Ev; subst d.
             destruct (when_field true [] kids (pre ++ td :: rest) (SLeaf m ty il (Some v))) as [[|]| | |] eqn:Ew;
               cbn [xbind follows]; try reflexivity; try exact I.
             ++ rewrite set_nth_middle. apply Hnext; auto.
             ++ exfalso. assert (Some v = None) by (eapply when_schema_leaf; [exact Hok|rewrite Ew; discriminate]).
                discriminate.
          -- cbn [xbind]. apply Hnext; auto. simpl.
             destruct new; [|reflexivity]. destruct dflt; [discriminate|reflexivity].
      + (* container *)
        specialize (Hk eq_refl).
        unfold F at 1, wedit_kid. rewrite Hg. cbn [length Nat.eqb negb]. rewrite Hsrc, nth_middle'.
        cbn [wr_kids]. fold (wr_kids rrec new kids).
        destruct sd as [sdn|]; [|cbn [xbind]; apply Hnext; auto; discriminate].
        destruct td as [[|cc|]|]; try discriminate Htd.
        * destruct (when_cont true [] [] [] (SCont m kk) cc) as [[|]| | |]; cbn [xbind follows];
            try reflexivity; try exact I.
          -- pose proof (Hk sdn (DCont cc) false Hsd Htd) as Hr.
             destruct (rrec (SCont m kk) sdn (DCont cc) false) as [sdn'| | |]; cbn [xbind follows] in Hr |- *;
               try (rewrite Hr; reflexivity); try exact I.
             destruct Hr as [Hr Hsh]. rewrite Hr. cbn [xbind]. rewrite set_nth_middle.
             apply Hnext; auto. discriminate.
          -- destruct (when_cont true [] [] [] (SCont m kk) (empty_content kk)) as [[|]| | |];
               cbn [xbind follows]; try reflexivity; exact I.
        * destruct (when_cont true [] [] [] (SCont m kk) (empty_content kk)) as [[|]| | |];
            cbn [xbind follows]; try reflexivity; try exact I.
          assert (He : shaped (SCont m kk) (empty_node (SCont m kk)) = true)
            by (apply shaped_empty_node; reflexivity).
          pose proof (Hk sdn (empty_node (SCont m kk)) true Hsd He) as Hr.
          destruct (rrec (SCont m kk) sdn (empty_node (SCont m kk)) true) as [sdn'| | |];
            cbn [xbind follows] in Hr |- *; try (rewrite Hr; reflexivity); try exact I.
          destruct Hr as [Hr Hsh]. rewrite Hr. cbn [xbind]. rewrite set_nth_middle.
          apply Hnext; auto. discriminate.
      + (* list *)
        specialize (Hk eq_refl).
        unfold F at 1, wedit_kid. rewrite Hg. cbn [length Nat.eqb negb]. rewrite Hsrc, nth_middle'.
        cbn [wr_kids]. fold (wr_kids rrec new kids).
        destruct sd as [sdn|]; [|cbn [xbind]; apply Hnext; auto; discriminate].
        destruct (has_when (SList m keys row)); [reflexivity|].
        assert (Ht' : shaped (SList m keys row)
                        (match td with Some t => t | None => empty_node (SList m keys row) end) = true).
        { destruct td; [exact Htd|reflexivity]. }
        pose proof (Hk sdn _ (negb (present td)) Hsd Ht') as Hr.
        destruct (rrec (SList m keys row) sdn
                    (match td with Some t => t | None => empty_node (SList m keys row) end)
                    (negb (present td))) as [sdn'| | |];
          cbn [xbind follows] in Hr |- *; try (rewrite Hr; reflexivity); try exact I.
        destruct Hr as [Hr Hsh]. rewrite Hr. cbn [xbind]. rewrite set_nth_middle.
        apply Hnext; auto. discriminate.
  Qed.

  Lemma wrows_restricted keys row :
    (forall sr tr c, shaped row sr = true -> shaped row tr = true ->
       follows (rrec row sr tr c) (wrec row sr tr c)
               (fun sr' l => l = XOk (merge_one row sr' tr c) /\ shaped row sr' = true /\
                             row_key keys sr' = row_key keys sr)) ->
    (forall sd td c, shaped row sd = true -> shaped row td = true -> shaped row (merge_one row sd td c) = true) ->
    is_leaf row = false ->
    forall srows trows, forallb (shaped row) srows = true -> forallb (shaped row) trows = true ->
    follows (wr_rows rrec keys row srows trows) (wrows_loop wrec keys row srows trows)
            (fun srows' l => l = XOk (merge_rows merge_one keys row srows' trows) /\
                             forallb (shaped row) srows' = true).
  Proof.
    intros Hrec Hsh Hnl.
    induction srows as [|sr srows IH]; intros trows Hs Ht.
    - simpl. split; reflexivity.
    - simpl in Hs. apply andb_true_iff in Hs as [Hsr Hs].
      cbn [wr_rows wrows_loop]. fold (wr_rows rrec keys row). fold (wrows_loop wrec keys row).
      destruct (lookup_row keys sr trows) as [j|] eqn:E.
      + assert (Hj : shaped row (nth j trows (DCont [])) = true).
        { apply forallb_nth; [assumption|]. eapply lookup_row_bound; eauto. }
        pose proof (Hrec sr _ false Hsr Hj) as Hr.
        destruct (rrec row sr (nth j trows (DCont [])) false) as [sr'| | |];
          cbn [xbind follows] in Hr |- *; try (rewrite Hr; reflexivity); try exact I.
        destruct Hr as [Hr [Hsr' Hkey]]. rewrite Hr. cbn [xbind].
        specialize (IH (set_nth j (merge_one row sr' (nth j trows (DCont [])) false) trows) Hs).
        assert (Hacc : forallb (shaped row) (set_nth j (merge_one row sr' (nth j trows (DCont [])) false) trows) = true).
        { apply forallb_set_nth; [assumption|]. apply Hsh; assumption. }
        specialize (IH Hacc).
        destruct (wr_rows rrec keys row srows _) as [r| | |]; cbn [xbind follows] in IH |- *; try exact IH.
        destruct IH as [IH1 IH2]. split.
        * rewrite IH1. unfold merge_rows. cbn [fold_left].
          unfold lookup_row in E |- *. rewrite Hkey, E. reflexivity.
        * simpl. rewrite Hsr', IH2. reflexivity.
      + assert (He : shaped row (empty_node row) = true) by (apply shaped_empty_node; assumption).
        pose proof (Hrec sr _ true Hsr He) as Hr.
        destruct (rrec row sr (empty_node row) true) as [sr'| | |];
          cbn [xbind follows] in Hr |- *; try (rewrite Hr; reflexivity); try exact I.
        destruct Hr as [Hr [Hsr' Hkey]]. rewrite Hr. cbn [xbind].
        specialize (IH (trows ++ [merge_one row sr' (empty_node row) true]) Hs).
        assert (Hacc : forallb (shaped row) (trows ++ [merge_one row sr' (empty_node row) true]) = true).
        { apply forallb_app'; [assumption|]. simpl. rewrite andb_true_r. apply Hsh; assumption. }
        specialize (IH Hacc).
        destruct (wr_rows rrec keys row srows _) as [r| | |]; cbn [xbind follows] in IH |- *; try exact IH.
        destruct IH as [IH1 IH2]. split.
        * rewrite IH1. unfold merge_rows. cbn [fold_left].
          unfold lookup_row in E |- *. rewrite Hkey, E. reflexivity.
        * simpl. rewrite Hsr', IH2. reflexivity.
  Qed.
End Restricted.

Lemma wedit_list_loop m keys row srows trows new :
  wedit (SList m keys row) (DList srows) (DList trows) new =
  xbind (wrows_loop wedit keys row srows trows) (fun t => XOk (DList t)).
Proof. reflexivity. Qed.

Lemma keys_uncond_row_key keys m kids sc sc' :
  keys_uncond keys (SCont m kids) = true -> keeps kids sc sc' ->
  row_key keys (DCont sc') = row_key keys (DCont sc).
Proof.
  intros Hk Hkeep. unfold row_key. simpl. apply map_ext_in. intros i Hi.
  unfold keys_uncond in Hk. rewrite forallb_forall in Hk. specialize (Hk i Hi). simpl in Hk.
  destruct (nth_error kids i) as [[mk ty il d| |]|] eqn:E; try discriminate.
  destruct (nm_when mk) eqn:Ew; [discriminate|]. eapply Hkeep; eauto.
Qed.

Definition restricted_at (s : snode) : Prop :=
  forall src tgt c, shaped s src = true -> shaped s tgt = true ->
    follows (wrestrict s src tgt c) (wedit s src tgt c)
            (fun src' l => l = XOk (merge_one s src' tgt c) /\ shaped s src' = true /\
                           forall keys, keys_uncond keys s = true -> row_key keys src' = row_key keys src).

Theorem wedit_restricted s :
  wf_schema s = true -> choice_free s = true -> when_schema_ok s = true -> is_leaf s = false ->
  restricted_at s.
Proof.
  induction s as [m ty il d|m kids IH|m keys row IH] using snode_ind'; intros Hwf Hcf Hok Hnl.
  - discriminate Hnl.
  - intros src tgt c Hs Ht.
    destruct src as [|sc|], tgt as [|tc|]; simpl in Hs, Ht; try discriminate.
    rewrite wrestrict_cont, wedit_cont.
    simpl in Hwf, Hcf, Hok. apply andb_true_iff in Hcf as [_ Hcf].
    rewrite forallb_forall in Hwf, Hcf, Hok.
    assert (HF : Forall (kid_ok (fun k' a b n => wedit k' a b n) wrestrict) kids).
    { rewrite Forall_forall in *. intros k Hin. split; [|split].
      - apply choice_free_guard. auto.
      - auto.
      - intros Hkl sd td c' Hsd Htd.
        pose proof (IH k Hin (Hwf k Hin) (Hcf k Hin) (Hok k Hin) Hkl sd td c' Hsd Htd) as Hr.
        destruct (wrestrict k sd td c'); simpl in *; try exact Hr. destruct Hr as [H1 [H2 _]]. auto. }
    pose proof (wedit_loop_restricted (fun k' a b n => wedit k' a b n) wrestrict kids sc c kids HF
                  [] sc [] tc eq_refl eq_refl Hs Ht) as H.
    simpl in H.
    destruct (wr_kids wrestrict c kids kids sc [] tc) as [sc'| | |]; cbn [xbind follows] in H |- *;
      try (rewrite H; reflexivity); try exact I.
    destruct H as [H1 [H2 H3]]. rewrite H1. cbn [xbind]. split; [|split].
    + Local Transparent merge_one. reflexivity.
    + exact H2.
    + intros keys Hku. eapply keys_uncond_row_key; eauto.
  - intros src tgt c Hs Ht.
    destruct src as [| |srows], tgt as [| |trows]; simpl in Hs, Ht; try discriminate.
    rewrite wrestrict_list, wedit_list_loop. clear Hnl.
    simpl in Hwf, Hcf, Hok. apply andb_true_iff in Hwf as [Hnl Hwf]. apply negb_true_iff in Hnl.
    apply andb_true_iff in Hcf as [_ Hcf]. apply andb_true_iff in Hok as [Hku Hok].
    assert (Hrec : forall sr tr c', shaped row sr = true -> shaped row tr = true ->
              follows (wrestrict row sr tr c') (wedit row sr tr c')
                (fun sr' l => l = XOk (merge_one row sr' tr c') /\ shaped row sr' = true /\
                              row_key keys sr' = row_key keys sr)).
    { intros sr tr c' Hsr Htr.
      pose proof (IH Hwf Hcf Hok Hnl sr tr c' Hsr Htr) as Hr.
      destruct (wrestrict row sr tr c'); simpl in *; try exact Hr.
      destruct Hr as [H1 [H2 H3]]. auto. }
    assert (Hsh : forall sd td c', shaped row sd = true -> shaped row td = true ->
                                   shaped row (merge_one row sd td c') = true).
    { intros. apply merge_shaped; auto. }
    pose proof (wrows_restricted wedit wrestrict keys row Hrec Hsh Hnl srows trows Hs Ht) as H.
    destruct (wr_rows wrestrict keys row srows trows) as [r| | |]; cbn [xbind follows] in H |- *;
      try (rewrite H; reflexivity); try exact I.
    destruct H as [H1 H2]. rewrite H1. cbn [xbind]. split; [|split].
    + reflexivity.
    + exact H2.
    + intros keys' Hk'. destruct keys'; [reflexivity|]. simpl in Hk'. destruct n; discriminate.
Qed.

(** the statement as one reads it *)
Theorem wedit_is_merge_of_restricted s :
  wf_schema s = true -> choice_free s = true -> when_schema_ok s = true -> is_leaf s = false ->
  forall src tgt new, shaped s src = true -> shaped s tgt = true ->
  match wrestrict s src tgt new with
  | XOk src' => wedit s src tgt new = XOk (merge_one s src' tgt new) /\ shaped s src' = true
  | XErr => wedit s src tgt new = XErr
  | XPanic => wedit s src tgt new = XPanic
  | XUnsup => True
  end.
Proof.
  intros Hwf Hcf Hok Hnl src tgt new Hs Ht.
  pose proof (wedit_restricted s Hwf Hcf Hok Hnl src tgt new Hs Ht) as H. unfold follows in H.
  destruct (wrestrict s src tgt new); try exact H. destruct H as [H1 [H2 _]]. auto.
Qed.

(** at a container-like entry point: UpsertFrom = the unconditional editor (= the merge) run on the restricted
    source *)
Theorem wupsert_is_edit_of_restricted kids src tgt :
  forallb wf_schema kids = true -> forallb choice_free kids = true -> forallb when_schema_ok kids = true ->
  shaped_kids shaped kids src = true -> shaped_kids shaped kids tgt = true ->
  match wrestrict_content kids src tgt with
  | XOk src' => wupsert kids src tgt = XOk (merge_content kids src' tgt) /\
                edit_content false kids src' tgt Upsert = Ok (merge_content kids src' tgt) /\
                shaped_kids shaped kids src' = true
  | XErr => wupsert kids src tgt = XErr
  | XPanic => wupsert kids src tgt = XPanic
  | XUnsup => True
  end.
Proof.
  intros Hwf Hcf Hok Hs Ht.
  set (root := SCont (mkMeta [] [] true [] None) kids).
  pose proof (wedit_is_merge_of_restricted root Hwf Hcf Hok eq_refl (DCont src) (DCont tgt) false Hs Ht) as H.
  change (wrestrict root (DCont src) (DCont tgt) false)
    with (xbind (wrestrict_content kids src tgt) (fun c => XOk (DCont c))) in H.
  unfold wupsert. fold root.
  destruct (wrestrict_content kids src tgt) as [src'| | |]; cbn [xbind] in H; try exact I.
  - destruct H as [H1 H2]. rewrite H1. split; [reflexivity|]. split; [|exact H2].
    apply upsert_content_is_merge; auto.
  - now rewrite H.
  - now rewrite H.
Qed.

(** * (2) every condition met holds: the conditional editor is the plain one *)
Local Opaque merge_one.

Section AllTrue.
  Variable wrec : snode -> dnode -> dnode -> bool -> xres dnode.
  Variable trec : snode -> dnode -> dnode -> bool -> bool.

  Definition kid_true (k : snode) : Prop :=
    sguard k = [] /\
    (is_leaf k = false ->
     forall sd td c, shaped k sd = true -> shaped k td = true -> trec k sd td c = true ->
                     wrec k sd td c = XOk (merge_one k sd td c)).

  Lemma wedit_loop_true kids sc new ks :
    Forall kid_true ks ->
    forall spre srest pre rest,
      sc = spre ++ srest -> length spre = length pre ->
      shaped_kids shaped ks srest = true -> shaped_kids shaped ks rest = true ->
      wt_kids trec new kids ks srest pre rest = true ->
      edit_loop (wedit_kid wrec new kids sc) ks (length pre) (pre ++ rest)
      = XOk (pre ++ merge_kids merge_one new ks srest rest).
  Proof.
    induction 1 as [|k ks [Hg Hk] _ IH]; intros spre srest pre rest Hsc Hlen Hs Ht Hw.
    - destruct srest, rest; simpl in *; try discriminate. reflexivity.
    - destruct srest as [|sd srest], rest as [|td rest]; simpl in Hs, Ht; try discriminate.
      apply andb_true_iff in Hs as [Hsd Hs]. apply andb_true_iff in Ht as [Htd Ht].
      set (F := wedit_kid wrec new kids sc).
      assert (Hnext : forall x,
                 mhead new k sd td = x ->
                 wt_kids trec new kids ks srest (pre ++ [x]) rest = true ->
                 edit_loop F ks (S (length pre)) (pre ++ x :: rest)
                 = XOk (pre ++ merge_kids merge_one new (k :: ks) (sd :: srest) (td :: rest))).
      { intros x Hx Hgo.
        specialize (IH (spre ++ [sd]) srest (pre ++ [x]) rest).
        rewrite !app_length in IH. simpl in IH. rewrite !Nat.add_1_r in IH.
        rewrite <- !app_assoc in IH. simpl in IH.
        specialize (IH Hsc (f_equal S Hlen) Hs Ht Hgo). fold F in IH.
        rewrite IH, merge_kids_cons, Hx. reflexivity. }
      assert (Hsrc : nth (length pre) sc None = sd).
      { subst sc. rewrite <- Hlen. apply nth_middle'. }
      cbn [edit_loop]. fold F.
      cbn [wt_kids] in Hw. fold (wt_kids trec new kids) in Hw.
      destruct k as [m ty il dflt|m kk|m keys row].
      + unfold F at 1, wedit_kid. rewrite Hg. cbn [length Nat.eqb negb]. rewrite Hsrc.
        destruct sd as [d|].
        * destruct (when_field true [] kids (pre ++ td :: rest) (SLeaf m ty il dflt)) as [[|]| | |];
            try discriminate Hw.
          cbn [xbind]. rewrite set_nth_middle. apply Hnext; auto.
        * destruct (if new then option_map DLeaf dflt else None) as [d|] eqn:Ev.
          -- destruct new; [|discriminate]. destruct dflt as [v|]; [|discriminate].
             simpl in Ev. inversion Ev; subst d.
             destruct (when_field true [] kids (pre ++ td :: rest) (SLeaf m ty il (Some v))) as [[|]| | |];
               try discriminate Hw.
             cbn [xbind]. rewrite set_nth_middle. apply Hnext; auto.
          -- cbn [xbind]. apply Hnext; auto. simpl.
             destruct new; [|reflexivity]. destruct dflt; [discriminate|reflexivity].
      + specialize (Hk eq_refl).
        unfold F at 1, wedit_kid. rewrite Hg. cbn [length Nat.eqb negb]. rewrite Hsrc, nth_middle'.
        destruct sd as [sdn|]; [|cbn [xbind]; apply Hnext; auto].
        destruct td as [[|cc|]|]; try discriminate Htd.
        * destruct (when_cont true [] [] [] (SCont m kk) cc) as [[|]| | |]; try discriminate Hw.
          apply andb_true_iff in Hw as [Hw1 Hw2]. cbn [xbind].
          rewrite (Hk sdn (DCont cc) false Hsd Htd Hw1). cbn [xbind]. rewrite set_nth_middle.
          apply Hnext; auto.
        * destruct (when_cont true [] [] [] (SCont m kk) (empty_content kk)) as [[|]| | |]; try discriminate Hw.
          apply andb_true_iff in Hw as [Hw1 Hw2]. cbn [xbind].
          assert (He : shaped (SCont m kk) (empty_node (SCont m kk)) = true)
            by (apply shaped_empty_node; reflexivity).
          rewrite (Hk sdn _ true Hsd He Hw1). cbn [xbind]. rewrite set_nth_middle.
          apply Hnext; auto.
      + specialize (Hk eq_refl).
        unfold F at 1, wedit_kid. rewrite Hg. cbn [length Nat.eqb negb]. rewrite Hsrc, nth_middle'.
        destruct sd as [sdn|]; [|cbn [xbind]; apply Hnext; auto].
        apply andb_true_iff in Hw as [Hw Hw2]. apply andb_true_iff in Hw as [Hw0 Hw1].
        apply negb_true_iff in Hw0. rewrite Hw0.
        assert (Ht' : shaped (SList m keys row)
                        (match td with Some t => t | None => empty_node (SList m keys row) end) = true).
        { destruct td; [exact Htd|reflexivity]. }
        rewrite (Hk sdn _ (negb (present td)) Hsd Ht' Hw1). cbn [xbind]. rewrite set_nth_middle.
        apply Hnext; auto.
  Qed.

  Lemma wrows_true keys row :
    (forall sr tr c, shaped row sr = true -> shaped row tr = true -> trec row sr tr c = true ->
                     wrec row sr tr c = XOk (merge_one row sr tr c)) ->
    (forall sd td c, shaped row sd = true -> shaped row td = true -> shaped row (merge_one row sd td c) = true) ->
    is_leaf row = false ->
    forall srows trows, forallb (shaped row) srows = true -> forallb (shaped row) trows = true ->
    wt_rows trec keys row srows trows = true ->
    wrows_loop wrec keys row srows trows = XOk (merge_rows merge_one keys row srows trows).
  Proof.
    intros Hrec Hsh Hnl.
    induction srows as [|sr srows IH]; intros trows Hs Ht Hw; [reflexivity|].
    simpl in Hs. apply andb_true_iff in Hs as [Hsr Hs].
    cbn [wt_rows wrows_loop] in Hw |- *. fold (wt_rows trec keys row) in Hw. fold (wrows_loop wrec keys row).
    unfold merge_rows. cbn [fold_left].
    destruct (lookup_row keys sr trows) as [j|] eqn:E; apply andb_true_iff in Hw as [Hw1 Hw2].
    - assert (Hj : shaped row (nth j trows (DCont [])) = true).
      { apply forallb_nth; [assumption|]. eapply lookup_row_bound; eauto. }
      rewrite (Hrec sr _ false Hsr Hj Hw1). cbn [xbind]. apply IH; auto.
      apply forallb_set_nth; [assumption|]. apply Hsh; assumption.
    - assert (He : shaped row (empty_node row) = true) by (apply shaped_empty_node; assumption).
      rewrite (Hrec sr _ true Hsr He Hw1). cbn [xbind]. apply IH; auto.
      apply forallb_app'; [assumption|]. simpl. rewrite andb_true_r. apply Hsh; assumption.
  Qed.
End AllTrue.

Theorem when_true_everywhere s :
  wf_schema s = true -> choice_free s = true -> is_leaf s = false ->
  forall src tgt new, shaped s src = true -> shaped s tgt = true ->
  wwhens_true s src tgt new = true ->
  wedit s src tgt new = XOk (merge_one s src tgt new).
Proof.
  induction s as [m ty il d|m kids IH|m keys row IH] using snode_ind'; intros Hwf Hcf Hnl src tgt new Hs Ht Hw.
  - discriminate Hnl.
  - destruct src as [|sc|], tgt as [|tc|]; simpl in Hs, Ht; try discriminate.
    rewrite wedit_cont.
    simpl in Hwf, Hcf. apply andb_true_iff in Hcf as [_ Hcf].
    rewrite forallb_forall in Hwf, Hcf.
    assert (HF : Forall (kid_true (fun k' a b n => wedit k' a b n) wwhens_true) kids).
    { rewrite Forall_forall in *. intros k Hin. split.
      - apply choice_free_guard. auto.
      - intros Hkl sd td c' Hsd Htd Hc. apply IH; auto. }
    pose proof (wedit_loop_true (fun k' a b n => wedit k' a b n) wwhens_true kids sc new kids HF
                  [] sc [] tc eq_refl eq_refl Hs Ht Hw) as H.
    simpl in H. rewrite H. Local Transparent merge_one. reflexivity.
  - destruct src as [| |srows], tgt as [| |trows]; simpl in Hs, Ht; try discriminate.
    rewrite wedit_list_loop. clear Hnl.
    simpl in Hwf, Hcf. apply andb_true_iff in Hwf as [Hnl Hwf]. apply negb_true_iff in Hnl.
    apply andb_true_iff in Hcf as [_ Hcf].
    rewrite (wrows_true wedit wwhens_true keys row); auto.
    intros. apply merge_shaped; auto.
Qed.

(** the editor that consults 'when' and the editor that knows nothing of it deliver the same *)
Theorem when_true_everywhere_is_plain_edit kids src tgt :
  forallb wf_schema kids = true -> forallb choice_free kids = true ->
  shaped_kids shaped kids src = true -> shaped_kids shaped kids tgt = true ->
  wwhens_true_content kids src tgt = true ->
  wupsert kids src tgt = XOk (merge_content kids src tgt) /\
  edit_content false kids src tgt Upsert = Ok (merge_content kids src tgt).
Proof.
  intros Hwf Hcf Hs Ht Hw. split; [|apply upsert_content_is_merge; auto].
  unfold wupsert.
  rewrite (when_true_everywhere (SCont (mkMeta [] [] true [] None) kids)); simpl; auto.
Qed.

(** * the restriction, position by position: "written iff the condition holds on the target at that moment" *)
Lemma xbind_ok {A B} (x : xres A) (f : A -> xres B) b :
  xbind x f = XOk b -> exists a, x = XOk a /\ f a = XOk b.
Proof. destruct x; simpl; intros H; try discriminate. eauto. Qed.

Local Opaque merge_one.

(** one step of the restriction: the target moves on by the head of the merge *)
Lemma wr_kids_step rrec created kids k ks sd srest pre td rest sc' :
  when_schema_ok k = true ->
  wr_kids rrec created kids (k :: ks) (sd :: srest) pre (td :: rest) = XOk sc' ->
  exists y r, sc' = y :: r /\
    wr_kids rrec created kids ks srest (pre ++ [mhead created k y td]) rest = XOk r /\
    (sd = None -> y = None) /\
    (forall m ty il dflt d, k = SLeaf m ty il dflt -> sd = Some d ->
       exists ok, when_field true [] kids (pre ++ td :: rest) k = XOk ok /\
                  y = (if ok then Some d else None) /\
                  mhead created k y td = (if ok then Some d else td)).
Proof.
  intros Hok H. cbn [wr_kids] in H. fold (wr_kids rrec created kids) in H.
  destruct k as [m ty il dflt|m kk|m keys row].
  - destruct sd as [d|].
    + apply xbind_ok in H as [ok [Ew H]]. destruct ok.
      * apply xbind_ok in H as [r [Hr H]]. inversion H; subst sc'.
        exists (Some d), r. repeat split; auto; try discriminate.
        intros m0 ty0 il0 dflt0 d0 Heq Hd. inversion Heq; subst. inversion Hd; subst.
        exists true. auto.
      * apply xbind_ok in H as [r [Hr H]]. inversion H; subst sc'.
        assert (dflt = None) as -> by (eapply when_schema_leaf; [exact Hok|rewrite Ew; discriminate]).
        assert (Hm : mhead created (SLeaf m ty il None) None td = td) by (simpl; destruct created; reflexivity).
        exists None, r. rewrite Hm. repeat split; auto.
        intros m0 ty0 il0 dflt0 d0 Heq Hd. inversion Heq; subst. inversion Hd; subst.
        exists false. auto.
    + destruct (if created then option_map DLeaf dflt else None) as [d|] eqn:Ev.
      * destruct created; [|discriminate]. destruct dflt as [v|]; [|discriminate].
        simpl in Ev. inversion Ev; subst d.
        apply xbind_ok in H as [ok [Ew H]]. destruct ok.
        -- apply xbind_ok in H as [r [Hr H]]. inversion H; subst sc'.
           exists None, r. repeat split; auto; discriminate.
        -- exfalso. assert (Some v = None) by (eapply when_schema_leaf; [exact Hok|rewrite Ew; discriminate]).
           discriminate.
      * apply xbind_ok in H as [r [Hr H]]. inversion H; subst sc'.
        assert (Hm : mhead created (SLeaf m ty il dflt) None td = td).
        { simpl. destruct created; [|reflexivity]. destruct dflt; [discriminate|reflexivity]. }
        exists None, r. rewrite Hm. repeat split; auto; discriminate.
  - destruct sd as [sdn|].
    + destruct td as [[|cc|]|]; try discriminate H.
      * apply xbind_ok in H as [ok [Ew H]]. destruct ok.
        -- apply xbind_ok in H as [sdn' [Hr H]]. apply xbind_ok in H as [r [Hgo H]]. inversion H; subst sc'.
           exists (Some sdn'), r. repeat split; auto; discriminate.
        -- apply xbind_ok in H as [ok' [_ H]]. destruct ok'; discriminate.
      * apply xbind_ok in H as [ok [Ew H]]. destruct ok; [|discriminate].
        apply xbind_ok in H as [sdn' [Hr H]]. apply xbind_ok in H as [r [Hgo H]]. inversion H; subst sc'.
        exists (Some sdn'), r. repeat split; auto; discriminate.
    + apply xbind_ok in H as [r [Hr H]]. inversion H; subst sc'.
      exists None, r. repeat split; auto; discriminate.
  - destruct sd as [sdn|].
    + destruct (has_when (SList m keys row)); [discriminate|].
      apply xbind_ok in H as [sdn' [Hr H]]. apply xbind_ok in H as [r [Hgo H]]. inversion H; subst sc'.
      exists (Some sdn'), r. repeat split; auto; discriminate.
    + apply xbind_ok in H as [r [Hr H]]. inversion H; subst sc'.
      exists None, r. repeat split; auto; discriminate.
Qed.

Lemma wr_kids_laws rrec created kids : forall ks srest pre rest sc',
  forallb when_schema_ok ks = true -> length srest = length ks -> length rest = length ks ->
  wr_kids rrec created kids ks srest pre rest = XOk sc' ->
  forall j,
    (created = false -> nth j srest None = None ->
       nth j sc' None = None /\ nth j (merge_kids merge_one created ks sc' rest) None = nth j rest None) /\
    (forall m ty il dflt d, nth_error ks j = Some (SLeaf m ty il dflt) -> nth j srest None = Some d ->
     exists ok,
       when_field true [] kids
         (pre ++ firstn j (merge_kids merge_one created ks sc' rest) ++ skipn j rest) (SLeaf m ty il dflt) = XOk ok /\
       nth j sc' None = (if ok then Some d else None) /\
       nth j (merge_kids merge_one created ks sc' rest) None = (if ok then Some d else nth j rest None)).
Proof.
  induction ks as [|k ks IH]; intros srest pre rest sc' Hok Hls Hlr H j.
  - destruct srest, rest; try discriminate. simpl in H. inversion H; subst sc'. split.
    + intros _ _. destruct j; split; reflexivity.
    + intros m ty il dflt d Hn. destruct j; discriminate.
  - destruct srest as [|sd srest], rest as [|td rest]; try discriminate.
    simpl in Hok. apply andb_true_iff in Hok as [Hokk Hok].
    destruct (wr_kids_step _ _ _ _ _ _ _ _ _ _ _ Hokk H) as [y [r [-> [Hgo [Hnone Hleaf]]]]].
    rewrite merge_kids_cons.
    destruct j as [|j].
    + split.
      * intros Hc Hn. simpl in Hn. subst sd. rewrite (Hnone eq_refl). split; [reflexivity|].
        subst created. simpl. destruct k; reflexivity.
      * intros m ty il dflt d Hn Hd. simpl in Hn, Hd. inversion Hn; subst k. subst sd.
        destruct (Hleaf m ty il dflt d eq_refl eq_refl) as [ok [Ew [Hy Hm]]].
        exists ok. cbn [firstn skipn nth app]. rewrite Hm. auto.
    + simpl in Hls, Hlr.
      destruct (IH srest (pre ++ [mhead created k y td]) rest r Hok (eq_add_S _ _ Hls) (eq_add_S _ _ Hlr) Hgo j)
        as [IH1 IH2].
      split.
      * intros Hc Hn. simpl in Hn |- *. apply IH1; auto.
      * intros m ty il dflt d Hn Hd. simpl in Hn, Hd.
        destruct (IH2 m ty il dflt d Hn Hd) as [ok [Ew [Hy Hm]]].
        exists ok. cbn [firstn skipn nth app]. rewrite <- app_assoc in Ew. cbn [app] in Ew. auto.
Qed.

(** at the entry point, in terms of the editor's result [r]:
    a conditional (or unconditional) leaf the source brings is written iff its condition holds on the target in
    which the definitions BEFORE it have already been written ([firstn i r]) and the others are still as they
    were ([skipn i tgt]); if it does not hold the leaf is left as it was; what the source does not mention
    is left as it was. *)
Theorem wupsert_writes_exactly kids src tgt src' :
  forallb wf_schema kids = true -> forallb choice_free kids = true -> forallb when_schema_ok kids = true ->
  shaped_kids shaped kids src = true -> shaped_kids shaped kids tgt = true ->
  wrestrict_content kids src tgt = XOk src' ->
  exists r, wupsert kids src tgt = XOk r /\ r = merge_content kids src' tgt /\
    (forall i, nth i src None = None -> nth i r None = nth i tgt None) /\
    (forall i m ty il dflt d, nth_error kids i = Some (SLeaf m ty il dflt) -> nth i src None = Some d ->
       exists ok, when_field true [] kids (firstn i r ++ skipn i tgt) (SLeaf m ty il dflt) = XOk ok /\
                  nth i src' None = (if ok then Some d else None) /\
                  nth i r None = (if ok then Some d else nth i tgt None)).
Proof.
  intros Hwf Hcf Hok Hs Ht Hr.
  pose proof (wupsert_is_edit_of_restricted kids src tgt Hwf Hcf Hok Hs Ht) as H. rewrite Hr in H.
  destruct H as [H1 _]. exists (merge_content kids src' tgt). split; [exact H1|]. split; [reflexivity|].
  pose proof (shaped_kids_length _ _ _ Hs) as Hls. pose proof (shaped_kids_length _ _ _ Ht) as Hlt.
  unfold wrestrict_content in Hr. unfold merge_content.
  split.
  - intros i Hn. destruct (wr_kids_laws _ _ _ _ _ _ _ _ Hok Hls Hlt Hr i) as [L _].
    apply L; auto.
  - intros i m ty il dflt d Hn Hd.
    destruct (wr_kids_laws _ _ _ _ _ _ _ _ Hok Hls Hlt Hr i) as [_ L]. exact (L m ty il dflt d Hn Hd).
Qed.
