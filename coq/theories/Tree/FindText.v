(** Text lemmas for the C08 proofs: splitting, joining and cutting byte strings, and which bytes
    the encoder and identifiers can contain. *)
From Coq Require Import List Bool NArith Strings.Byte Lia.
From YV Require Import Tree.Pct Tree.PctProofs Tree.Find.
Import ListNotations.

Lemma beq_refl b : Byte.eqb b b = true.
Proof. apply Byte.byte_dec_lb. reflexivity. Qed.

(** ** strings free of a byte *)
Definition free (c : byte) (s : list byte) : Prop := has_byte c s = false.

Lemma free_nil c : free c []. Proof. reflexivity. Qed.
Lemma free_cons c x s : free c (x :: s) <-> Byte.eqb c x = false /\ free c s.
Proof. unfold free, has_byte. simpl. rewrite orb_false_iff. tauto. Qed.
Lemma free_app c a b : free c (a ++ b) <-> free c a /\ free c b.
Proof. unfold free, has_byte. rewrite existsb_app, orb_false_iff. tauto. Qed.

Lemma beq_sym a b : Byte.eqb a b = Byte.eqb b a.
Proof.
  destruct (Byte.eqb a b) eqn:E.
  - apply byte_eqb_eq in E. subst. symmetry. apply beq_refl.
  - destruct (Byte.eqb b a) eqn:E2; [|reflexivity]. apply byte_eqb_eq in E2. subst. rewrite beq_refl in E. discriminate.
Qed.

(** ** split_on *)
Lemma split_on_free sep s : free sep s -> split_on sep s = [s].
Proof.
  induction s as [|c s IH]; intros H; [reflexivity|].
  apply free_cons in H. destruct H as [H1 H2]. simpl. rewrite beq_sym, H1, (IH H2). reflexivity.
Qed.

Lemma split_on_app sep a b : free sep a -> split_on sep (a ++ sep :: b) = a :: split_on sep b.
Proof.
  induction a as [|c a IH]; intros H; simpl.
  - rewrite beq_refl. reflexivity.
  - apply free_cons in H. destruct H as [H1 H2]. rewrite beq_sym, H1, (IH H2). reflexivity.
Qed.

Lemma split_on_nonempty sep s : split_on sep s <> [].
Proof. destruct s as [|c s]; simpl; [congruence|]. destruct (Byte.eqb c sep); [congruence|]. destruct (split_on sep s); congruence. Qed.

Lemma split_on_prefix sep a rest :
  free sep a ->
  split_on sep (a ++ rest) = match split_on sep rest with h :: r => (a ++ h) :: r | [] => [a] end.
Proof.
  induction a as [|c a IH]; intros H; simpl.
  - destruct (split_on sep rest) eqn:E; [exfalso; exact (split_on_nonempty _ _ E)|reflexivity].
  - apply free_cons in H. destruct H as [H1 H2]. rewrite beq_sym, H1, (IH H2).
    destruct (split_on sep rest) eqn:E; [exfalso; exact (split_on_nonempty _ _ E)|reflexivity].
Qed.

(** joining sep-free segments and splitting again gives the segments back; [rest] is what follows *)
Lemma split_join sep segs rest :
  segs <> [] -> Forall (free sep) segs ->
  split_on sep (join sep segs ++ rest) =
  match split_on sep rest with
  | h :: r => removelast segs ++ (last segs [] ++ h) :: r
  | [] => segs
  end.
Proof.
  induction segs as [|a segs IH]; intros Hne Hall; [congruence|].
  inversion Hall as [|? ? Ha Hs]; subst.
  destruct segs as [|b segs].
  - simpl join. rewrite split_on_prefix by exact Ha. simpl. reflexivity.
  - change (join sep (a :: b :: segs)) with (a ++ sep :: join sep (b :: segs)).
    rewrite <- app_assoc. rewrite <- app_comm_cons.
    rewrite split_on_app by exact Ha.
    rewrite IH by (congruence || exact Hs).
    destruct (split_on sep rest) eqn:E; [exfalso; exact (split_on_nonempty _ _ E)|reflexivity].
Qed.

Lemma split_join_plain sep segs : segs <> [] -> Forall (free sep) segs -> split_on sep (join sep segs) = segs.
Proof.
  intros Hne Hall. pose proof (split_join sep segs [] Hne Hall) as H. rewrite app_nil_r in H. rewrite H. simpl.
  rewrite app_nil_r. symmetry. apply app_removelast_last. exact Hne.
Qed.

Lemma split_join_trailing sep segs :
  segs <> [] -> Forall (free sep) segs -> split_on sep (join sep segs ++ [sep]) = segs ++ [[]].
Proof.
  intros Hne Hall. rewrite (split_join sep segs [sep] Hne Hall). simpl. rewrite beq_refl. rewrite app_nil_r.
  rewrite (app_removelast_last [] Hne) at 3. rewrite <- app_assoc. reflexivity.
Qed.

(** ** cut_at *)
Lemma cut_at_free sep s : free sep s -> cut_at sep s = (s, None).
Proof.
  induction s as [|c s IH]; intros H; [reflexivity|].
  apply free_cons in H. destruct H as [H1 H2]. simpl. rewrite beq_sym, H1, (IH H2). reflexivity.
Qed.

Lemma cut_at_app sep a b : free sep a -> cut_at sep (a ++ sep :: b) = (a, Some b).
Proof.
  induction a as [|c a IH]; intros H; simpl.
  - rewrite beq_refl. reflexivity.
  - apply free_cons in H. destruct H as [H1 H2]. rewrite beq_sym, H1, (IH H2). reflexivity.
Qed.

(** ** character classes *)

(** an unreserved byte is none of the bytes the path syntax gives a meaning to *)
Definition plain_char (b : byte) : bool :=
  negb (Byte.eqb slash b) && negb (Byte.eqb equals b) && negb (Byte.eqb comma b) && negb (Byte.eqb colon b)
  && negb (Byte.eqb qmark b) && negb (Byte.eqb b pct) && negb (Byte.eqb b plus).

Lemma unreserved_plain : forall b, (negb (unreserved b) || plain_char b) = true.
Proof. apply sweep. vm_compute. reflexivity. Qed.

(** what [escape] writes is never a separator *)
Definition esc_safe (b : byte) : bool :=
  negb (Byte.eqb slash b) && negb (Byte.eqb equals b) && negb (Byte.eqb comma b) && negb (Byte.eqb qmark b).
Lemma esc_char_safe : forall b, (negb (esc_char b) || esc_safe b) = true.
Proof. apply sweep. vm_compute. reflexivity. Qed.

Lemma forallb_free (P : byte -> bool) c s :
  (forall b, P b = true -> Byte.eqb c b = false) -> forallb P s = true -> free c s.
Proof.
  intros HP. induction s as [|x s IH]; intros H; [reflexivity|].
  simpl in H. apply andb_true_iff in H. destruct H as [H1 H2]. apply free_cons. split; [apply HP, H1 | apply IH, H2].
Qed.

Lemma unreserved_not b c :
  unreserved b = true -> In c [slash; equals; comma; colon; qmark] -> Byte.eqb c b = false.
Proof.
  intros Hu Hin. pose proof (unreserved_plain b) as H. rewrite Hu in H. simpl in H. unfold plain_char in H.
  repeat (apply andb_true_iff in H; destruct H as [H ?]).
  simpl in Hin. repeat (destruct Hin as [<-|Hin]; [apply negb_true_iff; assumption|]). contradiction.
Qed.

Lemma esc_not b c : esc_char b = true -> In c [slash; equals; comma; qmark] -> Byte.eqb c b = false.
Proof.
  intros Hu Hin. pose proof (esc_char_safe b) as H. rewrite Hu in H. simpl in H. unfold esc_safe in H.
  repeat (apply andb_true_iff in H; destruct H as [H ?]).
  simpl in Hin. repeat (destruct Hin as [<-|Hin]; [apply negb_true_iff; assumption|]). contradiction.
Qed.

Lemma escape_free c s : In c [slash; equals; comma; qmark] -> free c (escape s).
Proof.
  intros Hin. apply (forallb_free esc_char); [|apply escape_chars].
  intros b Hb. apply esc_not; assumption.
Qed.

Lemma escape_all_free c s : In c [slash; equals; comma; qmark] -> free c (escape_all s).
Proof.
  intros Hin. apply (forallb_free esc_char); [|apply escape_all_chars].
  intros b Hb. apply esc_not; assumption.
Qed.

(** decoding a string without '%' and '+' leaves it alone *)
Lemma unescape_plain s : free pct s -> free plus s -> unescape s = Some s.
Proof.
  induction s as [|c s IH]; intros H1 H2; [reflexivity|].
  apply free_cons in H1. destruct H1 as [H1 H1']. apply free_cons in H2. destruct H2 as [H2 H2'].
  simpl. rewrite beq_sym, H1. rewrite (beq_sym c plus), H2. rewrite (IH H1' H2'). reflexivity.
Qed.
