(** C07's declarative side: what each query parameter DEFINES as the visible part of a tree,
    written on trees and forward paths only - no requests, no constraint table, no hook order, no
    counters, no reversed paths, no loops over row numbers.

    A [view] says, for a position of the tree (forward path below the target, the schema node's
    meta), whether a leaf / a container or list is kept and which rows of a list are kept;
    [project_view] keeps exactly that.  Every parameter is one view; several parameters are the
    intersection of their views ([inter], [params_view]).  The full read is [full_read]: the data
    plus the schema defaults of unset leaves below the target (what an unconstrained
    UpsertInto delivers into an empty capturing node).

    (Imports Params.v only for the parsed-parameter record [params] and [content_mode].) *)
From Coq Require Import ZArith List Bool Strings.Byte.
From YV Require Import Val.Model Tree.Schema Tree.PathExpr Tree.Params.
Import ListNotations.
Open Scope Z_scope.

Record view := mkView {
  vw_leaf : list ident -> nmeta -> bool;              (* keep the leaf at this path *)
  vw_node : list ident -> nmeta -> bool;              (* keep the container / list at this path *)
  vw_rows : list ident -> list dnode -> list dnode;   (* the rows kept of the list at this path *)
  vw_trim : bool }.                                   (* drop leaves equal to their default *)

Definition map_kids (f : snode -> option dnode -> option dnode) : list snode -> content -> content :=
  fix go (ks : list snode) (dc : content) : content :=
    match ks, dc with
    | k :: ks', d :: dc' => f k d :: go ks' dc'
    | _, _ => []
    end.

(** the unconstrained read: defaults of unset leaves in everything below the target *)
Fixpoint fill (new : bool) (s : snode) (d : dnode) {struct s} : dnode :=
  match s, d with
  | SCont _ kids, DCont dc =>
      DCont (map_kids (fun k dk =>
                         match k with
                         | SLeaf _ _ _ dflt =>
                             match dk with
                             | Some x => Some x
                             | None => if new then option_map DLeaf dflt else None
                             end
                         | _ => option_map (fill true k) dk
                         end) kids dc)
  | SList _ _ row, DList rows => DList (map (fill true row) rows)
  | _, _ => d
  end.
Definition full_read (kids : list snode) (data : content) : content :=
  match fill false (SCont root_meta kids) (DCont data) with DCont c => c | _ => data end.

Definition is_default (dflt : option lval) (d : dnode) : bool :=
  match dflt, d with
  | Some v, DLeaf x => lval_eqb v x
  | _, _ => false
  end.

Fixpoint project_view (V : view) (fp : list ident) (s : snode) (d : dnode) {struct s} : dnode :=
  match s, d with
  | SCont _ kids, DCont dc =>
      DCont (map_kids (fun k dk =>
                         match k with
                         | SLeaf m _ _ dflt =>
                             match dk with
                             | Some x => if vw_leaf V (fp ++ [nm_name m]) m && negb (vw_trim V && is_default dflt x)
                                         then dk else None
                             | None => None
                             end
                         | SCont m _ | SList m _ _ =>
                             match dk with
                             | Some sd => if vw_node V (fp ++ [nm_name m]) m
                                          then Some (project_view V (fp ++ [nm_name m]) k sd) else None
                             | None => None
                             end
                         end) kids dc)
  | SList _ _ row, DList rows => DList (map (project_view V fp row) (vw_rows V fp rows))
  | _, _ => d
  end.
Definition project (V : view) (kids : list snode) (c : content) : content :=
  match project_view V [] (SCont root_meta kids) (DCont c) with DCont c' => c' | _ => c end.

(** * the views of the parameters *)
Definition takez {A} : list A -> Z -> list A :=
  fix go (l : list A) (n : Z) : list A :=
    match l with
    | [] => []
    | x :: tl => if n <=? 0 then [] else x :: go tl (n - 1)
    end.
(** rows [st, en) ; en = -1: from st on *)
Definition window {A} (st en : Z) (rows : list A) : list A :=
  if en =? -1 then skipz rows st else takez (skipz rows st) (en - st).

Definition keep_all (_ : list ident) (_ : nmeta) : bool := true.
Definition all_rows (_ : list ident) (rows : list dnode) : list dnode := rows.

Definition view_all : view := mkView keep_all keep_all all_rows false.
(** depth=n: nodes at most n levels below the target *)
Definition view_depth (n : Z) : view :=
  mkView (fun fp _ => lenZ fp <=? n) (fun fp _ => lenZ fp <=? n) all_rows false.
(** content=config: the config nodes; content=nonconfig: the non-config leaves (inside whatever
    containers they sit in); content=all: everything *)
Definition view_content (c : content_mode) : view :=
  match c with
  | CAll => view_all
  | CConfig => mkView (fun _ m => nm_config m) (fun _ m => nm_config m) all_rows false
  | CNonconfig => mkView (fun _ m => negb (nm_config m)) keep_all all_rows false
  end.
(** fields=ps: the selected nodes, everything inside them, and the nodes leading to them *)
Definition view_fields (ps : paths) : view :=
  mkView (fun fp _ => selects ps fp || leads ps fp) (fun fp _ => selects ps fp || leads ps fp) all_rows false.
(** fc.xfields=ps: everything but the selected nodes and what is inside them *)
Definition view_xfields (ps : paths) : view :=
  mkView (fun fp _ => negb (selects ps fp)) (fun fp _ => negb (selects ps fp)) all_rows false.
(** with-defaults=trim *)
Definition view_trim : view := mkView keep_all keep_all all_rows true.
(** fc.range=ps!st-en: rows [st,en) of the named lists *)
Definition view_range (ps : paths) (st en : Z) : view :=
  mkView keep_all keep_all (fun fp rows => if selects_exactly ps fp then window st en rows else rows) false.

(** intersection *)
Definition inter (V W : view) : view :=
  mkView (fun fp m => vw_leaf V fp m && vw_leaf W fp m)
         (fun fp m => vw_node V fp m && vw_node W fp m)
         (fun fp rows => vw_rows V fp (vw_rows W fp rows))
         (vw_trim V || vw_trim W).

Definition opt_view {A} (o : option A) (f : A -> view) : view :=
  match o with Some a => f a | None => view_all end.

Definition params_view (p : params) : view :=
  inter (view_depth (p_depth p))
 (inter (opt_view (p_range p) (fun r => let '(ps, st, en) := r in view_range ps st en))
 (inter (opt_view (p_fields p) view_fields)
 (inter (opt_view (p_xfields p) view_xfields)
 (inter (opt_view (p_content p) view_content)
        (if p_trim p then view_trim else view_all))))).

(** * fc.max-node-count: the containers and lists of a tree (entries of a list are not counted,
    what is inside them is) *)
Fixpoint count_d (d : dnode) : Z :=
  match d with
  | DLeaf _ => 0
  | DCont c => fold_right (fun od acc => match od with
                                         | None | Some (DLeaf _) => acc
                                         | Some x => 1 + count_d x + acc
                                         end) 0 c
  | DList rows => fold_right (fun r acc => count_d r + acc) 0 rows
  end.
Definition count_c (c : content) : Z := count_d (DCont c).

(** schemas as the harness dumps them: the row of a list is a container over the list's kids *)
Fixpoint wf_schema (s : snode) : bool :=
  match s with
  | SLeaf _ _ _ _ => true
  | SCont _ kids => forallb wf_schema kids
  | SList _ _ row => (match row with SCont _ _ => true | _ => false end) && wf_schema row
  end.

(** * what a read with parsed parameters [P] must deliver *)
Definition spec_read (P : option params) (kids : list snode) (data : content) : pres content :=
  match P with
  | None => POk (full_read kids data)
  | Some p =>
      let t := project (params_view p) kids (full_read kids data) in
      if count_c t >? p_max_node p then PErr PConflict else POk t
  end.
