(** The declarative reading of a query (Reading.v) and BuildConstraints' model (Params.v) agree:
    a reading that is valid is what build_constraints produces, an invalid one makes it fail.
    With read_is_projection this is "the model meets the spec oracle of the check" on the whole
    domain: the verdict ModelViolatesSpec cannot occur. *)
From Coq Require Import Strings.String.
From Coq Require Import ZArith List Bool Lia ZifyBool Strings.Byte.
From YV Require Import Val.Model Val.Proofs Tree.Schema Tree.Merge Tree.PathExpr Tree.PathExprProofs
     Tree.Params Tree.Project Tree.ParamsProofs Tree.Reading.
Import ListNotations.
Open Scope Z_scope.

Lemma wf_identb_sound n : wf_identb n = true -> wf_ident n.
Proof.
  unfold wf_identb, wf_ident. destruct n as [|b n]; [discriminate|]. intros H. split; [discriminate|].
  rewrite forallb_forall in H. apply Forall_forall. intros x Hx. specialize (H x Hx).
  destruct (delim_token x); [discriminate|reflexivity].
Qed.
Lemma wf_exprb_sound e : wf_exprb e = true -> wf_expr e.
Proof.
  induction e as [n|a IHa b IHb|a IHa b IHb]; simpl; intros H.
  - now apply wf_identb_sound.
  - apply andb_true_iff in H as [H1 H2]. auto.
  - apply andb_true_iff in H as [H1 H2]. auto.
Qed.

Lemma read_expr_ok name v asts ps : read_expr name v asts = TOk ps -> parse_path_expr v = POk ps.
Proof.
  unfold read_expr. destruct (ast_for name asts) as [e|].
  - destruct (bytes_eqb (print_top e) v && wf_exprb e) eqn:E; [|discriminate].
    apply andb_true_iff in E as [E1 E2]. apply bytes_eqb_eq in E1. subst v.
    intros H; inversion H; subst. apply parse_print_denote. now apply wf_exprb_sound.
  - destruct (balanced v 0); [|discriminate].
    destruct (parse_path_expr v); [|discriminate]. intros H; inversion H; reflexivity.
Qed.
Lemma read_expr_bad name v asts : read_expr name v asts = TBad -> parse_path_expr v = PErr PBadRequest.
Proof.
  unfold read_expr. destruct (ast_for name asts) as [e|].
  - destruct (bytes_eqb (print_top e) v && wf_exprb e); discriminate.
  - destruct (balanced v 0) eqn:E.
    + destruct (parse_path_expr v); discriminate.
    + intros _. now apply parse_unbalanced_is_error.
Qed.

(** the steps of build_constraints, named *)
Definition depth_step (q : query) : pres Z :=
  match lookup (B "depth") q with
  | None => POk 64
  | Some v => match atoi v with
              | None => PErr PBadRequest
              | Some n => if n =? 0 then PErr PDepthZero else if n <? 0 then PErr PBadRequest else POk n
              end
  end.
Definition max_node_step (q : query) : pres Z :=
  match lookup (B "fc.max-node-count") q with
  | None => POk 10000
  | Some v => match atoi v with
              | None => PErr PBadRequest
              | Some n => if n <? 0 then PErr PBadRequest else POk n
              end
  end.
Lemma build_unfold q : q <> [] ->
  build_constraints q =
  bind (depth_step q) (fun depth =>
  bind (opt_param (B "fc.range") q new_list_range) (fun range =>
  bind (opt_param (B "fields") q parse_path_expr) (fun fields =>
  bind (opt_param (B "fc.xfields") q parse_path_expr) (fun xfields =>
  bind (max_node_step q) (fun maxn =>
  bind (opt_param (B "content") q new_content) (fun cont =>
  bind (opt_param (B "with-defaults") q new_with_defaults) (fun trim =>
  POk (Some (mkParams depth range fields xfields maxn cont
                      (match trim with Some t => t | None => false end)))))))))).
Proof. destruct q; [congruence|reflexivity]. Qed.

Lemma depth_agree q : match r_depth q with
                      | TOk d => depth_step q = POk d
                      | TBad => is_err (depth_step q)
                      | TUnk => True
                      end.
Proof.
  unfold r_depth, depth_step. destruct (lookup (B "depth") q) as [v|]; [|reflexivity].
  destruct (atoi v) as [n|]; [|now eexists].
  destruct (Z.leb_spec 1 n) as [E|E].
  - destruct (Z.eqb_spec n 0) as [E0|E0]; [exfalso; lia|]. destruct (Z.ltb_spec n 0) as [E1|E1]; [exfalso; lia|]. reflexivity.
  - destruct (Z.eqb_spec n 0) as [E0|E0]; [now eexists|]. destruct (Z.ltb_spec n 0) as [E1|E1]; [now eexists|exfalso; lia].
Qed.
Lemma max_node_agree q : match r_max_node q with
                         | TOk d => max_node_step q = POk d
                         | TBad => is_err (max_node_step q)
                         | TUnk => True
                         end.
Proof.
  unfold r_max_node, max_node_step. destruct (lookup (B "fc.max-node-count") q) as [v|]; [|reflexivity].
  destruct (atoi v) as [n|]; [|now eexists].
  destruct (Z.leb_spec 0 n) as [E|E]; destruct (Z.ltb_spec n 0) as [E1|E1]; try (exfalso; lia); [reflexivity|now eexists].
Qed.
Lemma content_agree q : match r_content q with
                        | TOk c => opt_param (B "content") q new_content = POk c
                        | TBad => is_err (opt_param (B "content") q new_content)
                        | TUnk => True
                        end.
Proof.
  unfold r_content, opt_param, new_content. destruct (lookup (B "content") q) as [v|]; [|reflexivity].
  destruct (bytes_eqb v (B "config")); [reflexivity|].
  destruct (bytes_eqb v (B "nonconfig")); [reflexivity|].
  destruct (bytes_eqb v (B "all")); [reflexivity|]. simpl. now eexists.
Qed.
Lemma trim_agree q : match r_trim q with
                     | TOk t => exists o, opt_param (B "with-defaults") q new_with_defaults = POk o
                                          /\ (match o with Some t' => t' | None => false end) = t
                     | TBad => is_err (opt_param (B "with-defaults") q new_with_defaults)
                     | TUnk => True
                     end.
Proof.
  unfold r_trim, opt_param, new_with_defaults. destruct (lookup (B "with-defaults") q) as [v|]; [|now exists None].
  destruct (bytes_eqb v (B "trim")) eqn:E1; [now exists (Some true)|].
  destruct (bytes_eqb v (B "report-all")) eqn:E2.
  - apply bytes_eqb_eq in E2. subst v. now exists (Some false).
  - destruct (bytes_eqb v (B "explicit")); [simpl; now eexists|].
    destruct (bytes_eqb v (B "report-all-tagged")); simpl; now eexists.
Qed.
Lemma expr_agree name q asts : match r_expr name q asts with
                               | TOk f => opt_param name q parse_path_expr = POk f
                               | TBad => is_err (opt_param name q parse_path_expr)
                               | TUnk => True
                               end.
Proof.
  unfold r_expr, opt_param. destruct (lookup name q) as [v|]; [|reflexivity].
  destruct (read_expr name v asts) as [ps| |] eqn:E; simpl; auto.
  - now rewrite (read_expr_ok _ _ _ _ E).
  - rewrite (read_expr_bad _ _ _ E). simpl. now eexists.
Qed.
Lemma range_agree q asts : match r_range q asts with
                           | TOk r => opt_param (B "fc.range") q new_list_range = POk r
                           | TBad => is_err (opt_param (B "fc.range") q new_list_range)
                           | TUnk => True
                           end.
Proof.
  unfold r_range, opt_param. destruct (lookup (B "fc.range") q) as [v|]; [|reflexivity].
  unfold new_list_range. destruct (cut_at x21 v []) as [[sel rows]|]; [|simpl; now eexists].
  rewrite split_on_cut. simpl rev. simpl app.
  destruct (cut_at x2d rows []) as [[st en]|] eqn:Ec.
  - rewrite split_on_cut. simpl rev. simpl app.
    destruct (atoi st) as [s|] eqn:Es.
    + destruct en as [|e0 en'].
      * (* "start-" *)
        simpl cut_at. 
        destruct (read_expr (B "fc.range") sel asts) as [ps| |] eqn:E; simpl tbind; cbv iota; auto.
        -- rewrite (read_expr_ok _ _ _ _ E). simpl. rewrite ?Es. reflexivity.
        -- rewrite (read_expr_bad _ _ _ E). simpl. now eexists.
      * set (en := e0 :: en') in *.
        destruct (cut_at x2d en []) as [[en1 en2]|] eqn:Ec2.
        -- (* a third part *)
           simpl. destruct (parse_path_expr sel); simpl; [|now eexists].
           destruct (split_on x2d en2 []) eqn:Esp; [exfalso; eapply split_on_nonempty; eauto|now eexists].
        -- destruct (atoi en) as [e|] eqn:Ee.
           ++ destruct (read_expr (B "fc.range") sel asts) as [ps| |] eqn:E; simpl tbind; cbv iota; auto.
              ** rewrite (read_expr_ok _ _ _ _ E). simpl. rewrite ?Es. subst en. rewrite ?Ee. reflexivity.
              ** rewrite (read_expr_bad _ _ _ E). simpl. now eexists.
           ++ simpl. destruct (parse_path_expr sel); simpl; [|now eexists]. rewrite ?Es. subst en. rewrite ?Ee. now eexists.
    + (* start is not a number *)
      simpl. destruct (parse_path_expr sel); simpl; [|now eexists].
      destruct (cut_at x2d en []) as [[en1 en2]|].
      * destruct (split_on x2d en2 []); now eexists.
      * rewrite ?Es. now eexists.
  - destruct (atoi rows) as [s|] eqn:Es.
    + destruct (read_expr (B "fc.range") sel asts) as [ps| |] eqn:E; simpl tbind; cbv iota; auto.
      * rewrite (read_expr_ok _ _ _ _ E). simpl. rewrite ?Es. reflexivity.
      * rewrite (read_expr_bad _ _ _ E). simpl. now eexists.
    + simpl. destruct (parse_path_expr sel); simpl; [|now eexists]. rewrite ?Es. now eexists.
Qed.

Theorem interpret_agrees q asts :
  match interpret q asts with
  | TOk P => build_constraints q = POk P
  | TBad => is_err (build_constraints q)
  | TUnk => True
  end.
Proof.
  destruct q as [|kv q']; [reflexivity|]. set (q := kv :: q').
  rewrite (build_unfold q) by discriminate. unfold interpret. fold q.
  pose proof (depth_agree q) as H1. destruct (r_depth q) as [d| |]; simpl tbind; auto; [|now apply bind_err].
  rewrite H1. simpl bind.
  pose proof (range_agree q asts) as H2. destruct (r_range q asts) as [r| |]; simpl tbind; auto; [|now apply bind_err].
  rewrite H2. simpl bind.
  pose proof (expr_agree (B "fields") q asts) as H3. destruct (r_expr (B "fields") q asts) as [f| |]; simpl tbind; auto; [|now apply bind_err].
  rewrite H3. simpl bind.
  pose proof (expr_agree (B "fc.xfields") q asts) as H4. destruct (r_expr (B "fc.xfields") q asts) as [x| |]; simpl tbind; auto; [|now apply bind_err].
  rewrite H4. simpl bind.
  pose proof (max_node_agree q) as H5. destruct (r_max_node q) as [n| |]; simpl tbind; auto; [|now apply bind_err].
  rewrite H5. simpl bind.
  pose proof (content_agree q) as H6. destruct (r_content q) as [c| |]; simpl tbind; auto; [|now apply bind_err].
  rewrite H6. simpl bind.
  pose proof (trim_agree q) as H7. destruct (r_trim q) as [t| |]; simpl tbind; auto; [|now apply bind_err].
  destruct H7 as [o [H7 Ht]]. rewrite H7. simpl bind. now rewrite Ht.
Qed.

(** the model meets the spec oracle of the check, for every case of the domain *)
Theorem model_meets_spec kids data q asts :
  forallb wf_schema kids = true -> shaped (SCont root_meta kids) (DCont data) = true ->
  match interpret q asts with
  | TOk P => read_query kids data q = spec_read P kids data
  | TBad => is_err (read_query kids data q)
  | TUnk => True
  end.
Proof.
  intros Hwf Hsh. pose proof (interpret_agrees q asts) as H.
  destruct (interpret q asts) as [P| |]; auto.
  - now apply read_query_is_projection.
  - unfold read_query. now apply bind_err.
Qed.
