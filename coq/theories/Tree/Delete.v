(** C18: Delete and ReplaceFrom (node/selection.go) on reference-store data, and key uniqueness.
    Selection.Delete on a container/list = Child{Delete} on the parent: position := None;
    on a list entry = Next{Delete, Key} on the list: the first row with that key is removed.
    ReplaceFrom = Delete, then InsertFrom on the parent with the supplied node. *)
From Coq Require Import List Bool Arith Strings.Byte.
From YV Require Import Val.Model Tree.Schema Tree.Editor Tree.Merge.
Import ListNotations.

Fixpoint remove_row (keys : list nat) (key : list (option dnode)) (rows : list dnode) : list dnode :=
  match rows with
  | [] => []
  | r :: tl => if key_eqb (row_key keys r) key then tl else r :: remove_row keys key tl
  end.

Inductive op :=
| OpUpsert (src : content)                                   (* root.UpsertFrom *)
| OpDeleteKid (i : nat)                                      (* Find(container or list).Delete *)
| OpDeleteRow (i : nat) (key : list (option dnode))          (* Find(list=key).Delete *)
| OpReplaceKid (i : nat) (src : content)                     (* Find(container).ReplaceFrom(parent view) *)
| OpReplaceRow (i : nat) (key : list (option dnode)) (row : dnode)   (* Find(list=key).ReplaceFrom(list with one row) *)
| OpInsertRows (i : nat) (rows : list dnode)                 (* Find(list).InsertFrom(list node) *)
| OpDeleteRows (i : nat) (ks : list (list (option dnode))).  (* walk the list with First/Next, then Delete each collected entry *)

Definition apply_op (kids : list snode) (tgt : content) (o : op) : res content :=
  match o with
  | OpUpsert src => edit_content false kids src tgt Upsert
  | OpDeleteKid i => Ok (set_nth i None tgt)
  | OpDeleteRow i key =>
      match nth i kids (SCont (mkMeta [] [] true [] None) []), nth i tgt None with
      | SList _ keys _, Some (DList rows) => Ok (set_nth i (Some (DList (remove_row keys key rows))) tgt)
      | _, _ => Err EOther
      end
  | OpReplaceKid i src => edit_content false kids src (set_nth i None tgt) Insert
  | OpReplaceRow i key row =>
      match nth i kids (SCont (mkMeta [] [] true [] None) []), nth i tgt None with
      | SList m keys r, Some (DList rows) =>
          match edit_one false (SList m keys r) (DList [row]) (DList (remove_row keys key rows)) false Insert with
          | Ok d => Ok (set_nth i (Some d) tgt)
          | Err e => Err e
          end
      | _, _ => Err EOther
      end
  | OpInsertRows i srows =>
      match nth i kids (SCont (mkMeta [] [] true [] None) []), nth i tgt None with
      | SList m keys r, Some (DList rows) =>
          match edit_one false (SList m keys r) (DList srows) (DList rows) false Insert with
          | Ok d => Ok (set_nth i (Some d) tgt)
          | Err e => Err e
          end
      | _, _ => Err EOther
      end
  | OpDeleteRows i ks =>
      match nth i kids (SCont (mkMeta [] [] true [] None) []), nth i tgt None with
      | SList _ keys _, Some (DList rows) =>
          Ok (set_nth i (Some (DList (fold_left (fun acc k => remove_row keys k acc) ks rows))) tgt)
      | _, _ => Err EOther
      end
  end.

(** * the specification side *)

(** no list anywhere holds two entries with equal (usable) keys *)
Fixpoint rows_unique (keys : list nat) (rows : list dnode) : bool :=
  match rows with
  | [] => true
  | r :: tl =>
      negb (key_usable (row_key keys r) && existsb (fun r' => key_eqb (row_key keys r') (row_key keys r)) tl)
      && rows_unique keys tl
  end.

Definition unique_kids (rec : snode -> dnode -> bool) : list snode -> content -> bool :=
  fix go (ks : list snode) (c : content) {struct ks} : bool :=
    match ks, c with
    | k :: ks', d :: c' => (match d with None => true | Some dn => rec k dn end) && go ks' c'
    | _, _ => true
    end.
Fixpoint keys_unique (s : snode) (d : dnode) {struct s} : bool :=
  match s, d with
  | SCont _ kids, DCont c => unique_kids keys_unique kids c
  | SList _ keys row, DList rows => rows_unique keys rows && forallb (keys_unique row) rows
  | _, _ => true
  end.
Definition keys_unique_content (kids : list snode) (c : content) : bool := unique_kids keys_unique kids c.

(** what each operation must leave behind (declaratively) *)
Definition spec_op (kids : list snode) (tgt : content) (o : op) : res content :=
  match o with
  | OpUpsert src => Ok (merge_content kids src tgt)
  | OpDeleteKid i => Ok (set_nth i None tgt)           (* exactly that subtree gone, everything else kept *)
  | OpDeleteRow i key =>
      match nth i kids (SCont (mkMeta [] [] true [] None) []), nth i tgt None with
      | SList _ keys _, Some (DList rows) =>
          Ok (set_nth i (Some (DList (filter (fun r => negb (key_eqb (row_key keys r) key)) rows))) tgt)
      | _, _ => Err EOther
      end
  | OpReplaceKid i src =>
      (* exactly the supplied content at i (built from nothing: no old content survives) *)
      match nth i kids (SCont (mkMeta [] [] true [] None) []), nth i src None with
      | k, Some sd => Ok (set_nth i (Some (merge_one k sd (empty_node k) true)) tgt)
      | _, None => Ok (set_nth i None tgt)
      end
  | OpReplaceRow i key row =>
      match nth i kids (SCont (mkMeta [] [] true [] None) []), nth i tgt None with
      | SList _ keys r, Some (DList rows) =>
          Ok (set_nth i (Some (DList (filter (fun x => negb (key_eqb (row_key keys x) key)) rows
                                      ++ [merge_one r row (empty_node r) true]))) tgt)
      | _, _ => Err EOther
      end
  | OpDeleteRows i ks =>
      match nth i kids (SCont (mkMeta [] [] true [] None) []), nth i tgt None with
      | SList _ keys _, Some (DList rows) =>
          Ok (set_nth i (Some (DList (filter (fun r => negb (existsb (fun k => key_eqb (row_key keys r) k) ks)) rows))) tgt)
      | _, _ => Err EOther
      end
  | OpInsertRows i srows =>
      match nth i kids (SCont (mkMeta [] [] true [] None) []), nth i tgt None with
      | SList m keys r, Some (DList rows) =>
          if existsb (fun sr => match lookup_row keys sr rows with Some _ => true | None => false end) srows
          then Err EConflict
          else Ok (set_nth i (Some (merge_one (SList m keys r) (DList srows) (DList rows) false)) tgt)
      | _, _ => Err EOther
      end
  end.
