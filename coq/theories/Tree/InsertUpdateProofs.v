(** C03: the full statements for Insert and Update - the editor model decides exactly
    "conflict / missing, else the merge" - under the hypotheses they need:
      - [keys_ok]: every key position of a list names a leaf of the row (for Insert: one without
        a schema default), as YANG requires of list keys;
      - [rows_distinct]: no row of a source list finds an earlier row of the same list by key;
      - for Update, [keys_wf]: the key leaves of source and target rows hold well-formed values
        (Val/Proofs.v [wf_value]), on which val.Equal is an equivalence.
    Counter-examples without each of them are at the end of the file. *)
From Coq Require Import ZArith List Bool Lia Arith Strings.Byte.
From YV Require Import Base.Wrap Val.Model Val.Proofs Tree.Schema Tree.Editor Tree.Merge Tree.EditorProofs.
Import ListNotations.
Open Scope nat_scope.

(** * the extra hypotheses *)

(** "every present kid satisfies [rec]" *)
Definition all_kids (rec : snode -> dnode -> bool) : list snode -> content -> bool :=
  fix go (ks : list snode) (c : content) {struct ks} : bool :=
    match ks, c with
    | k :: ks', d :: c' => (match d with None => true | Some dn => rec k dn end) && go ks' c'
    | _, _ => true
    end.

(** schema: the key positions of every list are leaves of its row; [nodflt]: without default *)
Definition key_leaf_ok (nodflt : bool) (kk : list snode) (i : nat) : bool :=
  match nth_error kk i with
  | Some (SLeaf _ _ _ None) => true
  | Some (SLeaf _ _ _ (Some _)) => negb nodflt
  | _ => false
  end.
Fixpoint keys_ok (nodflt : bool) (s : snode) : bool :=
  match s with
  | SLeaf _ _ _ _ => true
  | SCont _ kids => forallb (keys_ok nodflt) kids
  | SList _ keys row => forallb (key_leaf_ok nodflt (skids row)) keys && keys_ok nodflt row
  end.

(** source: no row finds an earlier row of its list by key ([lookup_row] ignores unusable keys) *)
Fixpoint rows_distinct (keys : list nat) (seen rows : list dnode) : bool :=
  match rows with
  | [] => true
  | r :: tl => (match lookup_row keys r seen with None => true | Some _ => false end)
               && rows_distinct keys (seen ++ [r]) tl
  end.
(** [deep = false]: lists reached through containers only (below a list entry Insert continues as
    Upsert, which never fails); [deep = true]: every list *)
Fixpoint src_distinct (deep : bool) (s : snode) (d : dnode) {struct s} : bool :=
  match s, d with
  | SCont _ kids, DCont c => all_kids (src_distinct deep) kids c
  | SList _ keys row, DList rows =>
      rows_distinct keys [] rows && (negb deep || forallb (src_distinct deep row) rows)
  | _, _ => true
  end.

(** data: key leaves hold well-formed values *)
Definition wf_valueb (v : value) : bool :=
  match v with
  | VInt f z => (is_signed f || is_unsigned f) && in_rangeb f z
  | VEnum id _ => in_sb 32 id
  | _ => true
  end.
Fixpoint wf_lvalb (v : lval) : bool :=
  match v with
  | LV x => wf_valueb x
  | LList items => (fix all (l : list lval) := match l with [] => true | i :: l' => wf_lvalb i && all l' end) items
  | _ => true
  end.
Definition wf_okey (o : option dnode) : bool :=
  match o with Some (DLeaf v) => wf_lvalb v | _ => true end.
Fixpoint keys_wf (s : snode) (d : dnode) {struct s} : bool :=
  match s, d with
  | SCont _ kids, DCont c => all_kids keys_wf kids c
  | SList _ keys row, DList rows =>
      forallb (fun r => forallb wf_okey (row_key keys r) && keys_wf row r) rows
  | _, _ => true
  end.

(** * plumbing *)
Lemma all_kids_nth rec ks : forall c i k d,
  all_kids rec ks c = true -> nth_error ks i = Some k -> nth i c None = Some d -> rec k d = true.
Proof.
  induction ks as [|k0 ks IH]; intros [|x c] i k d H Hk Hd; simpl in H;
    try (destruct i; discriminate).
  apply andb_true_iff in H as [Hx H]. destruct i as [|i]; simpl in *.
  - inversion Hk; subst. assumption.
  - eapply IH; eauto.
Qed.

Lemma nth_empty_content kids i : nth i (empty_content kids) None = None.
Proof. revert i; induction kids as [|k kids IH]; intros [|i]; simpl; auto. Qed.

Lemma empty_content_length kids : length (empty_content kids) = length kids.
Proof. apply map_length. Qed.

Lemma insert_conflicts_empty ks : forall sc, insert_conflicts ks sc (empty_content ks) = false.
Proof.
  induction ks as [|k ks IH]; intros [|sd sc]; simpl; auto.
  rewrite andb_false_r. simpl. apply IH.
Qed.

Lemma key_leaf_ok_inv nodflt kk i : key_leaf_ok nodflt kk i = true ->
  exists m ty il dflt, nth_error kk i = Some (SLeaf m ty il dflt) /\ (nodflt = true -> dflt = None).
Proof.
  unfold key_leaf_ok. destruct (nth_error kk i) as [[m ty il [v|]| |]|]; try discriminate; intros H.
  - exists m, ty, il, (Some v). split; [reflexivity|]. intros ->. discriminate.
  - exists m, ty, il, None. auto.
Qed.

(** the key of a merged row is the key of the source row: for a created row when key leaves have
    no default, for any row when the source key is usable *)
Lemma row_key_merge_new keys row sr :
  forallb (key_leaf_ok true (skids row)) keys = true -> shaped row sr = true ->
  row_key keys (merge_one row sr (empty_node row) true) = row_key keys sr.
Proof.
  intros Hk Hs. unfold row_key. apply map_ext_in. intros i Hi.
  rewrite forallb_forall in Hk. destruct (key_leaf_ok_inv _ _ _ (Hk i Hi)) as (m & ty & il & dflt & Hn & Hd).
  specialize (Hd eq_refl). subst dflt.
  destruct row as [|mr kk|]; simpl in Hn; try (destruct i; discriminate).
  destruct sr as [|sc|]; simpl in Hs; try discriminate. simpl.
  pose proof (shaped_kids_length _ _ _ Hs) as Hl.
  rewrite (merge_leaf_law merge_one true kk sc (empty_content kk) i m ty il None Hl (empty_content_length kk) Hn).
  rewrite nth_empty_content. destruct (nth i sc None); reflexivity.
Qed.

Lemma row_key_merge_usable keys row sr tr c :
  forallb (key_leaf_ok false (skids row)) keys = true -> shaped row sr = true -> shaped row tr = true ->
  key_usable (row_key keys sr) = true ->
  row_key keys (merge_one row sr tr c) = row_key keys sr.
Proof.
  intros Hk Hs Ht Hu. unfold row_key. apply map_ext_in. intros i Hi.
  rewrite forallb_forall in Hk. destruct (key_leaf_ok_inv _ _ _ (Hk i Hi)) as (m & ty & il & dflt & Hn & _).
  destruct row as [|mr kk|]; simpl in Hn; try (destruct i; discriminate).
  destruct sr as [|sc|]; simpl in Hs; try discriminate.
  destruct tr as [|tc|]; simpl in Ht; try discriminate. simpl.
  rewrite (merge_leaf_law merge_one c kk sc tc i m ty il dflt (shaped_kids_length _ _ _ Hs) (shaped_kids_length _ _ _ Ht) Hn).
  unfold key_usable in Hu. apply andb_true_iff in Hu as [_ Hu]. rewrite forallb_forall in Hu.
  specialize (Hu (nth i sc None)). unfold row_key in Hu. simpl in Hu.
  rewrite in_map_iff in Hu. specialize (Hu (ex_intro _ i (conj eq_refl Hi))).
  destruct (nth i sc None); [reflexivity|discriminate].
Qed.

Lemma find_row_map_key keys key (f : dnode -> dnode) : forall rows i,
  (forall r, In r rows -> row_key keys (f r) = row_key keys r) ->
  find_row keys key (map f rows) i = find_row keys key rows i.
Proof.
  induction rows as [|r rows IH]; intros i H; simpl; [reflexivity|].
  rewrite (H r (or_introl eq_refl)). destruct (key_eqb (row_key keys r) key); [reflexivity|].
  apply IH. intros r' Hr'. apply H. right; assumption.
Qed.

Lemma lookup_row_map_key keys sr (f : dnode -> dnode) rows :
  (forall r, In r rows -> row_key keys (f r) = row_key keys r) ->
  lookup_row keys sr (map f rows) = lookup_row keys sr rows.
Proof. intros H. unfold lookup_row. destruct (key_usable (row_key keys sr)); [|reflexivity]. apply find_row_map_key; assumption. Qed.

(** * Insert *)
Section InsertFull.
  Variable rec : recfun.
  Variable mrec : snode -> dnode -> dnode -> bool -> dnode.
  Variable dist : snode -> dnode -> bool.

  Lemma kid_loop_insert_full kids sc new ks :
    Forall (fun k => sguard k = [] /\
                     (is_leaf k = false -> forall sd, shaped k sd = true -> dist k sd = true ->
                        rec k sd (empty_node k) true Insert = Ok (mrec k sd (empty_node k) true))) ks ->
    forall spre srest pre rest,
      sc = spre ++ srest -> length spre = length pre ->
      shaped_kids shaped ks srest = true -> length rest = length ks -> all_kids dist ks srest = true ->
      kid_loop false rec kids sc new Insert ks (length pre) (pre ++ rest)
      = if insert_conflicts ks srest rest then Err EConflict
        else Ok (pre ++ merge_kids mrec new ks srest rest).
  Proof.
    induction 1 as [|k ks [Hg Hk] _ IH]; intros spre srest pre rest Hsc Hlen Hs Ht Hd.
    - destruct srest, rest; simpl in *; try discriminate. reflexivity.
    - destruct srest as [|sd srest], rest as [|td rest]; simpl in Hs, Ht, Hd; try discriminate.
      apply andb_true_iff in Hs as [Hsd Hs]. apply andb_true_iff in Hd as [Hdd Hd].
      assert (Hnext : forall x,
                 kid_loop false rec kids sc new Insert ks (S (length pre)) (pre ++ x :: rest)
                 = if insert_conflicts ks srest rest then Err EConflict
                   else Ok (pre ++ x :: merge_kids mrec new ks srest rest)).
      { intros x.
        specialize (IH (spre ++ [sd]) srest (pre ++ [x]) rest).
        rewrite !app_length in IH. simpl in IH. rewrite !Nat.add_1_r in IH.
        rewrite <- !app_assoc in IH. simpl in IH.
        apply IH; auto. }
      assert (Hsrc : nth (length pre) sc None = sd).
      { subst sc. rewrite <- Hlen. apply nth_middle'. }
      cbn [kid_loop]. rewrite Hg. cbn [guard_selected negb].
      rewrite Hsrc, nth_middle'.
      destruct k as [m ty il dflt|m kk|m keys row]; cbn [merge_kids insert_conflicts is_leaf negb andb orb].
      + cbn [strategy_eqb negb andb orb].
        destruct sd as [d|].
        * rewrite set_nth_middle. apply Hnext.
        * destruct new; cbn [andb orb].
          -- destruct dflt as [v|]; cbn [option_map].
             ++ rewrite set_nth_middle. apply Hnext.
             ++ apply Hnext.
          -- apply Hnext.
      + specialize (Hk eq_refl).
        destruct sd as [sdn|]; cbn [present andb orb]; [|apply Hnext].
        destruct td as [tdn|]; cbn [present andb orb negb]; [reflexivity|].
        rewrite Hk by assumption. rewrite set_nth_middle. apply Hnext.
      + specialize (Hk eq_refl).
        destruct sd as [sdn|]; cbn [present andb orb]; [|apply Hnext].
        destruct td as [tdn|]; cbn [present andb orb negb]; [reflexivity|].
        rewrite Hk by assumption. rewrite set_nth_middle. apply Hnext.
  Qed.
End InsertFull.

Definition merge_new (row : snode) (sr : dnode) : dnode := merge_one row sr (empty_node row) true.

Lemma row_loop_insert_full rec keys row :
  (forall sr, shaped row sr = true -> rec row sr (empty_node row) true Upsert = Ok (merge_new row sr)) ->
  forallb (key_leaf_ok true (skids row)) keys = true ->
  forall srows seen, forallb (shaped row) srows = true -> forallb (shaped row) seen = true ->
    rows_distinct keys seen srows = true ->
    row_loop rec keys row Insert srows (map (merge_new row) seen) = Ok (map (merge_new row) (seen ++ srows))
    /\ merge_rows merge_one keys row srows (map (merge_new row) seen) = map (merge_new row) (seen ++ srows).
Proof.
  intros Hrec Hk. unfold merge_rows.
  induction srows as [|sr srows IH]; intros seen Hs Hseen Hd.
  - rewrite app_nil_r. split; reflexivity.
  - simpl in Hs, Hd. apply andb_true_iff in Hs as [Hsr Hs]. apply andb_true_iff in Hd as [Hd1 Hd].
    assert (Hlook : lookup_row keys sr (map (merge_new row) seen) = None).
    { rewrite lookup_row_map_key.
      - destruct (lookup_row keys sr seen); [discriminate|reflexivity].
      - intros r Hr. apply row_key_merge_new; [assumption|].
        rewrite forallb_forall in Hseen. auto. }
    assert (Hseen' : forallb (shaped row) (seen ++ [sr]) = true).
    { apply forallb_app'; [assumption|]. simpl. rewrite Hsr. reflexivity. }
    destruct (IH (seen ++ [sr]) Hs Hseen' Hd) as [A B].
    rewrite map_app in A, B. simpl in A, B. rewrite <- app_assoc in A, B. simpl in A, B.
    cbn [row_loop fold_left]. fold (lookup_row keys sr (map (merge_new row) seen)).
    rewrite Hlook. rewrite Hrec by assumption. split; assumption.
Qed.

(** Insert into a node this edit created: always the merge *)
Theorem insert_new_is_merge s : wf_schema s = true -> choice_free s = true -> keys_ok true s = true ->
  is_leaf s = false -> forall src, shaped s src = true -> src_distinct false s src = true ->
  edit_one false s src (empty_node s) true Insert = Ok (merge_one s src (empty_node s) true).
Proof.
  induction s as [m ty il d|m kids IH|m keys row IH] using snode_ind'; intros Hwf Hcf Hko Hnl src Hs Hd.
  - discriminate Hnl.
  - destruct src as [|sc|]; simpl in Hs; try discriminate.
    cbn [edit_one merge_one empty_node].
    simpl in Hwf, Hcf, Hko, Hd. apply andb_true_iff in Hcf as [_ Hcf].
    rewrite forallb_forall in Hwf, Hcf, Hko.
    assert (HF : Forall (fun k => sguard k = [] /\
                     (is_leaf k = false -> forall sd, shaped k sd = true -> src_distinct false k sd = true ->
                        edit_one false k sd (empty_node k) true Insert = Ok (merge_one k sd (empty_node k) true))) kids).
    { rewrite Forall_forall in *. intros k Hk. split.
      - apply choice_free_guard. auto.
      - intros Hkl sd Hsd Hdd. apply IH; auto. }
    pose proof (kid_loop_insert_full (edit_one false) merge_one (src_distinct false) kids sc true kids HF
                  [] sc [] (empty_content kids) eq_refl eq_refl Hs (empty_content_length kids) Hd) as H.
    simpl in H. rewrite H, insert_conflicts_empty. reflexivity.
  - destruct src as [| |srows]; simpl in Hs; try discriminate.
    cbn [edit_one merge_one empty_node].
    simpl in Hwf, Hcf, Hko, Hd. apply andb_true_iff in Hwf as [Hrl Hwf]. apply negb_true_iff in Hrl.
    apply andb_true_iff in Hcf as [_ Hcf]. apply andb_true_iff in Hko as [Hk Hko].
    apply andb_true_iff in Hd as [Hd _].
    assert (Hrec : forall sr, shaped row sr = true ->
               edit_one false row sr (empty_node row) true Upsert = Ok (merge_new row sr)).
    { intros sr Hsr. apply upsert_is_merge; auto. apply shaped_empty_node; assumption. }
    destruct (row_loop_insert_full (edit_one false) keys row Hrec Hk srows [] Hs eq_refl Hd) as [A B].
    simpl in A, B. rewrite A, B. reflexivity.
Qed.

Theorem insert_full kids src tgt :
  forallb wf_schema kids = true -> forallb choice_free kids = true -> forallb (keys_ok true) kids = true ->
  shaped_kids shaped kids src = true -> shaped_kids shaped kids tgt = true ->
  all_kids (src_distinct false) kids src = true ->
  edit_content false kids src tgt Insert =
    if insert_conflicts kids src tgt then Err EConflict else Ok (merge_content kids src tgt).
Proof.
  intros Hwf Hcf Hko Hs Ht Hd. unfold edit_content, merge_content. cbn [edit_one].
  rewrite forallb_forall in Hwf, Hcf, Hko.
  assert (HF : Forall (fun k => sguard k = [] /\
                   (is_leaf k = false -> forall sd, shaped k sd = true -> src_distinct false k sd = true ->
                      edit_one false k sd (empty_node k) true Insert = Ok (merge_one k sd (empty_node k) true))) kids).
  { rewrite Forall_forall. intros k Hk. split.
    - apply choice_free_guard. auto.
    - intros Hkl sd Hsd Hdd. apply insert_new_is_merge; auto. }
  pose proof (kid_loop_insert_full (edit_one false) merge_one (src_distinct false) kids src false kids HF
                [] src [] tgt eq_refl eq_refl Hs (shaped_kids_length _ _ _ Ht) Hd) as H.
  simpl in H. rewrite H. destruct (insert_conflicts kids src tgt); reflexivity.
Qed.

(** * key equality is an equivalence on well-formed key values
      (only the "Euclidean" half is needed: two keys equal to a third are equal) *)
Lemma wf_valueb_spec v : wf_valueb v = true -> wf_value v.
Proof.
  destruct v as [f z| | | | |id l|]; simpl; auto.
  - intros H. apply andb_true_iff in H as [Hf Hr]. split.
    + apply orb_true_iff in Hf. assumption.
    + unfold in_rangeb in Hr. unfold in_range. destruct (is_signed f).
      * apply in_sb_spec; assumption.
      * apply in_ub_spec; assumption.
  - apply in_sb_spec.
Qed.

Lemma value_eqb_denot x y : wf_value x -> wf_value y -> (value_eqb x y = true <-> same_denotation x y).
Proof.
  intros Hx Hy. destruct (equal_impl_spec x y Hx Hy) as [b [Hb Hd]].
  unfold value_eqb. rewrite Hb. exact Hd.
Qed.

Lemma value_eqb_euclid x y z : wf_valueb x = true -> wf_valueb y = true -> wf_valueb z = true ->
  value_eqb x y = true -> value_eqb x z = true -> value_eqb y z = true.
Proof.
  intros Hx Hy Hz. apply wf_valueb_spec in Hx, Hy, Hz.
  rewrite !value_eqb_denot by assumption. intros A B.
  eapply same_denotation_trans; [apply same_denotation_sym; exact A|exact B].
Qed.

Section LvalInd.
  Variable P : lval -> Prop.
  Hypothesis HV : forall v, P (LV v).
  Hypothesis HE : P LEmpty.
  Hypothesis HB : forall n, P (LBits n).
  Hypothesis HL : forall items, Forall P items -> P (LList items).
  Fixpoint lval_ind' (v : lval) : P v :=
    match v with
    | LV x => HV x
    | LEmpty => HE
    | LBits n => HB n
    | LList items =>
        HL items ((fix go (l : list lval) : Forall P l :=
                     match l with
                     | [] => Forall_nil P
                     | i :: l' => Forall_cons i (lval_ind' i) (go l')
                     end) items)
    end.
End LvalInd.

Definition list_eqb {A} (e : A -> A -> bool) : list A -> list A -> bool :=
  fix go (p q : list A) : bool :=
    match p, q with
    | [], [] => true
    | i :: p', j :: q' => e i j && go p' q'
    | _, _ => false
    end.

Lemma lval_eqb_bits x y : lval_eqb (LBits x) (LBits y) = list_eqb ident_eqb x y.
Proof. reflexivity. Qed.
Lemma lval_eqb_list x y : lval_eqb (LList x) (LList y) = list_eqb lval_eqb x y.
Proof. reflexivity. Qed.
Lemma wf_lvalb_list x : wf_lvalb (LList x) = forallb wf_lvalb x.
Proof. reflexivity. Qed.

Lemma ident_eqb_eq a b : ident_eqb a b = true <-> a = b.
Proof. unfold ident_eqb, bytes_eqb. rewrite Z.eqb_eq. apply lex_cmp_eq. Qed.

Lemma list_eqb_ident_eq x : forall y, list_eqb ident_eqb x y = true <-> x = y.
Proof.
  induction x as [|a x IH]; intros [|b y]; simpl; split; intros H; try discriminate; auto.
  - apply andb_true_iff in H as [A B]. apply ident_eqb_eq in A. apply IH in B. congruence.
  - inversion H; subst. apply andb_true_iff; split; [apply ident_eqb_eq|apply IH]; reflexivity.
Qed.

Lemma lval_eqb_euclid a : wf_lvalb a = true -> forall b c, wf_lvalb b = true -> wf_lvalb c = true ->
  lval_eqb a b = true -> lval_eqb a c = true -> lval_eqb b c = true.
Proof.
  induction a as [x| |n|items IH] using lval_ind'; intros Ha b c Hb Hc Hab Hac.
  - destruct b as [y| | |]; try discriminate Hab. destruct c as [z| | |]; try discriminate Hac.
    exact (value_eqb_euclid x y z Ha Hb Hc Hab Hac).
  - destruct b; try discriminate Hab. destruct c; try discriminate Hac. reflexivity.
  - destruct b as [| |y|]; try discriminate Hab. destruct c as [| |z|]; try discriminate Hac.
    rewrite lval_eqb_bits in *. apply list_eqb_ident_eq in Hab, Hac. subst. apply list_eqb_ident_eq. reflexivity.
  - destruct b as [| | |y]; try discriminate Hab. destruct c as [| | |z]; try discriminate Hac.
    rewrite lval_eqb_list in *. rewrite wf_lvalb_list in *.
    revert y z Ha Hb Hc Hab Hac. induction IH as [|i items Hi _ IHl]; intros [|j y] [|k z] Ha Hb Hc Hab Hac;
      simpl in *; try discriminate; auto.
    apply andb_true_iff in Ha as [Ha1 Ha]. apply andb_true_iff in Hb as [Hb1 Hb]. apply andb_true_iff in Hc as [Hc1 Hc].
    apply andb_true_iff in Hab as [E1 E2]. apply andb_true_iff in Hac as [F1 F2].
    apply andb_true_iff; split; [eapply Hi; eauto|eapply IHl; eauto].
Qed.

Lemma okey_eqb_euclid a b c : wf_okey a = true -> wf_okey b = true -> wf_okey c = true ->
  okey_eqb a b = true -> okey_eqb a c = true -> okey_eqb b c = true.
Proof.
  destruct a as [[x| |]|], b as [[y| |]|], c as [[z| |]|]; simpl; intros Ha Hb Hc Hab Hac; try discriminate.
  exact (lval_eqb_euclid _ Ha _ _ Hb Hc Hab Hac).
Qed.

Lemma key_eqb_euclid a : forall b c,
  forallb wf_okey a = true -> forallb wf_okey b = true -> forallb wf_okey c = true ->
  key_eqb a b = true -> key_eqb a c = true -> key_eqb b c = true.
Proof.
  induction a as [|x a IH]; intros [|y b] [|z c] Ha Hb Hc Hab Hac; simpl in *; try discriminate; auto.
  apply andb_true_iff in Ha as [Ha1 Ha]. apply andb_true_iff in Hb as [Hb1 Hb]. apply andb_true_iff in Hc as [Hc1 Hc].
  apply andb_true_iff in Hab as [E1 E2]. apply andb_true_iff in Hac as [F1 F2].
  apply andb_true_iff; split; [exact (okey_eqb_euclid _ _ _ Ha1 Hb1 Hc1 E1 F1)|exact (IH _ _ Ha Hb Hc E2 F2)].
Qed.

(** * Update *)
Lemma all_kids_and p q ks : forall c,
  all_kids (fun k d => p k d && q k d) ks c = all_kids p ks c && all_kids q ks c.
Proof.
  induction ks as [|k ks IH]; intros [|[d|] c]; simpl; auto.
  - rewrite IH. destruct (p k d), (q k d), (all_kids p ks c); simpl; reflexivity.
Qed.

Section UpdateKids.
  Variable rec : recfun.
  Variable mrec : snode -> dnode -> dnode -> bool -> dnode.
  Variable miss : snode -> dnode -> dnode -> bool.
  Variables ps pt : snode -> dnode -> bool.

  Lemma kid_loop_update_full kids sc ks :
    Forall (fun k => sguard k = [] /\
                     (is_leaf k = false -> forall sd td, shaped k sd = true -> shaped k td = true ->
                        ps k sd = true -> pt k td = true ->
                        rec k sd td false Update
                        = if miss k sd td then Err ENotFound else Ok (mrec k sd td false))) ks ->
    forall spre srest pre rest,
      sc = spre ++ srest -> length spre = length pre ->
      shaped_kids shaped ks srest = true -> shaped_kids shaped ks rest = true ->
      all_kids ps ks srest = true -> all_kids pt ks rest = true ->
      kid_loop false rec kids sc false Update ks (length pre) (pre ++ rest)
      = if missing_kids miss ks srest rest then Err ENotFound
        else Ok (pre ++ merge_kids mrec false ks srest rest).
  Proof.
    induction 1 as [|k ks [Hg Hk] _ IH]; intros spre srest pre rest Hsc Hlen Hs Ht Hps Hpt.
    - destruct srest, rest; simpl in *; try discriminate. reflexivity.
    - destruct srest as [|sd srest], rest as [|td rest]; simpl in Hs, Ht, Hps, Hpt; try discriminate.
      apply andb_true_iff in Hs as [Hsd Hs]. apply andb_true_iff in Ht as [Htd Ht].
      apply andb_true_iff in Hps as [Hps1 Hps]. apply andb_true_iff in Hpt as [Hpt1 Hpt].
      assert (Hnext : forall x,
                 kid_loop false rec kids sc false Update ks (S (length pre)) (pre ++ x :: rest)
                 = if missing_kids miss ks srest rest then Err ENotFound
                   else Ok (pre ++ x :: merge_kids mrec false ks srest rest)).
      { intros x.
        specialize (IH (spre ++ [sd]) srest (pre ++ [x]) rest).
        rewrite !app_length in IH. simpl in IH. rewrite !Nat.add_1_r in IH.
        rewrite <- !app_assoc in IH. simpl in IH.
        apply IH; auto. }
      assert (Hsrc : nth (length pre) sc None = sd).
      { subst sc. rewrite <- Hlen. apply nth_middle'. }
      cbn [kid_loop]. rewrite Hg. cbn [guard_selected negb].
      rewrite Hsrc, nth_middle'.
      destruct k as [m ty il dflt|m kk|m keys row]; cbn [merge_kids missing_kids orb].
      + cbn [strategy_eqb negb andb orb].
        destruct sd as [d|]; [rewrite set_nth_middle|]; apply Hnext.
      + specialize (Hk eq_refl).
        destruct sd as [sdn|]; cbn [orb]; [|apply Hnext].
        destruct td as [tdn|]; cbn [present orb negb]; [|reflexivity].
        rewrite Hk by assumption.
        destruct (miss (SCont m kk) sdn tdn); cbn [orb]; [reflexivity|].
        rewrite set_nth_middle. apply Hnext.
      + specialize (Hk eq_refl).
        destruct sd as [sdn|]; cbn [orb]; [|apply Hnext].
        destruct td as [tdn|]; cbn [present orb negb]; [|reflexivity].
        rewrite Hk by assumption.
        destruct (miss (SList m keys row) sdn tdn); cbn [orb]; [reflexivity|].
        rewrite set_nth_middle. apply Hnext.
  Qed.
End UpdateKids.

(** rows found by key *)
Lemma find_row_none keys key : forall rows i, find_row keys key rows i = None ->
  forall r, In r rows -> key_eqb (row_key keys r) key = false.
Proof.
  induction rows as [|r0 rows IH]; intros i H r Hr; [contradiction|].
  simpl in H. destruct (key_eqb (row_key keys r0) key) eqn:E; [discriminate|].
  destruct Hr as [<-|Hr]; [assumption|eauto].
Qed.

Lemma find_row_some keys key d : forall rows i j, find_row keys key rows i = Some j ->
  i <= j /\ j - i < length rows /\ key_eqb (row_key keys (nth (j - i) rows d)) key = true.
Proof.
  induction rows as [|r0 rows IH]; intros i j H; [discriminate|].
  simpl in H. destruct (key_eqb (row_key keys r0) key) eqn:E.
  - inversion H; subst. rewrite Nat.sub_diag. simpl. repeat split; auto; lia.
  - apply IH in H as (A & B & C). replace (j - i) with (S (j - S i)) by lia. simpl. repeat split; auto; lia.
Qed.

Lemma find_row_set_nth keys key d m : forall rows j i,
  key_eqb (row_key keys m) key = key_eqb (row_key keys (nth j rows d)) key ->
  find_row keys key (set_nth j m rows) i = find_row keys key rows i.
Proof.
  induction rows as [|r0 rows IH]; intros [|j] i H; simpl in *; auto.
  - rewrite H. reflexivity.
  - rewrite (IH j (S i) H). reflexivity.
Qed.

Lemma nth_set_nth_other {A} (x d : A) : forall l i j, i <> j -> nth j (set_nth i x l) d = nth j l d.
Proof.
  induction l as [|a l IH]; intros [|i] [|j] H; simpl; auto; try congruence.
Qed.

Lemma lookup_row_usable keys sr rows j : lookup_row keys sr rows = Some j -> key_usable (row_key keys sr) = true.
Proof. unfold lookup_row. destruct (key_usable (row_key keys sr)); [reflexivity|discriminate]. Qed.

Lemma lookup_row_key keys sr rows j d : lookup_row keys sr rows = Some j ->
  j < length rows /\ key_eqb (row_key keys (nth j rows d)) (row_key keys sr) = true.
Proof.
  unfold lookup_row. destruct (key_usable (row_key keys sr)); [|discriminate].
  intros H. apply (find_row_some _ _ d) in H as (A & B & C). rewrite Nat.sub_0_r in *. auto.
Qed.

(** an earlier source row never equals a later usable one *)
Lemma rows_distinct_seen keys : forall rows seen r, In r seen -> rows_distinct keys seen rows = true ->
  forall sr, In sr rows -> key_usable (row_key keys sr) = true ->
  key_eqb (row_key keys r) (row_key keys sr) = false.
Proof.
  induction rows as [|a rows IH]; intros seen r Hr Hd sr Hsr Hu; [contradiction|].
  simpl in Hd. apply andb_true_iff in Hd as [Ha Hd].
  destruct Hsr as [<-|Hsr].
  - unfold lookup_row in Ha. rewrite Hu in Ha.
    destruct (find_row keys (row_key keys a) seen 0) eqn:E; [discriminate|].
    eapply find_row_none; eauto.
  - apply (IH (seen ++ [a]) r); auto. apply in_or_app; left; assumption.
Qed.

Lemma rows_distinct_head keys seen sr rows : rows_distinct keys seen (sr :: rows) = true ->
  rows_distinct keys (seen ++ [sr]) rows = true /\
  forall sr2, In sr2 rows -> key_usable (row_key keys sr2) = true ->
    key_eqb (row_key keys sr) (row_key keys sr2) = false.
Proof.
  intros H. simpl in H. apply andb_true_iff in H as [_ H]. split; [assumption|].
  intros sr2 H2 Hu. apply (rows_distinct_seen keys rows (seen ++ [sr]) sr); auto.
  apply in_or_app; right; left; reflexivity.
Qed.

Section UpdateRows.
  Variable rec : recfun.
  Variable keys : list nat.
  Variable row : snode.
  Variables ps pt : snode -> dnode -> bool.
  Hypothesis Hrec : forall sr tr, shaped row sr = true -> shaped row tr = true ->
    ps row sr = true -> pt row tr = true ->
    rec row sr tr false Update
    = if update_missing row sr tr then Err ENotFound else Ok (merge_one row sr tr false).
  Hypothesis Hkeys : forallb (key_leaf_ok false (skids row)) keys = true.
  Hypothesis Hwf : wf_schema row = true.

  Definition row_missing (trows : list dnode) (sr : dnode) : bool :=
    match lookup_row keys sr trows with
    | None => true
    | Some j => update_missing row sr (nth j trows (DCont []))
    end.

  Lemma row_loop_update_full (trows : list dnode) :
    forallb (shaped row) trows = true -> forallb (pt row) trows = true ->
    forallb (fun r => forallb wf_okey (row_key keys r)) trows = true ->
    forall srows seen acc,
      forallb (shaped row) srows = true -> forallb (ps row) srows = true ->
      forallb (fun r => forallb wf_okey (row_key keys r)) srows = true ->
      rows_distinct keys seen srows = true ->
      forallb (shaped row) acc = true ->
      (forall sr, In sr srows -> lookup_row keys sr acc = lookup_row keys sr trows) ->
      (forall sr j, In sr srows -> lookup_row keys sr trows = Some j ->
                    nth j acc (DCont []) = nth j trows (DCont [])) ->
      row_loop rec keys row Update srows acc
      = if existsb (row_missing trows) srows then Err ENotFound
        else Ok (merge_rows merge_one keys row srows acc).
  Proof.
    intros Hts Htp Htw. unfold merge_rows.
    induction srows as [|sr srows IH]; intros seen acc Hs Hp Hw Hd Ha I1 I2; [reflexivity|].
    simpl in Hs, Hp, Hw. apply andb_true_iff in Hs as [Hsr Hs]. apply andb_true_iff in Hp as [Hpr Hp].
    apply andb_true_iff in Hw as [Hwr Hw].
    destruct (rows_distinct_head _ _ _ _ Hd) as [Hd' Hne].
    cbn [row_loop fold_left existsb]. fold (lookup_row keys sr acc).
    unfold row_missing at 1. rewrite (I1 sr (or_introl eq_refl)).
    destruct (lookup_row keys sr trows) as [j|] eqn:E; [|reflexivity].
    rewrite (I2 sr j (or_introl eq_refl) E).
    destruct (lookup_row_key keys sr trows j (DCont []) E) as [Hj Hkj].
    pose proof (lookup_row_usable _ _ _ _ E) as Hu.
    set (tj := nth j trows (DCont [])) in *.
    assert (Htj : shaped row tj = true) by (apply forallb_nth; assumption).
    assert (Hptj : pt row tj = true) by (apply (forallb_nth (pt row)); assumption).
    assert (Hwtj : forallb wf_okey (row_key keys tj) = true)
      by (apply (forallb_nth (fun r => forallb wf_okey (row_key keys r))); assumption).
    rewrite Hrec by assumption.
    destruct (update_missing row sr tj); cbn [orb]; [reflexivity|].
    set (m := merge_one row sr tj false).
    assert (Hm : shaped row m = true) by (apply merge_shaped; assumption).
    assert (Hkm : row_key keys m = row_key keys sr) by (apply row_key_merge_usable; assumption).
    (* a later source row does not match row j, before or after the merge *)
    assert (Hoff : forall sr2, In sr2 srows -> key_usable (row_key keys sr2) = true ->
               key_eqb (row_key keys tj) (row_key keys sr2) = false).
    { intros sr2 H2 Hu2. destruct (key_eqb (row_key keys tj) (row_key keys sr2)) eqn:X; [|reflexivity].
      rewrite forallb_forall in Hw.
      pose proof (key_eqb_euclid _ _ _ Hwtj Hwr (Hw sr2 H2) Hkj X) as Y.
      rewrite (Hne sr2 H2 Hu2) in Y. discriminate. }
    assert (Hacc_j : nth j acc (DCont []) = tj) by (apply (I2 sr j (or_introl eq_refl) E)).
    apply (IH (seen ++ [sr]) (set_nth j m acc)); auto.
    - apply forallb_set_nth; assumption.
    - intros sr2 H2. rewrite <- (I1 sr2 (or_intror H2)). unfold lookup_row.
      destruct (key_usable (row_key keys sr2)) eqn:Hu2; [|reflexivity].
      apply (find_row_set_nth keys _ (DCont [])). rewrite Hkm, Hacc_j.
      rewrite (Hne sr2 H2 Hu2), (Hoff sr2 H2 Hu2). reflexivity.
    - intros sr2 j2 H2 E2. rewrite <- (I2 sr2 j2 (or_intror H2) E2).
      apply nth_set_nth_other. intros ->.
      destruct (lookup_row_key keys sr2 trows j2 (DCont []) E2) as [_ K].
      fold tj in K. rewrite (Hoff sr2 H2 (lookup_row_usable _ _ _ _ E2)) in K. discriminate.
  Qed.
End UpdateRows.

Definition upd_src (k : snode) (d : dnode) : bool := src_distinct true k d && keys_wf k d.

(** Update: missing container / list entry anywhere the source addresses, else the merge *)
Theorem update_is_merge_or_missing s : wf_schema s = true -> choice_free s = true -> keys_ok false s = true ->
  is_leaf s = false -> forall src tgt, shaped s src = true -> shaped s tgt = true ->
  src_distinct true s src = true -> keys_wf s src = true -> keys_wf s tgt = true ->
  edit_one false s src tgt false Update
  = if update_missing s src tgt then Err ENotFound else Ok (merge_one s src tgt false).
Proof.
  induction s as [m ty il d|m kids IH|m keys row IH] using snode_ind';
    intros Hwf Hcf Hko Hnl src tgt Hs Ht Hd Hws Hwt.
  - discriminate Hnl.
  - destruct src as [|sc|], tgt as [|tc|]; simpl in Hs, Ht; try discriminate.
    cbn [edit_one merge_one update_missing].
    simpl in Hwf, Hcf, Hko, Hd, Hws, Hwt. apply andb_true_iff in Hcf as [_ Hcf].
    rewrite forallb_forall in Hwf, Hcf, Hko.
    assert (HF : Forall (fun k => sguard k = [] /\
                     (is_leaf k = false -> forall sd td, shaped k sd = true -> shaped k td = true ->
                        upd_src k sd = true -> keys_wf k td = true ->
                        edit_one false k sd td false Update
                        = if update_missing k sd td then Err ENotFound else Ok (merge_one k sd td false))) kids).
    { rewrite Forall_forall in *. intros k Hk. split.
      - apply choice_free_guard. auto.
      - intros Hkl sd td Hsd Htd Hu Hw. unfold upd_src in Hu. apply andb_true_iff in Hu as [Hu1 Hu2].
        apply IH; auto. }
    assert (Hps : all_kids upd_src kids sc = true).
    { unfold upd_src. rewrite all_kids_and, Hd, Hws. reflexivity. }
    pose proof (kid_loop_update_full (edit_one false) merge_one update_missing upd_src keys_wf kids sc kids HF
                  [] sc [] tc eq_refl eq_refl Hs Ht Hps Hwt) as H.
    simpl in H. rewrite H. destruct (missing_kids update_missing kids sc tc); reflexivity.
  - destruct src as [| |srows], tgt as [| |trows]; simpl in Hs, Ht; try discriminate.
    cbn [edit_one merge_one update_missing].
    simpl in Hwf, Hcf, Hko, Hd, Hws, Hwt. apply andb_true_iff in Hwf as [Hrl Hwf]. apply negb_true_iff in Hrl.
    apply andb_true_iff in Hcf as [_ Hcf]. apply andb_true_iff in Hko as [Hk Hko].
    apply andb_true_iff in Hd as [Hd Hdd].
    assert (Hrec : forall sr tr, shaped row sr = true -> shaped row tr = true ->
               upd_src row sr = true -> keys_wf row tr = true ->
               edit_one false row sr tr false Update
               = if update_missing row sr tr then Err ENotFound else Ok (merge_one row sr tr false)).
    { intros sr tr Hsr Htr Hu Hw. unfold upd_src in Hu. apply andb_true_iff in Hu as [Hu1 Hu2]. apply IH; auto. }
    assert (split_wf : forall rows,
               forallb (fun r => forallb wf_okey (row_key keys r) && keys_wf row r) rows = true ->
               forallb (fun r => forallb wf_okey (row_key keys r)) rows = true /\ forallb (keys_wf row) rows = true).
    { induction rows as [|r rows IHr]; simpl; intros H; [auto|].
      apply andb_true_iff in H as [H1 H2]. apply andb_true_iff in H1 as [A B].
      destruct (IHr H2) as [C D]. rewrite A, B, C, D. auto. }
    destruct (split_wf _ Hws) as [Hsk Hsw]. destruct (split_wf _ Hwt) as [Htk Htw].
    assert (Hps : forallb (upd_src row) srows = true).
    { simpl in Hdd. clear -Hdd Hsw. induction srows as [|r rows IHr]; simpl in *; [reflexivity|].
      apply andb_true_iff in Hdd as [A B]. apply andb_true_iff in Hsw as [C D].
      unfold upd_src at 1. rewrite A, C. simpl. auto. }
    pose proof (row_loop_update_full (edit_one false) keys row upd_src keys_wf Hrec Hk Hwf trows Ht Htw Htk
                  srows [] trows Hs Hps Hsk Hd Ht (fun _ _ => eq_refl) (fun _ _ _ _ => eq_refl)) as H.
    rewrite H. unfold row_missing.
    destruct (existsb _ srows); reflexivity.
Qed.

Theorem update_full kids src tgt :
  forallb wf_schema kids = true -> forallb choice_free kids = true -> forallb (keys_ok false) kids = true ->
  shaped_kids shaped kids src = true -> shaped_kids shaped kids tgt = true ->
  all_kids (src_distinct true) kids src = true ->
  all_kids keys_wf kids src = true -> all_kids keys_wf kids tgt = true ->
  edit_content false kids src tgt Update =
    if missing_kids update_missing kids src tgt then Err ENotFound else Ok (merge_content kids src tgt).
Proof.
  intros Hwf Hcf Hko Hs Ht Hd Hws Hwt. unfold edit_content, merge_content.
  rewrite (update_is_merge_or_missing (SCont (mkMeta [] [] true [] None) kids)); simpl; auto.
  destruct (missing_kids update_missing kids src tgt); reflexivity.
Qed.
