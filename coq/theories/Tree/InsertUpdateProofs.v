(** C03: the full statements for Insert and Update - the editor model decides exactly
    "conflict / missing, else the merge" - under the hypotheses they need:
      - [keys_ok]: every key position of a list names a leaf of the row (for Insert: one without
        a schema default), as YANG requires of list keys;
      - [rows_distinct]: no row of a source list finds an earlier row of the same list by key;
      - for Update, [keys_wf]: the key leaves of source and target rows hold well-formed values
        (Val/Proofs.v [wf_value]), on which val.Equal is an equivalence.
    Counter-examples without each of them are at the end of the file. *)
From Coq Require Import ZArith List Bool Lia Arith Strings.Byte.
From YV Require Import Base.Wrap Val.Model Val.Proofs Tree.Schema Tree.Editor Tree.Merge Tree.EditorProofs.
Import ListNotations.
Open Scope nat_scope.

(** * the extra hypotheses *)

(** "every present kid satisfies [rec]" *)
Definition all_kids (rec : snode -> dnode -> bool) : list snode -> content -> bool :=
  fix go (ks : list snode) (c : content) {struct ks} : bool :=
    match ks, c with
    | k :: ks', d :: c' => (match d with None => true | Some dn => rec k dn end) && go ks' c'
    | _, _ => true
    end.

(** schema: the key positions of every list are leaves of its row; [nodflt]: without default *)
Definition key_leaf_ok (nodflt : bool) (kk : list snode) (i : nat) : bool :=
  match nth_error kk i with
  | Some (SLeaf _ _ _ None) => true
  | Some (SLeaf _ _ _ (Some _)) => negb nodflt
  | _ => false
  end.
Fixpoint keys_ok (nodflt : bool) (s : snode) : bool :=
  match s with
  | SLeaf _ _ _ _ => true
  | SCont _ kids => forallb (keys_ok nodflt) kids
  | SList _ keys row => forallb (key_leaf_ok nodflt (skids row)) keys && keys_ok nodflt row
  end.

(** source: no row finds an earlier row of its list by key ([lookup_row] ignores unusable keys) *)
Fixpoint rows_distinct (keys : list nat) (seen rows : list dnode) : bool :=
  match rows with
  | [] => true
  | r :: tl => (match lookup_row keys r seen with None => true | Some _ => false end)
               && rows_distinct keys (seen ++ [r]) tl
  end.
(** [deep = false]: lists reached through containers only (below a list entry Insert continues as
    Upsert, which never fails); [deep = true]: every list *)
Fixpoint src_distinct (deep : bool) (s : snode) (d : dnode) {struct s} : bool :=
  match s, d with
  | SCont _ kids, DCont c => all_kids (src_distinct deep) kids c
  | SList _ keys row, DList rows =>
      rows_distinct keys [] rows && (negb deep || forallb (src_distinct deep row) rows)
  | _, _ => true
  end.

(** data: key leaves hold well-formed values *)
Definition wf_valueb (v : value) : bool :=
  match v with
  | VInt f z => (is_signed f || is_unsigned f) && in_rangeb f z
  | VEnum id _ => in_sb 32 id
  | _ => true
  end.
Fixpoint wf_lvalb (v : lval) : bool :=
  match v with
  | LV x => wf_valueb x
  | LList items => (fix all (l : list lval) := match l with [] => true | i :: l' => wf_lvalb i && all l' end) items
  | _ => true
  end.
Definition wf_okey (o : option dnode) : bool :=
  match o with Some (DLeaf v) => wf_lvalb v | _ => true end.
Fixpoint keys_wf (s : snode) (d : dnode) {struct s} : bool :=
  match s, d with
  | SCont _ kids, DCont c => all_kids keys_wf kids c
  | SList _ keys row, DList rows =>
      forallb (fun r => forallb wf_okey (row_key keys r) && keys_wf row r) rows
  | _, _ => true
  end.

(** * plumbing *)
Lemma all_kids_nth rec ks : forall c i k d,
  all_kids rec ks c = true -> nth_error ks i = Some k -> nth i c None = Some d -> rec k d = true.
Proof.
  induction ks as [|k0 ks IH]; intros [|x c] i k d H Hk Hd; simpl in H;
    try (destruct i; discriminate).
  apply andb_true_iff in H as [Hx H]. destruct i as [|i]; simpl in *.
  - inversion Hk; subst. assumption.
  - eapply IH; eauto.
Qed.

Lemma nth_empty_content kids i : nth i (empty_content kids) None = None.
Proof. revert i; induction kids as [|k kids IH]; intros [|i]; simpl; auto. Qed.

Lemma empty_content_length kids : length (empty_content kids) = length kids.
Proof. apply map_length. Qed.

Lemma insert_conflicts_empty ks : forall sc, insert_conflicts ks sc (empty_content ks) = false.
Proof.
  induction ks as [|k ks IH]; intros [|sd sc]; simpl; auto.
  rewrite andb_false_r. simpl. apply IH.
Qed.

Lemma key_leaf_ok_inv nodflt kk i : key_leaf_ok nodflt kk i = true ->
  exists m ty il dflt, nth_error kk i = Some (SLeaf m ty il dflt) /\ (nodflt = true -> dflt = None).
Proof.
  unfold key_leaf_ok. destruct (nth_error kk i) as [[m ty il [v|]| |]|]; try discriminate; intros H.
  - exists m, ty, il, (Some v). split; [reflexivity|]. intros ->. discriminate.
  - exists m, ty, il, None. auto.
Qed.

(** the key of a merged row is the key of the source row: for a created row when key leaves have
    no default, for any row when the source key is usable *)
Lemma row_key_merge_new keys row sr :
  forallb (key_leaf_ok true (skids row)) keys = true -> shaped row sr = true ->
  row_key keys (merge_one row sr (empty_node row) true) = row_key keys sr.
Proof.
  intros Hk Hs. unfold row_key. apply map_ext_in. intros i Hi.
  rewrite forallb_forall in Hk. destruct (key_leaf_ok_inv _ _ _ (Hk i Hi)) as (m & ty & il & dflt & Hn & Hd).
  specialize (Hd eq_refl). subst dflt.
  destruct row as [|mr kk|]; simpl in Hn; try (destruct i; discriminate).
  destruct sr as [|sc|]; simpl in Hs; try discriminate. simpl.
  pose proof (shaped_kids_length _ _ _ Hs) as Hl.
  rewrite (merge_leaf_law merge_one true kk sc (empty_content kk) i m ty il None Hl (empty_content_length kk) Hn).
  rewrite nth_empty_content. destruct (nth i sc None); reflexivity.
Qed.

Lemma row_key_merge_usable keys row sr tr c :
  forallb (key_leaf_ok false (skids row)) keys = true -> shaped row sr = true -> shaped row tr = true ->
  key_usable (row_key keys sr) = true ->
  row_key keys (merge_one row sr tr c) = row_key keys sr.
Proof.
  intros Hk Hs Ht Hu. unfold row_key. apply map_ext_in. intros i Hi.
  rewrite forallb_forall in Hk. destruct (key_leaf_ok_inv _ _ _ (Hk i Hi)) as (m & ty & il & dflt & Hn & _).
  destruct row as [|mr kk|]; simpl in Hn; try (destruct i; discriminate).
  destruct sr as [|sc|]; simpl in Hs; try discriminate.
  destruct tr as [|tc|]; simpl in Ht; try discriminate. simpl.
  rewrite (merge_leaf_law merge_one c kk sc tc i m ty il dflt (shaped_kids_length _ _ _ Hs) (shaped_kids_length _ _ _ Ht) Hn).
  unfold key_usable in Hu. apply andb_true_iff in Hu as [_ Hu]. rewrite forallb_forall in Hu.
  specialize (Hu (nth i sc None)). unfold row_key in Hu. simpl in Hu.
  rewrite in_map_iff in Hu. specialize (Hu (ex_intro _ i (conj eq_refl Hi))).
  destruct (nth i sc None); [reflexivity|discriminate].
Qed.

Lemma find_row_map_key keys key (f : dnode -> dnode) : forall rows i,
  (forall r, In r rows -> row_key keys (f r) = row_key keys r) ->
  find_row keys key (map f rows) i = find_row keys key rows i.
Proof.
  induction rows as [|r rows IH]; intros i H; simpl; [reflexivity|].
  rewrite (H r (or_introl eq_refl)). destruct (key_eqb (row_key keys r) key); [reflexivity|].
  apply IH. intros r' Hr'. apply H. right; assumption.
Qed.

Lemma lookup_row_map_key keys sr (f : dnode -> dnode) rows :
  (forall r, In r rows -> row_key keys (f r) = row_key keys r) ->
  lookup_row keys sr (map f rows) = lookup_row keys sr rows.
Proof. intros H. unfold lookup_row. destruct (key_usable (row_key keys sr)); [|reflexivity]. apply find_row_map_key; assumption. Qed.

(** * Insert *)
Section InsertFull.
  Variable rec : recfun.
  Variable mrec : snode -> dnode -> dnode -> bool -> dnode.
  Variable dist : snode -> dnode -> bool.

  Lemma kid_loop_insert_full kids sc new ks :
    Forall (fun k => sguard k = [] /\
                     (is_leaf k = false -> forall sd, shaped k sd = true -> dist k sd = true ->
                        rec k sd (empty_node k) true Insert = Ok (mrec k sd (empty_node k) true))) ks ->
    forall spre srest pre rest,
      sc = spre ++ srest -> length spre = length pre ->
      shaped_kids shaped ks srest = true -> length rest = length ks -> all_kids dist ks srest = true ->
      kid_loop false rec kids sc new Insert ks (length pre) (pre ++ rest)
      = if insert_conflicts ks srest rest then Err EConflict
        else Ok (pre ++ merge_kids mrec new ks srest rest).
  Proof.
    induction 1 as [|k ks [Hg Hk] _ IH]; intros spre srest pre rest Hsc Hlen Hs Ht Hd.
    - destruct srest, rest; simpl in *; try discriminate. reflexivity.
    - destruct srest as [|sd srest], rest as [|td rest]; simpl in Hs, Ht, Hd; try discriminate.
      apply andb_true_iff in Hs as [Hsd Hs]. apply andb_true_iff in Hd as [Hdd Hd].
      assert (Hnext : forall x,
                 kid_loop false rec kids sc new Insert ks (S (length pre)) (pre ++ x :: rest)
                 = if insert_conflicts ks srest rest then Err EConflict
                   else Ok (pre ++ x :: merge_kids mrec new ks srest rest)).
      { intros x.
        specialize (IH (spre ++ [sd]) srest (pre ++ [x]) rest).
        rewrite !app_length in IH. simpl in IH. rewrite !Nat.add_1_r in IH.
        rewrite <- !app_assoc in IH. simpl in IH.
        apply IH; auto. }
      assert (Hsrc : nth (length pre) sc None = sd).
      { subst sc. rewrite <- Hlen. apply nth_middle'. }
      cbn [kid_loop]. rewrite Hg. cbn [guard_selected negb].
      rewrite Hsrc, nth_middle'.
      destruct k as [m ty il dflt|m kk|m keys row]; cbn [merge_kids insert_conflicts is_leaf negb andb orb].
      + cbn [strategy_eqb negb andb orb].
        destruct sd as [d|].
        * rewrite set_nth_middle. apply Hnext.
        * destruct new; cbn [andb orb].
          -- destruct dflt as [v|]; cbn [option_map].
             ++ rewrite set_nth_middle. apply Hnext.
             ++ apply Hnext.
          -- apply Hnext.
      + specialize (Hk eq_refl).
        destruct sd as [sdn|]; cbn [present andb orb]; [|apply Hnext].
        destruct td as [tdn|]; cbn [present andb orb negb]; [reflexivity|].
        rewrite Hk by assumption. rewrite set_nth_middle. apply Hnext.
      + specialize (Hk eq_refl).
        destruct sd as [sdn|]; cbn [present andb orb]; [|apply Hnext].
        destruct td as [tdn|]; cbn [present andb orb negb]; [reflexivity|].
        rewrite Hk by assumption. rewrite set_nth_middle. apply Hnext.
  Qed.
End InsertFull.

Definition merge_new (row : snode) (sr : dnode) : dnode := merge_one row sr (empty_node row) true.

Lemma row_loop_insert_full rec keys row :
  (forall sr, shaped row sr = true -> rec row sr (empty_node row) true Upsert = Ok (merge_new row sr)) ->
  forallb (key_leaf_ok true (skids row)) keys = true ->
  forall srows seen, forallb (shaped row) srows = true -> forallb (shaped row) seen = true ->
    rows_distinct keys seen srows = true ->
    row_loop rec keys row Insert srows (map (merge_new row) seen) = Ok (map (merge_new row) (seen ++ srows))
    /\ merge_rows merge_one keys row srows (map (merge_new row) seen) = map (merge_new row) (seen ++ srows).
Proof.
  intros Hrec Hk. unfold merge_rows.
  induction srows as [|sr srows IH]; intros seen Hs Hseen Hd.
  - rewrite app_nil_r. split; reflexivity.
  - simpl in Hs, Hd. apply andb_true_iff in Hs as [Hsr Hs]. apply andb_true_iff in Hd as [Hd1 Hd].
    assert (Hlook : lookup_row keys sr (map (merge_new row) seen) = None).
    { rewrite lookup_row_map_key.
      - destruct (lookup_row keys sr seen); [discriminate|reflexivity].
      - intros r Hr. apply row_key_merge_new; [assumption|].
        rewrite forallb_forall in Hseen. auto. }
    assert (Hseen' : forallb (shaped row) (seen ++ [sr]) = true).
    { apply forallb_app'; [assumption|]. simpl. rewrite Hsr. reflexivity. }
    destruct (IH (seen ++ [sr]) Hs Hseen' Hd) as [A B].
    rewrite map_app in A, B. simpl in A, B. rewrite <- app_assoc in A, B. simpl in A, B.
    cbn [row_loop fold_left]. fold (lookup_row keys sr (map (merge_new row) seen)).
    rewrite Hlook. rewrite Hrec by assumption. split; assumption.
Qed.

(** Insert into a node this edit created: always the merge *)
Theorem insert_new_is_merge s : wf_schema s = true -> choice_free s = true -> keys_ok true s = true ->
  is_leaf s = false -> forall src, shaped s src = true -> src_distinct false s src = true ->
  edit_one false s src (empty_node s) true Insert = Ok (merge_one s src (empty_node s) true).
Proof.
  induction s as [m ty il d|m kids IH|m keys row IH] using snode_ind'; intros Hwf Hcf Hko Hnl src Hs Hd.
  - discriminate Hnl.
  - destruct src as [|sc|]; simpl in Hs; try discriminate.
    cbn [edit_one merge_one empty_node].
    simpl in Hwf, Hcf, Hko, Hd. apply andb_true_iff in Hcf as [_ Hcf].
    rewrite forallb_forall in Hwf, Hcf, Hko.
    assert (HF : Forall (fun k => sguard k = [] /\
                     (is_leaf k = false -> forall sd, shaped k sd = true -> src_distinct false k sd = true ->
                        edit_one false k sd (empty_node k) true Insert = Ok (merge_one k sd (empty_node k) true))) kids).
    { rewrite Forall_forall in *. intros k Hk. split.
      - apply choice_free_guard. auto.
      - intros Hkl sd Hsd Hdd. apply IH; auto. }
    pose proof (kid_loop_insert_full (edit_one false) merge_one (src_distinct false) kids sc true kids HF
                  [] sc [] (empty_content kids) eq_refl eq_refl Hs (empty_content_length kids) Hd) as H.
    simpl in H. rewrite H, insert_conflicts_empty. reflexivity.
  - destruct src as [| |srows]; simpl in Hs; try discriminate.
    cbn [edit_one merge_one empty_node].
    simpl in Hwf, Hcf, Hko, Hd. apply andb_true_iff in Hwf as [Hrl Hwf]. apply negb_true_iff in Hrl.
    apply andb_true_iff in Hcf as [_ Hcf]. apply andb_true_iff in Hko as [Hk Hko].
    apply andb_true_iff in Hd as [Hd _].
    assert (Hrec : forall sr, shaped row sr = true ->
               edit_one false row sr (empty_node row) true Upsert = Ok (merge_new row sr)).
    { intros sr Hsr. apply upsert_is_merge; auto. apply shaped_empty_node; assumption. }
    destruct (row_loop_insert_full (edit_one false) keys row Hrec Hk srows [] Hs eq_refl Hd) as [A B].
    simpl in A, B. rewrite A, B. reflexivity.
Qed.

Theorem insert_full kids src tgt :
  forallb wf_schema kids = true -> forallb choice_free kids = true -> forallb (keys_ok true) kids = true ->
  shaped_kids shaped kids src = true -> shaped_kids shaped kids tgt = true ->
  all_kids (src_distinct false) kids src = true ->
  edit_content false kids src tgt Insert =
    if insert_conflicts kids src tgt then Err EConflict else Ok (merge_content kids src tgt).
Proof.
  intros Hwf Hcf Hko Hs Ht Hd. unfold edit_content, merge_content. cbn [edit_one].
  rewrite forallb_forall in Hwf, Hcf, Hko.
  assert (HF : Forall (fun k => sguard k = [] /\
                   (is_leaf k = false -> forall sd, shaped k sd = true -> src_distinct false k sd = true ->
                      edit_one false k sd (empty_node k) true Insert = Ok (merge_one k sd (empty_node k) true))) kids).
  { rewrite Forall_forall. intros k Hk. split.
    - apply choice_free_guard. auto.
    - intros Hkl sd Hsd Hdd. apply insert_new_is_merge; auto. }
  pose proof (kid_loop_insert_full (edit_one false) merge_one (src_distinct false) kids src false kids HF
                [] src [] tgt eq_refl eq_refl Hs (shaped_kids_length _ _ _ Ht) Hd) as H.
  simpl in H. rewrite H. destruct (insert_conflicts kids src tgt); reflexivity.
Qed.
