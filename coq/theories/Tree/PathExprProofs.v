(** Facts about Tree/PathExpr.v: the repaired match never panics and decides the prefix order; the
    three PathMatch* predicates are the declarative [selects] / [leads] / [selects_exactly]; the
    parser never runs out of fuel; the match before the repair panics. *)
From Coq Require Import ZArith List Bool Lia Strings.Byte.
From YV Require Import Val.Model Val.Proofs Tree.Schema Tree.PathExpr.
Import ListNotations.
Open Scope Z_scope.

(** * equality and prefix on ident lists *)
Lemma ident_eqb_eq a b : ident_eqb a b = true <-> a = b.
Proof. unfold ident_eqb, bytes_eqb. rewrite Z.eqb_eq. apply lex_cmp_eq. Qed.
Lemma ident_eqb_refl a : ident_eqb a a = true.
Proof. now apply ident_eqb_eq. Qed.

Lemma ident_list_eqb_eq a b : ident_list_eqb a b = true <-> a = b.
Proof.
  revert b; induction a as [|x a IH]; intros [|y b]; simpl; try (split; congruence).
  rewrite andb_true_iff, ident_eqb_eq, IH. split; [intros [-> ->]; reflexivity|intros H; inversion H; auto].
Qed.
Lemma ident_list_eqb_refl a : ident_list_eqb a a = true.
Proof. now apply ident_list_eqb_eq. Qed.
Lemma ident_list_eqb_sym a b : ident_list_eqb a b = ident_list_eqb b a.
Proof.
  destruct (ident_list_eqb a b) eqn:E.
  - apply ident_list_eqb_eq in E; subst. symmetry; apply ident_list_eqb_refl.
  - destruct (ident_list_eqb b a) eqn:F; auto. apply ident_list_eqb_eq in F; subst.
    rewrite ident_list_eqb_refl in E; discriminate.
Qed.
Lemma ident_list_eqb_rev a b : ident_list_eqb (rev a) (rev b) = ident_list_eqb a b.
Proof.
  destruct (ident_list_eqb a b) eqn:E.
  - apply ident_list_eqb_eq in E; subst. apply ident_list_eqb_refl.
  - destruct (ident_list_eqb (rev a) (rev b)) eqn:F; auto. apply ident_list_eqb_eq in F.
    apply (f_equal (@rev _)) in F. rewrite !rev_involutive in F. subst.
    rewrite ident_list_eqb_refl in E; discriminate.
Qed.
Lemma ident_list_eqb_length a b : ident_list_eqb a b = true -> length a = length b.
Proof. intros H; apply ident_list_eqb_eq in H; now subst. Qed.

Lemma is_prefix_spec a b : is_prefix a b = true <-> exists t, b = a ++ t.
Proof.
  revert b; induction a as [|x a IH]; intros b; simpl.
  - split; eauto.
  - destruct b as [|y b].
    + split; [discriminate|intros [t H]; discriminate].
    + rewrite andb_true_iff, ident_eqb_eq, IH. split.
      * intros [-> [t ->]]. now exists t.
      * intros [t H]. inversion H; subst. split; eauto.
Qed.
Lemma is_prefix_firstn a b : (length a <= length b)%nat ->
  is_prefix a b = ident_list_eqb a (firstn (length a) b).
Proof.
  revert b; induction a as [|x a IH]; intros b Hl; simpl.
  - reflexivity.
  - destruct b as [|y b]; simpl in *; [lia|]. rewrite IH by lia. reflexivity.
Qed.
Lemma is_prefix_longer a b : (length b < length a)%nat -> is_prefix a b = false.
Proof.
  intros Hl. destruct (is_prefix a b) eqn:E; auto. apply is_prefix_spec in E as [t ->].
  rewrite app_length in Hl; lia.
Qed.
Lemma is_prefix_same_length a b : length a = length b -> is_prefix a b = ident_list_eqb a b.
Proof.
  intros Hl. rewrite is_prefix_firstn by lia. rewrite Hl, firstn_all. reflexivity.
Qed.

(** * match *)
Lemma match_loop_nil segs i j : match_loop segs [] i j = if i <? 0 then Some true else None.
Proof. reflexivity. Qed.
Lemma match_loop_cons segs x tl i j :
  match_loop segs (x :: tl) i j =
  if i <? 0 then Some false
  else if j =? i then (if ident_eqb x (nthZ i segs) then match_loop segs tl (i - 1) (j - 1) else Some false)
       else match_loop segs tl i (j - 1).
Proof. reflexivity. Qed.

Lemma lenZ_cons {A} (x : A) l : lenZ (x :: l) = lenZ l + 1.
Proof. unfold lenZ. simpl length. lia. Qed.
Lemma lenZ_nonneg {A} (l : list A) : 0 <= lenZ l.
Proof. unfold lenZ; lia. Qed.

Lemma firstn_succ_nth (l : list ident) n : (n < length l)%nat ->
  firstn (S n) l = firstn n l ++ [nth n l []].
Proof.
  revert l; induction n as [|n IH]; intros [|x l] Hl; simpl in *; try lia; auto.
  f_equal. apply IH. lia.
Qed.

(** lock-step phase: j = i = |rp| - 1 *)
Lemma match_loop_lock rp : forall segs, (length rp <= length segs)%nat ->
  match_loop segs rp (lenZ rp - 1) (lenZ rp - 1)
  = Some (ident_list_eqb rp (rev (firstn (length rp) segs))).
Proof.
  induction rp as [|x tl IH]; intros segs Hl.
  - reflexivity.
  - rewrite match_loop_cons. rewrite lenZ_cons.
    replace (lenZ tl + 1 - 1) with (lenZ tl) by lia.
    pose proof (lenZ_nonneg tl).
    destruct (lenZ tl <? 0) eqn:E; [lia|]. rewrite Z.eqb_refl.
    simpl length in *. rewrite firstn_succ_nth by lia. rewrite rev_app_distr. simpl.
    unfold nthZ, lenZ. rewrite Nat2Z.id.
    destruct (ident_eqb x (nth (length tl) segs [])); simpl; auto.
    apply IH. lia.
Qed.

(** skip phase: the elements of the candidate below the compared segments *)
Lemma match_loop_skip rp : forall segs i j, 0 <= i -> j = lenZ rp - 1 -> i <= j ->
  match_loop segs rp i j = match_loop segs (skipn (Z.to_nat (j - i)) rp) i i.
Proof.
  induction rp as [|x tl IH]; intros segs i j Hi Hj Hij.
  - unfold lenZ in Hj; simpl in Hj; lia.
  - rewrite lenZ_cons in Hj.
    destruct (Z.eq_dec j i) as [->|Hne].
    + rewrite Z.sub_diag. reflexivity.
    + rewrite match_loop_cons.
      destruct (i <? 0) eqn:E; [lia|].
      destruct (j =? i) eqn:F; [lia|].
      rewrite (IH segs i (j - 1)) by lia.
      replace (Z.to_nat (j - i)) with (S (Z.to_nat (j - 1 - i))) by lia. reflexivity.
Qed.

(** what match compares: the first min(|segs|,|fp|) segments *)
Definition common (segs fp : list ident) : bool :=
  let k := Nat.min (length segs) (length fp) in
  ident_list_eqb (firstn k fp) (firstn k segs).

Theorem match_seg_spec segs rp : segs <> [] -> match_seg segs rp = Some (common segs (rev rp)).
Proof.
  intros Hne. unfold match_seg, common. rewrite rev_length.
  destruct rp as [|x tl].
  - simpl. destruct segs; [congruence|]. rewrite lenZ_cons. pose proof (lenZ_nonneg segs).
    replace (lenZ (@nil ident) - 1) with (-1) by reflexivity.
    destruct (lenZ segs + 1 - 1 >? -1) eqn:E; [|lia].
    rewrite Nat.min_0_r. reflexivity.
  - set (rp := x :: tl). set (n := length rp). set (m := length segs).
    assert (Hn : (1 <= n)%nat) by (subst n rp; simpl; lia).
    assert (Hm : (1 <= m)%nat) by (subst m; destruct segs; [congruence|simpl; lia]).
    set (k := Nat.min m n).
    assert (Hi : (if lenZ segs - 1 >? lenZ rp - 1 then lenZ rp - 1 else lenZ segs - 1) = Z.of_nat k - 1).
    { unfold lenZ. fold n m. destruct (Z.of_nat m - 1 >? Z.of_nat n - 1) eqn:E; subst k; lia. }
    rewrite Hi.
    rewrite match_loop_skip by (unfold lenZ; fold n; subst k; lia).
    set (rp' := skipn (Z.to_nat (lenZ rp - 1 - (Z.of_nat k - 1))) rp).
    assert (Hlen : length rp' = k).
    { subst rp'. rewrite skipn_length. unfold lenZ. fold n. subst k. lia. }
    replace (Z.of_nat k - 1) with (lenZ rp' - 1) by (unfold lenZ; rewrite Hlen; reflexivity).
    rewrite match_loop_lock by (rewrite Hlen; subst k; lia).
    f_equal. rewrite Hlen.
    assert (Hr : rp' = rev (firstn k (rev rp))).
    { subst rp'. rewrite <- (rev_involutive rp) at 2. rewrite skipn_rev. rewrite rev_length.
      f_equal. f_equal. unfold lenZ. fold n. subst k. lia. }
    rewrite Hr. rewrite ident_list_eqb_rev. reflexivity.
Qed.

Corollary match_seg_never_panics segs rp : segs <> [] -> match_seg segs rp <> None.
Proof. intros H. rewrite match_seg_spec by assumption. discriminate. Qed.

Lemma any_path_spec f g ps : (forall p, In p ps -> f p = Some (g p)) -> any_path f ps = Some (existsb g ps).
Proof.
  induction ps as [|p tl IH]; intros H; simpl; auto.
  rewrite (H p) by (left; reflexivity). destruct (g p); simpl; auto.
  apply IH. intros q Hq. apply H. now right.
Qed.

Lemma common_ge p fp : (length p <= length fp)%nat -> common p fp = is_prefix p fp.
Proof.
  intros Hl. unfold common. rewrite Nat.min_l by lia. rewrite firstn_all.
  rewrite ident_list_eqb_sym. symmetry. now apply is_prefix_firstn.
Qed.
Lemma common_le p fp : (length fp <= length p)%nat -> common p fp = is_prefix fp p.
Proof.
  intros Hl. unfold common. rewrite Nat.min_r by lia. rewrite firstn_all.
  symmetry. now apply is_prefix_firstn.
Qed.

Lemma lenZ_rev {A} (l : list A) : lenZ (rev l) = lenZ l.
Proof. unfold lenZ. now rewrite rev_length. Qed.

(** PathMatches = the candidate is a selected node or inside one *)
Theorem path_matches_spec ps rp : path_matches ps rp = Some (selects ps (rev rp)).
Proof.
  unfold path_matches, selects. destruct ps as [|p0 tl]; auto.
  apply any_path_spec. intros p _. destruct p as [|s p']; auto.
  set (p := s :: p'). pose proof (match_seg_spec p rp ltac:(discriminate)) as M.
  unfold lenZ. destruct (Z.of_nat (length rp) >=? Z.of_nat (length p)) eqn:E.
  - rewrite M. f_equal. apply common_ge. rewrite rev_length. lia.
  - f_equal. symmetry. apply is_prefix_longer. rewrite rev_length. lia.
Qed.

(** PathLeadsTo = the candidate is a proper ancestor of a selected node *)
Theorem path_leads_to_spec ps rp : path_leads_to ps rp = Some (leads ps (rev rp)).
Proof.
  unfold path_leads_to, leads. apply any_path_spec. intros p _.
  unfold lenZ. destruct (Z.of_nat (length rp) <? Z.of_nat (length p)) eqn:E.
  - assert (Hne : p <> []).
    { destruct p; [|discriminate]. apply Z.ltb_lt in E. simpl in E. lia. }
    rewrite match_seg_spec by assumption. f_equal.
    rewrite common_le by (rewrite rev_length; lia).
    destruct (ident_list_eqb (rev rp) p) eqn:F.
    + apply ident_list_eqb_length in F. rewrite rev_length in F. lia.
    + now rewrite andb_true_r.
  - f_equal. destruct (is_prefix (rev rp) p) eqn:F; auto. simpl.
    apply is_prefix_spec in F as [t Ht]. assert (t = []).
    { apply (f_equal (@length _)) in Ht. rewrite app_length, rev_length in Ht.
      destruct t; auto. simpl in Ht. lia. }
    subst t. rewrite app_nil_r in Ht. subst p. now rewrite ident_list_eqb_refl.
Qed.

(** PathMatchesExactly = the candidate is a selected node *)
Theorem path_matches_exactly_spec ps rp : path_matches_exactly ps rp = Some (selects_exactly ps (rev rp)).
Proof.
  unfold path_matches_exactly, selects_exactly. destruct ps as [|p0 tl]; auto.
  apply any_path_spec. intros p _. destruct p as [|s p']; auto.
  set (p := s :: p'). pose proof (match_seg_spec p rp ltac:(discriminate)) as M.
  unfold lenZ. destruct (Z.of_nat (length rp) =? Z.of_nat (length p)) eqn:E.
  - rewrite M. f_equal. rewrite common_ge by (rewrite rev_length; lia).
    apply is_prefix_same_length. rewrite rev_length. lia.
  - f_equal. destruct (ident_list_eqb p (rev rp)) eqn:F; auto.
    apply ident_list_eqb_length in F. rewrite rev_length in F. lia.
Qed.

(** * before the repair: a candidate above the end of a selector made match panic *)
Example match_old_refuted :
  path_matches_old [[ [x61]; [x62] ]] [ [x61] ] = None            (* fields=a/b, candidate a: panic *)
  /\ path_matches [[ [x61]; [x62] ]] [ [x61] ] = Some false
  /\ path_leads_to [[ [x61]; [x62] ]] [ [x61] ] = Some true.
Proof. repeat split; reflexivity. Qed.

(** * the parser: fuel = number of tokens + 1 is never exhausted; the only error is BadRequest *)
Lemma parsex_enough_fuel : forall f toks E split, (length toks < f)%nat ->
  parsex f toks E split = PErr PBadRequest \/
  exists ps closed rest, parsex f toks E split = POk (ps, closed, rest) /\ (length rest <= length toks)%nat.
Proof.
  induction f as [|f IH]; intros toks E split Hl; [lia|].
  destruct toks as [|t tl]; simpl.
  - right. do 3 eexists. split; [reflexivity|simpl; lia].
  - simpl in Hl. destruct t.
    + destruct (IH tl [] None ltac:(lia)) as [Herr|[nested [closed [rest [Hok Hlen]]]]].
      * left. now rewrite Herr.
      * rewrite Hok. destruct closed; simpl; [|now left].
        destruct split as [sp|].
        -- destruct (IH rest E (Some (expand_paths sp nested)) ltac:(lia)) as [H|[ps [c [r [H H']]]]];
             [now left|right; do 3 eexists; split; [exact H|lia]].
        -- destruct (IH rest (expand_paths E nested) None ltac:(lia)) as [H|[ps [c [r [H H']]]]];
             [now left|right; do 3 eexists; split; [exact H|lia]].
    + destruct (IH tl (finish E split) (Some []) ltac:(lia)) as [H|[ps [c [r [H H']]]]];
        [now left|right; do 3 eexists; split; [exact H|lia]].
    + right. do 3 eexists. split; [reflexivity|lia].
    + destruct (IH tl E split ltac:(lia)) as [H|[ps [c [r [H H']]]]];
        [now left|right; do 3 eexists; split; [exact H|lia]].
    + destruct split as [sp|].
      * destruct (IH tl E (Some (add_segment sp s)) ltac:(lia)) as [H|[ps [c [r [H H']]]]];
          [now left|right; do 3 eexists; split; [exact H|lia]].
      * destruct (IH tl (add_segment E s) None ltac:(lia)) as [H|[ps [c [r [H H']]]]];
          [now left|right; do 3 eexists; split; [exact H|lia]].
Qed.

Theorem parse_never_out_of_fuel s : parse_path_expr s = PErr PBadRequest \/ exists ps, parse_path_expr s = POk ps.
Proof.
  unfold parse_path_expr.
  destruct (parsex_enough_fuel (S (length (lex s))) (lex s) [] None ltac:(lia)) as [H|[ps [c [r [H _]]]]].
  - left. now rewrite H.
  - rewrite H. destruct c; [now left|right; eauto].
Qed.
