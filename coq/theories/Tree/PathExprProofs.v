(** Facts about Tree/PathExpr.v: the repaired match never panics and decides the prefix order; the
    three PathMatch* predicates are the declarative [selects] / [leads] / [selects_exactly]; the
    parser never runs out of fuel; the match before the repair panics. *)
From Coq Require Import ZArith List Bool Lia Strings.Byte.
From YV Require Import Val.Model Val.Proofs Tree.Schema Tree.PathExpr.
Import ListNotations.
Open Scope Z_scope.

(** * equality and prefix on ident lists *)
Lemma ident_eqb_eq a b : ident_eqb a b = true <-> a = b.
Proof. unfold ident_eqb, bytes_eqb. rewrite Z.eqb_eq. apply lex_cmp_eq. Qed.
Lemma ident_eqb_refl a : ident_eqb a a = true.
Proof. now apply ident_eqb_eq. Qed.

Lemma ident_list_eqb_eq a b : ident_list_eqb a b = true <-> a = b.
Proof.
  revert b; induction a as [|x a IH]; intros [|y b]; simpl; try (split; congruence).
  rewrite andb_true_iff, ident_eqb_eq, IH. split; [intros [-> ->]; reflexivity|intros H; inversion H; auto].
Qed.
Lemma ident_list_eqb_refl a : ident_list_eqb a a = true.
Proof. now apply ident_list_eqb_eq. Qed.
Lemma ident_list_eqb_sym a b : ident_list_eqb a b = ident_list_eqb b a.
Proof.
  destruct (ident_list_eqb a b) eqn:E.
  - apply ident_list_eqb_eq in E; subst. symmetry; apply ident_list_eqb_refl.
  - destruct (ident_list_eqb b a) eqn:F; auto. apply ident_list_eqb_eq in F; subst.
    rewrite ident_list_eqb_refl in E; discriminate.
Qed.
Lemma ident_list_eqb_rev a b : ident_list_eqb (rev a) (rev b) = ident_list_eqb a b.
Proof.
  destruct (ident_list_eqb a b) eqn:E.
  - apply ident_list_eqb_eq in E; subst. apply ident_list_eqb_refl.
  - destruct (ident_list_eqb (rev a) (rev b)) eqn:F; auto. apply ident_list_eqb_eq in F.
    apply (f_equal (@rev _)) in F. rewrite !rev_involutive in F. subst.
    rewrite ident_list_eqb_refl in E; discriminate.
Qed.
Lemma ident_list_eqb_length a b : ident_list_eqb a b = true -> length a = length b.
Proof. intros H; apply ident_list_eqb_eq in H; now subst. Qed.

Lemma is_prefix_spec a b : is_prefix a b = true <-> exists t, b = a ++ t.
Proof.
  revert b; induction a as [|x a IH]; intros b; simpl.
  - split; eauto.
  - destruct b as [|y b].
    + split; [discriminate|intros [t H]; discriminate].
    + rewrite andb_true_iff, ident_eqb_eq, IH. split.
      * intros [-> [t ->]]. now exists t.
      * intros [t H]. inversion H; subst. split; eauto.
Qed.
Lemma is_prefix_firstn a b : (length a <= length b)%nat ->
  is_prefix a b = ident_list_eqb a (firstn (length a) b).
Proof.
  revert b; induction a as [|x a IH]; intros b Hl; simpl.
  - reflexivity.
  - destruct b as [|y b]; simpl in *; [lia|]. rewrite IH by lia. reflexivity.
Qed.
Lemma is_prefix_longer a b : (length b < length a)%nat -> is_prefix a b = false.
Proof.
  intros Hl. destruct (is_prefix a b) eqn:E; auto. apply is_prefix_spec in E as [t ->].
  rewrite app_length in Hl; lia.
Qed.
Lemma is_prefix_same_length a b : length a = length b -> is_prefix a b = ident_list_eqb a b.
Proof.
  intros Hl. rewrite is_prefix_firstn by lia. rewrite Hl, firstn_all. reflexivity.
Qed.

(** * match *)
Lemma match_loop_nil segs i j : match_loop segs [] i j = if i <? 0 then Some true else None.
Proof. reflexivity. Qed.
Lemma match_loop_cons segs x tl i j :
  match_loop segs (x :: tl) i j =
  if i <? 0 then Some false
  else if j =? i then (if ident_eqb x (nthZ i segs) then match_loop segs tl (i - 1) (j - 1) else Some false)
       else match_loop segs tl i (j - 1).
Proof. reflexivity. Qed.

Lemma lenZ_cons {A} (x : A) l : lenZ (x :: l) = lenZ l + 1.
Proof. unfold lenZ. simpl length. lia. Qed.
Lemma lenZ_nonneg {A} (l : list A) : 0 <= lenZ l.
Proof. unfold lenZ; lia. Qed.

Lemma firstn_succ_nth (l : list ident) n : (n < length l)%nat ->
  firstn (S n) l = firstn n l ++ [nth n l []].
Proof.
  revert l; induction n as [|n IH]; intros [|x l] Hl; simpl in *; try lia; auto.
  f_equal. apply IH. lia.
Qed.

(** lock-step phase: j = i = |rp| - 1 *)
Lemma match_loop_lock rp : forall segs, (length rp <= length segs)%nat ->
  match_loop segs rp (lenZ rp - 1) (lenZ rp - 1)
  = Some (ident_list_eqb rp (rev (firstn (length rp) segs))).
Proof.
  induction rp as [|x tl IH]; intros segs Hl.
  - reflexivity.
  - rewrite match_loop_cons. rewrite lenZ_cons.
    replace (lenZ tl + 1 - 1) with (lenZ tl) by lia.
    pose proof (lenZ_nonneg tl).
    destruct (lenZ tl <? 0) eqn:E; [lia|]. rewrite Z.eqb_refl.
    simpl length in *. rewrite firstn_succ_nth by lia. rewrite rev_app_distr. simpl.
    unfold nthZ, lenZ. rewrite Nat2Z.id.
    destruct (ident_eqb x (nth (length tl) segs [])); simpl; auto.
    apply IH. lia.
Qed.

(** skip phase: the elements of the candidate below the compared segments *)
Lemma match_loop_skip rp : forall segs i j, 0 <= i -> j = lenZ rp - 1 -> i <= j ->
  match_loop segs rp i j = match_loop segs (skipn (Z.to_nat (j - i)) rp) i i.
Proof.
  induction rp as [|x tl IH]; intros segs i j Hi Hj Hij.
  - unfold lenZ in Hj; simpl in Hj; lia.
  - rewrite lenZ_cons in Hj.
    destruct (Z.eq_dec j i) as [->|Hne].
    + rewrite Z.sub_diag. reflexivity.
    + rewrite match_loop_cons.
      destruct (i <? 0) eqn:E; [lia|].
      destruct (j =? i) eqn:F; [lia|].
      rewrite (IH segs i (j - 1)) by lia.
      replace (Z.to_nat (j - i)) with (S (Z.to_nat (j - 1 - i))) by lia. reflexivity.
Qed.

(** what match compares: the first min(|segs|,|fp|) segments *)
Definition common (segs fp : list ident) : bool :=
  let k := Nat.min (length segs) (length fp) in
  ident_list_eqb (firstn k fp) (firstn k segs).

Theorem match_seg_spec segs rp : segs <> [] -> match_seg segs rp = Some (common segs (rev rp)).
Proof.
  intros Hne. unfold match_seg, common. rewrite rev_length.
  destruct rp as [|x tl].
  - simpl. destruct segs; [congruence|]. rewrite lenZ_cons. pose proof (lenZ_nonneg segs).
    replace (lenZ (@nil ident) - 1) with (-1) by reflexivity.
    destruct (lenZ segs + 1 - 1 >? -1) eqn:E; [|lia].
    rewrite Nat.min_0_r. reflexivity.
  - set (rp := x :: tl). set (n := length rp). set (m := length segs).
    assert (Hn : (1 <= n)%nat) by (subst n rp; simpl; lia).
    assert (Hm : (1 <= m)%nat) by (subst m; destruct segs; [congruence|simpl; lia]).
    set (k := Nat.min m n).
    assert (Hi : (if lenZ segs - 1 >? lenZ rp - 1 then lenZ rp - 1 else lenZ segs - 1) = Z.of_nat k - 1).
    { unfold lenZ. fold n m. destruct (Z.of_nat m - 1 >? Z.of_nat n - 1) eqn:E; subst k; lia. }
    rewrite Hi.
    rewrite match_loop_skip by (unfold lenZ; fold n; subst k; lia).
    set (rp' := skipn (Z.to_nat (lenZ rp - 1 - (Z.of_nat k - 1))) rp).
    assert (Hlen : length rp' = k).
    { subst rp'. rewrite skipn_length. unfold lenZ. fold n. subst k. lia. }
    replace (Z.of_nat k - 1) with (lenZ rp' - 1) by (unfold lenZ; rewrite Hlen; reflexivity).
    rewrite match_loop_lock by (rewrite Hlen; subst k; lia).
    f_equal. rewrite Hlen.
    assert (Hr : rp' = rev (firstn k (rev rp))).
    { subst rp'. rewrite <- (rev_involutive rp) at 2. rewrite skipn_rev. rewrite rev_length.
      f_equal. f_equal. unfold lenZ. fold n. subst k. lia. }
    rewrite Hr. rewrite ident_list_eqb_rev. reflexivity.
Qed.

Corollary match_seg_never_panics segs rp : segs <> [] -> match_seg segs rp <> None.
Proof. intros H. rewrite match_seg_spec by assumption. discriminate. Qed.

Lemma any_path_spec f g ps : (forall p, In p ps -> f p = Some (g p)) -> any_path f ps = Some (existsb g ps).
Proof.
  induction ps as [|p tl IH]; intros H; simpl; auto.
  rewrite (H p) by (left; reflexivity). destruct (g p); simpl; auto.
  apply IH. intros q Hq. apply H. now right.
Qed.

Lemma common_ge p fp : (length p <= length fp)%nat -> common p fp = is_prefix p fp.
Proof.
  intros Hl. unfold common. rewrite Nat.min_l by lia. rewrite firstn_all.
  rewrite ident_list_eqb_sym. symmetry. now apply is_prefix_firstn.
Qed.
Lemma common_le p fp : (length fp <= length p)%nat -> common p fp = is_prefix fp p.
Proof.
  intros Hl. unfold common. rewrite Nat.min_r by lia. rewrite firstn_all.
  symmetry. now apply is_prefix_firstn.
Qed.

Lemma lenZ_rev {A} (l : list A) : lenZ (rev l) = lenZ l.
Proof. unfold lenZ. now rewrite rev_length. Qed.

(** PathMatches = the candidate is a selected node or inside one *)
Theorem path_matches_spec ps rp : path_matches ps rp = Some (selects ps (rev rp)).
Proof.
  unfold path_matches, selects. destruct ps as [|p0 tl]; auto.
  apply any_path_spec. intros p _. destruct p as [|s p']; auto.
  set (p := s :: p'). pose proof (match_seg_spec p rp ltac:(discriminate)) as M.
  unfold lenZ. destruct (Z.of_nat (length rp) >=? Z.of_nat (length p)) eqn:E.
  - rewrite M. f_equal. apply common_ge. rewrite rev_length. lia.
  - f_equal. symmetry. apply is_prefix_longer. rewrite rev_length. lia.
Qed.

(** PathLeadsTo = the candidate is a proper ancestor of a selected node *)
Theorem path_leads_to_spec ps rp : path_leads_to ps rp = Some (leads ps (rev rp)).
Proof.
  unfold path_leads_to, leads. apply any_path_spec. intros p _.
  unfold lenZ. destruct (Z.of_nat (length rp) <? Z.of_nat (length p)) eqn:E.
  - assert (Hne : p <> []).
    { destruct p; [|discriminate]. apply Z.ltb_lt in E. simpl in E. lia. }
    rewrite match_seg_spec by assumption. f_equal.
    rewrite common_le by (rewrite rev_length; lia).
    destruct (ident_list_eqb (rev rp) p) eqn:F.
    + apply ident_list_eqb_length in F. rewrite rev_length in F. lia.
    + now rewrite andb_true_r.
  - f_equal. destruct (is_prefix (rev rp) p) eqn:F; auto. simpl.
    apply is_prefix_spec in F as [t Ht]. assert (t = []).
    { apply (f_equal (@length _)) in Ht. rewrite app_length, rev_length in Ht.
      destruct t; auto. simpl in Ht. lia. }
    subst t. rewrite app_nil_r in Ht. subst p. now rewrite ident_list_eqb_refl.
Qed.

(** PathMatchesExactly = the candidate is a selected node *)
Theorem path_matches_exactly_spec ps rp : path_matches_exactly ps rp = Some (selects_exactly ps (rev rp)).
Proof.
  unfold path_matches_exactly, selects_exactly. destruct ps as [|p0 tl]; auto.
  apply any_path_spec. intros p _. destruct p as [|s p']; auto.
  set (p := s :: p'). pose proof (match_seg_spec p rp ltac:(discriminate)) as M.
  unfold lenZ. destruct (Z.of_nat (length rp) =? Z.of_nat (length p)) eqn:E.
  - rewrite M. f_equal. rewrite common_ge by (rewrite rev_length; lia).
    apply is_prefix_same_length. rewrite rev_length. lia.
  - f_equal. destruct (ident_list_eqb p (rev rp)) eqn:F; auto.
    apply ident_list_eqb_length in F. rewrite rev_length in F. lia.
Qed.

(** * before the repair: a candidate above the end of a selector made match panic *)
Example match_old_refuted :
  path_matches_old [[ [x61]; [x62] ]] [ [x61] ] = None            (* fields=a/b, candidate a: panic *)
  /\ path_matches [[ [x61]; [x62] ]] [ [x61] ] = Some false
  /\ path_leads_to [[ [x61]; [x62] ]] [ [x61] ] = Some true.
Proof. repeat split; reflexivity. Qed.

(** * the parser: fuel = number of tokens + 1 is never exhausted; the only error is BadRequest *)
Lemma parsex_enough_fuel : forall f toks E split, (length toks < f)%nat ->
  parsex f toks E split = PErr PBadRequest \/
  exists ps closed rest, parsex f toks E split = POk (ps, closed, rest) /\ (length rest <= length toks)%nat.
Proof.
  induction f as [|f IH]; intros toks E split Hl; [lia|].
  destruct toks as [|t tl]; simpl.
  - right. do 3 eexists. split; [reflexivity|simpl; lia].
  - simpl in Hl. destruct t.
    + destruct (IH tl [] None ltac:(lia)) as [Herr|[nested [closed [rest [Hok Hlen]]]]].
      * left. now rewrite Herr.
      * rewrite Hok. destruct closed; simpl; [|now left].
        destruct split as [sp|].
        -- destruct (IH rest E (Some (expand_paths sp nested)) ltac:(lia)) as [H|[ps [c [r [H H']]]]];
             [now left|right; do 3 eexists; split; [exact H|lia]].
        -- destruct (IH rest (expand_paths E nested) None ltac:(lia)) as [H|[ps [c [r [H H']]]]];
             [now left|right; do 3 eexists; split; [exact H|lia]].
    + destruct (IH tl (finish E split) (Some []) ltac:(lia)) as [H|[ps [c [r [H H']]]]];
        [now left|right; do 3 eexists; split; [exact H|lia]].
    + right. do 3 eexists. split; [reflexivity|lia].
    + destruct (IH tl E split ltac:(lia)) as [H|[ps [c [r [H H']]]]];
        [now left|right; do 3 eexists; split; [exact H|lia]].
    + destruct split as [sp|].
      * destruct (IH tl E (Some (add_segment sp s)) ltac:(lia)) as [H|[ps [c [r [H H']]]]];
          [now left|right; do 3 eexists; split; [exact H|lia]].
      * destruct (IH tl (add_segment E s) None ltac:(lia)) as [H|[ps [c [r [H H']]]]];
          [now left|right; do 3 eexists; split; [exact H|lia]].
Qed.

Theorem parse_never_out_of_fuel s : parse_path_expr s = PErr PBadRequest \/ exists ps, parse_path_expr s = POk ps.
Proof.
  unfold parse_path_expr.
  destruct (parsex_enough_fuel (S (length (lex s))) (lex s) [] None ltac:(lia)) as [H|[ps [c [r [H _]]]]].
  - left. now rewrite H.
  - rewrite H. destruct c; [now left|right; eauto].
Qed.

(** * parsing what [print] prints gives the denotation: for every expression tree *)
Definition wf_ident (n : ident) : Prop := n <> [] /\ Forall (fun b => delim_token b = None) n.
Fixpoint wf_expr (e : pexpr) : Prop :=
  match e with
  | XSeg n => wf_ident n
  | XSeq a b | XAlt a b => wf_expr a /\ wf_expr b
  end.

Fixpoint ptoks (nested : bool) (e : pexpr) : list token :=
  match e with
  | XSeg n => [TIdent n]
  | XSeq a b => ptoks true a ++ TSlash :: ptoks true b
  | XAlt a b =>
      if nested then TOpen :: ptoks false a ++ TSemi :: ptoks false b ++ [TClose]
      else ptoks false a ++ TSemi :: ptoks false b
  end.

(** ** lexer *)
Lemma lex_go_run n : Forall (fun b => delim_token b = None) n ->
  forall rest acc, lex_go (n ++ rest) acc = lex_go rest (rev n ++ acc).
Proof.
  induction 1 as [|b n Hb _ IH]; intros rest acc; simpl; auto.
  rewrite Hb. rewrite IH. now rewrite <- app_assoc.
Qed.

Definition starts_delim (rest : list byte) : Prop :=
  rest = [] \/ exists d r t, rest = d :: r /\ delim_token d = Some t.

Lemma lex_go_ident n rest : wf_ident n -> starts_delim rest ->
  lex_go (n ++ rest) [] = TIdent n :: lex_go rest [].
Proof.
  intros [Hne Hnd] Hs. rewrite lex_go_run by assumption. rewrite app_nil_r.
  assert (Hr : rev n <> []) by (intros H; apply Hne; rewrite <- (rev_involutive n), H; reflexivity).
  destruct Hs as [->|[d [r [t [-> Hd]]]]]; simpl.
  - unfold flush. destruct (rev n) eqn:E; [congruence|]. rewrite <- E, rev_involutive. reflexivity.
  - rewrite Hd. unfold flush at 1. destruct (rev n) eqn:E; [congruence|]. rewrite <- E, rev_involutive. reflexivity.
Qed.

Lemma lex_go_delim d t rest : delim_token d = Some t -> lex_go (d :: rest) [] = t :: lex_go rest [].
Proof. intros H. simpl. now rewrite H. Qed.

Lemma lex_print : forall e nested rest, wf_expr e -> starts_delim rest ->
  lex_go (print nested e ++ rest) [] = ptoks nested e ++ lex_go rest [].
Proof.
  assert (SD : forall d t r, delim_token d = Some t -> starts_delim (d :: r)).
  { intros d t r H. right. now exists d, r, t. }
  induction e as [n|a IHa b IHb|a IHa b IHb]; intros nested rest Hwf Hs; simpl in Hwf.
  - simpl. now apply lex_go_ident.
  - destruct Hwf as [Ha Hb]. simpl. rewrite <- !app_assoc.
    rewrite IHa by (auto; eapply SD; reflexivity).
    simpl. rewrite IHb by auto. reflexivity.
  - destruct Hwf as [Ha Hb]. destruct nested; simpl.
    + rewrite <- !app_assoc. rewrite IHa by (auto; eapply SD; reflexivity).
      simpl. rewrite <- ?app_assoc. rewrite IHb by (auto; eapply SD; reflexivity).
      simpl. rewrite <- ?app_assoc. reflexivity.
    + rewrite <- !app_assoc. rewrite IHa by (auto; eapply SD; reflexivity).
      simpl. rewrite IHb by auto. reflexivity.
Qed.

(** ** cross products *)
Lemma cross_cons x a b : cross (x :: a) b = map (app x) b ++ cross a b.
Proof. reflexivity. Qed.
Lemma cross_app a1 a2 b : cross (a1 ++ a2) b = cross a1 b ++ cross a2 b.
Proof. unfold cross. apply flat_map_app. Qed.
Lemma cross_map x b c : cross (map (app x) b) c = map (app x) (cross b c).
Proof.
  induction b as [|y b IH]; [reflexivity|].
  change (map (app x) (y :: b)) with ((x ++ y) :: map (app x) b).
  rewrite !cross_cons, map_app, IH. f_equal.
  rewrite map_map. apply map_ext. intros s. now rewrite app_assoc.
Qed.
Lemma cross_assoc a b c : cross (cross a b) c = cross a (cross b c).
Proof.
  induction a as [|x a IH]; [reflexivity|].
  rewrite !cross_cons. rewrite cross_app, IH, cross_map. reflexivity.
Qed.
Lemma cross_single ps n : cross ps [[n]] = map (fun p => p ++ [n]) ps.
Proof. induction ps as [|p ps IH]; [reflexivity|]. rewrite cross_cons. simpl. now rewrite IH. Qed.
Lemma cross_nonempty a b : a <> [] -> b <> [] -> cross a b <> [].
Proof. destruct a as [|x a], b as [|y b]; try congruence. intros _ _. rewrite cross_cons. simpl. discriminate. Qed.
Lemma denote_nonempty e : denote e <> [].
Proof.
  induction e as [n|a IHa b IHb|a IHa b IHb]; simpl.
  - discriminate.
  - now apply cross_nonempty.
  - destruct (denote a); [congruence|discriminate].
Qed.

(** what parsing the tokens of [e] in sequence position does to the paths of the current
    PathMatchExpression *)
Fixpoint extend (ps : paths) (e : pexpr) : paths :=
  match e with
  | XSeg n => add_segment ps n
  | XSeq a b => extend (extend ps a) b
  | XAlt a b => expand_paths ps (denote (XAlt a b))
  end.

Lemma extend_spec : forall e ps, extend ps e = match ps with [] => denote e | _ => cross ps (denote e) end.
Proof.
  induction e as [n|a IHa b IHb|a IHa b IHb]; intros ps; simpl.
  - destruct ps; [reflexivity|]. unfold add_segment. now rewrite cross_single.
  - rewrite IHb, IHa. destruct ps as [|p ps].
    + destruct (denote a) eqn:E; [exfalso; now apply (denote_nonempty a)|]. reflexivity.
    + destruct (cross (p :: ps) (denote a)) eqn:E.
      * exfalso. apply (cross_nonempty (p :: ps) (denote a)); [discriminate|apply denote_nonempty|exact E].
      * rewrite <- E. apply cross_assoc.
  - unfold expand_paths. destruct (denote a ++ denote b) eqn:E.
    + exfalso. apply (denote_nonempty (XAlt a b)). exact E.
    + destruct ps; reflexivity.
Qed.

(** ** fuel is monotone once it suffices *)
Lemma parsex_fuel_mono : forall f toks E split r,
  parsex f toks E split = r -> r <> PErr PFuel -> parsex (S f) toks E split = r.
Proof.
  induction f as [|f IH]; intros toks E split r H Hr; [simpl in H; congruence|].
  destruct toks as [|t tl]; [exact H|].
  destruct t.
  - change (parsex (S (S f)) (TOpen :: tl) E split) with
      (match parsex (S f) tl [] None with
       | PErr e => PErr e
       | POk (nested, closed, rest) =>
           if negb closed then PErr PBadRequest
           else match split with
                | Some sp => parsex (S f) rest E (Some (expand_paths sp nested))
                | None => parsex (S f) rest (expand_paths E nested) None
                end
       end).
    change (parsex (S f) (TOpen :: tl) E split) with
      (match parsex f tl [] None with
       | PErr e => PErr e
       | POk (nested, closed, rest) =>
           if negb closed then PErr PBadRequest
           else match split with
                | Some sp => parsex f rest E (Some (expand_paths sp nested))
                | None => parsex f rest (expand_paths E nested) None
                end
       end) in H.
    destruct (parsex f tl [] None) as [[[nested closed] rest]|e] eqn:E1.
    + rewrite (IH tl [] None _ E1) by discriminate.
      destruct closed; simpl negb in H |- *; cbv iota in H |- *; [|exact H].
      destruct split; apply IH; auto.
    + assert (e <> PFuel) by (intros ->; apply Hr; now rewrite <- H).
      rewrite (IH tl [] None _ E1) by congruence. exact H.
  - apply (IH tl (finish E split) (Some []) r H Hr).
  - exact H.
  - apply (IH tl E split r H Hr).
  - destruct split; apply IH; auto.
Qed.

Lemma parsex_fuel_mono_le f f' toks E split r : (f <= f')%nat ->
  parsex f toks E split = r -> r <> PErr PFuel -> parsex f' toks E split = r.
Proof. induction 1; auto. intros. apply parsex_fuel_mono; auto. Qed.

(** ** the parser on printed expressions *)
Fixpoint cs (e : pexpr) : nat :=
  match e with XSeg _ => 1 | XSeq a b => cs a + 1 + cs b | XAlt _ _ => 1 end.
Fixpoint ca (e : pexpr) : nat :=
  match e with XAlt a b => ca a + 1 + ca b | _ => cs e end.
(** fuel that must be left after the tokens of [e] (the nested activation of a group needs
    the group's own cost) *)
Fixpoint reqs (e : pexpr) : nat :=
  match e with
  | XSeg _ => 0
  | XSeq a b => Nat.max (reqs a) (reqs b)
  | XAlt a b => ca (XAlt a b) + 1 + Nat.max (reqa a) (reqa b)
  end
with reqa (e : pexpr) : nat :=
  match e with
  | XAlt a b => Nat.max (reqa a) (reqa b)
  | XSeg _ => 0
  | XSeq a b => Nat.max (reqs a) (reqs b)
  end.
Lemma reqa_nonalt e : (forall a b, e <> XAlt a b) -> reqa e = reqs e.
Proof. destruct e; intros H; try reflexivity. exfalso; eapply H; eauto. Qed.

Definition cur_empty (E : paths) (split : option paths) : Prop :=
  match split with Some sp => sp = [] | None => E = [] end.

Lemma parsex_open f tl E split :
  parsex (S f) (TOpen :: tl) E split =
  match parsex f tl [] None with
  | PErr e => PErr e
  | POk (nested, closed, rest) =>
      if negb closed then PErr PBadRequest
      else match split with
           | Some sp => parsex f rest E (Some (expand_paths sp nested))
           | None => parsex f rest (expand_paths E nested) None
           end
  end.
Proof. reflexivity. Qed.

Definition seq_stmt (e : pexpr) : Prop :=
  forall k E split f, (reqs e <= f)%nat ->
    parsex (cs e + f) (ptoks true e ++ k) E split =
    match split with
    | Some sp => parsex f k E (Some (extend sp e))
    | None => parsex f k (extend E e) None
    end.
Definition alt_stmt (e : pexpr) : Prop :=
  forall k E split f, cur_empty E split -> (reqa e <= f)%nat ->
    exists E' split', parsex (ca e + f) (ptoks false e ++ k) E split = parsex f k E' split'
                      /\ finish E' split' = finish E split ++ denote e.

Lemma alt_of_seq e : (forall a b, e <> XAlt a b) -> seq_stmt e -> alt_stmt e.
Proof.
  intros Hna Hseq k E split f Hc Hf.
  assert (Hp : ptoks false e = ptoks true e) by (destruct e; try reflexivity; exfalso; eapply Hna; eauto).
  assert (Hca : ca e = cs e) by (destruct e; try reflexivity; exfalso; eapply Hna; eauto).
  rewrite reqa_nonalt in Hf by assumption.
  rewrite Hp, Hca, Hseq by assumption.
  destruct split as [sp|]; simpl in Hc; subst.
  - exists E, (Some (extend [] e)). split; auto. simpl. rewrite extend_spec. now rewrite app_nil_r.
  - exists (extend [] e), None. split; auto. simpl. now rewrite extend_spec.
Qed.

Lemma parse_stmts : forall e, seq_stmt e /\ alt_stmt e.
Proof.
  induction e as [n|a [IHas IHaa] b [IHbs IHba]|a [IHas IHaa] b [IHbs IHba]].
  - assert (S : seq_stmt (XSeg n)).
    { intros k E split f Hf. simpl. destruct split; reflexivity. }
    split; auto. apply alt_of_seq; auto. discriminate.
  - assert (S : seq_stmt (XSeq a b)).
    { intros k E split f Hf. simpl in Hf. simpl ptoks. rewrite <- app_assoc. simpl app.
      replace (cs (XSeq a b) + f)%nat with (cs a + S (cs b + f))%nat by (simpl; lia).
      rewrite IHas by lia.
      destruct split as [sp|].
      - change (parsex (S (cs b + f)) (TSlash :: ptoks true b ++ k) E (Some (extend sp a)))
          with (parsex (cs b + f) (ptoks true b ++ k) E (Some (extend sp a))).
        rewrite IHbs by lia. reflexivity.
      - change (parsex (S (cs b + f)) (TSlash :: ptoks true b ++ k) (extend E a) None)
          with (parsex (cs b + f) (ptoks true b ++ k) (extend E a) None).
        rewrite IHbs by lia. reflexivity. }
    split; auto. apply alt_of_seq; auto. discriminate.
  - assert (A : alt_stmt (XAlt a b)).
    { intros k E split f Hc Hf. simpl in Hf. simpl ptoks. rewrite <- app_assoc. simpl app.
      replace (ca (XAlt a b) + f)%nat with (ca a + S (ca b + f))%nat by (simpl; lia).
      destruct (IHaa (TSemi :: ptoks false b ++ k) E split (S (ca b + f)) Hc ltac:(lia)) as [E1 [s1 [H1 F1]]].
      rewrite H1.
      change (parsex (S (ca b + f)) (TSemi :: ptoks false b ++ k) E1 s1)
        with (parsex (ca b + f) (ptoks false b ++ k) (finish E1 s1) (Some [])).
      destruct (IHba k (finish E1 s1) (Some []) f eq_refl ltac:(lia)) as [E2 [s2 [H2 F2]]].
      exists E2, s2. split; auto. rewrite F2. simpl. rewrite app_nil_r, F1. now rewrite app_assoc. }
    split; auto.
    (* in sequence position: the parenthesised group *)
    intros k E split f Hf.
    assert (Hp : ptoks true (XAlt a b) = TOpen :: ptoks false (XAlt a b) ++ [TClose])
      by (simpl; rewrite <- app_assoc; reflexivity).
    rewrite Hp.
    simpl app. rewrite <- app_assoc. simpl app.
    change (cs (XAlt a b) + f)%nat with (S f).
    assert (Hf' : (ca (XAlt a b) + 1 + reqa (XAlt a b) <= f)%nat) by exact Hf.
    destruct (A (TClose :: k) [] None (f - ca (XAlt a b))%nat eq_refl ltac:(lia))
      as [E1 [s1 [H1 F1]]].
    replace (ca (XAlt a b) + (f - ca (XAlt a b)))%nat with f in H1 by lia.
    destruct (f - ca (XAlt a b))%nat as [|f0] eqn:Ef; [lia|].
    change (parsex (S f0) (TClose :: k) E1 s1) with (POk (finish E1 s1, true, k)) in H1.
    simpl ptoks in H1. rewrite parsex_open.
    rewrite H1. rewrite F1. simpl negb. cbv iota. reflexivity.
Qed.

Theorem parse_print_denote e : wf_expr e -> parse_path_expr (print_top e) = POk (denote e).
Proof.
  intros Hwf. unfold parse_path_expr, print_top, lex.
  assert (Hlex : lex_go (print false e) [] = ptoks false e).
  { rewrite <- (app_nil_r (print false e)). rewrite lex_print; auto; [|now left]. simpl. now rewrite app_nil_r. }
  rewrite Hlex.
  set (toks := ptoks false e).
  (* with generous fuel *)
  destruct (proj2 (parse_stmts e) [] [] None (S (reqa e)) eq_refl ltac:(lia)) as [E1 [s1 [H1 F1]]].
  rewrite app_nil_r in H1. change (parsex (S (reqa e)) [] E1 s1) with (POk (finish E1 s1, false, @nil token)) in H1.
  rewrite F1 in H1. simpl in H1.
  (* the fuel actually used is enough *)
  destruct (parsex_enough_fuel (S (length toks)) toks [] None ltac:(lia)) as [Herr|[ps [c [r [Hok _]]]]].
  - exfalso.
    pose proof (parsex_fuel_mono_le _ (Nat.max (S (length toks)) (ca e + S (reqa e))) _ _ _ _ (Nat.le_max_l _ _) Herr ltac:(discriminate)) as M1.
    pose proof (parsex_fuel_mono_le _ (Nat.max (S (length toks)) (ca e + S (reqa e))) _ _ _ _ (Nat.le_max_r _ _) H1 ltac:(discriminate)) as M2.
    subst toks. congruence.
  - pose proof (parsex_fuel_mono_le _ (Nat.max (S (length toks)) (ca e + S (reqa e))) _ _ _ _ (Nat.le_max_l _ _) Hok ltac:(discriminate)) as M1.
    pose proof (parsex_fuel_mono_le _ (Nat.max (S (length toks)) (ca e + S (reqa e))) _ _ _ _ (Nat.le_max_r _ _) H1 ltac:(discriminate)) as M2.
    subst toks. rewrite M1 in M2. inversion M2; subst. rewrite Hok. reflexivity.
Qed.

(** * the parser accepts exactly the expressions with balanced parentheses *)
Fixpoint tbaln (toks : list token) (d : nat) : bool :=
  match toks with
  | [] => Nat.eqb d 0
  | TOpen :: tl => tbaln tl (S d)
  | TClose :: tl => match d with O => false | S d' => tbaln tl d' end
  | _ :: tl => tbaln tl d
  end.
(** rest after the (d+1)-th unmatched ')' *)
Fixpoint close (toks : list token) (d : nat) : option (list token) :=
  match toks with
  | [] => None
  | TOpen :: tl => close tl (S d)
  | TClose :: tl => match d with O => Some tl | S d' => close tl d' end
  | _ :: tl => close tl d
  end.

Lemma tbaln_flush acc rest n : tbaln (flush acc rest) n = tbaln rest n.
Proof. unfold flush. destruct acc; reflexivity. Qed.

Lemma balanced_lex : forall s acc d, balanced s (Z.of_nat d) = tbaln (lex_go s acc) d.
Proof.
  induction s as [|b s IH]; intros acc d.
  - simpl. rewrite tbaln_flush. simpl. destruct d; reflexivity.
  - simpl lex_go. destruct (delim_token b) as [t|] eqn:E.
    + rewrite tbaln_flush.
      destruct b; simpl in E; try discriminate; inversion E; subst; simpl.
      * replace (Z.of_nat d + 1) with (Z.of_nat (S d)) by lia. apply IH.
      * destruct d as [|d']; [reflexivity|].
        destruct (Z.of_nat (S d') <=? 0) eqn:F; [apply Z.leb_le in F; exfalso; rewrite Nat2Z.inj_succ in F; pose proof (Nat2Z.is_nonneg d'); lia|].
        replace (Z.of_nat (S d') - 1) with (Z.of_nat d') by lia. apply IH.
      * apply IH.
      * apply IH.
    + destruct b; simpl in E; try discriminate; simpl; apply IH.
Qed.

Lemma close_succ : forall toks d, close toks (S d) = match close toks d with Some rest => close rest 0 | None => None end.
Proof.
  induction toks as [|t tl IH]; intros d; simpl; auto.
  destruct t; auto. destruct d; auto.
Qed.
Lemma close_length : forall toks d rest, close toks d = Some rest -> (length rest < length toks)%nat.
Proof.
  induction toks as [|t tl IH]; intros d rest H; simpl in *; [discriminate|].
  destruct t; try (apply IH in H; lia).
  destruct d; [inversion H; subst; lia|apply IH in H; lia].
Qed.
Lemma close_none_unbalanced : forall toks d, close toks d = None -> tbaln toks (S d) = false.
Proof.
  induction toks as [|t tl IH]; intros d H; simpl in *; auto.
  destruct t; auto. destruct d; [discriminate|auto].
Qed.
Lemma close_some_unbalanced : forall toks d rest, close toks d = Some rest -> tbaln toks d = false.
Proof.
  induction toks as [|t tl IH]; intros d rest H; simpl in *; [discriminate|].
  destruct t; eauto. destruct d; eauto.
Qed.
Lemma close_some_tbaln : forall toks d rest, close toks d = Some rest -> tbaln toks (S d) = tbaln rest 0.
Proof.
  induction toks as [|t tl IH]; intros d rest H; simpl in *; [discriminate|].
  destruct t; eauto. destruct d; [inversion H; reflexivity|eauto].
Qed.

Definition parsex_outcome (toks : list token) (r : pres (paths * bool * list token)) : Prop :=
  match close toks 0 with
  | Some rest => exists ps, r = POk (ps, true, rest)
  | None => if tbaln toks 0 then exists ps, r = POk (ps, false, []) else r = PErr PBadRequest
  end.

Lemma parsex_characterised : forall f toks E split, (length toks < f)%nat ->
  parsex_outcome toks (parsex f toks E split).
Proof.
  induction f as [|f IH]; intros toks E split Hl; [lia|].
  destruct toks as [|t tl].
  - unfold parsex_outcome. simpl. eauto.
  - simpl in Hl. destruct t.
    + (* '(' *)
      rewrite parsex_open. unfold parsex_outcome. simpl close. simpl tbaln. rewrite close_succ.
      pose proof (IH tl [] None ltac:(lia)) as N. unfold parsex_outcome in N.
      destruct (close tl 0) as [rest1|] eqn:C1.
      * destruct N as [ps1 ->]. simpl negb. cbv iota.
        pose proof (close_length _ _ _ C1) as L1.
        rewrite (close_some_tbaln _ _ _ C1).
        destruct split as [sp|].
        -- exact (IH rest1 E (Some (expand_paths sp ps1)) ltac:(lia)).
        -- exact (IH rest1 (expand_paths E ps1) None ltac:(lia)).
      * rewrite (close_none_unbalanced _ _ C1).
        destruct (tbaln tl 0).
        -- destruct N as [ps1 ->]. reflexivity.
        -- rewrite N. reflexivity.
    + exact (IH tl (finish E split) (Some []) ltac:(lia)).
    + unfold parsex_outcome. simpl. eauto.
    + exact (IH tl E split ltac:(lia)).
    + destruct split as [sp|].
      * exact (IH tl E (Some (add_segment sp s)) ltac:(lia)).
      * exact (IH tl (add_segment E s) None ltac:(lia)).
Qed.

Theorem parse_ok_iff_balanced s : (exists ps, parse_path_expr s = POk ps) <-> balanced s 0 = true.
Proof.
  unfold parse_path_expr. change 0 with (Z.of_nat 0). rewrite (balanced_lex s [] 0). fold (lex s).
  pose proof (parsex_characterised (S (length (lex s))) (lex s) [] None ltac:(lia)) as H.
  unfold parsex_outcome in H.
  destruct (close (lex s) 0) as [rest|] eqn:C.
  - destruct H as [ps ->]. rewrite (close_some_unbalanced _ _ _ C). split; [intros [x Hx]; discriminate|discriminate].
  - destruct (tbaln (lex s) 0).
    + destruct H as [ps ->]. split; eauto.
    + rewrite H. split; [intros [x Hx]; discriminate|discriminate].
Qed.

Corollary parse_unbalanced_is_error s : balanced s 0 = false -> parse_path_expr s = PErr PBadRequest.
Proof.
  intros Hb. destruct (parse_never_out_of_fuel s) as [H|[ps H]]; auto.
  assert (balanced s 0 = true) by (apply parse_ok_iff_balanced; eauto). congruence.
Qed.
